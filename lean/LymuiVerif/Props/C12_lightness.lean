import LymuiVerif.Lemmas.LightnessF2
import LymuiVerif.Lemmas.OkLabF2
/-!
# C12 (lightness clause) — one step up in a channel strictly raises the CIE / Hunter / OkLab lightness

"Raising any single channel of an 8-bit colour by one step never lowers … the CIELAB/CIELUV/Hunter/
OkLab lightness …; for X, Y, Z and the CIE/OkLab lightnesses the increase is strict."

`x = Xyz.from_rgb c D65`, exact-real reading.  `Step c c'` says that `c'` is `c` with exactly one
channel raised by one, both being 8-bit colours.

* CIELAB: `L = 116 f(Y) − 16`; `Lab::compute_f` is strictly increasing (it jumps UP at `0.008856`),
  and `Y` is strictly increasing (`Props.C12_xyz`).
* CIELUV: the library's lightness jumps DOWN by `3.3e-5` at `Y = 0.008856` (`903.3·0.008856 = 7.9996248`
  against `116·0.008856^(1/3) − 16 = 7.99959`), so monotonicity in `Y` fails on the reals
  (`luv_lightness_not_monotone_in_Y`); it holds on the 8-bit cube because one step raises `Y` by at
  least `2e-5` (decode slope ≥ 1/12.92, smallest luminance weight 0.072175) while the jump corresponds
  to a luminance gap of `3.7e-8`.
* Hunter: `1000·√(Y/100)`, with the guard `Y = 0 ↦ 0`.
* OkLab: see the section below.
-/
namespace Props.C12_lightness
open Gen Lemmas.LightnessF2

/-! ## Specification -/

/-- `c'` is the 8-bit colour `c` with exactly one channel raised by one step -/
inductive Step : Rgb → Rgb → Prop
  | r (c : Rgb) (h : c.r < 255) (hg : c.g ≤ 255) (hb : c.b ≤ 255) : Step c { c with r := c.r + 1 }
  | g (c : Rgb) (hr : c.r ≤ 255) (h : c.g < 255) (hb : c.b ≤ 255) : Step c { c with g := c.g + 1 }
  | b (c : Rgb) (hr : c.r ≤ 255) (hg : c.g ≤ 255) (h : c.b < 255) : Step c { c with b := c.b + 1 }

/-- XYZ of an 8-bit colour under the D65 profile -/
noncomputable abbrev xyz (c : Rgb) : Xyz ℝ := Xyz.from_rgb c XyzKind.D65

/-- a step raises the luminance by at least `2e-5` -/
theorem step_luminance {c c' : Rgb} (h : Step c c') : (xyz c).y + 2 / 10 ^ 5 ≤ (xyz c').y := by
  cases h with
  | r _ _ _ => exact y_raise_r _ _ (Nat.lt_succ_self _)
  | g _ _ _ => exact y_raise_g _ _ (Nat.lt_succ_self _)
  | b _ _ _ => exact y_raise_b _ _ (Nat.lt_succ_self _)

/-! ## CIELAB, CIELUV, Hunter Lab -/

/-- **C12, CIELAB**: a step strictly raises `L*` -/
theorem lab_lightness_strict {c c' : Rgb} (h : Step c c') :
    (Lab.from_Xyz (xyz c)).l < (Lab.from_Xyz (xyz c')).l := by
  have hy := step_luminance h
  rw [lab_l_eq, lab_l_eq]
  have := fCode_strictMono (a := (xyz c).y) (b := (xyz c').y) (by linarith)
  linarith

/-- **C12, CIELUV**: a step strictly raises `L*` (quantitative: the luminance step `2e-5` is larger
than the gap `1e-6` across which the library's lightness is increasing) -/
theorem luv_lightness_strict {c c' : Rgb} (h : Step c c') :
    (Luv.from_Xyz (xyz c)).l < (Luv.from_Xyz (xyz c')).l := by
  have hy := step_luminance h
  rw [luv_l_eq, luv_l_eq]
  exact lCodeLuv_lt_of_gap (y_d65_nonneg c) (by linarith)

/-- **C12, Hunter Lab**: a step strictly raises `L` (black, where the guard `Y = 0 ↦ 0` applies, included) -/
theorem hlab_lightness_strict {c c' : Rgb} (h : Step c c') :
    (Hlab.from_Xyz (xyz c)).l < (Hlab.from_Xyz (xyz c')).l := by
  have hy := step_luminance h
  rw [hlab_l_eq, hlab_l_eq]
  exact hunterL_strict (y_d65_nonneg c) (by linarith)

/-- REMARK (not a violation of C12, which is about 8-bit colours): as a function of a REAL luminance the
library's CIELUV lightness is not monotone — it drops across its branch point `0.008856`. -/
theorem luv_lightness_not_monotone_in_Y :
    ∃ x x' : Xyz ℝ, 0 ≤ x.y ∧ x.y < x'.y ∧ (Luv.from_Xyz x').l < (Luv.from_Xyz x).l := by
  refine ⟨⟨0, 1107 / 125000, 0⟩, ⟨0, 1107 / 125000 + 1 / 10 ^ 9, 0⟩, by norm_num, by norm_num, ?_⟩
  rw [luv_l_eq, luv_l_eq]
  simp only [Lemmas.Cie.lCodeLuv]
  rw [if_pos (by norm_num), if_neg (by norm_num)]
  have : (1107 / 125000 + 1 / 10 ^ 9 : ℝ) ^ ((1 : ℝ) / 3) ≤ 2068931 / 10000000 :=
    Lemmas.Cie.rpow_third_le (by norm_num) (by norm_num) (by norm_num)
  linarith

/-! ## OkLab -/

/-- **C12, OkLab**: a step strictly raises the OkLab lightness.  `OkLab.from_Xyz` re-encodes the XYZ
to sRGB (`Srgb.from_Xyz`, channels only ≈ c/255 because `R·M ≠ I` exactly, and the encoder has a
downward jump of 2.9e-8 at 0.0031308) and linearises with `max(·,0)^2.2`; the proof carries these
residues: the raised channel gains at least `5e-6` in linear light, the other two move by at most
`1.3e-7`, and the negative `s'` term of `L = 0.2104 l' + 0.7936 m' − 0.0041 s'` is dominated by the
`m'` term because `m ≤ 2.5 s` and `Δs ≤ 10 Δm` for the rows of M1. -/
theorem oklab_lightness_strict {c c' : Rgb} (h : Step c c') :
    (OkLab.from_Xyz (xyz c)).l < (OkLab.from_Xyz (xyz c')).l := by
  cases h with
  | r h hg hb => exact Lemmas.OkLabF2.okl_raise_r _ h hg hb
  | g hr h hb => exact Lemmas.OkLabF2.okl_raise_g _ hr h hb
  | b hr hg h => exact Lemmas.OkLabF2.okl_raise_b _ hr hg h

/-! ## examples: the hypotheses are satisfiable -/

-- the step that crosses the sRGB decode threshold (level 10 → 11) in the green channel
example : Step ⟨200, 10, 3⟩ ⟨200, 11, 3⟩ := Step.g ⟨200, 10, 3⟩ (by norm_num) (by norm_num) (by norm_num)
-- the first step away from black (Hunter guard)
example : (Hlab.from_Xyz (xyz ⟨0, 0, 0⟩)).l < (Hlab.from_Xyz (xyz ⟨0, 0, 1⟩)).l :=
  hlab_lightness_strict (Step.b ⟨0, 0, 0⟩ (by norm_num) (by norm_num) (by norm_num))
-- numerically Y crosses the CIE branch point 0.008856 between (24,23,24) [Y = 0.00873] and (24,24,24)
-- [Y = 0.00913]: the CIELUV jump is harmless there
example : (Luv.from_Xyz (xyz ⟨24, 23, 24⟩)).l < (Luv.from_Xyz (xyz ⟨24, 24, 24⟩)).l :=
  luv_lightness_strict (Step.g ⟨24, 23, 24⟩ (by norm_num) (by norm_num) (by norm_num))

end Props.C12_lightness
