import LymuiVerif.Lemmas.XyzDispatch
/-!
# C13 (XYZ clause) — XYZ of an 8-bit colour lies between black and the profile's white

For every profile `k` and 8-bit colour `c`:
`0 = XYZ(black) ≤ XYZ(c) ≤ XYZ(white)` componentwise, where black = (0,0,0), white = (255,255,255)
are converted by the same generated `Xyz.from_rgb · k`, and XYZ(white) is the reference white of the
profile up to 1e-6 (`white_close`).  Uses: generated forward entries positive, generated decode curve
monotone with `dec 0 = 0`, `dec 1 = 1`.
-/
namespace Props.C13_xyz
open Gen Lemmas.Matrix Lemmas.XyzDispatch

/-- componentwise order on XYZ -/
def XyzLe (a b : Xyz ℝ) : Prop := a.x ≤ b.x ∧ a.y ≤ b.y ∧ a.z ≤ b.z

def black : Rgb := ⟨0, 0, 0⟩
def white : Rgb := ⟨255, 255, 255⟩

/-- black maps to XYZ = (0,0,0) exactly, in every profile -/
theorem black_zero (k : XyzKind) : Xyz.from_rgb (α := ℝ) black k = ⟨0, 0, 0⟩ := by
  rw [from_rgb_eq]
  simp [toXyz, mulVec, dot, lin, black, dec_zero]

/-- white maps to the row sums of the generated matrix -/
theorem white_rowsum (k : XyzKind) :
    Xyz.from_rgb (α := ℝ) white k = toXyz (mulVec (fwd k) (1, 1, 1)) := by
  rw [from_rgb_eq]
  simp [toXyz, mulVec, dot, lin, white, dec_one]

/-- the profile's white is its reference white (0.95047,1,1.08883 for D65 and Adobe,
0.96422,1,0.82521 for D50) up to 1e-6 per component -/
theorem white_close (k : XyzKind) :
    |(Xyz.from_rgb (α := ℝ) white k).x - (Lemmas.Matrix.white k).1| ≤ 1e-6 ∧
    |(Xyz.from_rgb (α := ℝ) white k).y - (Lemmas.Matrix.white k).2.1| ≤ 1e-6 ∧
    |(Xyz.from_rgb (α := ℝ) white k).z - (Lemmas.Matrix.white k).2.2| ≤ 1e-6 := by
  rw [white_rowsum]
  exact ⟨fwd_white k 0, fwd_white k 1, fwd_white k 2⟩

/-- **C13, XYZ clause**: black ≤ XYZ(c) ≤ white, componentwise, for every 8-bit colour and profile -/
theorem between_black_and_white (k : XyzKind) (c : Rgb)
    (hr : c.r ≤ 255) (hg : c.g ≤ 255) (hb : c.b ≤ 255) :
    XyzLe (Xyz.from_rgb (α := ℝ) black k) (Xyz.from_rgb c k) ∧
    XyzLe (Xyz.from_rgb c k) (Xyz.from_rgb (α := ℝ) white k) := by
  rw [black_zero, white_rowsum, from_rgb_eq]
  have r0 := dec_level_nonneg k c.r
  have g0 := dec_level_nonneg k c.g
  have b0 := dec_level_nonneg k c.b
  have r1 := dec_level_le_one k hr
  have g1 := dec_level_le_one k hg
  have b1 := dec_level_le_one k hb
  have p00 : 0 < (fwd k).1.1 := fwd_pos k 0 0
  have p01 : 0 < (fwd k).1.2.1 := fwd_pos k 0 1
  have p02 : 0 < (fwd k).1.2.2 := fwd_pos k 0 2
  have p10 : 0 < (fwd k).2.1.1 := fwd_pos k 1 0
  have p11 : 0 < (fwd k).2.1.2.1 := fwd_pos k 1 1
  have p12 : 0 < (fwd k).2.1.2.2 := fwd_pos k 1 2
  have p20 : 0 < (fwd k).2.2.1 := fwd_pos k 2 0
  have p21 : 0 < (fwd k).2.2.2.1 := fwd_pos k 2 1
  have p22 : 0 < (fwd k).2.2.2.2 := fwd_pos k 2 2
  refine ⟨⟨?_, ?_, ?_⟩, ⟨?_, ?_, ?_⟩⟩ <;> simp only [toXyz, mulVec, dot, lin, mul_one] <;>
    linarith [mul_nonneg p00.le r0, mul_nonneg p01.le g0, mul_nonneg p02.le b0,
      mul_nonneg p10.le r0, mul_nonneg p11.le g0, mul_nonneg p12.le b0,
      mul_nonneg p20.le r0, mul_nonneg p21.le g0, mul_nonneg p22.le b0,
      mul_le_mul_of_nonneg_left r1 p00.le, mul_le_mul_of_nonneg_left g1 p01.le,
      mul_le_mul_of_nonneg_left b1 p02.le, mul_le_mul_of_nonneg_left r1 p10.le,
      mul_le_mul_of_nonneg_left g1 p11.le, mul_le_mul_of_nonneg_left b1 p12.le,
      mul_le_mul_of_nonneg_left r1 p20.le, mul_le_mul_of_nonneg_left g1 p21.le,
      mul_le_mul_of_nonneg_left b1 p22.le]

-- hypotheses satisfiable by a concrete colour
example : XyzLe (Xyz.from_rgb (α := ℝ) ⟨50, 10, 95⟩ .D50) (Xyz.from_rgb (α := ℝ) white .D50) :=
  (between_black_and_white .D50 ⟨50, 10, 95⟩ (by norm_num) (by norm_num) (by norm_num)).2

end Props.C13_xyz
