import LymuiVerif.Lemmas.FpRev
import LymuiVerif.Props.C06
/-!
# C06 in the rounded-arithmetic reading (`RF M`, every `M : FPModel`): REVERSE conversions on arbitrary in-range inputs

Each theorem compares the generated reverse conversion (`Xyz::from(Lab)`, `Xyz::from(Xyy)`, `Xyz::from(Hlab)`,
`Xyz::from(Luv)`) evaluated in `RF M` on ANY input of the stated range — not only forward images of 8-bit colours;
those round trips are `Props.C02_fp_cie`, `Props.C02_fp_luv` — with the SAME generated function evaluated on exact
reals at the same input values.  `Props/C06.lean` compares that exact-real model with the CIE formulas
(`lab_reverse_tight`, `luv_reverse`, `xyy_reverse`, `hlab_reverse_characterisation`).

* **CIELAB** (`0 ≤ L ≤ 100`, `|a|, |b| ≤ 128`).  `Lab::reverse_compute_f` compares the CUBE of its argument with the
  rounded literal `0.008856`; the luminance compares `L` with the rounded product `0.008856·903.3`.  Within rounding
  error of these thresholds the computed and the real evaluation may take different branches, and the two branch
  formulas differ there by `3.7e-8` (the rounded `903.3` against `24389/27`).
  - `lab_reverse_any_fp`: NO side condition, each component within `5e-8` (the property's reverse tolerance is `1e-5`);
  - `lab_reverse_cie_fp`: the property's own wording — the exact CIELAB triple of an XYZ comes back within `1e-7`;
  - `lab_reverse_fp`: with the side conditions `ClearRev` (cube farther than `1e-12` from `0.008856`) for the X and Z
    arguments and `ClearY` (`L` farther than `1e-9` from `7.9996248`): each component within `1e-13`.
* **xyY** (`x, y ∈ [0, 1]`, `y ≥ 1e-3`, `Y ∈ [0, 1.1]`; outputs up to `1100`): `xyy_reverse_fp`, `X`, `Z` within `2e-12`,
  `Y` copied exactly; `xyy_reverse_zero_fp`: the guard `y == 0` is an exact comparison and returns `(0, 0, 0)`.
* **Hunter Lab** (`0 ≤ L ≤ 105`, `|a|, |b| ≤ 200`): `hlab_reverse_fp`, each component within `1e-12` of the real
  model — which carries the recorded defect (Z comes out NEGATED, `Props.C06.hlab_reverse_characterisation`); the
  rounded model reproduces it: `hlab_reverse_negated_z_fp`.
* **CIELUV** (`1e-3 ≤ L ≤ 100`; the real recovered chromaticities `u' = u/(13L) + u'n ∈ [-1, 1]`,
  `v' = v/(13L) + v'n ∈ [0.1, 1]` — this is the conditioning: `X = y·9u'/(4v')`, `Z = y·(12 − 3u' − 20v')/(4v')`
  divide by `4v'`, and every sRGB colour has `v' ≥ 0.158`; the quotient `u/(13L)` itself is handled in RELATIVE
  error, so no bound on `1/L` enters): `luv_reverse_any_fp` (no side condition: `Y` within `5e-8`, `X` within `1e-6`,
  `Z` within `1.4e-6`: the `3.7e-8` jump of the luminance is amplified by `9u'/(4v') ≤ 22.5`, `|12−3u'−20v'|/(4v') ≤ 32.5`),
  `luv_reverse_fp` (with `ClearY`: `Y` within `1e-13`, `X`, `Z` within `4e-12`), `luv_reverse_cie_fp` (the exact CIELUV
  triple of an XYZ of `[0,1.1]³`, `Y > 0`, comes back within `1e-5`, the property's tolerance; `4.7e-6` of it is the exact-real error).
-/
namespace Props.C06_fp_reverse
open Gen FpErr FpLin FpCie FpRev Lemmas.Cie

/-- the argument of `Lab::reverse_compute_f` is clear of the branch threshold: its cube is farther than `1e-12`
from `ε = 0.008856` -/
def ClearRev (c : ℝ) : Prop := 1 / 10 ^ 12 ≤ |c ^ 3 - (C.EPSILON : ℝ)|

/-- the lightness is clear of the threshold `ε·κ = 7.9996248` of the luminance recovery by `1e-9` -/
def ClearY (L : ℝ) : Prop := 1 / 10 ^ 9 ≤ |L - (C.EPSILON : ℝ) * (C.KAPPA : ℝ)|

theorem clearRev_iff (c : ℝ) : ClearRev c ↔ 1 / 10 ^ 12 ≤ |c ^ 3 - 1107 / 125000| := by
  unfold ClearRev; simp [C.EPSILON]

theorem clearY_iff (L : ℝ) : ClearY L ↔ 1 / 10 ^ 9 ≤ |L - 79996248 / 10000000| := by
  unfold ClearY
  have : ((C.EPSILON : ℝ) * (C.KAPPA : ℝ)) = 79996248 / 10000000 := by simp [C.EPSILON, C.KAPPA]; norm_num
  rw [this]

/-! ## CIELAB -/

/-- **CIELAB reverse in `RF M`, no side condition**: every component within `5e-8` of the real model, whatever
branches the three comparisons take in either evaluation -/
theorem lab_reverse_any_fp (M : FPModel) (p : Lab (RF M)) (hL0 : 0 ≤ p.l.val) (hL1 : p.l.val ≤ 100)
    (ha : |p.a.val| ≤ 128) (hb : |p.b.val| ≤ 128) :
    |(Xyz.from_Lab p).x.val - (Xyz.from_Lab (α := ℝ) ⟨p.l.val, p.a.val, p.b.val⟩).x| ≤ 5 / 10 ^ 8 ∧
    |(Xyz.from_Lab p).y.val - (Xyz.from_Lab (α := ℝ) ⟨p.l.val, p.a.val, p.b.val⟩).y| ≤ 5 / 10 ^ 8 ∧
    |(Xyz.from_Lab p).z.val - (Xyz.from_Lab (α := ℝ) ⟨p.l.val, p.a.val, p.b.val⟩).z| ≤ 5 / 10 ^ 8 := by
  obtain ⟨fx, fy, fz⟩ := from_lab_fp M p
  obtain ⟨ax, ax0, ax1⟩ := lab_arg_x M hL0 hL1 ha
  obtain ⟨az, az0, az1⟩ := lab_arg_z M hL0 hL1 hb
  rw [from_lab_real, fx, fy, fz]
  have rx := (rev_f_at M ax ax0 ax1).any
  have rz := (rev_f_at M az az0 az1).any
  have ry := (revY_at M hL0 (by linarith : p.l.val ≤ 105)).any
  obtain ⟨nX, nZ, n1⟩ := white_near M
  have by' := yRevCode_bound hL0 (by linarith : p.l.val ≤ 105)
  refine ⟨(scale_white M nX rx (revCode_bound ax0 ax1) (by norm_num)).trans (by norm_num), ?_,
    (scale_white M nZ rz (revCode_bound az0 az1) (by norm_num)).trans (by norm_num)⟩
  exact (scale_white M n1 ry
    (by rw [abs_of_nonneg by'.1]; linarith [by'.2]) (by norm_num)).trans (by norm_num)

/-- **CIELAB reverse in `RF M`, clear of the thresholds**: every component within `1e-13` of the real model -/
theorem lab_reverse_fp (M : FPModel) (p : Lab (RF M)) (hL0 : 0 ≤ p.l.val) (hL1 : p.l.val ≤ 100)
    (ha : |p.a.val| ≤ 128) (hb : |p.b.val| ≤ 128)
    (sx : ClearRev ((p.l.val + 16) / 116 + p.a.val / 500)) (sy : ClearY p.l.val)
    (sz : ClearRev ((p.l.val + 16) / 116 - p.b.val / 200)) :
    |(Xyz.from_Lab p).x.val - (Xyz.from_Lab (α := ℝ) ⟨p.l.val, p.a.val, p.b.val⟩).x| ≤ 1 / 10 ^ 13 ∧
    |(Xyz.from_Lab p).y.val - (Xyz.from_Lab (α := ℝ) ⟨p.l.val, p.a.val, p.b.val⟩).y| ≤ 1 / 10 ^ 13 ∧
    |(Xyz.from_Lab p).z.val - (Xyz.from_Lab (α := ℝ) ⟨p.l.val, p.a.val, p.b.val⟩).z| ≤ 1 / 10 ^ 13 := by
  obtain ⟨fx, fy, fz⟩ := from_lab_fp M p
  obtain ⟨ax, ax0, ax1⟩ := lab_arg_x M hL0 hL1 ha
  obtain ⟨az, az0, az1⟩ := lab_arg_z M hL0 hL1 hb
  rw [from_lab_real, fx, fy, fz]
  have rx := (rev_f_at M ax ax0 ax1).clear ((clearRev_iff _).mp sx)
  have rz := (rev_f_at M az az0 az1).clear ((clearRev_iff _).mp sz)
  have ry := (revY_at M hL0 (by linarith : p.l.val ≤ 105)).clear ((clearY_iff _).mp sy)
  obtain ⟨nX, nZ, n1⟩ := white_near M
  have by' := yRevCode_bound hL0 (by linarith : p.l.val ≤ 105)
  refine ⟨(scale_white M nX rx (revCode_bound ax0 ax1) (by norm_num)).trans (by norm_num), ?_,
    (scale_white M nZ rz (revCode_bound az0 az1) (by norm_num)).trans (by norm_num)⟩
  exact (scale_white M n1 ry
    (by rw [abs_of_nonneg by'.1]; linarith [by'.2]) (by norm_num)).trans (by norm_num)

/-- **C06 reverse clause for CIELAB in the rounded model**: if the input is the EXACT CIELAB triple of an XYZ with
non-negative components (and lies in the input box), `Xyz::from(Lab)` evaluated in ANY model returns that XYZ within `1e-7`
(`4.4e-8` from the library's rounded constants, `Props.C06.lab_reverse_tight`, plus `5e-8`); the property asks `1e-5` -/
theorem lab_reverse_cie_fp (M : FPModel) (p : Lab (RF M)) (X Y Z : ℝ) (hx : 0 ≤ X) (hy : 0 ≤ Y) (hz : 0 ≤ Z)
    (hp : (⟨p.l.val, p.a.val, p.b.val⟩ : Lab ℝ) = Props.C06.cielab X Y Z)
    (hL0 : 0 ≤ p.l.val) (hL1 : p.l.val ≤ 100) (ha : |p.a.val| ≤ 128) (hb : |p.b.val| ≤ 128) :
    |(Xyz.from_Lab p).x.val - X| ≤ 1 / 10 ^ 7 ∧ |(Xyz.from_Lab p).y.val - Y| ≤ 1 / 10 ^ 7 ∧
    |(Xyz.from_Lab p).z.val - Z| ≤ 1 / 10 ^ 7 := by
  obtain ⟨a1, a2, a3⟩ := lab_reverse_any_fp M p hL0 hL1 ha hb
  obtain ⟨b1, b2, b3⟩ := Props.C06.lab_reverse_tight X Y Z hx hy hz
  rw [hp] at a1 a2 a3
  refine ⟨?_, ?_, ?_⟩
  · have := abs_sub_le (Xyz.from_Lab p).x.val (Xyz.from_Lab (Props.C06.cielab X Y Z)).x X
    norm_num at a1 b1 ⊢; linarith
  · have := abs_sub_le (Xyz.from_Lab p).y.val (Xyz.from_Lab (Props.C06.cielab X Y Z)).y Y
    norm_num at a2 b2 ⊢; linarith
  · have := abs_sub_le (Xyz.from_Lab p).z.val (Xyz.from_Lab (Props.C06.cielab X Y Z)).z Z
    norm_num at a3 b3 ⊢; linarith

/-! ## xyY -/

/-- **xyY reverse in `RF M`**, chromaticities `x, y ∈ [0, 1]` with `y ≥ 1e-3` (so the exact guard `y == 0` is not taken;
the outputs `x·Y/y`, `(1−x−y)·Y/y` reach `1100`), luminance `Y ∈ [0, 1.1]`: `X`, `Z` within `2e-12` of the real model,
`Y` copied exactly -/
theorem xyy_reverse_fp (M : FPModel) (p : Xyy (RF M)) (hx0 : 0 ≤ p.x.val) (hx1 : p.x.val ≤ 1)
    (hy0 : 1 / 1000 ≤ p.y.val) (hy1 : p.y.val ≤ 1) (hY0 : 0 ≤ p._y.val) (hY1 : p._y.val ≤ 11 / 10) :
    |(Xyz.from_Xyy p).x.val - (Xyz.from_Xyy (α := ℝ) ⟨p.x.val, p.y.val, p._y.val⟩).x| ≤ 2 / 10 ^ 12 ∧
    (Xyz.from_Xyy p).y.val = (Xyz.from_Xyy (α := ℝ) ⟨p.x.val, p.y.val, p._y.val⟩).y ∧
    |(Xyz.from_Xyy p).z.val - (Xyz.from_Xyy (α := ℝ) ⟨p.x.val, p.y.val, p._y.val⟩).z| ≤ 2 / 10 ^ 12 := by
  have hne : p.y.val ≠ 0 := by intro h; rw [h] at hy0; norm_num at hy0
  obtain ⟨fx, fy, fz⟩ := from_xyy_fp M p hne
  obtain ⟨qx, qz⟩ := xyy_quot M hx0 hx1 hy0 hy1 hY0 hY1
  rw [from_xyy_real _ _ _ hne, fx, fy, fz]
  exact ⟨qx, rfl, qz⟩

/-- the guard `y == 0` (an exact comparison): `(0, 0, 0)` in every model, as in the real model
(`Props.C06.xyy_reverse_zero_luminance`) -/
theorem xyy_reverse_zero_fp (M : FPModel) (p : Xyy (RF M)) (h : p.y.val = 0) :
    (Xyz.from_Xyy p).x.val = 0 ∧ (Xyz.from_Xyy p).y.val = 0 ∧ (Xyz.from_Xyy p).z.val = 0 := by
  unfold Xyz.from_Xyy
  simp only [FltRF.beq_eq, FpLuv.litv M _ 0 (by norm_num), Nat.cast_zero, h, decide_true, if_true, Xyz.default,
    and_self]

/-! ## Hunter Lab -/

/-- **Hunter Lab reverse in `RF M`**, `0 ≤ L ≤ 105`, `|a|, |b| ≤ 200`: every component within `1e-12` of the real model
at the same values.  (`L ≥ 0`: the code computes `powf(L/100, 2)`, and the model says nothing about `powf` of a negative
base.)  The real model is the one whose Z is negated (`Props.C06.hlab_reverse_characterisation`). -/
theorem hlab_reverse_fp (M : FPModel) (p : Hlab (RF M)) (hL0 : 0 ≤ p.l.val) (hL1 : p.l.val ≤ 105)
    (ha : |p.a.val| ≤ 200) (hb : |p.b.val| ≤ 200) :
    |(Xyz.from_Hlab p).x.val - (Xyz.from_Hlab (α := ℝ) ⟨p.l.val, p.a.val, p.b.val⟩).x| ≤ 1 / 10 ^ 12 ∧
    |(Xyz.from_Hlab p).y.val - (Xyz.from_Hlab (α := ℝ) ⟨p.l.val, p.a.val, p.b.val⟩).y| ≤ 1 / 10 ^ 12 ∧
    |(Xyz.from_Hlab p).z.val - (Xyz.from_Hlab (α := ℝ) ⟨p.l.val, p.a.val, p.b.val⟩).z| ≤ 1 / 10 ^ 12 := by
  obtain ⟨fx, fy, fz⟩ := from_hlab_fp M p
  obtain ⟨l1, l2, l3⟩ := hunter_lum M hL0 hL1
  obtain ⟨ka, kb⟩ := hunter_coef M
  rw [from_hlab_real, fx, fy, fz]
  set L := p.l.val with hL
  have X0 : 0 ≤ L / 100 := by positivity
  have X1 : L / 100 ≤ 105 / 100 := by rw [div_le_iff₀ (by norm_num)]; linarith
  have X2 : (L / 100) ^ 2 ≤ (105 / 100) ^ 2 := pow_le_pow_left₀ X0 X1 2
  have hZ0 := sq_nonneg (L / 100)
  have tb : |(L / 100) ^ 2 * 100 / 100| ≤ 2 := by
    rw [abs_of_nonneg (by positivity)]; norm_num at X2 ⊢; linarith
  have sb : |√((L / 100) ^ 2 * 100 / 100)| ≤ 2 := by
    rw [show (L / 100) ^ 2 * 100 / 100 = (L / 100) ^ 2 by ring, Real.sqrt_sq X0, abs_of_nonneg X0]; linarith
  have nS : Near (hS M L) (√((L / 100) ^ 2 * 100 / 100)) (2 / 10 ^ 15) 2 := ⟨l3, sb, by norm_num⟩
  have nT : Near (hT M L) ((L / 100) ^ 2 * 100 / 100) (2 / 10 ^ 15) 2 := ⟨l2, tb, by norm_num⟩
  have lX : Near (M.rnd (95047 / 1000)) (95047 / 1000) (FP.eps * 109) 109 := by
    have := Near.lit M 95047 1000 (B := 109) (by norm_num) (by norm_num); push_cast at this; exact this
  have lZ : Near (M.rnd (108883 / 1000)) (108883 / 1000) (FP.eps * 109) 109 := by
    have := Near.lit M 108883 1000 (B := 109) (by norm_num) (by norm_num); push_cast at this; exact this
  refine ⟨(hunter_chan M ha ka (by norm_num) nS nT lX).1, ?_, (hunter_chan M hb kb (by norm_num) nS nT lZ).2⟩
  -- Y = Y5 · 0.01
  have l01 : |M.rnd (1 / 100) - 1 / 100| ≤ FP.eps * (1 / 100) := by
    have := lit_close M 1 100 (B := 1 / 100) (by norm_num) (by norm_num); push_cast at this; exact this
  have yb : |(L / 100) ^ 2 * 100| ≤ 111 := by
    rw [abs_of_nonneg (by positivity)]; norm_num at X2 ⊢; linarith
  exact (mul_close M l1 l01 yb (by rw [abs_of_pos (by norm_num)]) (by norm_num)).trans (by norm_num [FP.eps])

/-- the recorded defect in the rounded model: for the exact Hunter coordinates of an XYZ with `Y ∈ (0, 1.1]`,
`|a|, |b| ≤ 200`, the computed Z is within `1e-12` of MINUS the original Z -/
theorem hlab_reverse_negated_z_fp (M : FPModel) (p : Hlab (RF M)) (X Y Z : ℝ) (hY : 0 < Y) (hY1 : Y ≤ 11 / 10)
    (hp : (⟨p.l.val, p.a.val, p.b.val⟩ : Hlab ℝ) = Props.C06.hunter X Y Z)
    (ha : |p.a.val| ≤ 200) (hb : |p.b.val| ≤ 200) :
    |(Xyz.from_Hlab p).z.val - (-Z)| ≤ 1 / 10 ^ 12 := by
  have hl : p.l.val = 100 * √(Y / 1) := by
    have := congrArg Hlab.l hp; simpa [Props.C06.hunter, Props.C06.Yn] using this
  rw [div_one] at hl
  have s0 : 0 ≤ √Y := Real.sqrt_nonneg _
  have s1 : √Y ≤ 105 / 100 := by
    rw [Real.sqrt_le_left (by norm_num)]; norm_num; linarith
  have h := (hlab_reverse_fp M p (by rw [hl]; positivity) (by rw [hl]; linarith) ha hb).2.2
  rwa [hp, Props.C06.hlab_reverse_of_spec X Y Z hY] at h

/-! ## CIELUV -/

open Props.C06 in
/-- **CIELUV reverse in `RF M`, no side condition on the lightness threshold**: `L ∈ [1e-3, 100]`, real recovered
chromaticities `u' = u/(13L) + u'n ∈ [-1, 1]`, `v' = v/(13L) + v'n ∈ [0.1, 1]`: `Y` within `5e-8`, `X` within `1e-6`,
`Z` within `1.4e-6` of the real model -/
theorem luv_reverse_any_fp (M : FPModel) (p : Luv (RF M)) (hL0 : 1 / 1000 ≤ p.l.val) (hL1 : p.l.val ≤ 100)
    (hu : |p.u.val / (13 * p.l.val) + uPrime Xn Yn Zn| ≤ 1)
    (hv0 : 1 / 10 ≤ p.v.val / (13 * p.l.val) + vPrime Xn Yn Zn)
    (hv1 : p.v.val / (13 * p.l.val) + vPrime Xn Yn Zn ≤ 1) :
    |(Xyz.from_Luv p).x.val - (Xyz.from_Luv (α := ℝ) ⟨p.l.val, p.u.val, p.v.val⟩).x| ≤ 1 / 10 ^ 6 ∧
    |(Xyz.from_Luv p).y.val - (Xyz.from_Luv (α := ℝ) ⟨p.l.val, p.u.val, p.v.val⟩).y| ≤ 5 / 10 ^ 8 ∧
    |(Xyz.from_Luv p).z.val - (Xyz.from_Luv (α := ℝ) ⟨p.l.val, p.u.val, p.v.val⟩).z| ≤ 14 / 10 ^ 7 := by
  have hLp : 0 < p.l.val := lt_of_lt_of_le (by norm_num) hL0
  obtain ⟨fy, fx, fz⟩ := FpLuv.from_luv_fp M p hLp.ne'
  obtain ⟨wu, wv⟩ := FpLuv.white_uv M
  have hu0 : |uPrime Xn Yn Zn| ≤ 1 := by unfold uPrime Xn Yn Zn; rw [abs_of_pos (by norm_num)]; norm_num
  have hv0' : |vPrime Xn Yn Zn| ≤ 1 := by unfold vPrime Xn Yn Zn; rw [abs_of_pos (by norm_num)]; norm_num
  have cu := upR_close M hL0 wu hu0 hu
  have cv := upR_close M hL0 wv hv0' (by rw [abs_of_nonneg (le_trans (by norm_num) hv0)]; exact hv1)
  have ry := (revY_at M hLp.le (hL1.trans (by norm_num) : p.l.val ≤ 105)).any
  have yb := yRevCode_bound hLp.le (hL1.trans (by norm_num) : p.l.val ≤ 105)
  obtain ⟨ax, az⟩ := luv_assemble M ry yb.1 yb.2 cu hu cv hv0 hv1
  rw [from_luv_real _ _ _ hLp.ne', fx, fy, fz]
  exact ⟨ax.trans (by norm_num), ry.trans (by norm_num), az.trans (by norm_num)⟩

open Props.C06 in
/-- **CIELUV reverse in `RF M`, lightness clear of the threshold `7.9996248`**: `Y` within `1e-13`, `X`, `Z` within
`4e-12` of the real model -/
theorem luv_reverse_fp (M : FPModel) (p : Luv (RF M)) (hL0 : 1 / 1000 ≤ p.l.val) (hL1 : p.l.val ≤ 100)
    (hu : |p.u.val / (13 * p.l.val) + uPrime Xn Yn Zn| ≤ 1)
    (hv0 : 1 / 10 ≤ p.v.val / (13 * p.l.val) + vPrime Xn Yn Zn)
    (hv1 : p.v.val / (13 * p.l.val) + vPrime Xn Yn Zn ≤ 1) (sy : ClearY p.l.val) :
    |(Xyz.from_Luv p).x.val - (Xyz.from_Luv (α := ℝ) ⟨p.l.val, p.u.val, p.v.val⟩).x| ≤ 4 / 10 ^ 12 ∧
    |(Xyz.from_Luv p).y.val - (Xyz.from_Luv (α := ℝ) ⟨p.l.val, p.u.val, p.v.val⟩).y| ≤ 1 / 10 ^ 13 ∧
    |(Xyz.from_Luv p).z.val - (Xyz.from_Luv (α := ℝ) ⟨p.l.val, p.u.val, p.v.val⟩).z| ≤ 4 / 10 ^ 12 := by
  have hLp : 0 < p.l.val := lt_of_lt_of_le (by norm_num) hL0
  obtain ⟨fy, fx, fz⟩ := FpLuv.from_luv_fp M p hLp.ne'
  obtain ⟨wu, wv⟩ := FpLuv.white_uv M
  have hu0 : |uPrime Xn Yn Zn| ≤ 1 := by unfold uPrime Xn Yn Zn; rw [abs_of_pos (by norm_num)]; norm_num
  have hv0' : |vPrime Xn Yn Zn| ≤ 1 := by unfold vPrime Xn Yn Zn; rw [abs_of_pos (by norm_num)]; norm_num
  have cu := upR_close M hL0 wu hu0 hu
  have cv := upR_close M hL0 wv hv0' (by rw [abs_of_nonneg (le_trans (by norm_num) hv0)]; exact hv1)
  have ry := (revY_at M hLp.le (hL1.trans (by norm_num) : p.l.val ≤ 105)).clear ((clearY_iff _).mp sy)
  have yb := yRevCode_bound hLp.le (hL1.trans (by norm_num) : p.l.val ≤ 105)
  obtain ⟨ax, az⟩ := luv_assemble M ry yb.1 yb.2 cu hu cv hv0 hv1
  rw [from_luv_real _ _ _ hLp.ne', fx, fy, fz]
  exact ⟨ax.trans (by norm_num), ry.trans (by norm_num), az.trans (by norm_num)⟩

open Props.C06 in
/-- **C06 reverse clause for CIELUV in the rounded model**: the input is the EXACT CIELUV triple of an XYZ of `[0, 1.1]³`
with `Y > 0` (and satisfies the conditioning hypotheses of `luv_reverse_any_fp`): `Xyz::from(Luv)` evaluated in ANY model
returns that XYZ within `1e-5` (X: `4.7e-6 + 1e-6`, Y: `4e-8 + 5e-8`, Z: `4.7e-6 + 1.4e-6`), the property's tolerance -/
theorem luv_reverse_cie_fp (M : FPModel) (p : Luv (RF M)) (X Y Z : ℝ) (hx : 0 ≤ X) (hx1 : X ≤ 1.1) (hy : 0 < Y)
    (hz : 0 ≤ Z) (hz1 : Z ≤ 1.1)
    (hp : (⟨p.l.val, p.u.val, p.v.val⟩ : Luv ℝ) = cieluv X Y Z)
    (hL0 : 1 / 1000 ≤ p.l.val) (hL1 : p.l.val ≤ 100)
    (hu : |p.u.val / (13 * p.l.val) + uPrime Xn Yn Zn| ≤ 1)
    (hv0 : 1 / 10 ≤ p.v.val / (13 * p.l.val) + vPrime Xn Yn Zn)
    (hv1 : p.v.val / (13 * p.l.val) + vPrime Xn Yn Zn ≤ 1) :
    |(Xyz.from_Luv p).x.val - X| ≤ 1e-5 ∧ |(Xyz.from_Luv p).y.val - Y| ≤ 1e-5 ∧
    |(Xyz.from_Luv p).z.val - Z| ≤ 1e-5 := by
  obtain ⟨a1, a2, a3⟩ := luv_reverse_any_fp M p hL0 hL1 hu hv0 hv1
  obtain ⟨b1, b2, b3⟩ := luv_reverse_real_tight X Y Z hx hx1 hy hz hz1
  rw [hp] at a1 a2 a3
  refine ⟨?_, ?_, ?_⟩
  · have := abs_sub_le (Xyz.from_Luv p).x.val (Xyz.from_Luv (cieluv X Y Z)).x X
    norm_num at a1 b1 ⊢; linarith
  · have := abs_sub_le (Xyz.from_Luv p).y.val (Xyz.from_Luv (cieluv X Y Z)).y Y
    norm_num at a2 b2 ⊢; linarith
  · have := abs_sub_le (Xyz.from_Luv p).z.val (Xyz.from_Luv (cieluv X Y Z)).z Z
    norm_num at a3 b3 ⊢; linarith

/-! ## examples: the hypotheses are satisfiable by concrete non-trivial inputs -/

-- CIELAB (50, 10, -10): in range and clear of all three thresholds, in every model
example (M : FPModel) :
    |(Xyz.from_Lab (⟨⟨50⟩, ⟨10⟩, ⟨-10⟩⟩ : Lab (RF M))).x.val - (Xyz.from_Lab (α := ℝ) ⟨50, 10, -10⟩).x| ≤ 1 / 10 ^ 13 :=
  (lab_reverse_fp M ⟨⟨50⟩, ⟨10⟩, ⟨-10⟩⟩ (by norm_num) (by norm_num) (by norm_num [abs_le]) (by norm_num [abs_le])
    (by rw [clearRev_iff]; norm_num [le_abs]) (by rw [clearY_iff]; norm_num [le_abs])
    (by rw [clearRev_iff]; norm_num [le_abs])).1
-- the unconditional form at an input ON the lightness threshold region (L = 8: κ·ε = 7.9996248), exact model
example : |(Xyz.from_Lab (⟨⟨8⟩, ⟨0⟩, ⟨0⟩⟩ : Lab (RF FPModel.exact))).y.val - (Xyz.from_Lab (α := ℝ) ⟨8, 0, 0⟩).y|
    ≤ 5 / 10 ^ 8 :=
  (lab_reverse_any_fp FPModel.exact ⟨⟨8⟩, ⟨0⟩, ⟨0⟩⟩ (by norm_num) (by norm_num) (by norm_num) (by norm_num)).2.1
-- a negative argument of `reverse_compute_f` is inside the range: L = 0, b = 128 gives (0+16)/116 − 0.64 < 0
example (M : FPModel) :
    |(Xyz.from_Lab (⟨⟨0⟩, ⟨0⟩, ⟨128⟩⟩ : Lab (RF M))).z.val - (Xyz.from_Lab (α := ℝ) ⟨0, 0, 128⟩).z| ≤ 5 / 10 ^ 8 :=
  (lab_reverse_any_fp M ⟨⟨0⟩, ⟨0⟩, ⟨128⟩⟩ (by norm_num) (by norm_num) (by norm_num) (by norm_num)).2.2
-- xyY (0.5, 0.25, 0.2)
example (M : FPModel) :
    |(Xyz.from_Xyy (⟨⟨1 / 2⟩, ⟨1 / 4⟩, ⟨1 / 5⟩⟩ : Xyy (RF M))).x.val - (Xyz.from_Xyy (α := ℝ) ⟨1 / 2, 1 / 4, 1 / 5⟩).x|
      ≤ 2 / 10 ^ 12 :=
  (xyy_reverse_fp M ⟨⟨1 / 2⟩, ⟨1 / 4⟩, ⟨1 / 5⟩⟩ (by norm_num) (by norm_num) (by norm_num) (by norm_num) (by norm_num)
    (by norm_num)).1
-- Hunter Lab (50, 60, 10)
example (M : FPModel) :
    |(Xyz.from_Hlab (⟨⟨50⟩, ⟨60⟩, ⟨10⟩⟩ : Hlab (RF M))).z.val - (Xyz.from_Hlab (α := ℝ) ⟨50, 60, 10⟩).z| ≤ 1 / 10 ^ 12 :=
  (hlab_reverse_fp M ⟨⟨50⟩, ⟨60⟩, ⟨10⟩⟩ (by norm_num) (by norm_num) (by norm_num [abs_le]) (by norm_num [abs_le])).2.2
-- the hypotheses of `hlab_reverse_negated_z_fp` at the XYZ (0.4, 0.25, 0.2): `L = 50`, `|a|, |b| ≤ 200`
example : ∃ L a b : ℝ, (⟨L, a, b⟩ : Hlab ℝ) = Props.C06.hunter (2 / 5) (1 / 4) (1 / 5) ∧ L = 50 ∧ |a| ≤ 200 ∧ |b| ≤ 200 := by
  have hs : √((1 / 4 : ℝ) / Props.C06.Yn) = 1 / 2 := by
    rw [show (1 / 4 : ℝ) / Props.C06.Yn = (1 / 2) ^ 2 by unfold Props.C06.Yn; norm_num, Real.sqrt_sq (by norm_num)]
  refine ⟨_, _, _, rfl, ?_, ?_, ?_⟩
  · rw [hs]; norm_num
  · rw [hs]; unfold Props.C06.Ka Props.C06.Xn Props.C06.Yn; norm_num [abs_le]
  · rw [hs]; unfold Props.C06.Kb Props.C06.Zn Props.C06.Yn; norm_num [abs_le]
-- CIELUV (50, 10, 10): the recovered chromaticities are in range
open Props.C06 in
example (M : FPModel) :
    |(Xyz.from_Luv (⟨⟨50⟩, ⟨10⟩, ⟨10⟩⟩ : Luv (RF M))).x.val - (Xyz.from_Luv (α := ℝ) ⟨50, 10, 10⟩).x| ≤ 4 / 10 ^ 12 :=
  (luv_reverse_fp M ⟨⟨50⟩, ⟨10⟩, ⟨10⟩⟩ (by norm_num) (by norm_num)
    (by unfold uPrime Xn Yn Zn; norm_num [abs_le]) (by unfold vPrime Xn Yn Zn; norm_num)
    (by unfold vPrime Xn Yn Zn; norm_num) (by rw [clearY_iff]; norm_num [le_abs])).1

end Props.C06_fp_reverse
