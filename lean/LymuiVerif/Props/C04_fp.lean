import LymuiVerif.Lemmas.FpDefinedCounter
/-!
# C04 in floating point — every conversion reachable from an 8-bit colour is finite, for EVERY `M : FPModel`

Instance: `α := PRF M` (`LymuiVerif/Inst/RoundedPartial.lean`): `PRF.fin x` is a finite f64, every arithmetic result is
rounded by `M.rnd`, and an operation yields `PRF.nan` where IEEE arithmetic leaves the finite numbers for finite
inputs: division by a COMPUTED zero, `powf` of a negative COMPUTED base (or of `0` to a non-positive exponent), `sqrt`
of a negative COMPUTED number.  Unlike the exact-real reading `PR` of `Props/C04.lean`, this reading sees a matrix
residue that is `0` over ℝ and `-1e-17` after rounding.

Each theorem is obtained from a bridging lemma `f (lift x) = lift (f x)` of `Lemmas/FpDefined*.lean`: the `PRF M` run
on finite inputs never leaves the finite numbers and equals the `RF M` run.  The sign facts about COMPUTED values come
from the `_fp` lemma files (`FpGrey.mk_pos`, `FpHexcone.den_A_pos/den_B_pos`, `FpCieXyz.xyz_d65_fp/xyz_cone_fp`,
`FpXyz.xyz_black_fp/xyz_fp_close`, `FpMono.luvLF_close/lTh_gap`, `Props.C14.*_fp`) and from monotonicity of rounding.

Lemma files: `FpDefined` (homomorphism lemmas, curves), `FpDefinedRgb` (direct models, XYZ), `FpDefinedXyz` (XYZ-derived
spaces), `FpDefinedColour` (sign facts of the computed XYZ / BT.2020 components), `FpDefinedRev` (reverse conversions),
`FpDefinedLuv` + `FpDefinedPolar` (CIELUV and its polar forms on the way back), `FpDefinedImage` (Hunter, PQ on the way
back), `FpDefinedCounter` (a counter-model).  The last section maps the property text to the theorems and lists what is
not proved.
-/
set_option linter.unusedSimpArgs false
set_option linter.unusedVariables false
namespace Props.C04_fp
open Gen Lemmas.FpDefined

/-! ## Specification -/

/-- every component is a finite number -/
def FiniteF {M : FPModel} (v : List (PRF M)) : Prop := ∀ x ∈ v, x.isFin = true
/-- an 8-bit colour -/
def U8 (c : Rgb) : Prop := c.r ≤ 255 ∧ c.g ≤ 255 ∧ c.b ≤ 255

/-- closes `FiniteF (X.as_vec (liftX _))` -/
macro "finite_lift" : tactic => `(tactic|
  simp [FiniteF, Cymk.as_vec, Hsl.as_vec, Hsv.as_vec, Hwb.as_vec, Yuv.as_vec, Srgb.as_vec, Argb.as_vec, Xyz.as_vec,
    Lab.as_vec, Lchlab.as_vec, Luv.as_vec, Lchuv.as_vec, Hcl.as_vec, Hlab.as_vec, Xyy.as_vec, OkLab.as_vec,
    OkLch.as_vec, Rec709.as_vec, Rec2020.as_vec, Rec2100.as_vec,
    liftCymk, liftHsl, liftHsv, liftHwb, liftYuv, liftSrgb, liftArgb, liftXyz, liftLab, liftLchlab, liftLuv,
    liftLchuv, liftHcl, liftHlab, liftXyy, liftOkLab, liftOkLch, liftRec709, liftRec2020, liftRec2100])

example : U8 ⟨92, 191, 84⟩ := ⟨by decide, by decide, by decide⟩
example (M : FPModel) : FiniteF [(PRF.fin 1 : PRF M), PRF.fin (-2.5)] := by simp [FiniteF]
example (M : FPModel) : ¬ FiniteF [(PRF.fin 1 : PRF M), (PRF.fin 1 : PRF M) / PRF.fin 0] := by simp [FiniteF]
/-- the failure mode the exact-real reading cannot see: a residue `-1e-17` reaching `powf` -/
example (M : FPModel) : ¬ FiniteF [Flt.pow (PRF.fin (-1e-17) : PRF M) (PRF.fin 2.2)] := by
  simp [FiniteF, FltPRF.pow_neg (M := M) (-1e-17) 2.2 (by norm_num)]

/-! ## a. Conversions taking the colour directly -/

theorem cymk_finite_fp (M : FPModel) (c : Rgb) (h : U8 c) :
    FiniteF (Cymk.as_vec (Cymk.from_Rgb c : Cymk (PRF M))) := by
  rw [cymk_bridge c h.1 h.2.1 h.2.2]; finite_lift
theorem hue_finite_fp (M : FPModel) (c : Rgb) (h : U8 c) : (F64.from_Rgb c : PRF M).isFin = true := by
  rw [hue_bridge c h.1 h.2.1 h.2.2]; rfl
theorem hsl_finite_fp (M : FPModel) (c : Rgb) (h : U8 c) : FiniteF (Hsl.as_vec (Hsl.from_Rgb c : Hsl (PRF M))) := by
  rw [hsl_bridge c h.1 h.2.1 h.2.2]; finite_lift
theorem hsv_finite_fp (M : FPModel) (c : Rgb) (h : U8 c) : FiniteF (Hsv.as_vec (Hsv.from_Rgb c : Hsv (PRF M))) := by
  rw [hsv_bridge c h.1 h.2.1 h.2.2]; finite_lift
theorem hwb_finite_fp (M : FPModel) (c : Rgb) (h : U8 c) : FiniteF (Hwb.as_vec (Hwb.from_Rgb c : Hwb (PRF M))) := by
  rw [hwb_bridge c h.1 h.2.1 h.2.2]; finite_lift
theorem yuv_finite_fp (M : FPModel) (c : Rgb) : FiniteF (Yuv.as_vec (Yuv.from_Rgb c : Yuv (PRF M))) := by
  rw [yuv_bridge]; finite_lift
theorem srgb_finite_fp (M : FPModel) (c : Rgb) : FiniteF (Srgb.as_vec (Srgb.from_Rgb c : Srgb (PRF M))) := by
  rw [srgb_bridge]; finite_lift
theorem argb_finite_fp (M : FPModel) (c : Rgb) : FiniteF (Argb.as_vec (Argb.from_Rgb c : Argb (PRF M))) := by
  rw [argb_bridge]; finite_lift

/-- the byte-valued conversions (grayscale, YCbCr, ANSI) return in `PRF M` exactly the bytes of the `RF M` run: every
intermediate is finite (only divisions by literals), so no NaN reaches `as u8`.  Their values: `Props/C10_fp.lean`,
`Props/C17_fp.lean`. -/
theorem bytes_fp (M : FPModel) (c : Rgb) :
    (∀ k, GrayScale.from_rgb (PRF M) c k = GrayScale.from_rgb (RF M) c k) ∧
    Ycbcr.from_Rgb (PRF M) c = Ycbcr.from_Rgb (RF M) c ∧
    (∀ k, Ansi.from_rgb (PRF M) c k = Ansi.from_rgb (RF M) c k) :=
  ⟨gray_bridge c, ycbcr_bridge c, ansi_bridge c⟩

/-! ## b. XYZ under every profile -/

/-- no `U8` hypothesis: the decoding curves test their own argument and the matrix product has no partial operation -/
theorem xyz_finite_fp (M : FPModel) (c : Rgb) (k : XyzKind) :
    FiniteF (Xyz.as_vec (Xyz.from_rgb c k : Xyz (PRF M))) := by
  rw [xyz_bridge]; finite_lift

/-! ## b'. Transfer curves: finite for EVERY finite input (the branch test guarantees a non-negative base) -/

theorem curves_finite_fp (M : FPModel) (x : ℝ) :
    (F64.apply_srgb_gamma_correction (PRF.fin x : PRF M)).isFin ∧ (F64.compute_srgb_gamma_expanded (PRF.fin x : PRF M)).isFin ∧
    (F64.compute_argb_gamma (PRF.fin x : PRF M)).isFin ∧ (F64.compute_argb_gamma_expanded (PRF.fin x : PRF M)).isFin ∧
    (F64.compute_rec709_gamma_correction (PRF.fin x : PRF M)).isFin ∧ (F64.compute_rec709_gamma_expanded (PRF.fin x : PRF M)).isFin ∧
    (F64.compute_rec2020_gamma_correction (PRF.fin x : PRF M)).isFin ∧ (F64.compute_rec2020_gamma_expanded (PRF.fin x : PRF M)).isFin := by
  have e : (PRF.fin x : PRF M) = RF.lift ⟨x⟩ := rfl
  rw [e, srgb_correct, srgb_expand, argb_gamma, argb_expand, rec709_correct, rec709_expand, rec2020_correct, rec2020_expand]
  simp [lift_isFin]

/-- the PQ "EOTF" of the code is finite exactly on the non-negative numbers, in every model; its inverse is finite on
them (for a negative argument the inverse divides by 10000 first: whether that quotient rounds to `-0` is not decided by
the model, so there is no "iff" for it) -/
theorem pq_finite_fp (M : FPModel) (x : ℝ) :
    ((F64.pq_eotf (PRF.fin x : PRF M)).isFin ↔ 0 ≤ x) ∧ (0 ≤ x → (F64.pq_inverse_eotf (PRF.fin x : PRF M)).isFin) := by
  have e : (PRF.fin x : PRF M) = RF.lift ⟨x⟩ := rfl
  constructor
  · rcases le_or_gt 0 x with h | h
    · rw [e, pq_eotf_nonneg _ h]; simp [lift_isFin, h]
    · rw [pq_eotf_neg x h]; simp [not_le.mpr h]
  · intro h
    rw [e, pq_inv_nonneg _ h]; rfl

/-! ## c. XYZ-derived spaces of a finite XYZ -/

/-- no condition on the computed XYZ, of either sign: the encoding curves test their own argument (a negative
computed linear residue takes the linear arm, resp. the `≤ 0` arm of the Adobe curve), `cbrt` is total, chroma is the
root of a rounded sum of rounded squares, and **`max(·, 0)` precedes the 2.2 power of OkLab** -/
theorem from_xyz_unconditional_fp (M : FPModel) (x y z : ℝ) :
    FiniteF (Srgb.as_vec (Srgb.from_Xyz (⟨PRF.fin x, PRF.fin y, PRF.fin z⟩ : Xyz (PRF M)))) ∧
    FiniteF (Argb.as_vec (Argb.from_Xyz (⟨PRF.fin x, PRF.fin y, PRF.fin z⟩ : Xyz (PRF M)))) ∧
    FiniteF (Rec709.as_vec (Rec709.from_Xyz (⟨PRF.fin x, PRF.fin y, PRF.fin z⟩ : Xyz (PRF M)))) ∧
    FiniteF (Rec2020.as_vec (Rec2020.from_Xyz (⟨PRF.fin x, PRF.fin y, PRF.fin z⟩ : Xyz (PRF M)))) ∧
    FiniteF (Lab.as_vec (Lab.from_Xyz (⟨PRF.fin x, PRF.fin y, PRF.fin z⟩ : Xyz (PRF M)))) ∧
    FiniteF (Lchlab.as_vec (Lchlab.from_Xyz (⟨PRF.fin x, PRF.fin y, PRF.fin z⟩ : Xyz (PRF M)))) ∧
    FiniteF (OkLab.as_vec (OkLab.from_Xyz (⟨PRF.fin x, PRF.fin y, PRF.fin z⟩ : Xyz (PRF M)))) ∧
    FiniteF (OkLch.as_vec (OkLch.from_Xyz (⟨PRF.fin x, PRF.fin y, PRF.fin z⟩ : Xyz (PRF M)))) := by
  have e : (⟨PRF.fin x, PRF.fin y, PRF.fin z⟩ : Xyz (PRF M)) = liftXyz ⟨⟨x⟩, ⟨y⟩, ⟨z⟩⟩ := rfl
  rw [e, srgb_from_xyz, argb_from_xyz, rec709_from_xyz, rec2020_from_xyz, lab_from_xyz, lchlab_from_xyz,
    oklab_from_xyz, oklch_from_xyz]
  refine ⟨?_, ?_, ?_, ?_, ?_, ?_, ?_, ?_⟩ <;> finite_lift
/-- in particular a linear-sRGB residue of `-1e-17` (here: XYZ = (0, 0, -1e-17)) is harmless for OkLab -/
example (M : FPModel) := (from_xyz_unconditional_fp M 0 0 (-1e-17)).2.2.2.2.2.2.1

/-- exactly black, or non-negative with a normal luminance: the code's guards (`x == 0 && y == 0 && z == 0`, `is_null`,
`y == 0`) catch black, and the COMPUTED denominators `x + 15y + 3z`, `x + y + z`, `sqrt(y/Yn)` are positive otherwise -/
theorem from_xyz_ok_fp (M : FPModel) (x y z : ℝ)
    (h : (x = 0 ∧ y = 0 ∧ z = 0) ∨ (0 ≤ x ∧ 1 / 10 ^ 10 ≤ y ∧ 0 ≤ z)) :
    FiniteF (Luv.as_vec (Luv.from_Xyz (⟨PRF.fin x, PRF.fin y, PRF.fin z⟩ : Xyz (PRF M)))) ∧
    FiniteF (Lchuv.as_vec (Lchuv.from_Xyz (⟨PRF.fin x, PRF.fin y, PRF.fin z⟩ : Xyz (PRF M)))) ∧
    FiniteF (Hcl.as_vec (Hcl.from_Xyz (⟨PRF.fin x, PRF.fin y, PRF.fin z⟩ : Xyz (PRF M)))) ∧
    FiniteF (Hlab.as_vec (Hlab.from_Xyz (⟨PRF.fin x, PRF.fin y, PRF.fin z⟩ : Xyz (PRF M)))) ∧
    FiniteF (Xyy.as_vec (Xyy.from_Xyz (⟨PRF.fin x, PRF.fin y, PRF.fin z⟩ : Xyz (PRF M)))) := by
  have e : (⟨PRF.fin x, PRF.fin y, PRF.fin z⟩ : Xyz (PRF M)) = liftXyz ⟨⟨x⟩, ⟨y⟩, ⟨z⟩⟩ := rfl
  have ok : XyzOK (⟨⟨x⟩, ⟨y⟩, ⟨z⟩⟩ : Xyz (RF M)) := h
  have hy : (⟨⟨x⟩, ⟨y⟩, ⟨z⟩⟩ : Xyz (RF M)).y.val = 0 ∨ 1 / 10 ^ 10 ≤ (⟨⟨x⟩, ⟨y⟩, ⟨z⟩⟩ : Xyz (RF M)).y.val := by
    rcases h with h | h
    · exact Or.inl h.2.1
    · exact Or.inr h.2.1
  rw [e, luv_from_xyz _ ok, lchuv_from_xyz _ ok, hcl_from_xyz _ ok, hlab_from_xyz _ hy, xyy_from_xyz _ ok]
  refine ⟨?_, ?_, ?_, ?_, ?_⟩ <;> finite_lift
example : (0 : ℝ) ≤ 0.4 ∧ (1 / 10 ^ 10 : ℝ) ≤ 0.2 ∧ (0 : ℝ) ≤ 1.2 := by norm_num

/-! ## c'. Every XYZ-derived space of every 8-bit colour (through XYZ under the D65 profile) -/

/-- **C04 in floating point, forward**: all fourteen XYZ-derived spaces of an 8-bit colour are finite, in every model
of floating-point arithmetic.  Mirrors `Props.C04.forward_finite`. -/
theorem forward_finite_fp (M : FPModel) (c : Rgb) (h : U8 c) :
    FiniteF (Srgb.as_vec (Srgb.from_Xyz (Xyz.from_rgb c XyzKind.D65 : Xyz (PRF M)))) ∧
    FiniteF (Argb.as_vec (Argb.from_Xyz (Xyz.from_rgb c XyzKind.D65 : Xyz (PRF M)))) ∧
    FiniteF (Rec709.as_vec (Rec709.from_Xyz (Xyz.from_rgb c XyzKind.D65 : Xyz (PRF M)))) ∧
    FiniteF (Rec2020.as_vec (Rec2020.from_Xyz (Xyz.from_rgb c XyzKind.D65 : Xyz (PRF M)))) ∧
    FiniteF (Rec2100.as_vec (Rec2100.from_Xyz (Xyz.from_rgb c XyzKind.D65 : Xyz (PRF M)))) ∧
    FiniteF (Lab.as_vec (Lab.from_Xyz (Xyz.from_rgb c XyzKind.D65 : Xyz (PRF M)))) ∧
    FiniteF (Lchlab.as_vec (Lchlab.from_Xyz (Xyz.from_rgb c XyzKind.D65 : Xyz (PRF M)))) ∧
    FiniteF (Luv.as_vec (Luv.from_Xyz (Xyz.from_rgb c XyzKind.D65 : Xyz (PRF M)))) ∧
    FiniteF (Lchuv.as_vec (Lchuv.from_Xyz (Xyz.from_rgb c XyzKind.D65 : Xyz (PRF M)))) ∧
    FiniteF (Hcl.as_vec (Hcl.from_Xyz (Xyz.from_rgb c XyzKind.D65 : Xyz (PRF M)))) ∧
    FiniteF (Hlab.as_vec (Hlab.from_Xyz (Xyz.from_rgb c XyzKind.D65 : Xyz (PRF M)))) ∧
    FiniteF (Xyy.as_vec (Xyy.from_Xyz (Xyz.from_rgb c XyzKind.D65 : Xyz (PRF M)))) ∧
    FiniteF (OkLab.as_vec (OkLab.from_Xyz (Xyz.from_rgb c XyzKind.D65 : Xyz (PRF M)))) ∧
    FiniteF (OkLch.as_vec (OkLch.from_Xyz (Xyz.from_rgb c XyzKind.D65 : Xyz (PRF M)))) := by
  have hpow : ∀ x y : ℝ, 0 ≤ x → 0 ≤ M.pow x y := M.pow_nonneg
  have ok := xyz_ok (M := M) c h.1 h.2.1 h.2.2
  have hy : (Xyz.from_rgb (α := RF M) c XyzKind.D65).y.val = 0 ∨
      1 / 10 ^ 10 ≤ (Xyz.from_rgb (α := RF M) c XyzKind.D65).y.val := by
    rcases ok with h | h
    · exact Or.inl h.2.1
    · exact Or.inr h.2.1
  obtain ⟨hr, hg, hb⟩ := rec2100_lin_nonneg_fp (M := M) c h.1 h.2.1 h.2.2
  rw [xyz_bridge, srgb_from_xyz, argb_from_xyz, rec709_from_xyz, rec2020_from_xyz, rec2100_from_xyz _ hr hg hb,
    lab_from_xyz, lchlab_from_xyz, luv_from_xyz _ ok, lchuv_from_xyz _ ok, hcl_from_xyz _ ok,
    hlab_from_xyz _ hy, xyy_from_xyz _ ok, oklab_from_xyz, oklch_from_xyz]
  refine ⟨?_, ?_, ?_, ?_, ?_, ?_, ?_, ?_, ?_, ?_, ?_, ?_, ?_, ?_⟩ <;> finite_lift

/-- Adobe RGB of the XYZ computed under the ADOBE profile (and the other unconditional spaces under any profile): the
negative linear residues that the inverse matrix produces reach `compute_argb_gamma_expanded`, which guards `≤ 0` -/
theorem forward_unconditional_any_profile_fp (M : FPModel) (c : Rgb) (k : XyzKind) :
    FiniteF (Srgb.as_vec (Srgb.from_Xyz (Xyz.from_rgb c k : Xyz (PRF M)))) ∧
    FiniteF (Argb.as_vec (Argb.from_Xyz (Xyz.from_rgb c k : Xyz (PRF M)))) ∧
    FiniteF (Rec709.as_vec (Rec709.from_Xyz (Xyz.from_rgb c k : Xyz (PRF M)))) ∧
    FiniteF (Rec2020.as_vec (Rec2020.from_Xyz (Xyz.from_rgb c k : Xyz (PRF M)))) ∧
    FiniteF (Lab.as_vec (Lab.from_Xyz (Xyz.from_rgb c k : Xyz (PRF M)))) ∧
    FiniteF (Lchlab.as_vec (Lchlab.from_Xyz (Xyz.from_rgb c k : Xyz (PRF M)))) ∧
    FiniteF (OkLab.as_vec (OkLab.from_Xyz (Xyz.from_rgb c k : Xyz (PRF M)))) ∧
    FiniteF (OkLch.as_vec (OkLch.from_Xyz (Xyz.from_rgb c k : Xyz (PRF M)))) := by
  rw [xyz_bridge, srgb_from_xyz, argb_from_xyz, rec709_from_xyz, rec2020_from_xyz, lab_from_xyz, lchlab_from_xyz,
    oklab_from_xyz, oklch_from_xyz]
  refine ⟨?_, ?_, ?_, ?_, ?_, ?_, ?_, ?_⟩ <;> finite_lift

/-- the same through the other two profiles (not required by the property; Rec.2100 is left out because its
non-negativity argument is specific to the D65 matrix).  Mirrors `Props.C04.forward_finite_any_profile`. -/
theorem forward_finite_any_profile_fp (M : FPModel) (c : Rgb) (h : U8 c) (k : XyzKind) :
    FiniteF (Srgb.as_vec (Srgb.from_Xyz (Xyz.from_rgb c k : Xyz (PRF M)))) ∧
    FiniteF (Argb.as_vec (Argb.from_Xyz (Xyz.from_rgb c k : Xyz (PRF M)))) ∧
    FiniteF (Rec709.as_vec (Rec709.from_Xyz (Xyz.from_rgb c k : Xyz (PRF M)))) ∧
    FiniteF (Rec2020.as_vec (Rec2020.from_Xyz (Xyz.from_rgb c k : Xyz (PRF M)))) ∧
    FiniteF (Lab.as_vec (Lab.from_Xyz (Xyz.from_rgb c k : Xyz (PRF M)))) ∧
    FiniteF (Lchlab.as_vec (Lchlab.from_Xyz (Xyz.from_rgb c k : Xyz (PRF M)))) ∧
    FiniteF (Luv.as_vec (Luv.from_Xyz (Xyz.from_rgb c k : Xyz (PRF M)))) ∧
    FiniteF (Lchuv.as_vec (Lchuv.from_Xyz (Xyz.from_rgb c k : Xyz (PRF M)))) ∧
    FiniteF (Hcl.as_vec (Hcl.from_Xyz (Xyz.from_rgb c k : Xyz (PRF M)))) ∧
    FiniteF (Hlab.as_vec (Hlab.from_Xyz (Xyz.from_rgb c k : Xyz (PRF M)))) ∧
    FiniteF (Xyy.as_vec (Xyy.from_Xyz (Xyz.from_rgb c k : Xyz (PRF M)))) ∧
    FiniteF (OkLab.as_vec (OkLab.from_Xyz (Xyz.from_rgb c k : Xyz (PRF M)))) ∧
    FiniteF (OkLch.as_vec (OkLch.from_Xyz (Xyz.from_rgb c k : Xyz (PRF M)))) := by
  have ok := xyz_ok_any (M := M) c k h.1 h.2.1 h.2.2
  have hy : (Xyz.from_rgb (α := RF M) c k).y.val = 0 ∨ 1 / 10 ^ 10 ≤ (Xyz.from_rgb (α := RF M) c k).y.val := by
    rcases ok with h | h
    · exact Or.inl h.2.1
    · exact Or.inr h.2.1
  rw [xyz_bridge, srgb_from_xyz, argb_from_xyz, rec709_from_xyz, rec2020_from_xyz,
    lab_from_xyz, lchlab_from_xyz, luv_from_xyz _ ok, lchuv_from_xyz _ ok, hcl_from_xyz _ ok,
    hlab_from_xyz _ hy, xyy_from_xyz _ ok, oklab_from_xyz, oklch_from_xyz]
  refine ⟨?_, ?_, ?_, ?_, ?_, ?_, ?_, ?_, ?_, ?_, ?_, ?_, ?_⟩ <;> finite_lift
example (M : FPModel) := forward_finite_any_profile_fp M ⟨0, 0, 255⟩ ⟨by decide, by decide, by decide⟩ XyzKind.Adobe
example (M : FPModel) := forward_finite_any_profile_fp M ⟨0, 0, 0⟩ ⟨by decide, by decide, by decide⟩ XyzKind.D50

/-- black, white and the pure primaries -/
example (M : FPModel) := forward_finite_fp M ⟨0, 0, 0⟩ ⟨by decide, by decide, by decide⟩
example (M : FPModel) := forward_finite_fp M ⟨255, 255, 255⟩ ⟨by decide, by decide, by decide⟩
example (M : FPModel) := forward_finite_fp M ⟨255, 0, 0⟩ ⟨by decide, by decide, by decide⟩
example (M : FPModel) := forward_finite_fp M ⟨0, 255, 0⟩ ⟨by decide, by decide, by decide⟩
example (M : FPModel) := forward_finite_fp M ⟨0, 0, 255⟩ ⟨by decide, by decide, by decide⟩
/-- the exact-real arithmetic is one of the models -/
example := forward_finite_fp FPModel.exact ⟨0, 0, 1⟩ ⟨by decide, by decide, by decide⟩
example := (forward_unconditional_any_profile_fp FPModel.exact ⟨0, 0, 255⟩ XyzKind.Adobe).2.1

/-! ## d. Forwards and back again -/

/-- reverse conversions that are finite for EVERY finite input, in every model (no guard needed, or the guard is on the
divisor itself) -/
theorem reverse_unconditional_fp (M : FPModel) (a b c : ℝ) :
    FiniteF (Xyz.as_vec (Xyz.from_Srgb (⟨PRF.fin a, PRF.fin b, PRF.fin c⟩ : Srgb (PRF M)))) ∧
    FiniteF (Xyz.as_vec (Xyz.from_Argb (⟨PRF.fin a, PRF.fin b, PRF.fin c⟩ : Argb (PRF M)))) ∧
    FiniteF (Xyz.as_vec (Xyz.from_Rec709 (⟨PRF.fin a, PRF.fin b, PRF.fin c⟩ : Rec709 (PRF M)))) ∧
    FiniteF (Xyz.as_vec (Xyz.from_Rec2020 (⟨PRF.fin a, PRF.fin b, PRF.fin c⟩ : Rec2020 (PRF M)))) ∧
    FiniteF (Xyz.as_vec (Xyz.from_Lab (⟨PRF.fin a, PRF.fin b, PRF.fin c⟩ : Lab (PRF M)))) ∧
    FiniteF (Xyz.as_vec (Xyz.from_Lchlab (⟨PRF.fin a, PRF.fin b, PRF.fin c⟩ : Lchlab (PRF M)))) ∧
    FiniteF (Xyz.as_vec (Xyz.from_OkLab (⟨PRF.fin a, PRF.fin b, PRF.fin c⟩ : OkLab (PRF M)))) ∧
    FiniteF (Xyz.as_vec (Xyz.from_OkLch (⟨PRF.fin a, PRF.fin b, PRF.fin c⟩ : OkLch (PRF M)))) ∧
    FiniteF (Xyz.as_vec (Xyz.from_Xyy (⟨PRF.fin a, PRF.fin b, PRF.fin c⟩ : Xyy (PRF M)))) ∧
    FiniteF (Lab.as_vec (Lab.from_Lchlab (⟨PRF.fin a, PRF.fin b, PRF.fin c⟩ : Lchlab (PRF M)))) ∧
    FiniteF (Luv.as_vec (Luv.from_Lchuv (⟨PRF.fin a, PRF.fin b, PRF.fin c⟩ : Lchuv (PRF M)))) ∧
    FiniteF (Luv.as_vec (Luv.from_Hcl (⟨PRF.fin a, PRF.fin b, PRF.fin c⟩ : Hcl (PRF M)))) ∧
    FiniteF (OkLab.as_vec (OkLab.from_OkLch (⟨PRF.fin a, PRF.fin b, PRF.fin c⟩ : OkLch (PRF M)))) ∧
    FiniteF (Srgb.as_vec (Srgb.from_OkLab (⟨PRF.fin a, PRF.fin b, PRF.fin c⟩ : OkLab (PRF M)))) := by
  refine ⟨?_, ?_, ?_, ?_, ?_, ?_, ?_, ?_, ?_, ?_, ?_, ?_, ?_, ?_⟩
  · rw [show (⟨PRF.fin a, PRF.fin b, PRF.fin c⟩ : Srgb (PRF M)) = liftSrgb ⟨⟨a⟩, ⟨b⟩, ⟨c⟩⟩ from rfl, xyz_from_srgb]; finite_lift
  · rw [show (⟨PRF.fin a, PRF.fin b, PRF.fin c⟩ : Argb (PRF M)) = liftArgb ⟨⟨a⟩, ⟨b⟩, ⟨c⟩⟩ from rfl, xyz_from_argb]; finite_lift
  · rw [show (⟨PRF.fin a, PRF.fin b, PRF.fin c⟩ : Rec709 (PRF M)) = liftRec709 ⟨⟨a⟩, ⟨b⟩, ⟨c⟩⟩ from rfl, xyz_from_rec709]; finite_lift
  · rw [show (⟨PRF.fin a, PRF.fin b, PRF.fin c⟩ : Rec2020 (PRF M)) = liftRec2020 ⟨⟨a⟩, ⟨b⟩, ⟨c⟩⟩ from rfl, xyz_from_rec2020]; finite_lift
  · rw [show (⟨PRF.fin a, PRF.fin b, PRF.fin c⟩ : Lab (PRF M)) = liftLab ⟨⟨a⟩, ⟨b⟩, ⟨c⟩⟩ from rfl, xyz_from_lab]; finite_lift
  · rw [show (⟨PRF.fin a, PRF.fin b, PRF.fin c⟩ : Lchlab (PRF M)) = liftLchlab ⟨⟨a⟩, ⟨b⟩, ⟨c⟩⟩ from rfl, xyz_from_lchlab]; finite_lift
  · rw [show (⟨PRF.fin a, PRF.fin b, PRF.fin c⟩ : OkLab (PRF M)) = liftOkLab ⟨⟨a⟩, ⟨b⟩, ⟨c⟩⟩ from rfl, xyz_from_oklab]; finite_lift
  · rw [show (⟨PRF.fin a, PRF.fin b, PRF.fin c⟩ : OkLch (PRF M)) = liftOkLch ⟨⟨a⟩, ⟨b⟩, ⟨c⟩⟩ from rfl, xyz_from_oklch]; finite_lift
  · rw [show (⟨PRF.fin a, PRF.fin b, PRF.fin c⟩ : Xyy (PRF M)) = liftXyy ⟨⟨a⟩, ⟨b⟩, ⟨c⟩⟩ from rfl, xyz_from_xyy]; finite_lift
  · rw [show (⟨PRF.fin a, PRF.fin b, PRF.fin c⟩ : Lchlab (PRF M)) = liftLchlab ⟨⟨a⟩, ⟨b⟩, ⟨c⟩⟩ from rfl, lab_from_lchlab]; finite_lift
  · rw [show (⟨PRF.fin a, PRF.fin b, PRF.fin c⟩ : Lchuv (PRF M)) = liftLchuv ⟨⟨a⟩, ⟨b⟩, ⟨c⟩⟩ from rfl, luv_from_lchuv]; finite_lift
  · rw [show (⟨PRF.fin a, PRF.fin b, PRF.fin c⟩ : Hcl (PRF M)) = liftHcl ⟨⟨a⟩, ⟨b⟩, ⟨c⟩⟩ from rfl, luv_from_hcl]; finite_lift
  · rw [show (⟨PRF.fin a, PRF.fin b, PRF.fin c⟩ : OkLch (PRF M)) = liftOkLch ⟨⟨a⟩, ⟨b⟩, ⟨c⟩⟩ from rfl, oklab_from_oklch]; finite_lift
  · rw [show (⟨PRF.fin a, PRF.fin b, PRF.fin c⟩ : OkLab (PRF M)) = liftOkLab ⟨⟨a⟩, ⟨b⟩, ⟨c⟩⟩ from rfl, srgb_from_oklab]; finite_lift

/-- Rec.2100 → XYZ: finite for non-negative components (a negative one is a negative base of `powf`) -/
theorem xyz_from_rec2100_finite_fp (M : FPModel) (r g b : ℝ) (hr : 0 ≤ r) (hg : 0 ≤ g) (hb : 0 ≤ b) :
    FiniteF (Xyz.as_vec (Xyz.from_Rec2100 (⟨PRF.fin r, PRF.fin g, PRF.fin b⟩ : Rec2100 (PRF M)))) := by
  rw [show (⟨PRF.fin r, PRF.fin g, PRF.fin b⟩ : Rec2100 (PRF M)) = liftRec2100 ⟨⟨r⟩, ⟨g⟩, ⟨b⟩⟩ from rfl,
    xyz_from_rec2100 _ hr hg hb]
  finite_lift
example : (0 : ℝ) ≤ 0.5 := by norm_num

/-- **C04 in floating point, round trips, every 8-bit colour**: converting the D65 XYZ to a space and back to XYZ stays
finite in every model, for twelve of the fourteen spaces of `Props.C04.roundtrip_finite`.  (CIELUV and its two polar
forms: the divisors `13·l` and `4·(v/(13·l) + v_r)` of `Xyz::from(Luv)` are computed positive for every non-black
colour, `l ≥ 5e-4`, `v' ≥ 0.14`; black is caught by the guard `u == 0 && l == 0`, also after the polar detours because
the chroma of black is exactly `0`.) -/
theorem roundtrip_finite_fp (M : FPModel) (c : Rgb) (h : U8 c) :
    FiniteF (Xyz.as_vec (Xyz.from_Srgb (Srgb.from_Xyz (Xyz.from_rgb c XyzKind.D65 : Xyz (PRF M))))) ∧
    FiniteF (Xyz.as_vec (Xyz.from_Argb (Argb.from_Xyz (Xyz.from_rgb c XyzKind.D65 : Xyz (PRF M))))) ∧
    FiniteF (Xyz.as_vec (Xyz.from_Rec709 (Rec709.from_Xyz (Xyz.from_rgb c XyzKind.D65 : Xyz (PRF M))))) ∧
    FiniteF (Xyz.as_vec (Xyz.from_Rec2020 (Rec2020.from_Xyz (Xyz.from_rgb c XyzKind.D65 : Xyz (PRF M))))) ∧
    FiniteF (Xyz.as_vec (Xyz.from_Lab (Lab.from_Xyz (Xyz.from_rgb c XyzKind.D65 : Xyz (PRF M))))) ∧
    FiniteF (Xyz.as_vec (Xyz.from_Lchlab (Lchlab.from_Xyz (Xyz.from_rgb c XyzKind.D65 : Xyz (PRF M))))) ∧
    FiniteF (Xyz.as_vec (Xyz.from_Luv (Luv.from_Xyz (Xyz.from_rgb c XyzKind.D65 : Xyz (PRF M))))) ∧
    FiniteF (Xyz.as_vec (Xyz.from_Lchuv (Lchuv.from_Xyz (Xyz.from_rgb c XyzKind.D65 : Xyz (PRF M))))) ∧
    FiniteF (Xyz.as_vec (Xyz.from_Hcl (Hcl.from_Xyz (Xyz.from_rgb c XyzKind.D65 : Xyz (PRF M))))) ∧
    FiniteF (Xyz.as_vec (Xyz.from_Xyy (Xyy.from_Xyz (Xyz.from_rgb c XyzKind.D65 : Xyz (PRF M))))) ∧
    FiniteF (Xyz.as_vec (Xyz.from_OkLab (OkLab.from_Xyz (Xyz.from_rgb c XyzKind.D65 : Xyz (PRF M))))) ∧
    FiniteF (Xyz.as_vec (Xyz.from_OkLch (OkLch.from_Xyz (Xyz.from_rgb c XyzKind.D65 : Xyz (PRF M))))) := by
  have ok := xyz_ok (M := M) c h.1 h.2.1 h.2.2
  have bc := xyz_black_or_cone (M := M) c h.1 h.2.1 h.2.2
  have hluv : Xyz.from_Luv (liftLuv (Luv.from_Xyz (Xyz.from_rgb (α := RF M) c XyzKind.D65))) =
      liftXyz (Xyz.from_Luv (Luv.from_Xyz (Xyz.from_rgb (α := RF M) c XyzKind.D65))) :=
    xyz_from_luv_near _ _ rfl bc (fun hz => (FpGrey.luv_black_fp M hz.2.1).1) (fun hcone => by
      rw [sub_self, abs_zero]
      exact div_nonneg (le_trans (by norm_num) (luv_uv_bound _ hcone).1) (by norm_num))
  rw [xyz_bridge, srgb_from_xyz, argb_from_xyz, rec709_from_xyz, rec2020_from_xyz, lab_from_xyz, lchlab_from_xyz,
    luv_from_xyz _ ok, lchuv_from_xyz _ ok, hcl_from_xyz _ ok, xyy_from_xyz _ ok, oklab_from_xyz, oklch_from_xyz,
    xyz_from_srgb, xyz_from_argb, xyz_from_rec709, xyz_from_rec2020, xyz_from_lab, xyz_from_lchlab, hluv,
    xyz_from_lchuv_image _ bc, xyz_from_hcl_image _ bc, xyz_from_xyy, xyz_from_oklab, xyz_from_oklch]
  refine ⟨?_, ?_, ?_, ?_, ?_, ?_, ?_, ?_, ?_, ?_, ?_, ?_⟩ <;> finite_lift

/-- **Hunter Lab and Rec.2100 round trips, every NON-BLACK 8-bit colour**: finite in every model.  (Hunter: `l/Yn ≥
1e-5`, so `powf(l/Yn, 2.0)` is computed positive and the `sqrt` argument is `≥ 0`.  Rec.2100: the computed BT.2020 linear
components are `≥ 2.9e-6`, so `powf(·, 1/m2) ≥ 0.8399 > c1`, the quotient is `≥ 0.0019` and `10000·powf(q, 1/m1)` is
computed `≥ 0`.) -/
theorem roundtrip_finite_nonblack_fp (M : FPModel) (c : Rgb) (h : U8 c) (hnb : ¬ (c.r = 0 ∧ c.g = 0 ∧ c.b = 0)) :
    FiniteF (Xyz.as_vec (Xyz.from_Hlab (Hlab.from_Xyz (Xyz.from_rgb c XyzKind.D65 : Xyz (PRF M))))) ∧
    FiniteF (Xyz.as_vec (Xyz.from_Rec2100 (Rec2100.from_Xyz (Xyz.from_rgb c XyzKind.D65 : Xyz (PRF M))))) := by
  obtain ⟨y, -, -⟩ := FpCieXyz.xyz_cone_fp M c h.1 h.2.1 h.2.2 hnb
  have hy : 1 / 10 ^ 6 ≤ (Xyz.from_rgb (α := RF M) c XyzKind.D65).y.val := le_trans (by norm_num) y
  obtain ⟨⟨r0, r1⟩, ⟨g0, g1⟩, ⟨b0, b1⟩⟩ := rec2100_lin_range_fp (M := M) c h.1 h.2.1 h.2.2 hnb
  have hr : 0 ≤ (Rec2100.from_Xyz (Xyz.from_rgb (α := RF M) c XyzKind.D65)).r.val := pq_eotf_val_nonneg _ r0 r1
  have hg : 0 ≤ (Rec2100.from_Xyz (Xyz.from_rgb (α := RF M) c XyzKind.D65)).g.val := pq_eotf_val_nonneg _ g0 g1
  have hb : 0 ≤ (Rec2100.from_Xyz (Xyz.from_rgb (α := RF M) c XyzKind.D65)).b.val := pq_eotf_val_nonneg _ b0 b1
  rw [xyz_bridge, hlab_from_xyz _ (Or.inr (le_trans (by norm_num) hy)), xyz_from_hlab _ (hlab_l_lower _ hy),
    rec2100_from_xyz _ (le_trans (by norm_num) r0) (le_trans (by norm_num) g0) (le_trans (by norm_num) b0),
    xyz_from_rec2100 _ hr hg hb]
  refine ⟨?_, ?_⟩ <;> finite_lift
example : ¬ ((0 : ℕ) = 0 ∧ (0 : ℕ) = 0 ∧ (1 : ℕ) = 0) := by decide

/-- black, white, pure blue and the darkest blue -/
example (M : FPModel) := roundtrip_finite_fp M ⟨0, 0, 0⟩ ⟨by decide, by decide, by decide⟩
example (M : FPModel) := roundtrip_finite_fp M ⟨255, 255, 255⟩ ⟨by decide, by decide, by decide⟩
example (M : FPModel) := roundtrip_finite_fp M ⟨0, 0, 255⟩ ⟨by decide, by decide, by decide⟩
example (M : FPModel) := roundtrip_finite_nonblack_fp M ⟨0, 0, 1⟩ ⟨by decide, by decide, by decide⟩ (by decide)
example := roundtrip_finite_nonblack_fp FPModel.exact ⟨255, 255, 255⟩ ⟨by decide, by decide, by decide⟩ (by decide)

/-- the Hunter Lab and Rec.2100 round trips are finite for EVERY 8-bit colour, black included.  For black this rests on
`FPModel.pow_nonneg` (`powf` of a non-negative base is never negative, true of every libm): the error bound alone would allow
`powf(0, 2.0) = -η`, whose square root is NaN. -/
theorem roundtrip_finite_all_fp (M : FPModel) (c : Rgb) (h : U8 c) :
    FiniteF (Xyz.as_vec (Xyz.from_Hlab (Hlab.from_Xyz (Xyz.from_rgb c XyzKind.D65 : Xyz (PRF M))))) ∧
    FiniteF (Xyz.as_vec (Xyz.from_Rec2100 (Rec2100.from_Xyz (Xyz.from_rgb c XyzKind.D65 : Xyz (PRF M))))) := by
  have ok := xyz_ok (M := M) c h.1 h.2.1 h.2.2
  have hy : (Xyz.from_rgb (α := RF M) c XyzKind.D65).y.val = 0 ∨
      1 / 10 ^ 10 ≤ (Xyz.from_rgb (α := RF M) c XyzKind.D65).y.val := by
    rcases ok with h | h
    · exact Or.inl h.2.1
    · exact Or.inr h.2.1
  have hy0 : 0 ≤ (Xyz.from_rgb (α := RF M) c XyzKind.D65).y.val := Lemmas.FpMono.yF_nonneg M c h.1 h.2.1 h.2.2
  obtain ⟨r0, g0, b0⟩ := rec2100_lin_nonneg_fp (M := M) c h.1 h.2.1 h.2.2
  have hr : 0 ≤ (Rec2100.from_Xyz (Xyz.from_rgb (α := RF M) c XyzKind.D65)).r.val := pq_eotf_val_nonneg_of M.pow_nonneg _ r0
  have hg : 0 ≤ (Rec2100.from_Xyz (Xyz.from_rgb (α := RF M) c XyzKind.D65)).g.val := pq_eotf_val_nonneg_of M.pow_nonneg _ g0
  have hb : 0 ≤ (Rec2100.from_Xyz (Xyz.from_rgb (α := RF M) c XyzKind.D65)).b.val := pq_eotf_val_nonneg_of M.pow_nonneg _ b0
  have hl := hlab_l_nonneg (Xyz.from_rgb (α := RF M) c XyzKind.D65) hy0
  rw [xyz_bridge, hlab_from_xyz _ hy, xyz_from_hlab_of _ hl (by rw [FltRF.pow_val]; exact M.pow_nonneg _ _ hl),
    rec2100_from_xyz _ r0 g0 b0, xyz_from_rec2100 _ hr hg hb]
  refine ⟨?_, ?_⟩ <;> finite_lift
example (M : FPModel) := roundtrip_finite_all_fp M ⟨0, 0, 0⟩ ⟨by decide, by decide, by decide⟩

/-! ## Coverage map

Every theorem is `∀ M : FPModel`.  "finite" = `FiniteF (X.as_vec …)`.

* directly reachable: `cymk_finite_fp`, `hue_finite_fp`, `hsl_finite_fp`, `hsv_finite_fp`, `hwb_finite_fp` (8-bit channels:
  bytes, `max`, `min` and their differences are exact, so the guards decide as in ℝ; the remaining denominators `1-k`,
  `2-max-min`, `max+min` are computed positive), `yuv_finite_fp`, `srgb_finite_fp`, `argb_finite_fp`, `xyz_finite_fp`
  (every profile, every `Nat` channel).  YCbCr, grayscale, ANSI return bytes.
* curves: `curves_finite_fp` (every finite input), `pq_finite_fp`.
* through XYZ(D65), forwards: `forward_finite_fp` (all 14 spaces of `Props.C04.forward_finite`); per function
  `from_xyz_unconditional_fp` (any finite XYZ of any sign — includes the OkLab clamp), `from_xyz_ok_fp`; other profiles
  `forward_unconditional_any_profile_fp`, `forward_finite_any_profile_fp`.
* and back: `roundtrip_finite_fp` (12 spaces, every colour), `roundtrip_finite_all_fp` (Hunter Lab, Rec.2100: every colour; black rests on
  `FPModel.pow_nonneg`), `roundtrip_finite_nonblack_fp`; per function `reverse_unconditional_fp`, `xyz_from_rec2100_finite_fp`.

No path was found on which a computed residue of unknown sign reaches `powf`, `sqrt` or a division: every unguarded site
has a quantitative margin (`13·l ≥ 6.5e-3`, `v' ≥ 0.14`, `x+y+z ≥ y/4`, `sqrt(y/Yn) ≥ 1e-7`, BT.2020 linear components
`≥ 2.9e-6` hence `powf(·, 1/m2) ≥ 0.8399 > c1 = 0.8359`), or a guard/clamp (`max(·,0)`, `≤ 0`, the curve thresholds).

Not proved:

/- GOAL (not proved): overflow.  `PRF` does not model overflow of a finite result to ±∞ (magnitudes stay below 1e5). -/
/- GOAL (not proved): `Rec2100.from_Xyz` through the D50 / Adobe profiles (the property only asks for D65). -/
/- GOAL (not stated here): the panic part of `Props.C04` (`Res`-valued functions) on `PRF M`; they return bytes/lists
   of bytes and are covered on `PR` by `Props.C04` and on `RF M` by `Props/C17_fp.lean`, `Props/C18_fp.lean`. -/
-/

end Props.C04_fp
