import LymuiVerif.Props.C17
import LymuiVerif.Lemmas.FpMiscB
/-!
# C17 — RGB to ANSI-256 / ANSI-16, rounded-arithmetic reading (`RF M`, every `M : FPModel`)

`Ansi::from_rgb` hands four kinds of values to `f64::round`:

| expression                     | exact value                    | denominator |
|--------------------------------|--------------------------------|-------------|
| `v/255*5`   (cube digit)       | `5v/255 = v/51`                | 255 (51)    |
| `v/255`     (ANSI-16 bit)      | `v/255`                        | 255         |
| `m/255*100/50` (brightness)    | `2m/255`                       | 255         |
| `(v-8)/247*24+232` (grey ramp) | `(24(v-8) + 232·247)/247`      | 247         |

**No exact tie of `round` exists for any 8-bit colour**: a fraction `p/q` is a half-integer only if
`2p = (2n+1)q`, and all four denominators (51, 255, 255, 247) are odd, so the left side is even and the right
side odd (`FpMiscB.odd_notie`).  Consequently every exact value is at least `1/(2q) ≥ 1/510` away from every
half-integer, while the rounded-model value is within `1e-12` of it (`FpMiscB.scale5_close`, `unit_close`,
`value_close`, `ramp_close`); `round` therefore returns the exact-real result (`FpMiscB.roundHA_ratio_stable`).
Everything after `round` — the sum `16 + 36a + 6b + c`, the comparisons with `0.0` and `2.0`, the `as u8`
conversions, the integer shifts and checked additions — acts on small whole numbers and is exact in every model.

Hence, for ALL 8-bit colours and EVERY model of the arithmetic, the rounded model returns exactly the code of
the exact-real model (`from_rgb_eq_fp`), namely `Props.C17.code256` / `Props.C17.code16`; every theorem of
`Props/C17.lean` about the generated function transfers verbatim.  No restriction on the colour is needed.
-/
namespace Props.C17_fp
open Gen Lemmas.QuantB2 Props.C16 Props.C17

/-- **C17, ANSI-256, rounded model**: for every 8-bit colour and every model of the arithmetic the code returns
`code256 c` — no panic, no saturation, and no dependence on how the inexact quotients are rounded. -/
theorem c256_formula_fp (M : FPModel) (c : Rgb) (hr : c.r ≤ 255) (hg : c.g ≤ 255) (hb : c.b ≤ 255) :
    Ansi.from_rgb (RF M) c AnsiKind.C256 = Res.ok ⟨code256 c⟩ := by
  simp only [Ansi.from_rgb, Rgb.as_f64, FltRF.lit_val, FltRF.ofNat_val, FltRF.div_val, FltRF.mul_val,
    FltRF.add_val, FltRF.sub_val, FltRF.round_val, FltRF.toU8_eq,
    FpErr.lit_int M 8 (by norm_num), FpErr.lit_int M 247 (by norm_num), FpErr.lit_int M 24 (by norm_num),
    FpErr.lit_int M 232 (by norm_num), FpErr.lit_int M 16 (by norm_num), FpErr.lit_int M 36 (by norm_num),
    FpErr.lit_int M 6 (by norm_num), FpErr.lit_int M 255 (by norm_num), FpErr.lit_int M 5 (by norm_num),
    Res.pure_eq]
  simp only [Nat.cast_ofNat]
  rw [FpMiscB.cube_toU8_fp M c.r c.g c.b hr hg hb]
  unfold code256 rnd5 ramp
  simp only [beq_iff_eq, decide_eq_true_eq]
  split_ifs <;> first | rfl | (exfalso; omega) | (rw [FpMiscB.ramp_toU8_fp M c.r (by omega) (by omega)])

/-- **C17, ANSI-16, rounded model**: for every 8-bit colour and every model of the arithmetic the code returns
`code16 c`. -/
theorem c16_formula_fp (M : FPModel) (c : Rgb) (hr : c.r ≤ 255) (hg : c.g ≤ 255) (hb : c.b ≤ 255) :
    Ansi.from_rgb (RF M) c AnsiKind.C16 = Res.ok ⟨code16 c⟩ := by
  simp only [Ansi.from_rgb, Rgb.as_f64, Rgb.get_min_max, FltRF.lit_val, FltRF.ofNat_val, FltRF.div_val,
    FltRF.mul_val, FltRF.round_val, FltRF.max_val, FltRF.beq_eq, FltRF.toU8_eq,
    FpErr.lit_int M 255 (by norm_num), FpErr.lit_int M 100 (by norm_num), FpErr.lit_int M 50 (by norm_num),
    FpErr.lit_int M 0 (by norm_num), FpErr.lit_int M 2 (by norm_num), Res.pure_eq]
  simp only [Nat.cast_ofNat, Nat.cast_zero, decide_eq_true_eq]
  simp only [FpMiscB.value_eq_fp M c.r c.g c.b hr hg hb, FpMiscB.bit_toU8_fp M c.r hr,
    FpMiscB.bit_toU8_fp M c.g hg, FpMiscB.bit_toU8_fp M c.b hb]
  have e0 : ∀ n : ℕ, ((n : ℝ) = 0) ↔ n = 0 := fun n => by exact_mod_cast Iff.rfl
  have e2 : ∀ n : ℕ, ((n : ℝ) = 2) ↔ n = 2 := fun n => by exact_mod_cast Iff.rfl
  simp only [e0, e2]
  unfold code16 bit
  generalize hm : max c.b (max c.r c.g) = m
  have hm255 : m ≤ 255 := by omega
  have k0 : ((4 * m + 255) / 510 = 0) ↔ 4 * m < 255 := by omega
  have k2 : ((4 * m + 255) / 510 = 2) ↔ 765 ≤ 4 * m := by omega
  have hx : (if 128 ≤ c.b then 1 else 0) ≤ 1 := by split_ifs <;> omega
  have hy : (if 128 ≤ c.g then 1 else 0) ≤ 1 := by split_ifs <;> omega
  have hz : (if 128 ≤ c.r then 1 else 0) ≤ 1 := by split_ifs <;> omega
  rw [bits_pack _ _ _ hx hy hz, add60 _ (by omega)]
  simp only [k0, k2]
  split_ifs <;> first | rfl | (exfalso; omega)

/-- **C17, agreement of the two readings**: for every 8-bit colour, both kinds, and every model of the arithmetic,
the rounded model returns exactly what the exact-real model returns.  (No tie of `round` exists: see the file
header.) -/
theorem from_rgb_eq_fp (M : FPModel) (c : Rgb) (k : AnsiKind) (hr : c.r ≤ 255) (hg : c.g ≤ 255) (hb : c.b ≤ 255) :
    Ansi.from_rgb (RF M) c k = Ansi.from_rgb ℝ c k := by
  cases k
  · rw [c16_formula_fp M c hr hg hb, c16_formula c hr hg hb]
  · rw [c256_formula_fp M c hr hg hb, c256_formula c hr hg hb]

/-! ## Corollaries, transferred from `Props/C17.lean` -/

/-- the ANSI-256 code is a `u8` and never names one of the 16 system colours -/
theorem c256_no_system_colour_fp (M : FPModel) (c : Rgb) (hr : c.r ≤ 255) (hg : c.g ≤ 255) (hb : c.b ≤ 255) :
    ∃ a, Ansi.from_rgb (RF M) c AnsiKind.C256 = Res.ok a ∧ 16 ≤ a._0 ∧ a._0 ≤ 255 := by
  rw [from_rgb_eq_fp M c _ hr hg hb]; exact c256_no_system_colour c hr hg hb

/-- **round trip**: encoding in the rounded model and decoding succeeds and returns a colour within 69 of the
input per channel -/
theorem c256_roundtrip_near_fp (M : FPModel) (c : Rgb) (hr : c.r ≤ 255) (hg : c.g ≤ 255) (hb : c.b ≤ 255) :
    ∃ a d, Ansi.from_rgb (RF M) c AnsiKind.C256 = Res.ok a ∧ Rgb.try_from_Ansi a = Res.ok (Except.ok d) ∧
      nearRgb 69 d c := by
  rw [from_rgb_eq_fp M c _ hr hg hb]; exact c256_roundtrip_near c hr hg hb

/-- **greys**: a grey of level `v` is encoded (rounded model) and decoded to the neutral colour of brightness
`greyOut v`, within 11 of `v` -/
theorem c256_grey_roundtrip_fp (M : FPModel) (v : ℕ) (hv : v ≤ 255) :
    ∃ a, Ansi.from_rgb (RF M) ⟨v, v, v⟩ AnsiKind.C256 = Res.ok a ∧
      Rgb.try_from_Ansi a = Res.ok (Except.ok ⟨greyOut v, greyOut v, greyOut v⟩) ∧
      near 11 (greyOut v) v := by
  rw [from_rgb_eq_fp M ⟨v, v, v⟩ _ hv hv hv]; exact c256_grey_roundtrip v hv

/-- the ANSI-16 code is a foreground colour code: 30..37 or 90..97 -/
theorem c16_range_fp (M : FPModel) (c : Rgb) (hr : c.r ≤ 255) (hg : c.g ≤ 255) (hb : c.b ≤ 255) :
    ∃ a, Ansi.from_rgb (RF M) c AnsiKind.C16 = Res.ok a ∧
      ((30 ≤ a._0 ∧ a._0 ≤ 37) ∨ (90 ≤ a._0 ∧ a._0 ≤ 97)) := by
  rw [from_rgb_eq_fp M c _ hr hg hb]; exact c16_range c hr hg hb

/-! ## Examples -/

-- a concrete colour, every model
example (M : FPModel) : Ansi.from_rgb (RF M) ⟨92, 191, 84⟩ AnsiKind.C256 = Res.ok ⟨114⟩ :=
  c256_formula_fp M ⟨92, 191, 84⟩ (by decide) (by decide) (by decide)
example (M : FPModel) : Ansi.from_rgb (RF M) ⟨92, 191, 84⟩ AnsiKind.C16 = Res.ok ⟨32⟩ :=
  c16_formula_fp M ⟨92, 191, 84⟩ (by decide) (by decide) (by decide)
example (M : FPModel) : Ansi.from_rgb (RF M) ⟨250, 10, 200⟩ AnsiKind.C16 = Res.ok ⟨95⟩ :=
  c16_formula_fp M ⟨250, 10, 200⟩ (by decide) (by decide) (by decide)
-- a grey on the ramp (the only path through the subtraction and the division by 247), every model
example (M : FPModel) : Ansi.from_rgb (RF M) ⟨128, 128, 128⟩ AnsiKind.C256 = Res.ok ⟨244⟩ :=
  c256_formula_fp M ⟨128, 128, 128⟩ (by decide) (by decide) (by decide)
-- the exact-arithmetic model is an instance
example (c : Rgb) (hr : c.r ≤ 255) (hg : c.g ≤ 255) (hb : c.b ≤ 255) :
    Ansi.from_rgb (RF FPModel.exact) c AnsiKind.C256 = Res.ok ⟨code256 c⟩ :=
  c256_formula_fp FPModel.exact c hr hg hb
example (k : AnsiKind) : Ansi.from_rgb (RF FPModel.exact) ⟨92, 191, 84⟩ k = Ansi.from_rgb ℝ ⟨92, 191, 84⟩ k :=
  from_rgb_eq_fp FPModel.exact ⟨92, 191, 84⟩ k (by decide) (by decide) (by decide)
-- the hypotheses are satisfiable
example : (92 : ℕ) ≤ 255 ∧ (191 : ℕ) ≤ 255 ∧ (84 : ℕ) ≤ 255 := by decide

end Props.C17_fp
