import LymuiVerif.Lemmas.FpXyz
import LymuiVerif.Props.C01
/-!
# C01 in the rounded-arithmetic reading: the RGB → XYZ → RGB round trip computed in ANY `FPModel`

`Props/C01.lean` proves on exact reals that the pre-quantisation values of the round trip are within
`0.4` of the original channels, and (`roundtrip_robust`) that any perturbation of at most `0.09` of
those values still quantises to the original colour.  Here: evaluated in `RF M` (all arithmetic
rounded, `powf` 1-ulp, see `Inst/Rounded.lean`) the pre-quantisation values differ from the real
model's by at most `0.02`, for every model, profile and 8-bit colour; hence the round trip is the
identity in every model.

How the delicate points are handled (`Lemmas/FpXyz.lean`):
* near 0 the encoders `x^(1/2.4)` / `x^(256/563)` have unbounded slope: the Hölder bound
  `|a^p - b^p| ≤ |a - b|^p` turns the `3e-12` error of the linear values into at most `3e-5`;
* the reverse matrix produces slightly NEGATIVE linear values for colours with a zero channel
  (exact-real residues up to `3e-7`, plus rounding).  They never reach `pow`: the generated sRGB
  encoder sends everything `≤ 0.0031308` through its linear segment `12.92·v` (and the round-trip
  values are at distance `> 3e-5` from that threshold: levels ≤ 10 decode below `0.003036`, levels
  ≥ 11 above `0.0033`, so the computed and the real value take the same branch); the generated Adobe
  encoder returns `0` for `v ≤ 0.0` and the comparison with the literal `0.0` is exact.  So
  `M.pow` is only ever applied to a strictly positive base, where `M.pow_err` applies.
-/
namespace Props.C01
open Gen Lemmas.Matrix Lemmas.XyzDispatch Lemmas.FpXyz

/-- the computed pre-quantisation values of the round trip are within `0.02` of the exact-real
model's (which are within `0.4` of the channels, `pre_quant_close`) -/
theorem pre_quant_close_fp (M : FPModel) (k : XyzKind) (c : Rgb) (hr : c.r ≤ 255) (hg : c.g ≤ 255)
    (hb : c.b ≤ 255) :
    |(preF M k (xyzF M k c)).1.val - (pre k (Xyz.from_rgb c k)).1| ≤ 0.02 ∧
    |(preF M k (xyzF M k c)).2.1.val - (pre k (Xyz.from_rgb c k)).2.1| ≤ 0.02 ∧
    |(preF M k (xyzF M k c)).2.2.val - (pre k (Xyz.from_rgb c k)).2.2| ≤ 0.02 :=
  pre_fp_close M k c hr hg hb

/-- **C01, rounded model**: for every model of floating-point arithmetic, every profile and every
8-bit colour, `as_rgb (from_rgb c k) k = c` — exactly. -/
theorem roundtrip_fp (M : FPModel) (k : XyzKind) (c : Rgb) (hr : c.r ≤ 255) (hg : c.g ≤ 255)
    (hb : c.b ≤ 255) : Xyz.as_rgb (Xyz.from_rgb (α := RF M) c k) k = c := by
  obtain ⟨p1, p2, p3⟩ := pre_quant_close_fp M k c hr hg hb
  have h := roundtrip_robust k c hr hg hb _ _ _ (p1.trans (by norm_num)) (p2.trans (by norm_num))
    (p3.trans (by norm_num))
  rw [as_rgb_eq_fp, from_rgb_eq_fp']
  simpa [Q] using h

-- the colour of the crate's own tests and colours with zero channels (negative linear residues),
-- in the three profiles; `FPModel.exact` shows the hypothesis "M is a model" is satisfiable
example : Xyz.as_rgb (Xyz.from_rgb (α := RF FPModel.exact) ⟨50, 10, 95⟩ .D65) .D65 = ⟨50, 10, 95⟩ :=
  roundtrip_fp FPModel.exact .D65 ⟨50, 10, 95⟩ (by norm_num) (by norm_num) (by norm_num)
example (M : FPModel) : Xyz.as_rgb (Xyz.from_rgb (α := RF M) ⟨0, 11, 255⟩ .D50) .D50 = ⟨0, 11, 255⟩ :=
  roundtrip_fp M .D50 ⟨0, 11, 255⟩ (by norm_num) (by norm_num) (by norm_num)
example (M : FPModel) : Xyz.as_rgb (Xyz.from_rgb (α := RF M) ⟨0, 0, 255⟩ .Adobe) .Adobe = ⟨0, 0, 255⟩ :=
  roundtrip_fp M .Adobe ⟨0, 0, 255⟩ (by norm_num) (by norm_num) (by norm_num)

example (M : FPModel) : |(preF M .Adobe (xyzF M .Adobe ⟨0, 1, 255⟩)).1.val -
    (pre .Adobe (Xyz.from_rgb ⟨0, 1, 255⟩ .Adobe)).1| ≤ 0.02 :=
  (pre_quant_close_fp M .Adobe ⟨0, 1, 255⟩ (by norm_num) (by norm_num) (by norm_num)).1

end Props.C01
