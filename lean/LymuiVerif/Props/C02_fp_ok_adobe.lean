import LymuiVerif.Lemmas.FpRequant2
import LymuiVerif.Props.C02_fp_rest
/-!
# C02 in the rounded-arithmetic reading: re-quantisation through Adobe RGB, OkLab and OkLCh (`RF M`, EVERY `M : FPModel`)

C02, second sentence: for every 8-bit colour, `rgb → xyz → space → xyz → rgb` returns the colour.  `Props/C02_fp_cie.lean`,
`C02_fp_luv.lean`, `C02_fp_rest.lean` prove it in `RF M` for CIELAB, xyY, CIELUV, sRGB, Rec.709, Rec.2020, LCh(ab), LCh(uv), HCL.
This file closes the last three cases, with EVERY operation evaluated in `RF M`:

* `argb_requant_fp` — Adobe RGB, XYZ under the Adobe profile;
* `oklab_requant_fp` — OkLab (D65);
* `oklch_requant_fp` — OkLCh (D65);
* `oklab_roundtrip_fp`, `oklch_roundtrip_fp` (first sentence of C02 for the two spaces, which was open as well): the round trip
  computed in `RF M` is within `1.35e-4` of the real-model XYZ (exact-real `1.25e-4`, `Props.C02_cie.oklab_roundtrip_of_rgb`);
  `oklab_roundtrip_5e4_fp`, `oklch_roundtrip_5e4_fp`.  (Adobe RGB: `Props.C02_fp_rest.argb_roundtrip_5e4_fp`.)

How (helpers in `Lemmas/FpRequant2.lean`).  The GOAL comments of `Props/C02_fp_rest.lean` located the obstacle in the curves with
unbounded slope at 0 (`x^(256/563)`, `x^(1/2.2)`): a rounding error of the ARGUMENT is amplified without bound.  The way out is to
measure each rounded curve evaluation against the exact-real curve at the SAME, computed, argument: the error is then that of
`powf` and of the rounded exponent only (`1e-14`, absolute), and the computed intermediate values are fed as real numbers into the
exact-real lemmas that exist (`Lemmas.ArgbRequantF1a.lin_core_adobe`, `Lemmas.OkLabF1b.ottosson_roundtrip`,
`Lemmas.OkLabXyzF1b.dec_rpow_perturb`), which have the needed slack:

* Adobe: `decode (encode a)` is within `4e-14` of `max a 0` (`Lemmas.FpRequant2.argb_dec_enc_sharp`; before: `4.2e-7`); the
  recovered linear-light channel is within `2.4e-4·lin + 1e-6 + 1.1e-11` of the level's; a level-0 channel tolerates `1.06e-6`
  (`Lemmas.CurvesF1a.argb_fact_zero_wide`; the true limit is `1.1067e-6`).  Margin in the real model `0.01` of a level, rounded
  evaluation of the final encoder `1e-11` of a level.
* OkLab: the computed OkLab value is within `1e-13` of Ottosson's transform of `pow22` of the COMPUTED encoded sRGB triple
  (`Lemmas.FpEnc.oklab_core` with `e = 0`); Ottosson's inverse at the computed value returns that triple within
  `5.8e-7·1.000001 + 2.3e-11 ≤ 5.82e-7` (`ottosson_roundtrip`, `ottossonInv_pert`), so the constants of the exact-real proof
  apply unchanged; the decoded channels are within `1.23e-4` (level 0; limit `0.5/(12.92·255) = 1.5176e-4`) resp. `4e-5`
  (levels `≥ 1`; limit `9e-5`) of the colour's linear-light channels (`d65_requant_of_dec`).  The reverse lemmas are proved on
  the wide box `|L| ≤ 1.01`, `|a| ≤ 4.9`, `|b| ≤ 1.7`, `|R1·lab| ≤ 1.01`, linear channels `≤ 1.0001`
  (`oklin_fp_wide`, `chan_dec_wide`); no sharp range theorem for `a`, `b` is needed.
* OkLCh: `Lemmas.FpRequant.oklch_cart_rt_fp` (the polar detour moves `a`, `b` by at most `3e-14·C + 1e-99`), absorbed by the
  `4e-13` that `oklab_back_core` tolerates.
* black: the computed OkLab of black is not exactly zero (`|powf(0, 2.2)| ≤ 2^-1075` only), but at most `1e-70`
  (`Lemmas.FpEnc.oklab_black`); it is handled by the same lemma with the linear triple `(0, 0, 0)`.

No colour class without slack was found: the statements hold in every `FPModel`, with room (level-0 channels next to full
channels are the tightest: Adobe `0.49 + 1e-11 < 0.5` of a level; OkLab `(1.23e-4 + 6e-7)·12.92·255 + 0.02 = 0.43 < 0.5`).
-/
namespace Props.C02_fp_ok_adobe
open Gen Props.C02_fp_cie

/-- **C02, Adobe RGB (XYZ under the Adobe profile), second sentence, rounded model**: `rgb → xyz → Adobe RGB → xyz → rgb`
returns the colour exactly, in every `FPModel` (exact-real: `Props.C02_requant.argb_requant_8bit_adobe`) -/
theorem argb_requant_fp (M : FPModel) (c : Rgb) (hr : c.r ≤ 255) (hg : c.g ≤ 255) (hb : c.b ≤ 255) :
    Xyz.as_rgb (Xyz.from_Argb (Argb.from_Xyz (Xyz.from_rgb (α := RF M) c .Adobe))) .Adobe = c :=
  Lemmas.FpRequant2.argb_requant_core M c hr hg hb

/-- **C02, OkLab, second sentence, rounded model** (exact-real: `Props.C02_cie.oklab_requant`) -/
theorem oklab_requant_fp (M : FPModel) (c : Rgb) (hr : c.r ≤ 255) (hg : c.g ≤ 255) (hb : c.b ≤ 255) :
    Xyz.as_rgb (Xyz.from_OkLab (OkLab.from_Xyz (Xyz.from_rgb (α := RF M) c .D65))) .D65 = c :=
  Lemmas.FpRequant2.oklab_requant_core M c hr hg hb

/-- **C02, OkLCh, second sentence, rounded model** (exact-real: `Props.C02_cie.oklab_requant`, second component) -/
theorem oklch_requant_fp (M : FPModel) (c : Rgb) (hr : c.r ≤ 255) (hg : c.g ≤ 255) (hb : c.b ≤ 255) :
    Xyz.as_rgb (Xyz.from_OkLch (OkLch.from_Xyz (Xyz.from_rgb (α := RF M) c .D65))) .D65 = c :=
  Lemmas.FpRequant2.oklch_requant_core M c hr hg hb

/-- **C02, OkLab, first sentence, rounded model**: the round trip computed in `RF M` is within `1.35e-4` of the real-model XYZ
(exact-real: `1.25e-4`, `Props.C02_cie.oklab_roundtrip_of_rgb`; the constant is `1.0891·1.23e-4`, the D65 rows applied to the
decoded channels, which are within `1.23e-4` of the colour's linear-light channels) -/
theorem oklab_roundtrip_fp (M : FPModel) (c : Rgb) (hr : c.r ≤ 255) (hg : c.g ≤ 255) (hb : c.b ≤ 255) :
    NearFp (135 / 10 ^ 6) (Xyz.from_OkLab (OkLab.from_Xyz (Xyz.from_rgb (α := RF M) c .D65)))
      (Xyz.from_rgb (α := ℝ) c .D65) := by
  obtain ⟨k1, k2, k3⟩ := (Lemmas.FpRequant2.oklab_decok M c hr hg hb).near M hr hg hb
  exact ⟨k1.trans (by norm_num), k2.trans (by norm_num), k3.trans (by norm_num)⟩

/-- **C02, OkLCh, first sentence, rounded model**: within `1.35e-4` of the real-model XYZ -/
theorem oklch_roundtrip_fp (M : FPModel) (c : Rgb) (hr : c.r ≤ 255) (hg : c.g ≤ 255) (hb : c.b ≤ 255) :
    NearFp (135 / 10 ^ 6) (Xyz.from_OkLch (OkLch.from_Xyz (Xyz.from_rgb (α := RF M) c .D65)))
      (Xyz.from_rgb (α := ℝ) c .D65) := by
  obtain ⟨k1, k2, k3⟩ := (Lemmas.FpRequant2.oklch_decok M c hr hg hb).near M hr hg hb
  exact ⟨k1.trans (by norm_num), k2.trans (by norm_num), k3.trans (by norm_num)⟩

theorem oklab_roundtrip_5e4_fp (M : FPModel) (c : Rgb) (hr : c.r ≤ 255) (hg : c.g ≤ 255) (hb : c.b ≤ 255) :
    NearFp 5e-4 (Xyz.from_OkLab (OkLab.from_Xyz (Xyz.from_rgb (α := RF M) c .D65))) (Xyz.from_rgb (α := ℝ) c .D65) :=
  (oklab_roundtrip_fp M c hr hg hb).mono (by norm_num)

theorem oklch_roundtrip_5e4_fp (M : FPModel) (c : Rgb) (hr : c.r ≤ 255) (hg : c.g ≤ 255) (hb : c.b ≤ 255) :
    NearFp 5e-4 (Xyz.from_OkLch (OkLch.from_Xyz (Xyz.from_rgb (α := RF M) c .D65))) (Xyz.from_rgb (α := ℝ) c .D65) :=
  (oklch_roundtrip_fp M c hr hg hb).mono (by norm_num)

/-- the sharpened Adobe curve pair in `RF M`: `decode (encode a)` within `4e-14` of `max a 0` for every computed `a ≤ 1.001`
(`Props.C08_fp_reverse.adobe_dec_enc_fp` has `4.2e-7`) -/
theorem adobe_dec_enc_sharp_fp (M : FPModel) (a : RF M) (ha : a.val ≤ 1.001) :
    |(F64.compute_argb_gamma (F64.compute_argb_gamma_expanded a)).val - max a.val 0| ≤ 4e-14 :=
  Lemmas.FpRequant2.argb_dec_enc_sharp M a ha

/-! ## examples -/

-- a level-0 channel next to full channels (the tightest class), black, white, pure green (largest OkLab XYZ error)
example (M : FPModel) : Xyz.as_rgb (Xyz.from_Argb (Argb.from_Xyz (Xyz.from_rgb (α := RF M) ⟨0, 255, 255⟩ .Adobe))) .Adobe
    = ⟨0, 255, 255⟩ := argb_requant_fp M _ (by norm_num) (by norm_num) (by norm_num)
example (M : FPModel) : Xyz.as_rgb (Xyz.from_Argb (Argb.from_Xyz (Xyz.from_rgb (α := RF M) ⟨0, 0, 0⟩ .Adobe))) .Adobe
    = ⟨0, 0, 0⟩ := argb_requant_fp M _ (by norm_num) (by norm_num) (by norm_num)
example : Xyz.as_rgb (Xyz.from_Argb (Argb.from_Xyz (Xyz.from_rgb (α := RF FPModel.exact) ⟨0, 1, 255⟩ .Adobe))) .Adobe
    = ⟨0, 1, 255⟩ := argb_requant_fp FPModel.exact _ (by norm_num) (by norm_num) (by norm_num)
example (M : FPModel) : Xyz.as_rgb (Xyz.from_OkLab (OkLab.from_Xyz (Xyz.from_rgb (α := RF M) ⟨0, 255, 0⟩ .D65))) .D65
    = ⟨0, 255, 0⟩ := oklab_requant_fp M _ (by norm_num) (by norm_num) (by norm_num)
example (M : FPModel) : Xyz.as_rgb (Xyz.from_OkLab (OkLab.from_Xyz (Xyz.from_rgb (α := RF M) ⟨0, 0, 0⟩ .D65))) .D65
    = ⟨0, 0, 0⟩ := oklab_requant_fp M _ (by norm_num) (by norm_num) (by norm_num)
example (M : FPModel) : Xyz.as_rgb (Xyz.from_OkLab (OkLab.from_Xyz (Xyz.from_rgb (α := RF M) ⟨255, 255, 255⟩ .D65))) .D65
    = ⟨255, 255, 255⟩ := oklab_requant_fp M _ (by norm_num) (by norm_num) (by norm_num)
example (M : FPModel) : Xyz.as_rgb (Xyz.from_OkLch (OkLch.from_Xyz (Xyz.from_rgb (α := RF M) ⟨1, 0, 255⟩ .D65))) .D65
    = ⟨1, 0, 255⟩ := oklch_requant_fp M _ (by norm_num) (by norm_num) (by norm_num)
-- greys (exact hue 0 or a tiny chroma: the polar detour is still covered)
example : Xyz.as_rgb (Xyz.from_OkLch (OkLch.from_Xyz (Xyz.from_rgb (α := RF FPModel.exact) ⟨128, 128, 128⟩ .D65))) .D65
    = ⟨128, 128, 128⟩ := oklch_requant_fp FPModel.exact _ (by norm_num) (by norm_num) (by norm_num)
example (M : FPModel) : |(F64.compute_argb_gamma (F64.compute_argb_gamma_expanded (⟨1e-30⟩ : RF M))).val - 1e-30| ≤ 4e-14 := by
  have h := adobe_dec_enc_sharp_fp M ⟨1e-30⟩ (by norm_num)
  rwa [max_eq_left (by norm_num)] at h
example (M : FPModel) : NearFp 5e-4 (Xyz.from_OkLab (OkLab.from_Xyz (Xyz.from_rgb (α := RF M) ⟨0, 255, 0⟩ .D65)))
    (Xyz.from_rgb (α := ℝ) ⟨0, 255, 0⟩ .D65) := oklab_roundtrip_5e4_fp M _ (by norm_num) (by norm_num) (by norm_num)
example : NearFp 5e-4 (Xyz.from_OkLch (OkLch.from_Xyz (Xyz.from_rgb (α := RF FPModel.exact) ⟨12, 200, 0⟩ .D65)))
    (Xyz.from_rgb (α := ℝ) ⟨12, 200, 0⟩ .D65) := oklch_roundtrip_5e4_fp FPModel.exact _ (by norm_num) (by norm_num) (by norm_num)

end Props.C02_fp_ok_adobe
