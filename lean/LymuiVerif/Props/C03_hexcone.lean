import LymuiVerif.Lemmas.HexconeRT
/-!
# C03 (hexcone part) — RGB → HSL / HSV / HWB → RGB returns the colour within 2 / 3 / 3 units

Exact-real instance.  Why the bounds: all three models store the hue rounded to a whole degree.
Every channel is `min + (max - min) · T(hue/60)` with a 1-Lipschitz trapezoid wave `T`; half a
degree of hue error moves a channel by at most `(max - min)/120 ≤ 255/120 = 2.125` units before
quantisation.  HSL re-quantises by rounding (total error ≤ 2), HSV and HWB by truncation (the
result can be 3 below, 2 above).  The wrap of hue 360 to 0 is harmless because `T(0) = T(6)`.
-/
namespace Props.C03_hexcone
open Gen Props.C09 HexconeRT

/-- **hsl_roundtrip**: every channel of `Rgb::from(Hsl::from(c))` is within 2 of `c` -/
theorem hsl_roundtrip (c : Rgb) (hr : c.r ≤ 255) (hg : c.g ≤ 255) (hb : c.b ≤ 255) :
    ((Rgb.from_Hsl (Hsl.from_Rgb (α := ℝ) c)).r ≤ c.r + 2 ∧ c.r ≤ (Rgb.from_Hsl (Hsl.from_Rgb (α := ℝ) c)).r + 2) ∧
    ((Rgb.from_Hsl (Hsl.from_Rgb (α := ℝ) c)).g ≤ c.g + 2 ∧ c.g ≤ (Rgb.from_Hsl (Hsl.from_Rgb (α := ℝ) c)).g + 2) ∧
    ((Rgb.from_Hsl (Hsl.from_Rgb (α := ℝ) c)).b ≤ c.b + 2 ∧ c.b ≤ (Rgb.from_Hsl (Hsl.from_Rgb (α := ℝ) c)).b + 2) := by
  obtain ⟨e1, e2, e3⟩ := hsl_forward c hr hg hb
  obtain ⟨n, hn, hue⟩ := hue_range c
  have h0 : 0 ≤ F64.from_Rgb (α := ℝ) c := by rw [hue]; positivity
  have h1 : F64.from_Rgb (α := ℝ) c < 360 := by rw [hue]; exact_mod_cast hn
  obtain ⟨cr, cg, cb⟩ := channel_T c
  obtain ⟨hC, hB⟩ := hsl_chroma_base c hr hg hb
  rcases hfw : Hsl.from_Rgb (α := ℝ) c with ⟨h, s, l⟩
  rw [hfw] at e1 e2 e3
  simp only at e1 e2 e3
  subst e1 e2 e3
  rw [hsl_reverse _ _ _ h0 h1, hslSector_T _ _ _ h0 h1]
  simp only [q8round, hC, hB]
  have er : 255 * (cmin c / 255 + (cmax c - cmin c) / 255 * Tr (F64.from_Rgb (α := ℝ) c / 60)) =
      cmin c + (cmax c - cmin c) * Tr (F64.from_Rgb (α := ℝ) c / 60) := by ring
  have eg : 255 * (cmin c / 255 + (cmax c - cmin c) / 255 * Tg (F64.from_Rgb (α := ℝ) c / 60)) =
      cmin c + (cmax c - cmin c) * Tg (F64.from_Rgb (α := ℝ) c / 60) := by ring
  have eb : 255 * (cmin c / 255 + (cmax c - cmin c) / 255 * Tb (F64.from_Rgb (α := ℝ) c / 60)) =
      cmin c + (cmax c - cmin c) * Tb (F64.from_Rgb (α := ℝ) c / 60) := by ring
  rw [er, eg, eb]
  obtain ⟨r0, r1, r2⟩ := rt_channel c hr hg hb Tr Tr_lip T_wrap.1 Tr_range c.r cr
  obtain ⟨g0, g1, g2⟩ := rt_channel c hr hg hb Tg Tg_lip T_wrap.2.1 Tg_range c.g cg
  obtain ⟨b0, b1, b2⟩ := rt_channel c hr hg hb Tb Tb_lip T_wrap.2.2 Tb_range c.b cb
  exact ⟨round_near r0 r1 r2, round_near g0 g1 g2, round_near b0 b1 b2⟩

/-- **hsv_roundtrip**: every channel of `Rgb::from(Hsv::from(c))` is within 3 of `c`
(more precisely: at most 2 above and at most 3 below, because the reverse direction truncates) -/
theorem hsv_roundtrip (c : Rgb) (hr : c.r ≤ 255) (hg : c.g ≤ 255) (hb : c.b ≤ 255) :
    ((Rgb.from_Hsv (Hsv.from_Rgb (α := ℝ) c)).r ≤ c.r + 2 ∧ c.r ≤ (Rgb.from_Hsv (Hsv.from_Rgb (α := ℝ) c)).r + 3) ∧
    ((Rgb.from_Hsv (Hsv.from_Rgb (α := ℝ) c)).g ≤ c.g + 2 ∧ c.g ≤ (Rgb.from_Hsv (Hsv.from_Rgb (α := ℝ) c)).g + 3) ∧
    ((Rgb.from_Hsv (Hsv.from_Rgb (α := ℝ) c)).b ≤ c.b + 2 ∧ c.b ≤ (Rgb.from_Hsv (Hsv.from_Rgb (α := ℝ) c)).b + 3) := by
  obtain ⟨e1, e2, e3⟩ := hsv_forward c hr hg hb
  obtain ⟨n, hn, hue⟩ := hue_range c
  have h0 : 0 ≤ F64.from_Rgb (α := ℝ) c := by rw [hue]; positivity
  have h1 : F64.from_Rgb (α := ℝ) c < 360 := by rw [hue]; exact_mod_cast hn
  obtain ⟨cr, cg, cb⟩ := channel_T c
  obtain ⟨hC, hB⟩ := hsv_chroma_base c hr hg hb
  rcases hfw : Hsv.from_Rgb (α := ℝ) c with ⟨h, s, v⟩
  rw [hfw] at e1 e2 e3
  simp only at e1 e2 e3
  subst e1 e2 e3
  rw [hsv_reverse _ _ _ h0 h1, hsvSector_T _ _ _ h0 h1]
  simp only [q8trunc, hC, hB]
  have er : 255 * (cmin c / 255 + (cmax c - cmin c) / 255 * Tr (F64.from_Rgb (α := ℝ) c / 60)) =
      cmin c + (cmax c - cmin c) * Tr (F64.from_Rgb (α := ℝ) c / 60) := by ring
  have eg : 255 * (cmin c / 255 + (cmax c - cmin c) / 255 * Tg (F64.from_Rgb (α := ℝ) c / 60)) =
      cmin c + (cmax c - cmin c) * Tg (F64.from_Rgb (α := ℝ) c / 60) := by ring
  have eb : 255 * (cmin c / 255 + (cmax c - cmin c) / 255 * Tb (F64.from_Rgb (α := ℝ) c / 60)) =
      cmin c + (cmax c - cmin c) * Tb (F64.from_Rgb (α := ℝ) c / 60) := by ring
  rw [er, eg, eb]
  obtain ⟨r0, r1, r2⟩ := rt_channel c hr hg hb Tr Tr_lip T_wrap.1 Tr_range c.r cr
  obtain ⟨g0, g1, g2⟩ := rt_channel c hr hg hb Tg Tg_lip T_wrap.2.1 Tg_range c.g cg
  obtain ⟨b0, b1, b2⟩ := rt_channel c hr hg hb Tb Tb_lip T_wrap.2.2 Tb_range c.b cb
  exact ⟨trunc_near r0 r1 r2, trunc_near g0 g1 g2, trunc_near b0 b1 b2⟩

/-- for every colour except black, HWB decodes through exactly the HSV triple of the colour.
Black is excluded: there `b = 100` and `Rgb::from(Hwb)` divides `w/100` by `1 - b/100 = 0`. -/
theorem hwb_via_hsv (c : Rgb) (hr : c.r ≤ 255) (hg : c.g ≤ 255) (hb : c.b ≤ 255)
    (hnb : 0 < c.r ∨ 0 < c.g ∨ 0 < c.b) :
    Rgb.from_Hwb (Hwb.from_Rgb (α := ℝ) c) = Rgb.from_Hsv (Hsv.from_Rgb (α := ℝ) c) := by
  obtain ⟨e1, e2, e3⟩ := hwb_forward c hr hg hb
  obtain ⟨f1, f2, f3⟩ := hsv_forward c hr hg hb
  obtain ⟨b0, b1, b2⟩ := cmin_cmax_bounds c hr hg hb
  obtain ⟨_, ⟨M1, M2, M3⟩⟩ := channel_bounds c
  have hM : 0 < cmax c := by
    rcases hnb with h | h | h
    · exact lt_of_lt_of_le (by exact_mod_cast h) M1
    · exact lt_of_lt_of_le (by exact_mod_cast h) M2
    · exact lt_of_lt_of_le (by exact_mod_cast h) M3
  rcases hfw : Hwb.from_Rgb (α := ℝ) c with ⟨h, w, b⟩
  rcases hfv : Hsv.from_Rgb (α := ℝ) c with ⟨h', s, v⟩
  rw [hfw] at e1 e2 e3
  rw [hfv] at f1 f2 f3
  simp only at e1 e2 e3 f1 f2 f3
  subst e1 e2 e3 f1 f2 f3
  rw [hwb_reverse_eq]
  have es : (1 - stdW c * 100 / 100 / (1 - stdB c * 100 / 100)) * 100 = stdSHsv c * 100 := by
    unfold stdW stdB stdSHsv
    rw [if_neg (ne_of_gt hM)]
    have hM' : cmax c ≠ 0 := ne_of_gt hM
    have q1 : 1 - (1 - cmax c / 255) * 100 / 100 = cmax c / 255 := by ring
    have q2 : cmin c / 255 * 100 / 100 / (cmax c / 255) = cmin c / cmax c := by field_simp
    have q3 : 1 - cmin c / cmax c = (cmax c - cmin c) / cmax c := by field_simp
    rw [q1, q2, q3]
  have ev : (1 - stdB c * 100 / 100) * 100 = stdV c * 100 := by
    unfold stdB stdV; ring
  rw [es, ev]

/-- **hwb_roundtrip**: every channel of `Rgb::from(Hwb::from(c))` is within 3 of `c`, for every
colour except black (see `hwb_via_hsv`; on black the code divides by zero: in `f64` the saturation
is `NaN` and every channel ends as `NaN as u8 = 0`, on ℝ Mathlib's `0/0 = 0` would give the same
answer for the wrong reason, so nothing is claimed here). -/
theorem hwb_roundtrip (c : Rgb) (hr : c.r ≤ 255) (hg : c.g ≤ 255) (hb : c.b ≤ 255)
    (hnb : 0 < c.r ∨ 0 < c.g ∨ 0 < c.b) :
    ((Rgb.from_Hwb (Hwb.from_Rgb (α := ℝ) c)).r ≤ c.r + 2 ∧ c.r ≤ (Rgb.from_Hwb (Hwb.from_Rgb (α := ℝ) c)).r + 3) ∧
    ((Rgb.from_Hwb (Hwb.from_Rgb (α := ℝ) c)).g ≤ c.g + 2 ∧ c.g ≤ (Rgb.from_Hwb (Hwb.from_Rgb (α := ℝ) c)).g + 3) ∧
    ((Rgb.from_Hwb (Hwb.from_Rgb (α := ℝ) c)).b ≤ c.b + 2 ∧ c.b ≤ (Rgb.from_Hwb (Hwb.from_Rgb (α := ℝ) c)).b + 3) := by
  rw [hwb_via_hsv c hr hg hb hnb]
  exact hsv_roundtrip c hr hg hb

/-- greys survive HSL exactly (rounding quantiser) -/
theorem hsl_roundtrip_grey (v : ℕ) (hv : v ≤ 255) :
    Rgb.from_Hsl (Hsl.from_Rgb (α := ℝ) ⟨v, v, v⟩) = ⟨v, v, v⟩ := by
  obtain ⟨e1, e2, e3⟩ := hsl_forward ⟨v, v, v⟩ hv hv hv
  have hh : F64.from_Rgb (α := ℝ) ⟨v, v, v⟩ = 0 := by
    unfold F64.from_Rgb; simp [get_min_max_spec, cmin, cmax]
  have hs : stdSHsl ⟨v, v, v⟩ = 0 := by simp [stdSHsl, cmax, cmin]
  have hl : stdL ⟨v, v, v⟩ = (v : ℝ) / 255 := by simp [stdL, cmax, cmin]
  rcases hfw : Hsl.from_Rgb (α := ℝ) ⟨v, v, v⟩ with ⟨h, s, l⟩
  rw [hfw] at e1 e2 e3
  simp only at e1 e2 e3
  subst e1 e2 e3
  rw [hh, hs, hl]
  simp [Rgb.from_Hsl, Hsl.compute_shade_of_grey, QuantA2.roundHA_natCast, QuantA2.toU8_natCast hv]

/-! ## Examples -/

-- the hypotheses are satisfiable by a non-grey colour
example : ((Rgb.from_Hsl (Hsl.from_Rgb (α := ℝ) ⟨241, 27, 28⟩)).r ≤ 241 + 2 ∧
    241 ≤ (Rgb.from_Hsl (Hsl.from_Rgb (α := ℝ) ⟨241, 27, 28⟩)).r + 2) :=
  (hsl_roundtrip ⟨241, 27, 28⟩ (by norm_num) (by norm_num) (by norm_num)).1

example : (0 : ℕ) < (⟨241, 27, 28⟩ : Rgb).r ∨ (0 : ℕ) < (⟨241, 27, 28⟩ : Rgb).g ∨
    (0 : ℕ) < (⟨241, 27, 28⟩ : Rgb).b := Or.inl (by norm_num)

end Props.C03_hexcone
