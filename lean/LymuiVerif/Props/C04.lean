import LymuiVerif.Lemmas.DefinedPolar
import LymuiVerif.Lemmas.DefinedPanic
import LymuiVerif.Lemmas.DefinedBytes
import LymuiVerif.Props.C15
import LymuiVerif.Props.C16
import LymuiVerif.Props.C17
import LymuiVerif.Props.C18
/-!
# C04 — every conversion reachable from an 8-bit colour is finite and nothing panics

Instance: `α := PR = Option ℝ` (`LymuiVerif/Inst/Partial.lean`): `some x` is a finite number, `none` a
non-finite one (NaN/±∞).  Division by zero, a power of a negative base, `0` to a negative power and the
square root of a negative number give `none`; `none` propagates; comparisons with `none` are false;
`as u8` of `none` is 0.  Overflow of finite results is NOT modelled (all magnitudes stay below 1e5).

*Panics.*  A generated function can only panic if it is `Res`-valued (the translator emits `Res` exactly
for functions whose MIR has an assert, an `unwrap` or a loop): `Ansi.finalize_computation_to_rgb`,
`Ansi.from_rgb`, `Rgb.try_from_Ansi`, `Shade.compute`, `Tint.compute`.  Part 1 shows none of them
returns `Res.panic` on its domain.  Every other function is a total pure function.

*Finiteness.*  `Finite v` says every entry of the component list `v` is `some _`; it is applied to
`X.as_vec (…)` (the generated component list; its order is C19).  Each theorem is obtained from a
*bridging* lemma of `LymuiVerif/Lemmas/Defined*.lean` of the form `f (lift p) = lift (f p)`: the `PR`
run of `f` on finite inputs never leaves the finite numbers and agrees with the exact-real run.  So the
theorems also show that no real-number theorem about these paths relies on Mathlib's `x / 0 = 0`.

Section 3 maps every path of the property text to its theorem and lists what is NOT proved.
-/
set_option linter.unusedSimpArgs false
set_option linter.unusedVariables false
namespace Props.C04
open Gen Lemmas.Defined

/-! ## Specification -/

/-- every component is a finite number -/
def Finite (v : List PR) : Prop := ∀ x ∈ v, x.isSome = true
/-- an 8-bit colour (the model's `u8` is an unbounded `Nat`) -/
abbrev U8 (c : Rgb) : Prop := Lemmas.Defined.U8 c
/-- the factors the generators must reject: non-finite (`none` = NaN/±∞), or a real outside `]0,1]` -/
abbrev BadFactor (f : PR) : Prop := Lemmas.Defined.BadFactor f

/-- closes `Finite (X.as_vec (liftX _))` -/
macro "finite_lift" : tactic => `(tactic|
  simp [Finite, Cymk.as_vec, Hsl.as_vec, Hsv.as_vec, Hwb.as_vec, Yuv.as_vec, Srgb.as_vec, Argb.as_vec, Xyz.as_vec,
    Lab.as_vec, Lchlab.as_vec, Luv.as_vec, Lchuv.as_vec, Hcl.as_vec, Hlab.as_vec, Xyy.as_vec, OkLab.as_vec,
    OkLch.as_vec, Rec709.as_vec, Rec2020.as_vec, Rec2100.as_vec,
    liftCymk, liftHsl, liftHsv, liftHwb, liftYuv, liftSrgb, liftArgb, liftXyz, liftLab, liftLchlab, liftLuv,
    liftLchuv, liftHcl, liftHlab, liftXyy, liftOkLab, liftOkLch, liftRec709, liftRec2020, liftRec2100])

example : U8 ⟨92, 191, 84⟩ := ⟨by decide, by decide, by decide⟩
example : Finite [some 1, some (-2.5)] := by simp [Finite]
example : ¬ Finite [some 1, (some 1 : PR) / some 0] := by simp [Finite]

/-! ## 1. No panic -/

/-- the cube-level decoder panics exactly for `n ≥ 6` (`n*40+55 ≤ 255 ⇔ n ≤ 5`); its callers pass `x % 6` -/
theorem finalize_panics_iff (n : ℕ) : Ansi.finalize_computation_to_rgb n = Res.panic ↔ 6 ≤ n :=
  finalize_panic_iff n

theorem finalize_no_panic (n : ℕ) (h : n ≤ 5) : Ansi.finalize_computation_to_rgb n ≠ Res.panic :=
  fun e => absurd ((finalize_panic_iff n).mp e) (by omega)
example : (3 : ℕ) ≤ 5 := by decide

/-- on `PR` the RGB→ANSI encoder is the encoder on `ℝ` -/
theorem ansi_encode_eq (c : Rgb) (k : AnsiKind) : Ansi.from_rgb PR c k = Ansi.from_rgb ℝ c k :=
  ansi_from_rgb_eq c k

/-- RGB→ANSI never panics on an 8-bit colour (it returns the code of C17) -/
theorem ansi_encode_no_panic (c : Rgb) (h : U8 c) (k : AnsiKind) :
    Ansi.from_rgb PR c k ≠ Res.panic ∧ ∃ a, Ansi.from_rgb PR c k = Res.ok a := by
  rw [ansi_from_rgb_eq]
  cases k
  · rw [Props.C17.c16_formula c h.1 h.2.1 h.2.2]; exact ⟨by simp, _, rfl⟩
  · rw [Props.C17.c256_formula c h.1 h.2.1 h.2.2]; exact ⟨by simp, _, rfl⟩

/-- every one of the 256 ANSI codes converts to a colour: no panic, no error -/
theorem ansi_decode_total (n : ℕ) (h : n < 256) : ∃ c, Rgb.try_from_Ansi ⟨n⟩ = Res.ok (Except.ok c) :=
  Props.C16.ansi_total n h
example : (231 : ℕ) < 256 := by decide

/-- the generators never panic: EVERY factor (also `none` = NaN/±∞), every colour, every fuel -/
theorem shade_no_panic (fuel : ℕ) (c : Rgb) (f : PR) : Shade.compute fuel c f ≠ Res.panic :=
  shade_ne_panic fuel c f
theorem tint_no_panic (fuel : ℕ) (c : Rgb) (f : PR) : Tint.compute fuel c f ≠ Res.panic :=
  tint_ne_panic fuel c f

/-- a NaN/±∞ factor, or a real factor outside `]0,1]`, is rejected with `Error::Generator` before the loop
(every fuel, also 0).  This is the NaN clause of C18, which the real-number file cannot state. -/
theorem shade_rejects (fuel : ℕ) (c : Rgb) (f : PR) (h : BadFactor f) :
    Shade.compute fuel c f = Res.ok (Except.error LError.Generator) := shade_rejects_bad fuel c f h
theorem tint_rejects (fuel : ℕ) (c : Rgb) (f : PR) (h : BadFactor f) :
    Tint.compute fuel c f = Res.ok (Except.error LError.Generator) := tint_rejects_bad fuel c f h

example : BadFactor none := Or.inl rfl
example : BadFactor (some 0) := Or.inr ⟨0, rfl, Or.inl le_rfl⟩
example : BadFactor ((some 1 : PR) / some 0) := Or.inl (by simp)
example : Shade.compute 0 ⟨102, 170, 119⟩ (none : PR) = Res.ok (Except.error LError.Generator) :=
  shade_rejects _ _ _ (Or.inl rfl)

/-- parsing any text as a hex colour returns a value or an error (`Rgb.try_from_Hex` is `Except`-valued and
pure: no panic) -/
theorem hex_parse_total (s : Str) :
    (∃ c, Rgb.try_from_Hex ⟨s⟩ = .ok c) ∨ (∃ e, Rgb.try_from_Hex ⟨s⟩ = .error e) := by
  cases h : Rgb.try_from_Hex ⟨s⟩ with
  | ok c => exact .inl ⟨c, rfl⟩
  | error e => exact .inr ⟨e, rfl⟩

/-! ## 2a. Conversions taking the colour directly -/

theorem cymk_finite (c : Rgb) : Finite (Cymk.as_vec (Cymk.from_Rgb c : Cymk PR)) := by
  rw [cymk_bridge]; finite_lift
theorem hue_finite (c : Rgb) : (F64.from_Rgb c : PR).isSome = true := by
  rw [hue_bridge]; rfl
theorem hsl_finite (c : Rgb) (h : U8 c) : Finite (Hsl.as_vec (Hsl.from_Rgb c : Hsl PR)) := by
  rw [hsl_bridge c h.1 h.2.1 h.2.2]; finite_lift
theorem hsv_finite (c : Rgb) : Finite (Hsv.as_vec (Hsv.from_Rgb c : Hsv PR)) := by
  rw [hsv_bridge]; finite_lift
theorem hwb_finite (c : Rgb) : Finite (Hwb.as_vec (Hwb.from_Rgb c : Hwb PR)) := by
  rw [hwb_bridge]; finite_lift
theorem yuv_finite (c : Rgb) : Finite (Yuv.as_vec (Yuv.from_Rgb c : Yuv PR)) := by
  rw [yuv_bridge]; finite_lift
theorem srgb_finite (c : Rgb) : Finite (Srgb.as_vec (Srgb.from_Rgb c : Srgb PR)) := by
  rw [srgb_bridge]; finite_lift
theorem argb_finite (c : Rgb) : Finite (Argb.as_vec (Argb.from_Rgb c : Argb PR)) := by
  rw [argb_bridge]; finite_lift
/-- XYZ under all three profiles -/
theorem xyz_finite (c : Rgb) (k : XyzKind) : Finite (Xyz.as_vec (Xyz.from_rgb c k : Xyz PR)) := by
  rw [xyz_bridge]; finite_lift
/-- … and its components are nonnegative reals -/
theorem xyz_value (c : Rgb) (k : XyzKind) :
    ∃ x y z : ℝ, (Xyz.from_rgb c k : Xyz PR) = ⟨some x, some y, some z⟩ ∧ 0 ≤ x ∧ 0 ≤ y ∧ 0 ≤ z :=
  ⟨_, _, _, xyz_bridge c k, xyz_nonneg c k⟩

/-! ## 2b. Transfer curves: finite for EVERY finite input (the branch test guarantees a positive base) -/

theorem curves_finite (x : ℝ) :
    (F64.apply_srgb_gamma_correction (some x : PR)).isSome ∧ (F64.compute_srgb_gamma_expanded (some x : PR)).isSome ∧
    (F64.compute_argb_gamma (some x : PR)).isSome ∧ (F64.compute_argb_gamma_expanded (some x : PR)).isSome ∧
    (F64.compute_rec709_gamma_correction (some x : PR)).isSome ∧ (F64.compute_rec709_gamma_expanded (some x : PR)).isSome ∧
    (F64.compute_rec2020_gamma_correction (some x : PR)).isSome ∧ (F64.compute_rec2020_gamma_expanded (some x : PR)).isSome := by
  rw [srgb_correct, srgb_expand, argb_gamma, argb_expand, rec709_correct, rec709_expand, rec2020_correct, rec2020_expand]
  simp

/-- the PQ curves are finite exactly on the nonnegative numbers: a negative input is a negative base of
`powf` with a non-integer exponent, NaN in IEEE as well -/
theorem pq_finite_iff (x : ℝ) :
    ((F64.pq_eotf (some x : PR)).isSome ↔ 0 ≤ x) ∧ ((F64.pq_inverse_eotf (some x : PR)).isSome ↔ 0 ≤ x) := by
  rcases le_or_gt 0 x with h | h
  · rw [pq_eotf_nonneg x h, pq_inv_nonneg x h]; simp [h]
  · rw [pq_eotf_neg x h, pq_inv_neg x h]; simp [not_le.mpr h]

/-! ## 2c. XYZ-derived spaces of a finite XYZ -/

/-- no condition on the XYZ: the curves test their own argument, `cbrt` is total, chroma is the root of a sum
of squares, `max(_, 0)` precedes the 2.2 power of OkLab -/
theorem from_xyz_unconditional (x y z : ℝ) :
    Finite (Srgb.as_vec (Srgb.from_Xyz (⟨some x, some y, some z⟩ : Xyz PR))) ∧
    Finite (Argb.as_vec (Argb.from_Xyz (⟨some x, some y, some z⟩ : Xyz PR))) ∧
    Finite (Rec709.as_vec (Rec709.from_Xyz (⟨some x, some y, some z⟩ : Xyz PR))) ∧
    Finite (Rec2020.as_vec (Rec2020.from_Xyz (⟨some x, some y, some z⟩ : Xyz PR))) ∧
    Finite (Lab.as_vec (Lab.from_Xyz (⟨some x, some y, some z⟩ : Xyz PR))) ∧
    Finite (Lchlab.as_vec (Lchlab.from_Xyz (⟨some x, some y, some z⟩ : Xyz PR))) ∧
    Finite (OkLab.as_vec (OkLab.from_Xyz (⟨some x, some y, some z⟩ : Xyz PR))) ∧
    Finite (OkLch.as_vec (OkLch.from_Xyz (⟨some x, some y, some z⟩ : Xyz PR))) := by
  have e : (⟨some x, some y, some z⟩ : Xyz PR) = liftXyz ⟨x, y, z⟩ := rfl
  rw [e, srgb_from_xyz, argb_from_xyz, rec709_from_xyz, rec2020_from_xyz, lab_from_xyz, lchlab_from_xyz,
    oklab_from_xyz, oklch_from_xyz]
  refine ⟨?_, ?_, ?_, ?_, ?_, ?_, ?_, ?_⟩ <;> finite_lift

/-- nonnegative components: the code's guards (`x == 0 && y == 0 && z == 0`, `is_null`, `y == 0`) exclude the only
zero of the denominators `x + 15y + 3z`, `x + y + z`, `sqrt(y/Yn)` on the nonnegative octant -/
theorem from_xyz_nonneg (x y z : ℝ) (hx : 0 ≤ x) (hy : 0 ≤ y) (hz : 0 ≤ z) :
    Finite (Luv.as_vec (Luv.from_Xyz (⟨some x, some y, some z⟩ : Xyz PR))) ∧
    Finite (Lchuv.as_vec (Lchuv.from_Xyz (⟨some x, some y, some z⟩ : Xyz PR))) ∧
    Finite (Hcl.as_vec (Hcl.from_Xyz (⟨some x, some y, some z⟩ : Xyz PR))) ∧
    Finite (Hlab.as_vec (Hlab.from_Xyz (⟨some x, some y, some z⟩ : Xyz PR))) ∧
    Finite (Xyy.as_vec (Xyy.from_Xyz (⟨some x, some y, some z⟩ : Xyz PR))) := by
  have e : (⟨some x, some y, some z⟩ : Xyz PR) = liftXyz ⟨x, y, z⟩ := rfl
  rw [e, luv_from_xyz ⟨x, y, z⟩ hx hy hz, lchuv_from_xyz ⟨x, y, z⟩ hx hy hz, hcl_from_xyz ⟨x, y, z⟩ hx hy hz,
    hlab_from_xyz ⟨x, y, z⟩ hy, xyy_from_xyz ⟨x, y, z⟩ hx hy hz]
  refine ⟨?_, ?_, ?_, ?_, ?_⟩ <;> finite_lift
example : (0 : ℝ) ≤ 0.4 ∧ (0 : ℝ) ≤ 0 ∧ (0 : ℝ) ≤ 1.2 := by norm_num

/-- Rec.2100 (PQ): finite when the three BT.2020 linear components (generated rows `rec2020_XR`, `XG`, `XB`)
are nonnegative -/
theorem rec2100_from_xyz_finite (x y z : ℝ)
    (hr : 0 ≤ x * (C.rec2020_XR : ℝ × ℝ × ℝ).1 + y * (C.rec2020_XR : ℝ × ℝ × ℝ).2.1 + z * (C.rec2020_XR : ℝ × ℝ × ℝ).2.2)
    (hg : 0 ≤ x * (C.XG : ℝ × ℝ × ℝ).1 + y * (C.XG : ℝ × ℝ × ℝ).2.1 + z * (C.XG : ℝ × ℝ × ℝ).2.2)
    (hb : 0 ≤ x * (C.XB : ℝ × ℝ × ℝ).1 + y * (C.XB : ℝ × ℝ × ℝ).2.1 + z * (C.XB : ℝ × ℝ × ℝ).2.2) :
    Finite (Rec2100.as_vec (Rec2100.from_Xyz (⟨some x, some y, some z⟩ : Xyz PR))) := by
  have e : (⟨some x, some y, some z⟩ : Xyz PR) = liftXyz ⟨x, y, z⟩ := rfl
  rw [e, rec2100_from_xyz ⟨x, y, z⟩ hr hg hb]; finite_lift
-- hypotheses satisfiable: the equal-energy point (1, 1, 1)
example : 0 ≤ (1:ℝ) * (C.rec2020_XR : ℝ × ℝ × ℝ).1 + 1 * (C.rec2020_XR : ℝ × ℝ × ℝ).2.1 + 1 * (C.rec2020_XR : ℝ × ℝ × ℝ).2.2 ∧
    0 ≤ (1:ℝ) * (C.XG : ℝ × ℝ × ℝ).1 + 1 * (C.XG : ℝ × ℝ × ℝ).2.1 + 1 * (C.XG : ℝ × ℝ × ℝ).2.2 ∧
    0 ≤ (1:ℝ) * (C.XB : ℝ × ℝ × ℝ).1 + 1 * (C.XB : ℝ × ℝ × ℝ).2.1 + 1 * (C.XB : ℝ × ℝ × ℝ).2.2 := by
  simp only [C.rec2020_XR, C.XG, C.XB, FltReal.lit_eq]; norm_num

/-! ## 2d. Every XYZ-derived space of every colour (through XYZ under the D65 profile) -/

/-- **C04, forward**: all fourteen XYZ-derived spaces of a colour are finite.  No `U8` hypothesis is needed:
the statement holds for every `Nat` channel. -/
theorem forward_finite (c : Rgb) :
    Finite (Srgb.as_vec (Srgb.from_Xyz (Xyz.from_rgb c XyzKind.D65 : Xyz PR))) ∧
    Finite (Argb.as_vec (Argb.from_Xyz (Xyz.from_rgb c XyzKind.D65 : Xyz PR))) ∧
    Finite (Rec709.as_vec (Rec709.from_Xyz (Xyz.from_rgb c XyzKind.D65 : Xyz PR))) ∧
    Finite (Rec2020.as_vec (Rec2020.from_Xyz (Xyz.from_rgb c XyzKind.D65 : Xyz PR))) ∧
    Finite (Rec2100.as_vec (Rec2100.from_Xyz (Xyz.from_rgb c XyzKind.D65 : Xyz PR))) ∧
    Finite (Lab.as_vec (Lab.from_Xyz (Xyz.from_rgb c XyzKind.D65 : Xyz PR))) ∧
    Finite (Lchlab.as_vec (Lchlab.from_Xyz (Xyz.from_rgb c XyzKind.D65 : Xyz PR))) ∧
    Finite (Luv.as_vec (Luv.from_Xyz (Xyz.from_rgb c XyzKind.D65 : Xyz PR))) ∧
    Finite (Lchuv.as_vec (Lchuv.from_Xyz (Xyz.from_rgb c XyzKind.D65 : Xyz PR))) ∧
    Finite (Hcl.as_vec (Hcl.from_Xyz (Xyz.from_rgb c XyzKind.D65 : Xyz PR))) ∧
    Finite (Hlab.as_vec (Hlab.from_Xyz (Xyz.from_rgb c XyzKind.D65 : Xyz PR))) ∧
    Finite (Xyy.as_vec (Xyy.from_Xyz (Xyz.from_rgb c XyzKind.D65 : Xyz PR))) ∧
    Finite (OkLab.as_vec (OkLab.from_Xyz (Xyz.from_rgb c XyzKind.D65 : Xyz PR))) ∧
    Finite (OkLch.as_vec (OkLch.from_Xyz (Xyz.from_rgb c XyzKind.D65 : Xyz PR))) := by
  obtain ⟨hx, hy, hz⟩ := xyz_nonneg c XyzKind.D65
  obtain ⟨hr, hg, hb⟩ := rec2100_lin_nonneg c
  rw [xyz_bridge, srgb_from_xyz, argb_from_xyz, rec709_from_xyz, rec2020_from_xyz, rec2100_from_xyz _ hr hg hb,
    lab_from_xyz, lchlab_from_xyz, luv_from_xyz _ hx hy hz, lchuv_from_xyz _ hx hy hz, hcl_from_xyz _ hx hy hz,
    hlab_from_xyz _ hy, xyy_from_xyz _ hx hy hz, oklab_from_xyz, oklch_from_xyz]
  refine ⟨?_, ?_, ?_, ?_, ?_, ?_, ?_, ?_, ?_, ?_, ?_, ?_, ?_, ?_⟩ <;> finite_lift

/-- the same through the other two profiles (not required by the property; Rec.2100 is left out because its
nonnegativity argument is specific to the D65 matrix) -/
theorem forward_finite_any_profile (c : Rgb) (k : XyzKind) :
    Finite (Srgb.as_vec (Srgb.from_Xyz (Xyz.from_rgb c k : Xyz PR))) ∧
    Finite (Argb.as_vec (Argb.from_Xyz (Xyz.from_rgb c k : Xyz PR))) ∧
    Finite (Rec709.as_vec (Rec709.from_Xyz (Xyz.from_rgb c k : Xyz PR))) ∧
    Finite (Rec2020.as_vec (Rec2020.from_Xyz (Xyz.from_rgb c k : Xyz PR))) ∧
    Finite (Lab.as_vec (Lab.from_Xyz (Xyz.from_rgb c k : Xyz PR))) ∧
    Finite (Lchlab.as_vec (Lchlab.from_Xyz (Xyz.from_rgb c k : Xyz PR))) ∧
    Finite (Luv.as_vec (Luv.from_Xyz (Xyz.from_rgb c k : Xyz PR))) ∧
    Finite (Lchuv.as_vec (Lchuv.from_Xyz (Xyz.from_rgb c k : Xyz PR))) ∧
    Finite (Hcl.as_vec (Hcl.from_Xyz (Xyz.from_rgb c k : Xyz PR))) ∧
    Finite (Hlab.as_vec (Hlab.from_Xyz (Xyz.from_rgb c k : Xyz PR))) ∧
    Finite (Xyy.as_vec (Xyy.from_Xyz (Xyz.from_rgb c k : Xyz PR))) ∧
    Finite (OkLab.as_vec (OkLab.from_Xyz (Xyz.from_rgb c k : Xyz PR))) ∧
    Finite (OkLch.as_vec (OkLch.from_Xyz (Xyz.from_rgb c k : Xyz PR))) := by
  obtain ⟨hx, hy, hz⟩ := xyz_nonneg c k
  rw [xyz_bridge, srgb_from_xyz, argb_from_xyz, rec709_from_xyz, rec2020_from_xyz,
    lab_from_xyz, lchlab_from_xyz, luv_from_xyz _ hx hy hz, lchuv_from_xyz _ hx hy hz, hcl_from_xyz _ hx hy hz,
    hlab_from_xyz _ hy, xyy_from_xyz _ hx hy hz, oklab_from_xyz, oklch_from_xyz]
  refine ⟨?_, ?_, ?_, ?_, ?_, ?_, ?_, ?_, ?_, ?_, ?_, ?_, ?_⟩ <;> finite_lift

/-- black, white and the pure primaries are instances (no special case is needed) -/
example := forward_finite ⟨0, 0, 0⟩
example := forward_finite ⟨255, 255, 255⟩
example := forward_finite ⟨255, 0, 0⟩
example := forward_finite ⟨0, 255, 0⟩
example := forward_finite ⟨0, 0, 255⟩

/-! ## 2e. Reverse conversions on finite inputs -/

/-- finite for EVERY finite input, no guard needed -/
theorem reverse_unconditional (a b c : ℝ) :
    Finite (Xyz.as_vec (Xyz.from_Srgb (⟨some a, some b, some c⟩ : Srgb PR))) ∧
    Finite (Xyz.as_vec (Xyz.from_Argb (⟨some a, some b, some c⟩ : Argb PR))) ∧
    Finite (Xyz.as_vec (Xyz.from_Rec709 (⟨some a, some b, some c⟩ : Rec709 PR))) ∧
    Finite (Xyz.as_vec (Xyz.from_Rec2020 (⟨some a, some b, some c⟩ : Rec2020 PR))) ∧
    Finite (Xyz.as_vec (Xyz.from_Lab (⟨some a, some b, some c⟩ : Lab PR))) ∧
    Finite (Xyz.as_vec (Xyz.from_Lchlab (⟨some a, some b, some c⟩ : Lchlab PR))) ∧
    Finite (Xyz.as_vec (Xyz.from_OkLab (⟨some a, some b, some c⟩ : OkLab PR))) ∧
    Finite (Xyz.as_vec (Xyz.from_OkLch (⟨some a, some b, some c⟩ : OkLch PR))) ∧
    Finite (Xyz.as_vec (Xyz.from_Xyy (⟨some a, some b, some c⟩ : Xyy PR))) ∧
    Finite (Lab.as_vec (Lab.from_Lchlab (⟨some a, some b, some c⟩ : Lchlab PR))) ∧
    Finite (Luv.as_vec (Luv.from_Lchuv (⟨some a, some b, some c⟩ : Lchuv PR))) ∧
    Finite (Luv.as_vec (Luv.from_Hcl (⟨some a, some b, some c⟩ : Hcl PR))) ∧
    Finite (OkLab.as_vec (OkLab.from_OkLch (⟨some a, some b, some c⟩ : OkLch PR))) ∧
    Finite (Srgb.as_vec (Srgb.from_OkLab (⟨some a, some b, some c⟩ : OkLab PR))) := by
  refine ⟨?_, ?_, ?_, ?_, ?_, ?_, ?_, ?_, ?_, ?_, ?_, ?_, ?_, ?_⟩
  · rw [show (⟨some a, some b, some c⟩ : Srgb PR) = liftSrgb ⟨a, b, c⟩ from rfl, xyz_from_srgb]; finite_lift
  · rw [show (⟨some a, some b, some c⟩ : Argb PR) = liftArgb ⟨a, b, c⟩ from rfl, xyz_from_argb]; finite_lift
  · rw [show (⟨some a, some b, some c⟩ : Rec709 PR) = liftRec709 ⟨a, b, c⟩ from rfl, xyz_from_rec709]; finite_lift
  · rw [show (⟨some a, some b, some c⟩ : Rec2020 PR) = liftRec2020 ⟨a, b, c⟩ from rfl, xyz_from_rec2020]; finite_lift
  · rw [show (⟨some a, some b, some c⟩ : Lab PR) = liftLab ⟨a, b, c⟩ from rfl, xyz_from_lab]; finite_lift
  · rw [show (⟨some a, some b, some c⟩ : Lchlab PR) = liftLchlab ⟨a, b, c⟩ from rfl, xyz_from_lchlab]; finite_lift
  · rw [show (⟨some a, some b, some c⟩ : OkLab PR) = liftOkLab ⟨a, b, c⟩ from rfl, xyz_from_oklab]; finite_lift
  · rw [show (⟨some a, some b, some c⟩ : OkLch PR) = liftOkLch ⟨a, b, c⟩ from rfl, xyz_from_oklch]; finite_lift
  · rw [show (⟨some a, some b, some c⟩ : Xyy PR) = liftXyy ⟨a, b, c⟩ from rfl, xyz_from_xyy]; finite_lift
  · rw [show (⟨some a, some b, some c⟩ : Lchlab PR) = liftLchlab ⟨a, b, c⟩ from rfl, lab_from_lchlab]; finite_lift
  · rw [show (⟨some a, some b, some c⟩ : Lchuv PR) = liftLchuv ⟨a, b, c⟩ from rfl, luv_from_lchuv]; finite_lift
  · rw [show (⟨some a, some b, some c⟩ : Hcl PR) = liftHcl ⟨a, b, c⟩ from rfl, luv_from_hcl]; finite_lift
  · rw [show (⟨some a, some b, some c⟩ : OkLch PR) = liftOkLch ⟨a, b, c⟩ from rfl, oklab_from_oklch]; finite_lift
  · rw [show (⟨some a, some b, some c⟩ : OkLab PR) = liftOkLab ⟨a, b, c⟩ from rfl, srgb_from_oklab]; finite_lift

/-- Hunter Lab → XYZ: finite for `0 ≤ l`.  (For `l < 0` the `PR` reading is `none` because `PR` makes every
power of a negative base non-finite; IEEE `powf(x, 2.0)` is finite, so this restriction is an artefact of the
instance, not a defect of the code.) -/
theorem xyz_from_hlab_finite (l a b : ℝ) (hl : 0 ≤ l) :
    Finite (Xyz.as_vec (Xyz.from_Hlab (⟨some l, some a, some b⟩ : Hlab PR))) := by
  rw [show (⟨some l, some a, some b⟩ : Hlab PR) = liftHlab ⟨l, a, b⟩ from rfl, xyz_from_hlab _ hl]; finite_lift
example : (0 : ℝ) ≤ 53.2 := by norm_num

/-- Rec.2100 → XYZ: finite for nonnegative components (a negative one is a negative base of `powf`: NaN) -/
theorem xyz_from_rec2100_finite (r g b : ℝ) (hr : 0 ≤ r) (hg : 0 ≤ g) (hb : 0 ≤ b) :
    Finite (Xyz.as_vec (Xyz.from_Rec2100 (⟨some r, some g, some b⟩ : Rec2100 PR))) := by
  rw [show (⟨some r, some g, some b⟩ : Rec2100 PR) = liftRec2100 ⟨r, g, b⟩ from rfl, xyz_from_rec2100 _ hr hg hb]
  finite_lift
example : (0 : ℝ) ≤ 0.5 := by norm_num

/-- Luv → XYZ: finite when `l = 0` forces `u = 0` (the code only guards `u == 0 && l == 0` before dividing by
`13·l`) and, for `l ≠ 0`, `v' = v/(13·l) + v_r ≠ 0`, i.e. `v + 13·l·v_r ≠ 0` (`v_r` = the generated white-point
compound). -/
theorem xyz_from_luv_finite (l u v : ℝ) (h0 : l = 0 → u = 0)
    (h2 : l ≠ 0 → v + 13 * l * (Luv.compute_compounds (C.D65 : ℝ × ℝ × ℝ).1 (C.D65 : ℝ × ℝ × ℝ).2.1 (C.D65 : ℝ × ℝ × ℝ).2.2).2 ≠ 0) :
    Finite (Xyz.as_vec (Xyz.from_Luv (⟨some l, some u, some v⟩ : Luv PR))) := by
  rw [show (⟨some l, some u, some v⟩ : Luv PR) = liftLuv ⟨l, u, v⟩ from rfl, xyz_from_luv ⟨l, u, v⟩ h0 h2]
  finite_lift
-- hypotheses satisfiable: black
example : Finite (Xyz.as_vec (Xyz.from_Luv (⟨some 0, some 0, some 0⟩ : Luv PR))) :=
  xyz_from_luv_finite 0 0 0 (fun _ => rfl) (fun h => absurd rfl h)

-- hypotheses satisfiable by a non-black value: `l = 50, u = 10, v = 10` (`v_r > 0`)
example : Finite (Xyz.as_vec (Xyz.from_Luv (⟨some 50, some 10, some 10⟩ : Luv PR))) :=
  xyz_from_luv_finite 50 10 10 (fun h => absurd h (by norm_num))
    (fun _ => by have := compounds_white_pos.2; positivity)

/-- the hypothesis `l = 0 → u = 0` cannot be dropped: `Luv {l: 0, u: 1, v: 1}` (not the image of any colour) divides
`u` by `13·l = 0`: `u' = +∞`, and `x = y·9u'/(4v') = 0·∞/∞`, a genuine NaN of the Rust code. -/
theorem xyz_from_luv_not_total : (Xyz.from_Luv (⟨some 0, some 1, some 1⟩ : Luv PR)).x = none :=
  xyz_from_luv_undefined

/-! ## 2f. Forwards and back again -/

/-- **C04, round trips**: for every colour, converting its D65 XYZ to a space and back to XYZ stays finite. -/
theorem roundtrip_finite (c : Rgb) :
    Finite (Xyz.as_vec (Xyz.from_Srgb (Srgb.from_Xyz (Xyz.from_rgb c XyzKind.D65 : Xyz PR)))) ∧
    Finite (Xyz.as_vec (Xyz.from_Argb (Argb.from_Xyz (Xyz.from_rgb c XyzKind.D65 : Xyz PR)))) ∧
    Finite (Xyz.as_vec (Xyz.from_Rec709 (Rec709.from_Xyz (Xyz.from_rgb c XyzKind.D65 : Xyz PR)))) ∧
    Finite (Xyz.as_vec (Xyz.from_Rec2020 (Rec2020.from_Xyz (Xyz.from_rgb c XyzKind.D65 : Xyz PR)))) ∧
    Finite (Xyz.as_vec (Xyz.from_Rec2100 (Rec2100.from_Xyz (Xyz.from_rgb c XyzKind.D65 : Xyz PR)))) ∧
    Finite (Xyz.as_vec (Xyz.from_Lab (Lab.from_Xyz (Xyz.from_rgb c XyzKind.D65 : Xyz PR)))) ∧
    Finite (Xyz.as_vec (Xyz.from_Lchlab (Lchlab.from_Xyz (Xyz.from_rgb c XyzKind.D65 : Xyz PR)))) ∧
    Finite (Xyz.as_vec (Xyz.from_Luv (Luv.from_Xyz (Xyz.from_rgb c XyzKind.D65 : Xyz PR)))) ∧
    Finite (Xyz.as_vec (Xyz.from_Lchuv (Lchuv.from_Xyz (Xyz.from_rgb c XyzKind.D65 : Xyz PR)))) ∧
    Finite (Xyz.as_vec (Xyz.from_Hcl (Hcl.from_Xyz (Xyz.from_rgb c XyzKind.D65 : Xyz PR)))) ∧
    Finite (Xyz.as_vec (Xyz.from_Hlab (Hlab.from_Xyz (Xyz.from_rgb c XyzKind.D65 : Xyz PR)))) ∧
    Finite (Xyz.as_vec (Xyz.from_Xyy (Xyy.from_Xyz (Xyz.from_rgb c XyzKind.D65 : Xyz PR)))) ∧
    Finite (Xyz.as_vec (Xyz.from_OkLab (OkLab.from_Xyz (Xyz.from_rgb c XyzKind.D65 : Xyz PR)))) ∧
    Finite (Xyz.as_vec (Xyz.from_OkLch (OkLch.from_Xyz (Xyz.from_rgb c XyzKind.D65 : Xyz PR)))) := by
  obtain ⟨hx, hy, hz⟩ := xyz_nonneg c XyzKind.D65
  obtain ⟨hr, hg, hb⟩ := rec2100_lin_nonneg c
  have hpz := xyz_pos_or_zero c XyzKind.D65
  obtain ⟨l0, l1, l2⟩ := luv_image_facts _ hpz
  have q1 := pq_eotf_real_nonneg _ hr
  have q2 := pq_eotf_real_nonneg _ hg
  have q3 := pq_eotf_real_nonneg _ hb
  rw [xyz_bridge, xyz_from_lchuv_image _ hx hy hz hpz, xyz_from_hcl_image _ hx hy hz hpz,
    srgb_from_xyz, argb_from_xyz, rec709_from_xyz, rec2020_from_xyz, rec2100_from_xyz _ hr hg hb,
    lab_from_xyz, lchlab_from_xyz, luv_from_xyz _ hx hy hz, hlab_from_xyz _ hy, xyy_from_xyz _ hx hy hz,
    oklab_from_xyz, oklch_from_xyz,
    xyz_from_srgb, xyz_from_argb, xyz_from_rec709, xyz_from_rec2020, xyz_from_rec2100 _ q1 q2 q3, xyz_from_lab,
    xyz_from_lchlab, xyz_from_luv _ l0 l2, xyz_from_hlab _ (hlab_l_nonneg _), xyz_from_xyy, xyz_from_oklab,
    xyz_from_oklch]
  refine ⟨?_, ?_, ?_, ?_, ?_, ?_, ?_, ?_, ?_, ?_, ?_, ?_, ?_, ?_⟩ <;> finite_lift

/-! ## Byte-valued reverse conversions

`Rgb.from_Hsl`, `Rgb.from_Hsv`, `Rgb.from_Hwb`, `Rgb.from_Cymk`, `Rgb.from_Yuv`, `Rgb.from_Ycbcr`, `Xyz.as_rgb`
(and `GrayScale.from_rgb`, `Ycbcr.from_Rgb`) return bytes; they are pure functions of the model (no `Res`), so they
cannot panic, and every channel is a `u8` for EVERY input, finite or not. -/

theorem bytes_u8 :
    (∀ q : Hsl PR, U8 (Rgb.from_Hsl q)) ∧ (∀ q : Hsv PR, U8 (Rgb.from_Hsv q)) ∧ (∀ q : Hwb PR, U8 (Rgb.from_Hwb q)) ∧
    (∀ q : Cymk PR, U8 (Rgb.from_Cymk q)) ∧ (∀ q : Yuv PR, U8 (Rgb.from_Yuv q)) ∧
    (∀ q : Ycbcr, U8 (Rgb.from_Ycbcr PR q)) ∧ (∀ (p : Xyz PR) (k : XyzKind), U8 (Xyz.as_rgb p k)) :=
  ⟨from_hsl_u8, from_hsv_u8, from_hwb_u8, from_cymk_u8, from_yuv_u8, from_ycbcr_u8, as_rgb_u8⟩

/-! ## 3. Coverage map

Property text → theorem (all on `PR`; "finite" = `Finite (X.as_vec …)`):

* "every conversion reachable from it directly … returns only finite numbers"
  - Cymk `cymk_finite`; hue (`f64::from(Rgb)`) `hue_finite`; Hsl `hsl_finite` (uses `U8 c`: `max ≤ 255` keeps
    `2 - max - min ≠ 0`); Hsv `hsv_finite`; Hwb `hwb_finite`; Yuv `yuv_finite`; Srgb `srgb_finite`;
    Argb `argb_finite`; Xyz (D65, D50, Adobe) `xyz_finite`, `xyz_value`.
  - GrayScale (5 kinds), Ycbcr, Ansi: byte-valued.  `GrayScale.from_rgb`, `Ycbcr.from_Rgb` are pure (cannot
    panic); `Ansi.from_rgb`: `ansi_encode_no_panic`.
* "… or through XYZ under the D65 profile, forwards" — `forward_finite` (14 spaces: Srgb, Argb, Rec709, Rec2020,
  Rec2100, Lab, LCh(ab), Luv, LCh(uv), HCL, Hunter Lab, xyY, OkLab, OkLch).  Per-function statements for an
  arbitrary finite XYZ: `from_xyz_unconditional`, `from_xyz_nonneg`, `rec2100_from_xyz_finite`; curves:
  `curves_finite`, `pq_finite_iff`.
* "… and back again" — `roundtrip_finite` (the same 14 spaces, back to XYZ), per-function reverse statements
  `reverse_unconditional`, `xyz_from_hlab_finite`, `xyz_from_rec2100_finite`, `xyz_from_luv_finite`; the last step
  XYZ → Rgb (`Xyz.as_rgb`) and the direct reverses Hsl/Hsv/Hwb/Cymk/Yuv/Ycbcr → Rgb return bytes: `bytes_u8`
  (pure functions, every channel `≤ 255` for every input).
* "and never panics" — only `Res`-valued functions can: `finalize_panics_iff`/`finalize_no_panic`,
  `ansi_encode_no_panic`, `ansi_decode_total`, `shade_no_panic`, `tint_no_panic` (every factor incl. NaN, every fuel).
* "including black, white and the pure primaries" — the theorems are universally quantified; the `example`s after
  `forward_finite` instantiate them.  Black is where the guards matter (`min == max`, `0 < max`, `k != 1`,
  `is_null`, `y == 0`, `x == 0 && y == 0 && z == 0`, `divider == 0`).
* "Every one of the 256 ANSI codes converts to a colour" — `ansi_decode_total` (= `Props.C16.ansi_total`).
* "parsing any text as a hex colour … returns a value or an error" — `hex_parse_total` (about the generated `Gen.Rgb.try_from_Hex`; which of the two: `Props.C15_bridge.parse_spec`).
* "building any colour from a vector of any length … never panics" — every `X.from_vec` is a pure total
  function of the model (not `Res`-valued); its value on every length is `Props.C19.*.from_vec_*`.
* NaN clause of C18 — `shade_rejects`, `tint_rejects`.

Findings (true of the model, outside the property's domain):
* `xyz_from_luv_not_total`: `Xyz::from(Luv {l: 0, u: 1, v: 1})` has `x = NaN` (division by `13·l = 0`).  Forward images satisfy
  `l = 0 → u = 0`, so no colour reaches it; the same input through `Xyz::from(Lchuv)` / `Xyz::from(Hcl)`.
* `pq_finite_iff`: both PQ curves are NaN for a negative argument, so `Rec2100::from(Xyz)` is non-finite for an XYZ
  outside the BT.2020 gamut (never the XYZ of an sRGB colour: `rec2100_lin_nonneg`).

Not proved:

/- GOAL (not proved): overflow/underflow.  `PR` does not model overflow of a finite real result to ±∞; all values
   here are bounded (|v| < 1e5) but no bound is proved. -/
/- GOAL (not proved): `Xyz.from_Hlab` for `l < 0`.  On `PR` it is `none` (`xyz_from_hlab_neg` in
   `Lemmas/DefinedRev.lean`) because `PR` makes every power of a negative base non-finite; IEEE `powf(x, 2.0)` is
   finite.  Not reachable from a colour (`hlab_l_nonneg`). -/
/- GOAL (not proved): `Rec2100.from_Xyz` through the D50 / Adobe profiles (the property only asks for D65). -/
/- GOAL (not proved): `roundup(v, cell)` (helper, not a conversion): finite iff `cell ≠ 0`. -/
/- GOAL (not proved): termination of `Shade.compute` / `Tint.compute` on `PR` for `0 < f ≤ 1` (no `Res.diverge` with
   enough fuel) — that is C18 (`Props.C18.shade_closed`, on ℝ); here only "never `Res.panic`". -/
-/

end Props.C04
