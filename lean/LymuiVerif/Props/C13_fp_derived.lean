import LymuiVerif.Lemmas.FpAssemble
import LymuiVerif.Props.C13_derived
import LymuiVerif.Props.C07_fp_sharp
import LymuiVerif.Props.C08_fp
import LymuiVerif.Props.C14_fp
import LymuiVerif.Props.C17_fp
/-!
# C13 (XYZ-derived ranges) in the rounded-arithmetic reading (`RF M`, every `M : FPModel`)

"CIE polar hues lie in [0,360], OkLch hue in [-pi,pi]; … CIE and Hunter lightness in [0,100] and OkLab lightness in
[0,1] (within 1e-5); every chroma >= 0; encoded sRGB, Adobe RGB, Rec.709 and Rec.2020 channels in [0,1] within 1e-3;
ANSI-256 code in 16..=255, ANSI-16 code in {30..37, 90..97}".

For every model of floating-point arithmetic and every 8-bit colour `c`, with `x = Xyz.from_rgb (α := RF M) c D65`
(Adobe profile for Adobe RGB) — the exact-real versions are `Props/C13_derived.lean`; hexcone models, CMYK, YUV,
YCbCr, XYZ, grayscale in `RF M` are `Props/C13_fp_rgbmodels.lean`, `Props/C13_fp_ranges.lean`.

* `cie_lightness_range_fp` — CIELAB `L* ∈ [−1e-12, 100 + 5e-6]`, CIELUV `L* ∈ [0, 100 + 5e-6]`, Hunter
  `L ∈ [0, 100 + 6e-6]`, and the same for LCh(ab), LCh(uv), HCL (which copy the lightness exactly).  Obtained from the
  closed forms of the computed lightness (`Lemmas.FpMono.labLF`, `luvLF`, `hunterF`), NOT from a distance to the
  exact-real model, so no condition on the branch taken at the threshold `0.008856` is needed (the CIELUV formulas of
  the library jump DOWN by `3.3e-5` there; both branches lie in the range).
  The lower end `0 ≤ L*` of CIELAB is not provable for every model: for black the code computes
  `116·f(0) − 16` with `f(0) = rnd(rnd(0·7.787) + rnd(16/116))`, and `rnd(116·rnd(16/116))` may be `16·(1 − 2u)`,
  i.e. `L* = −3.6e-15`; what holds is `−1e-12 ≤ L*` (the property allows `1e-5`).  CIELUV and Hunter: exactly `≥ 0`.
  The upper ends exceed `100` because the `Y` row of the sRGB matrix sums to `1.0000001`.
* `oklab_lightness_range_fp` — OkLab / OkLch lightness in `[−1e-9, 1 + 5e-6]` (real model `[0, 1 + 4e-6]`,
  `Lemmas.DerivedF2.okL_range`; distance `8.1e-10`, `Props.C07_fp_sharp.forward_xyz_sharp_fp`).
* `chroma_nonneg_fp` — every chroma is `≥ 0` EXACTLY, any XYZ (a rounded square root).
* `hue_ranges_fp` — LCh(ab), LCh(uv), HCL hue in `[0, 360]` exactly, OkLch hue in `[−π − 1e-15, π + 1e-15]`, any XYZ
  (re-exported from `Props/C14_fp.lean`; `M.atan2` has a 1-ulp bound, so `±π` can be overshot by one rounding).
* `srgb_range_fp` (`[−5e-6, 1 + 5e-6]`), `argb_range_fp` (`[0, 1.0003]`, lower end exact), `rec709_range_fp`
  (`[−1.2e-5, 1 + 1.2e-5]`), `rec2020_range_fp` (`[−6e-6, 1 + 2.1e-4]`) — all inside `[−1e-3, 1 + 1e-3]`.
* `ansi_ranges_fp` — ANSI-256 code in `16..=255`, ANSI-16 code in `{30..37, 90..97}` (the rounded model returns
  exactly the exact-real code, `Props.C17_fp.from_rgb_eq_fp`).
-/
namespace Props.C13_fp_derived
open Gen FpErr FpAssemble Lemmas.FpMono Props.C08

/-- computed XYZ of an 8-bit colour under the D65 profile / the Adobe profile -/
noncomputable abbrev xyzF (M : FPModel) (c : Rgb) : Xyz (RF M) := Xyz.from_rgb (α := RF M) c XyzKind.D65
noncomputable abbrev xyzAF (M : FPModel) (c : Rgb) : Xyz (RF M) := Xyz.from_rgb (α := RF M) c XyzKind.Adobe

/-! ## lightness -/

/-- **CIELAB, CIELUV, Hunter lightness (and the polar forms, which copy it) in `[0, 100]` within `1e-5`**,
rounded model: `L*(ab) ∈ [−1e-12, 100 + 5e-6]`, `L*(uv) ∈ [0, 100 + 5e-6]`, `L(Hunter) ∈ [0, 100 + 6e-6]` -/
theorem cie_lightness_range_fp (M : FPModel) (c : Rgb) (hr : c.r ≤ 255) (hg : c.g ≤ 255) (hb : c.b ≤ 255) :
    (-(1 / 10 ^ 12) ≤ (Lab.from_Xyz (xyzF M c)).l.val ∧ (Lab.from_Xyz (xyzF M c)).l.val ≤ 100 + 1e-5) ∧
    (0 ≤ (Luv.from_Xyz (xyzF M c)).l.val ∧ (Luv.from_Xyz (xyzF M c)).l.val ≤ 100 + 1e-5) ∧
    (0 ≤ (Hlab.from_Xyz (xyzF M c)).l.val ∧ (Hlab.from_Xyz (xyzF M c)).l.val ≤ 100 + 1e-5) ∧
    (-(1 / 10 ^ 12) ≤ (Lchlab.from_Xyz (xyzF M c)).l.val ∧ (Lchlab.from_Xyz (xyzF M c)).l.val ≤ 100 + 1e-5) ∧
    (0 ≤ (Lchuv.from_Xyz (xyzF M c)).l.val ∧ (Lchuv.from_Xyz (xyzF M c)).l.val ≤ 100 + 1e-5) ∧
    (0 ≤ (Hcl.from_Xyz (xyzF M c)).l.val ∧ (Hcl.from_Xyz (xyzF M c)).l.val ≤ 100 + 1e-5) := by
  obtain ⟨y0, y1⟩ := yF_range M c hr hg hb
  obtain ⟨a0, a1⟩ := labLF_range M y0 y1
  obtain ⟨b0, b1⟩ := luvLF_range M y0 y1
  obtain ⟨c0, c1⟩ := hunterF_range M y0 y1
  have e1 : (Lchlab.from_Xyz (xyzF M c)).l = (Lab.from_Xyz (xyzF M c)).l :=
    (Props.C14.lchlab_chroma_sharp_fp M (xyzF M c)).1
  have e2 : (Lchuv.from_Xyz (xyzF M c)).l = (Luv.from_Xyz (xyzF M c)).l :=
    (Props.C14.lchuv_chroma_sharp_fp M (xyzF M c)).1
  have e3 : (Hcl.from_Xyz (xyzF M c)).l = (Luv.from_Xyz (xyzF M c)).l := rfl
  rw [e1, e2, e3, lab_l_eq_fp, luv_l_eq_fp, hlab_l_eq_fp]
  have k5 : (100 + 5 / 10 ^ 6 : ℝ) ≤ 100 + 1e-5 := by norm_num
  have k6 : (100 + 6 / 10 ^ 6 : ℝ) ≤ 100 + 1e-5 := by norm_num
  exact ⟨⟨a0, a1.trans k5⟩, ⟨b0, b1.trans k5⟩, ⟨c0, c1.trans k6⟩, ⟨a0, a1.trans k5⟩, ⟨b0, b1.trans k5⟩,
    ⟨b0, b1.trans k5⟩⟩

/-- the same with the constants that are proved -/
theorem cie_lightness_range_tight_fp (M : FPModel) (c : Rgb) (hr : c.r ≤ 255) (hg : c.g ≤ 255) (hb : c.b ≤ 255) :
    (-(1 / 10 ^ 12) ≤ (Lab.from_Xyz (xyzF M c)).l.val ∧ (Lab.from_Xyz (xyzF M c)).l.val ≤ 100 + 5 / 10 ^ 6) ∧
    (0 ≤ (Luv.from_Xyz (xyzF M c)).l.val ∧ (Luv.from_Xyz (xyzF M c)).l.val ≤ 100 + 5 / 10 ^ 6) ∧
    (0 ≤ (Hlab.from_Xyz (xyzF M c)).l.val ∧ (Hlab.from_Xyz (xyzF M c)).l.val ≤ 100 + 6 / 10 ^ 6) := by
  obtain ⟨y0, y1⟩ := yF_range M c hr hg hb
  rw [lab_l_eq_fp, luv_l_eq_fp, hlab_l_eq_fp]
  exact ⟨labLF_range M y0 y1, luvLF_range M y0 y1, hunterF_range M y0 y1⟩

/-- **OkLab (and OkLch) lightness in `[0, 1]` within `1e-5`**, rounded model: `[−1e-9, 1 + 5e-6]` -/
theorem oklab_lightness_range_fp (M : FPModel) (c : Rgb) (hr : c.r ≤ 255) (hg : c.g ≤ 255) (hb : c.b ≤ 255) :
    (-1e-9 ≤ (OkLab.from_Xyz (xyzF M c)).l.val ∧ (OkLab.from_Xyz (xyzF M c)).l.val ≤ 1 + 5e-6) ∧
    (-1e-9 ≤ (OkLch.from_Xyz (xyzF M c)).l.val ∧ (OkLch.from_Xyz (xyzF M c)).l.val ≤ 1 + 5e-6) := by
  -- the exact-real lightness lies in [0, 1 + 4e-6] (as in `Props.C13_derived.oklab_lightness_range`)
  have real : 0 ≤ (OkLab.from_Xyz (Props.C13_derived.xyz c)).l ∧
      (OkLab.from_Xyz (Props.C13_derived.xyz c)).l ≤ 1 + 4 / 10 ^ 6 := by
    have hl : ∀ k : ℕ, k ≤ 255 → (k : ℝ) / 255 ≤ 1 := by
      intro k hk
      have : (k : ℝ) ≤ 255 := by exact_mod_cast hk
      rw [div_le_one (by norm_num)]; exact this
    obtain ⟨s1, s2, s3⟩ := forward_srgb_tight c hr hg hb
    have u1 := (abs_le.mp s1).2
    have u2 := (abs_le.mp s2).2
    have u3 := (abs_le.mp s3).2
    have h := Lemmas.DerivedF2.okL_range
      (Lemmas.OkLabF2.p22_nonneg (Srgb.from_Xyz (Props.C13_derived.xyz c)).r)
      (Lemmas.OkLabF2.p22_nonneg (Srgb.from_Xyz (Props.C13_derived.xyz c)).g)
      (Lemmas.OkLabF2.p22_nonneg (Srgb.from_Xyz (Props.C13_derived.xyz c)).b)
      (Lemmas.DerivedF2.p22_le (by have := hl _ hr; norm_num at u1 ⊢; linarith))
      (Lemmas.DerivedF2.p22_le (by have := hl _ hg; norm_num at u2 ⊢; linarith))
      (Lemmas.DerivedF2.p22_le (by have := hl _ hb; norm_num at u3 ⊢; linarith))
    have e : (OkLab.from_Xyz (Props.C13_derived.xyz c)).l =
        Lemmas.OkLabF2.okL (Lemmas.OkLabF2.p22 (Srgb.from_Xyz (Props.C13_derived.xyz c)).r)
          (Lemmas.OkLabF2.p22 (Srgb.from_Xyz (Props.C13_derived.xyz c)).g)
          (Lemmas.OkLabF2.p22 (Srgb.from_Xyz (Props.C13_derived.xyz c)).b) := Lemmas.OkLabF2.oklab_l_eq _
    rw [e]; exact h
  obtain ⟨d, -, -⟩ := Props.C07_fp_sharp.forward_xyz_sharp_fp M c hr hg hb
  obtain ⟨d1, d2⟩ := abs_le.mp d
  have e : (OkLch.from_Xyz (xyzF M c)).l = (OkLab.from_Xyz (xyzF M c)).l := rfl
  rw [e]
  have : -1e-9 ≤ (OkLab.from_Xyz (xyzF M c)).l.val ∧ (OkLab.from_Xyz (xyzF M c)).l.val ≤ 1 + 5e-6 := by
    constructor <;> norm_num at d1 d2 ⊢ <;> linarith [real.1, real.2]
  exact ⟨this, this⟩

/-! ## chroma and hue -/

/-- **every chroma is non-negative**, EXACTLY, in every model, for ANY XYZ: it is a rounded square root, and rounding
never crosses `0` -/
theorem chroma_nonneg_fp (M : FPModel) (x : Xyz (RF M)) :
    0 ≤ (Lchlab.from_Xyz x).c.val ∧ 0 ≤ (Lchuv.from_Xyz x).c.val ∧ 0 ≤ (Hcl.from_Xyz x).c.val ∧
    0 ≤ (OkLch.from_Xyz x).c.val := by
  refine ⟨?_, ?_, ?_, ?_⟩
  · simp only [Lchlab.from_Xyz]
    split_ifs <;> simp only [FltRF.sqrt_val] <;> exact rnd_nonneg M (Real.sqrt_nonneg _)
  · simp only [Lchuv.from_Xyz]
    split_ifs <;> simp only [FltRF.sqrt_val] <;> exact rnd_nonneg M (Real.sqrt_nonneg _)
  · simp only [Hcl.from_Xyz, Hcl.from_Luv, FltRF.sqrt_val]
    exact rnd_nonneg M (Real.sqrt_nonneg _)
  · simp only [OkLch.from_Xyz, OkLch.from_OkLab, FltRF.sqrt_val]
    exact rnd_nonneg M (Real.sqrt_nonneg _)

/-- **CIE polar hues in `[0, 360]`** (exactly), **OkLch hue in `[−π, π]` within `1e-15`**, every model, ANY XYZ -/
theorem hue_ranges_fp (M : FPModel) (x : Xyz (RF M)) :
    (0 ≤ (Lchlab.from_Xyz x).h.val ∧ (Lchlab.from_Xyz x).h.val ≤ 360) ∧
    (0 ≤ (Lchuv.from_Xyz x).h.val ∧ (Lchuv.from_Xyz x).h.val ≤ 360) ∧
    (0 ≤ (Hcl.from_Xyz x).h.val ∧ (Hcl.from_Xyz x).h.val ≤ 360) ∧
    (-Real.pi - 1e-15 ≤ (OkLch.from_Xyz x).h.val ∧ (OkLch.from_Xyz x).h.val ≤ Real.pi + 1e-15) :=
  ⟨Props.C14.lchlab_hue_range_fp M x, Props.C14.lchuv_hue_range_fp M x,
    Props.C14.hcl_hue_range_fp M (Luv.from_Xyz x), (Props.C14.oklch_hue_fp M (OkLab.from_Xyz x)).2⟩

/-- the same for the colours of the property -/
theorem hue_ranges_colour_fp (M : FPModel) (c : Rgb) :
    (0 ≤ (Lchlab.from_Xyz (xyzF M c)).h.val ∧ (Lchlab.from_Xyz (xyzF M c)).h.val ≤ 360) ∧
    (0 ≤ (Lchuv.from_Xyz (xyzF M c)).h.val ∧ (Lchuv.from_Xyz (xyzF M c)).h.val ≤ 360) ∧
    (0 ≤ (Hcl.from_Xyz (xyzF M c)).h.val ∧ (Hcl.from_Xyz (xyzF M c)).h.val ≤ 360) ∧
    (-Real.pi - 1e-15 ≤ (OkLch.from_Xyz (xyzF M c)).h.val ∧ (OkLch.from_Xyz (xyzF M c)).h.val ≤ Real.pi + 1e-15) :=
  hue_ranges_fp M (xyzF M c)

/-! ## encoded channels in `[0, 1]` within `1e-3` -/

/-- sRGB, rounded model: within `5e-6` of `c/255 ∈ [0, 1]` -/
theorem srgb_range_fp (M : FPModel) (c : Rgb) (hr : c.r ≤ 255) (hg : c.g ≤ 255) (hb : c.b ≤ 255) :
    (-1e-3 ≤ (Srgb.from_Xyz (xyzF M c)).r.val ∧ (Srgb.from_Xyz (xyzF M c)).r.val ≤ 1 + 1e-3) ∧
    (-1e-3 ≤ (Srgb.from_Xyz (xyzF M c)).g.val ∧ (Srgb.from_Xyz (xyzF M c)).g.val ≤ 1 + 1e-3) ∧
    (-1e-3 ≤ (Srgb.from_Xyz (xyzF M c)).b.val ∧ (Srgb.from_Xyz (xyzF M c)).b.val ≤ 1 + 1e-3) := by
  have hl : ∀ k : ℕ, k ≤ 255 → 0 ≤ (k : ℝ) / 255 ∧ (k : ℝ) / 255 ≤ 1 := by
    intro k hk
    have : (k : ℝ) ≤ 255 := by exact_mod_cast hk
    exact ⟨by positivity, by rw [div_le_one (by norm_num)]; exact this⟩
  obtain ⟨s1, s2, s3⟩ := Props.C08_fp.forward_srgb_fp M c hr hg hb
  rw [abs_le] at s1 s2 s3
  obtain ⟨r0, r1⟩ := hl _ hr
  obtain ⟨g0, g1⟩ := hl _ hg
  obtain ⟨b0, b1⟩ := hl _ hb
  refine ⟨⟨?_, ?_⟩, ⟨?_, ?_⟩, ⟨?_, ?_⟩⟩ <;> norm_num at s1 s2 s3 ⊢ <;>
    linarith [s1.1, s1.2, s2.1, s2.2, s3.1, s3.2]

/-- Adobe RGB (from the Adobe-profile XYZ), rounded model: `≥ 0` EXACTLY (the encoder clamps; `M.pow` of a positive
base is non-negative), `≤ 1.0003` -/
theorem argb_range_fp (M : FPModel) (c : Rgb) (hr : c.r ≤ 255) (hg : c.g ≤ 255) (hb : c.b ≤ 255) :
    (0 ≤ (Argb.from_Xyz (xyzAF M c)).r.val ∧ (Argb.from_Xyz (xyzAF M c)).r.val ≤ 1 + 1e-3) ∧
    (0 ≤ (Argb.from_Xyz (xyzAF M c)).g.val ∧ (Argb.from_Xyz (xyzAF M c)).g.val ≤ 1 + 1e-3) ∧
    (0 ≤ (Argb.from_Xyz (xyzAF M c)).b.val ∧ (Argb.from_Xyz (xyzAF M c)).b.val ≤ 1 + 1e-3) := by
  obtain ⟨⟨a0, a1⟩, ⟨b0, b1⟩, ⟨c0, c1⟩⟩ := argb_range_colour M c hr hg hb
  have k : (1 + 3 / 10 ^ 4 : ℝ) ≤ 1 + 1e-3 := by norm_num
  exact ⟨⟨a0, a1.trans k⟩, ⟨b0, b1.trans k⟩, ⟨c0, c1.trans k⟩⟩

/-- Rec.709, rounded model: within `2e-6` of the BT.709 OETF of a linear value in `[0, 1]`, which lies in
`[−1e-5, 1 + 1e-5]` -/
theorem rec709_range_fp (M : FPModel) (c : Rgb) (hr : c.r ≤ 255) (hg : c.g ≤ 255) (hb : c.b ≤ 255) :
    (-1e-3 ≤ (Rec709.from_Xyz (xyzF M c)).r.val ∧ (Rec709.from_Xyz (xyzF M c)).r.val ≤ 1 + 1e-3) ∧
    (-1e-3 ≤ (Rec709.from_Xyz (xyzF M c)).g.val ∧ (Rec709.from_Xyz (xyzF M c)).g.val ≤ 1 + 1e-3) ∧
    (-1e-3 ≤ (Rec709.from_Xyz (xyzF M c)).b.val ∧ (Rec709.from_Xyz (xyzF M c)).b.val ≤ 1 + 1e-3) := by
  obtain ⟨s1, s2, s3⟩ := Props.C08_fp.forward_rec709_fp M c hr hg hb
  have key : ∀ (v : ℝ) (k : ℕ), k ≤ 255 → |v - oetf709 (decSrgb ((k : ℝ) / 255))| ≤ 2e-6 →
      -1e-3 ≤ v ∧ v ≤ 1 + 1e-3 := by
    intro v k hk hv
    obtain ⟨d0, d1⟩ := Lemmas.DerivedF2.dec_unit k hk
    obtain ⟨o1, o2⟩ := Lemmas.DerivedF2.oetf709_range (t := decSrgb ((k : ℝ) / 255)) (by linarith) (by linarith)
    obtain ⟨v1, v2⟩ := abs_le.mp hv
    constructor <;> norm_num at o1 o2 v1 v2 ⊢ <;> linarith
  exact ⟨key _ _ hr s1, key _ _ hg s2, key _ _ hb s3⟩

/-- Rec.2020, rounded model: within `5.7e-6` of the exact-real value (`2.81e-6` each to the BT.2020 OETF of the
linear component, `Props.C08_fp.forward_rec2020_partial_fp`, `Props.C08_rec2020.forward_rec2020_partial`), which
lies in `[0, 1.0002]` -/
theorem rec2020_range_fp (M : FPModel) (c : Rgb) (hr : c.r ≤ 255) (hg : c.g ≤ 255) (hb : c.b ≤ 255) :
    (-1e-3 ≤ (Rec2020.from_Xyz (xyzF M c)).r.val ∧ (Rec2020.from_Xyz (xyzF M c)).r.val ≤ 1 + 1e-3) ∧
    (-1e-3 ≤ (Rec2020.from_Xyz (xyzF M c)).g.val ∧ (Rec2020.from_Xyz (xyzF M c)).g.val ≤ 1 + 1e-3) ∧
    (-1e-3 ≤ (Rec2020.from_Xyz (xyzF M c)).b.val ∧ (Rec2020.from_Xyz (xyzF M c)).b.val ≤ 1 + 1e-3) := by
  obtain ⟨f1, f2, f3⟩ := Props.C08_fp.forward_rec2020_partial_fp M c hr hg hb
  obtain ⟨g1, g2, g3⟩ := Props.C08_rec2020.forward_rec2020_partial c hr hg hb
  -- the exact-real channels lie in [0, 1.0002] (as in `Props.C13_derived.rec2020_range`)
  have real : (0 ≤ (Rec2020.from_Xyz (Props.C13_derived.xyz c)).r ∧ (Rec2020.from_Xyz (Props.C13_derived.xyz c)).r ≤ 1 + 2 / 10 ^ 4) ∧
      (0 ≤ (Rec2020.from_Xyz (Props.C13_derived.xyz c)).g ∧ (Rec2020.from_Xyz (Props.C13_derived.xyz c)).g ≤ 1 + 2 / 10 ^ 4) ∧
      (0 ≤ (Rec2020.from_Xyz (Props.C13_derived.xyz c)).b ∧ (Rec2020.from_Xyz (Props.C13_derived.xyz c)).b ≤ 1 + 2 / 10 ^ 4) := by
    obtain ⟨⟨a0, a1⟩, ⟨b0, b1⟩, ⟨c0, c1⟩⟩ :=
      Lemmas.DerivedF2.rec2020_lin_range _ _ _ (Lemmas.DerivedF2.dec_unit _ hr) (Lemmas.DerivedF2.dec_unit _ hg)
        (Lemmas.DerivedF2.dec_unit _ hb)
    rw [rec2020_from_xyz_def, show Props.C13_derived.xyz c = _ from xyz_from_rgb_d65_def c]
    exact ⟨Lemmas.DerivedF2.oetf2020_range a0 a1, Lemmas.DerivedF2.oetf2020_range b0 b1,
      Lemmas.DerivedF2.oetf2020_range c0 c1⟩
  have key : ∀ v w o : ℝ, |v - o| ≤ 2.81e-6 → |w - o| ≤ 2.81e-6 → 0 ≤ w → w ≤ 1 + 2 / 10 ^ 4 →
      -1e-3 ≤ v ∧ v ≤ 1 + 1e-3 := by
    intro v w o hv hw w0 w1
    obtain ⟨v1, v2⟩ := abs_le.mp hv
    obtain ⟨w3, w4⟩ := abs_le.mp hw
    constructor <;> norm_num at v1 v2 w3 w4 w1 ⊢ <;> linarith
  exact ⟨key _ _ _ f1 g1 real.1.1 real.1.2, key _ _ _ f2 g2 real.2.1.1 real.2.1.2,
    key _ _ _ f3 g3 real.2.2.1 real.2.2.2⟩

/-! ## ANSI codes -/

/-- **ANSI-256 code in `16..=255`, ANSI-16 code in `{30..37, 90..97}`**, every model (the rounded model returns
exactly the exact-real code: no tie of `round` exists for any 8-bit colour, `Props.C17_fp.from_rgb_eq_fp`) -/
theorem ansi_ranges_fp (M : FPModel) (c : Rgb) (hr : c.r ≤ 255) (hg : c.g ≤ 255) (hb : c.b ≤ 255) :
    (∃ a, Ansi.from_rgb (RF M) c AnsiKind.C256 = Res.ok a ∧ 16 ≤ a._0 ∧ a._0 ≤ 255) ∧
    (∃ a, Ansi.from_rgb (RF M) c AnsiKind.C16 = Res.ok a ∧
      ((30 ≤ a._0 ∧ a._0 ≤ 37) ∨ (90 ≤ a._0 ∧ a._0 ≤ 97))) := by
  rw [Props.C17_fp.from_rgb_eq_fp M c _ hr hg hb, Props.C17_fp.from_rgb_eq_fp M c _ hr hg hb]
  exact Props.C13_derived.ansi_ranges c hr hg hb

/-! ## examples -/

-- white: the upper ends; black: the lower ends
example (M : FPModel) : (Lab.from_Xyz (xyzF M ⟨255, 255, 255⟩)).l.val ≤ 100 + 1e-5 :=
  (cie_lightness_range_fp M ⟨255, 255, 255⟩ (by norm_num) (by norm_num) (by norm_num)).1.2
example (M : FPModel) : 0 ≤ (Luv.from_Xyz (xyzF M ⟨0, 0, 0⟩)).l.val :=
  (cie_lightness_range_fp M ⟨0, 0, 0⟩ (by norm_num) (by norm_num) (by norm_num)).2.1.1
example (M : FPModel) : -(1 / 10 ^ 12) ≤ (Lab.from_Xyz (xyzF M ⟨0, 0, 0⟩)).l.val :=
  (cie_lightness_range_fp M ⟨0, 0, 0⟩ (by norm_num) (by norm_num) (by norm_num)).1.1
-- the exact model is a model
example : (OkLab.from_Xyz (xyzF FPModel.exact ⟨255, 255, 255⟩)).l.val ≤ 1 + 5e-6 :=
  (oklab_lightness_range_fp FPModel.exact ⟨255, 255, 255⟩ (by norm_num) (by norm_num) (by norm_num)).1.2
example (M : FPModel) : 0 ≤ (Argb.from_Xyz (xyzAF M ⟨0, 255, 0⟩)).r.val :=
  (argb_range_fp M ⟨0, 255, 0⟩ (by norm_num) (by norm_num) (by norm_num)).1.1
example (M : FPModel) : 0 ≤ (OkLch.from_Xyz (xyzF M ⟨12, 200, 255⟩)).c.val :=
  (chroma_nonneg_fp M _).2.2.2
example (M : FPModel) : (Hcl.from_Xyz (xyzF M ⟨12, 200, 255⟩)).h.val ≤ 360 :=
  (hue_ranges_colour_fp M ⟨12, 200, 255⟩).2.2.1.2
example (M : FPModel) : ∃ a, Ansi.from_rgb (RF M) ⟨92, 191, 84⟩ AnsiKind.C256 = Res.ok a ∧ 16 ≤ a._0 ∧ a._0 ≤ 255 :=
  (ansi_ranges_fp M ⟨92, 191, 84⟩ (by norm_num) (by norm_num) (by norm_num)).1

end Props.C13_fp_derived
