import LymuiVerif.Lemmas.GeneratorB2
/-!
# C18 — shades and tints

Instance: `α := ℝ`, the factor `f` is a real number.  There is no NaN in `ℝ`: the clause "a NaN factor
is rejected" (and ±∞, which the same test `!(f > 0 && f <= 1)` rejects) belongs to the IEEE reading and
is handled elsewhere; here "rejected" covers `f ≤ 0 ∨ 1 < f`, i.e. every real outside `]0, 1]`.
The division `1 / f` is only evaluated under the guard `0 < f` (in the code and in every statement
below), so Mathlib's `x / 0 = 0` is never used.

The `while` loop of the Rust source is a fuel-indexed recursive function in the generated model
(`Res.diverge` when the fuel runs out).  `shade_closed` / `tint_closed` hold for EVERY fuel larger than
`⌊1/f⌋ + 1` (the number of loop tests performed), so they say: the loop terminates after exactly
`⌊1/f⌋ + 1` iterations and returns the list below.  `shade_rejects` / `tint_rejects` hold for every fuel,
including 0: no iteration is attempted.
-/
namespace Props.C18
open Gen Lemmas.QuantB2 Lemmas.GeneratorB2

/-! ## Specification -/

/-- the one quantiser of both generators: `x.round() as u8` (round half away from zero, then
truncate/saturate to `0..=255`) -/
noncomputable def Q (x : ℝ) : ℕ := Real.toU8 (Real.roundHA x)

/-- `c` moved the fraction `i*f` of the way to black -/
noncomputable def shadeAt (c : Rgb) (f : ℝ) (i : ℕ) : Rgb :=
  ⟨Q (c.r * (1 - i * f)), Q (c.g * (1 - i * f)), Q (c.b * (1 - i * f))⟩

/-- `c` moved the fraction `i*f` of the way to white -/
noncomputable def tintAt (c : Rgb) (f : ℝ) (i : ℕ) : Rgb :=
  ⟨Q (c.r + (255 - c.r) * (i * f)), Q (c.g + (255 - c.g) * (i * f)), Q (c.b + (255 - c.b) * (i * f))⟩

/-- the specified output -/
noncomputable def shadeList (c : Rgb) (f : ℝ) : List Rgb := List.map (shadeAt c f) (List.range (⌊1 / f⌋₊ + 1))
noncomputable def tintList (c : Rgb) (f : ℝ) : List Rgb := List.map (tintAt c f) (List.range (⌊1 / f⌋₊ + 1))

/-- channel-wise `≤` -/
def Rgb.le (a b : Rgb) : Prop := a.r ≤ b.r ∧ a.g ≤ b.g ∧ a.b ≤ b.b

-- the specification on a concrete colour: exact products, and a tie (177.5 ↦ 178: half away from zero)
example : shadeAt ⟨100, 200, 50⟩ (1 / 2) 1 = ⟨50, 100, 25⟩ := by
  have q : ∀ n : ℕ, n ≤ 255 → Q (n : ℝ) = n := fun n h => by
    unfold Q; rw [roundHA_natCast, toU8_natCast _ h]
  have e1 := q 50 (by omega); have e2 := q 100 (by omega); have e3 := q 25 (by omega)
  simp only [Nat.cast_ofNat] at e1 e2 e3
  simp only [shadeAt, Nat.cast_ofNat, Nat.cast_one]
  norm_num [e1, e2, e3]
example : tintAt ⟨100, 200, 50⟩ (1 / 2) 1 = ⟨178, 228, 153⟩ := by
  have q : ∀ p n : ℕ, n ≤ 255 → (2 * p + 2) / 4 = n → Q ((p : ℝ) / 2) = n := fun p n h hn => by
    unfold Q
    have := roundHA_nat_div p 2 (by omega)
    simp only [Nat.cast_ofNat] at this
    rw [this, show (2 * p + 2) / (2 * 2) = n by omega, toU8_natCast _ h]
  have e1 := q 355 178 (by omega) (by omega); have e2 := q 455 228 (by omega) (by omega)
  have e3 := q 305 153 (by omega) (by omega)
  simp only [Nat.cast_ofNat] at e1 e2 e3
  simp only [tintAt, Nat.cast_ofNat, Nat.cast_one]
  norm_num [e1, e2, e3]

/-! ## Rejection -/

/-- a factor outside `]0, 1]` is rejected with `Error::Generator` — for every fuel, even 0: the loop
is not entered -/
theorem shade_rejects (c : Rgb) (f : ℝ) (h : f ≤ 0 ∨ 1 < f) :
    ∀ fuel, Shade.compute fuel c f = Res.ok (Except.error LError.Generator) :=
  shade_compute_rejects c f h

theorem tint_rejects (c : Rgb) (f : ℝ) (h : f ≤ 0 ∨ 1 < f) :
    ∀ fuel, Tint.compute fuel c f = Res.ok (Except.error LError.Generator) :=
  tint_compute_rejects c f h

example : Shade.compute 0 ⟨102, 170, 119⟩ (1.1 : ℝ) = Res.ok (Except.error LError.Generator) :=
  shade_rejects _ _ (Or.inr (by norm_num)) 0
example : Tint.compute 0 ⟨102, 170, 119⟩ (0 : ℝ) = Res.ok (Except.error LError.Generator) :=
  tint_rejects _ _ (Or.inl le_rfl) 0
example : Tint.compute 0 ⟨102, 170, 119⟩ (-3 : ℝ) = Res.ok (Except.error LError.Generator) :=
  tint_rejects _ _ (Or.inl (by norm_num)) 0

/-! ## Closed form -/

/-- **C18, shade**: for `0 < f ≤ 1` and any fuel above `⌊1/f⌋ + 1` the result is the list of the
`⌊1/f⌋ + 1` colours `shadeAt c f i`, `i = 0 .. ⌊1/f⌋`. -/
theorem shade_closed (c : Rgb) (f : ℝ) (h0 : 0 < f) (h1 : f ≤ 1) (fuel : ℕ) (hf : ⌊1 / f⌋₊ + 1 < fuel) :
    Shade.compute fuel c f = Res.ok (Except.ok ⟨shadeList c f⟩) :=
  shade_compute_closed c f h0 h1 fuel hf

/-- **C18, tint** -/
theorem tint_closed (c : Rgb) (f : ℝ) (h0 : 0 < f) (h1 : f ≤ 1) (fuel : ℕ) (hf : ⌊1 / f⌋₊ + 1 < fuel) :
    Tint.compute fuel c f = Res.ok (Except.ok ⟨tintList c f⟩) :=
  tint_compute_closed c f h0 h1 fuel hf

-- hypotheses satisfiable: f = 1/10 gives ⌊1/f⌋ = 10, fuel 12 is enough
example : (0 : ℝ) < 1 / 10 ∧ (1 / 10 : ℝ) ≤ 1 ∧ ⌊1 / (1 / 10 : ℝ)⌋₊ + 1 < 12 := by
  refine ⟨by norm_num, by norm_num, ?_⟩
  rw [one_div_one_div, show (10 : ℝ) = ((10 : ℕ) : ℝ) by norm_num, Nat.floor_natCast]; norm_num

/-- with too little fuel the model reports divergence, not a wrong list: fuel is only a bound -/
example : Shade.compute 0 ⟨1, 2, 3⟩ (1 : ℝ) = Res.diverge := by
  simp [Shade.compute, Shade.compute.loop7]

/-! ## Consequences -/

/-- the list has `⌊1/f⌋ + 1` entries -/
theorem shade_length (c : Rgb) (f : ℝ) : (shadeList c f).length = ⌊1 / f⌋₊ + 1 := by
  simp [shadeList]
theorem tint_length (c : Rgb) (f : ℝ) : (tintList c f).length = ⌊1 / f⌋₊ + 1 := by
  simp [tintList]

/-- the `i`-th entry is `shadeAt c f i` -/
theorem shade_get (c : Rgb) (f : ℝ) (i : ℕ) (hi : i ≤ ⌊1 / f⌋₊) : (shadeList c f)[i]? = some (shadeAt c f i) := by
  rw [shadeList, List.getElem?_map, List.getElem?_range (by omega : i < ⌊1 / f⌋₊ + 1)]; rfl
theorem tint_get (c : Rgb) (f : ℝ) (i : ℕ) (hi : i ≤ ⌊1 / f⌋₊) : (tintList c f)[i]? = some (tintAt c f i) := by
  rw [tintList, List.getElem?_map, List.getElem?_range (by omega : i < ⌊1 / f⌋₊ + 1)]; rfl

/-- the first entry is the colour itself (channels are `u8`) -/
theorem shade_first (c : Rgb) (f : ℝ) (hr : c.r ≤ 255) (hg : c.g ≤ 255) (hb : c.b ≤ 255) :
    shadeAt c f 0 = c ∧ (shadeList c f).head? = some c := by
  have e : shadeAt c f 0 = c := by
    cases c
    simp only [shadeAt, Q, Nat.cast_zero, zero_mul, sub_zero, mul_one, roundHA_natCast] at *
    rw [toU8_natCast _ hr, toU8_natCast _ hg, toU8_natCast _ hb]
  refine ⟨e, ?_⟩
  rw [shadeList, List.range_succ_eq_map]
  simp [e]

theorem tint_first (c : Rgb) (f : ℝ) (hr : c.r ≤ 255) (hg : c.g ≤ 255) (hb : c.b ≤ 255) :
    tintAt c f 0 = c ∧ (tintList c f).head? = some c := by
  have e : tintAt c f 0 = c := by
    cases c
    simp only [tintAt, Q, Nat.cast_zero, zero_mul, mul_zero, add_zero, roundHA_natCast] at *
    rw [toU8_natCast _ hr, toU8_natCast _ hg, toU8_natCast _ hb]
  refine ⟨e, ?_⟩
  rw [tintList, List.range_succ_eq_map]
  simp [e]

example : (102 : ℕ) ≤ 255 ∧ (170 : ℕ) ≤ 255 ∧ (119 : ℕ) ≤ 255 := by decide

/-- the quantiser is monotone -/
theorem Q_mono {x y : ℝ} (h : x ≤ y) : Q x ≤ Q y := toU8_mono (roundHA_mono h)

/-- channels never increase along a shade -/
theorem shade_antitone (c : Rgb) (f : ℝ) (h0 : 0 < f) (i j : ℕ) (hij : i ≤ j) :
    Rgb.le (shadeAt c f j) (shadeAt c f i) := by
  have hij' : (i : ℝ) ≤ (j : ℝ) := by exact_mod_cast hij
  have key : ∀ v : ℕ, (v : ℝ) * (1 - j * f) ≤ (v : ℝ) * (1 - i * f) := fun v =>
    mul_le_mul_of_nonneg_left (by nlinarith) (Nat.cast_nonneg v)
  exact ⟨Q_mono (key _), Q_mono (key _), Q_mono (key _)⟩

/-- channels never decrease along a tint (channels are `u8`) -/
theorem tint_monotone (c : Rgb) (f : ℝ) (h0 : 0 < f) (hr : c.r ≤ 255) (hg : c.g ≤ 255) (hb : c.b ≤ 255)
    (i j : ℕ) (hij : i ≤ j) : Rgb.le (tintAt c f i) (tintAt c f j) := by
  have hij' : (i : ℝ) ≤ (j : ℝ) := by exact_mod_cast hij
  have key : ∀ v : ℕ, v ≤ 255 → (v : ℝ) + (255 - v) * (i * f) ≤ (v : ℝ) + (255 - v) * (j * f) := fun v hv => by
    have : (0 : ℝ) ≤ 255 - v := by
      have : (v : ℝ) ≤ 255 := by exact_mod_cast hv
      linarith
    have : (i : ℝ) * f ≤ j * f := by nlinarith
    nlinarith
  exact ⟨Q_mono (key _ hr), Q_mono (key _ hg), Q_mono (key _ hb)⟩

/-- the same on the output lists: every earlier entry dominates every later one -/
theorem shade_list_antitone (c : Rgb) (f : ℝ) (h0 : 0 < f) :
    (shadeList c f).Pairwise (fun a b => Rgb.le b a) := by
  rw [shadeList, List.pairwise_map]
  exact List.Pairwise.imp (fun h => shade_antitone c f h0 _ _ (le_of_lt h)) List.pairwise_lt_range

theorem tint_list_monotone (c : Rgb) (f : ℝ) (h0 : 0 < f) (hr : c.r ≤ 255) (hg : c.g ≤ 255) (hb : c.b ≤ 255) :
    (tintList c f).Pairwise (fun a b => Rgb.le a b) := by
  rw [tintList, List.pairwise_map]
  exact List.Pairwise.imp (fun h => tint_monotone c f h0 hr hg hb _ _ (le_of_lt h)) List.pairwise_lt_range

example : (0 : ℝ) < 1 / 10 := by norm_num

/-- when `1/f` is a whole number the last shade is pure black -/
theorem shade_last (c : Rgb) (f : ℝ) (h0 : 0 < f) (m : ℕ) (hm : 1 / f = m) :
    shadeAt c f ⌊1 / f⌋₊ = ⟨0, 0, 0⟩ ∧ (shadeList c f).getLast? = some ⟨0, 0, 0⟩ := by
  have hmf : (m : ℝ) * f = 1 := by rw [← hm]; field_simp
  have e : shadeAt c f ⌊1 / f⌋₊ = ⟨0, 0, 0⟩ := by
    have z : Q 0 = 0 := by
      have : Q ((0 : ℕ) : ℝ) = 0 := by unfold Q; rw [roundHA_natCast, toU8_natCast _ (by omega)]
      simpa using this
    simp only [shadeAt, hm, Nat.floor_natCast, hmf, sub_self, mul_zero, z]
  refine ⟨e, ?_⟩
  rw [shadeList, List.range_succ, List.map_append]
  rw [one_div] at e
  simp [e]

/-- when `1/f` is a whole number the last tint is pure white -/
theorem tint_last (c : Rgb) (f : ℝ) (h0 : 0 < f) (m : ℕ) (hm : 1 / f = m) :
    tintAt c f ⌊1 / f⌋₊ = ⟨255, 255, 255⟩ ∧ (tintList c f).getLast? = some ⟨255, 255, 255⟩ := by
  have hmf : (m : ℝ) * f = 1 := by rw [← hm]; field_simp
  have e : tintAt c f ⌊1 / f⌋₊ = ⟨255, 255, 255⟩ := by
    have z : Q 255 = 255 := by
      have : Q ((255 : ℕ) : ℝ) = 255 := by unfold Q; rw [roundHA_natCast, toU8_natCast _ (by omega)]
      simpa using this
    simp only [tintAt, hm, Nat.floor_natCast, hmf, mul_one, add_sub_cancel, z]
  refine ⟨e, ?_⟩
  rw [tintList, List.range_succ, List.map_append]
  rw [one_div] at e
  simp [e]

example : (0 : ℝ) < 1 / 4 ∧ 1 / (1 / 4 : ℝ) = ((4 : ℕ) : ℝ) := by norm_num

/-- for `f ≥ 1/256` there are at most 257 entries -/
theorem steps_bound (f : ℝ) (hf : 1 / 256 ≤ f) : ⌊1 / f⌋₊ ≤ 256 := by
  have h0 : (0 : ℝ) < f := by linarith
  have : 1 / f ≤ 256 := by rw [div_le_iff₀ h0]; linarith
  have := Nat.floor_le_floor this
  simpa using this

/-- **C18, termination**: for every `f ∈ [1/256, 1]` the loop is left after at most 258 loop tests
(257 iterations): any fuel `≥ 258` — e.g. the 300 used by the test driver — gives the specified list. -/
theorem shade_terminates (c : Rgb) (f : ℝ) (hf : 1 / 256 ≤ f) (h1 : f ≤ 1) (fuel : ℕ) (h : 258 ≤ fuel) :
    Shade.compute fuel c f = Res.ok (Except.ok ⟨shadeList c f⟩) ∧ (shadeList c f).length ≤ 257 := by
  have := steps_bound f hf
  exact ⟨shade_closed c f (by linarith) h1 fuel (by omega), by rw [shade_length]; omega⟩

theorem tint_terminates (c : Rgb) (f : ℝ) (hf : 1 / 256 ≤ f) (h1 : f ≤ 1) (fuel : ℕ) (h : 258 ≤ fuel) :
    Tint.compute fuel c f = Res.ok (Except.ok ⟨tintList c f⟩) ∧ (tintList c f).length ≤ 257 := by
  have := steps_bound f hf
  exact ⟨tint_closed c f (by linarith) h1 fuel (by omega), by rw [tint_length]; omega⟩

-- the bound is attained: f = 1/256 needs 257 entries
example : ⌊1 / (1 / 256 : ℝ)⌋₊ + 1 = 257 := by
  rw [one_div_one_div, show (256 : ℝ) = ((256 : ℕ) : ℝ) by norm_num, Nat.floor_natCast]

end Props.C18
