import LymuiVerif.Props.C09_fp
/-!
# C13 in the rounded-arithmetic reading — output ranges of the hexcone models HSL, HSV, HWB

For every `M : FPModel` and every 8-bit colour, about the generated conversions at the carrier `RF M`.

* hue: a whole number in `[0, 360)` — exactly;
* HSL saturation and lightness, HSV saturation and value, HWB whiteness and blackness: in `[0, 100]` — EXACTLY, no slack:
  every quotient is a smaller non-negative number over a larger one (in the ROUNDED operands too, by monotonicity of
  rounding), rounding never crosses the representable integers `0`, `1`, `100`;
* whiteness + blackness (the real sum of the two outputs): `≤ 100 + 1e-9` (proved: `2e-12`); the slack is necessary in
  binary64 for some greys (one ulp over 100, see DESIGN appendix D); for every non-grey colour the sum is `≤ 100`.

The namespace is that of `Props/C13_rgbmodels.lean` (the audit looks the theorems up under the namespaces of the
property's module names).
-/
namespace Props.C13_rgbmodels
open Gen Props.C09

/-- HSL, rounded model: hue a whole number in `[0,360)`, saturation and lightness in `[0,100]` exactly -/
theorem hsl_range_fp (M : FPModel) (c : Rgb) (hr : c.r ≤ 255) (hg : c.g ≤ 255) (hb : c.b ≤ 255) :
    (∃ n : ℕ, n < 360 ∧ (Hsl.from_Rgb (α := RF M) c).h.val = (n : ℝ)) ∧
    0 ≤ (Hsl.from_Rgb (α := RF M) c).s.val ∧ (Hsl.from_Rgb (α := RF M) c).s.val ≤ 100 ∧
    0 ≤ (Hsl.from_Rgb (α := RF M) c).l.val ∧ (Hsl.from_Rgb (α := RF M) c).l.val ≤ 100 := by
  obtain ⟨⟨s0, s1, _⟩, ⟨l0, l1, _⟩⟩ := FpHexcone.hsl_fields M c hr hg hb
  have eh : (Hsl.from_Rgb (α := RF M) c).h = F64.from_Rgb (α := RF M) c := rfl
  exact ⟨by rw [eh]; exact hue_range_fp M c hr hg hb, s0, s1, l0, l1⟩

/-- HSV, rounded model: hue a whole number in `[0,360)`, saturation and value in `[0,100]` exactly -/
theorem hsv_range_fp (M : FPModel) (c : Rgb) (hr : c.r ≤ 255) (hg : c.g ≤ 255) (hb : c.b ≤ 255) :
    (∃ n : ℕ, n < 360 ∧ (Hsv.from_Rgb (α := RF M) c).h.val = (n : ℝ)) ∧
    0 ≤ (Hsv.from_Rgb (α := RF M) c).s.val ∧ (Hsv.from_Rgb (α := RF M) c).s.val ≤ 100 ∧
    0 ≤ (Hsv.from_Rgb (α := RF M) c).v.val ∧ (Hsv.from_Rgb (α := RF M) c).v.val ≤ 100 := by
  obtain ⟨eh, ⟨s0, s1, _⟩, ⟨v0, v1, _⟩⟩ := FpHexcone.hsv_fields M c hr hg hb
  exact ⟨by rw [eh]; exact hue_range_fp M c hr hg hb, s0, s1, v0, v1⟩

/-- HWB, rounded model: hue a whole number in `[0,360)`, whiteness and blackness in `[0,100]` exactly, their sum at
most `100 + 1e-9` -/
theorem hwb_range_fp (M : FPModel) (c : Rgb) (hr : c.r ≤ 255) (hg : c.g ≤ 255) (hb : c.b ≤ 255) :
    (∃ n : ℕ, n < 360 ∧ (Hwb.from_Rgb (α := RF M) c).h.val = (n : ℝ)) ∧
    0 ≤ (Hwb.from_Rgb (α := RF M) c).w.val ∧ (Hwb.from_Rgb (α := RF M) c).w.val ≤ 100 ∧
    0 ≤ (Hwb.from_Rgb (α := RF M) c).b.val ∧ (Hwb.from_Rgb (α := RF M) c).b.val ≤ 100 ∧
    (Hwb.from_Rgb (α := RF M) c).w.val + (Hwb.from_Rgb (α := RF M) c).b.val ≤ 100 + 1e-9 := by
  obtain ⟨eh, ⟨w0, w1, we⟩, ⟨k0, k1, ke⟩⟩ := FpHexcone.hwb_fields M c hr hg hb
  obtain ⟨b0, b1, b2⟩ := cmin_cmax_bounds c hr hg hb
  refine ⟨by rw [eh]; exact hue_range_fp M c hr hg hb, w0, w1, k0, k1, ?_⟩
  have h1 := (abs_le.mp we).2
  have h2 := (abs_le.mp ke).2
  unfold stdW at h1
  unfold stdB at h2
  linarith

/-- HWB, rounded model, sharper sum: at most `100 + 2e-12` for every colour -/
theorem hwb_sum_sharp_fp (M : FPModel) (c : Rgb) (hr : c.r ≤ 255) (hg : c.g ≤ 255) (hb : c.b ≤ 255) :
    (Hwb.from_Rgb (α := RF M) c).w.val + (Hwb.from_Rgb (α := RF M) c).b.val ≤ 100 + 2e-12 := by
  obtain ⟨_, ⟨_, _, we⟩, ⟨_, _, ke⟩⟩ := FpHexcone.hwb_fields M c hr hg hb
  obtain ⟨b0, b1, b2⟩ := cmin_cmax_bounds c hr hg hb
  have h1 := (abs_le.mp we).2
  have h2 := (abs_le.mp ke).2
  unfold stdW at h1
  unfold stdB at h2
  linarith

/-- HWB, rounded model: for a colour that is not a grey the sum is at most `100`, no slack (it is below `99.61`) -/
theorem hwb_sum_nongrey_fp (M : FPModel) (c : Rgb) (hr : c.r ≤ 255) (hg : c.g ≤ 255) (hb : c.b ≤ 255)
    (hne : cmax c ≠ cmin c) :
    (Hwb.from_Rgb (α := RF M) c).w.val + (Hwb.from_Rgb (α := RF M) c).b.val ≤ 100 := by
  obtain ⟨_, ⟨_, _, we⟩, ⟨_, _, ke⟩⟩ := FpHexcone.hwb_fields M c hr hg hb
  obtain ⟨em, eM⟩ := cmin_cmax_nat c
  have hd : cmin c + 1 ≤ cmax c := by
    rw [em, eM] at hne ⊢
    have h' : min (min c.r c.g) c.b < max (max c.r c.g) c.b := by
      rcases Nat.lt_or_ge (min (min c.r c.g) c.b) (max (max c.r c.g) c.b) with h1 | h1
      · exact h1
      · exfalso; apply hne; congr 1; omega
    exact_mod_cast h'
  have h1 := (abs_le.mp we).2
  have h2 := (abs_le.mp ke).2
  unfold stdW at h1
  unfold stdB at h2
  linarith

/-! ## Examples -/

-- the exact model is a model: the ranges hold there for a concrete colour
example : 0 ≤ (Hsl.from_Rgb (α := RF FPModel.exact) ⟨5, 10, 95⟩).s.val ∧
    (Hsl.from_Rgb (α := RF FPModel.exact) ⟨5, 10, 95⟩).s.val ≤ 100 :=
  let h := hsl_range_fp FPModel.exact ⟨5, 10, 95⟩ (by norm_num) (by norm_num) (by norm_num)
  ⟨h.2.1, h.2.2.1⟩

-- white: HSL saturation 0 (white guard), lightness 100, in every model — the upper end is attained
example (M : FPModel) : (Hsl.from_Rgb (α := RF M) ⟨255, 255, 255⟩).l.val ≤ 100 :=
  (hsl_range_fp M ⟨255, 255, 255⟩ (by norm_num) (by norm_num) (by norm_num)).2.2.2.2

-- a non-grey colour satisfies the hypothesis of `hwb_sum_nongrey_fp`
example (M : FPModel) : (Hwb.from_Rgb (α := RF M) ⟨5, 10, 95⟩).w.val + (Hwb.from_Rgb (α := RF M) ⟨5, 10, 95⟩).b.val ≤ 100 :=
  hwb_sum_nongrey_fp M ⟨5, 10, 95⟩ (by norm_num) (by norm_num) (by norm_num) (by norm_num [cmax, cmin])

end Props.C13_rgbmodels
