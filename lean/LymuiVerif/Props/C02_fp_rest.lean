import LymuiVerif.Lemmas.FpRequant
import LymuiVerif.Props.C02_fp_luv
import LymuiVerif.Props.C08_fp
import LymuiVerif.Props.C08_fp_reverse
/-!
# C02 in the rounded-arithmetic reading, the remaining spaces (`RF M`, EVERY `M : FPModel`)

C02: for every 8-bit colour, XYZ → space → XYZ returns the XYZ within `5e-4` and the result re-quantises to the
original colour.  CIELAB, xyY: `Props/C02_fp_cie.lean`; CIELUV: `Props/C02_fp_luv.lean`.  Here, with EVERY operation
evaluated in `RF M`:

* sRGB `srgb_requant_fp` (round trip `4.8e-7`), Rec.709 `rec709_requant_fp` (`4.6e-7`);
* Rec.2020 `rec2020_requant_fp`, UNCONDITIONAL (no `AwayFromBreaks`): round trip within `1.4e-6` of the real XYZ
  (`rec2020_roundtrip_fp`).  Whatever the two computed comparisons `a < rnd 0.0181`, `t < rnd 0.081` decide,
  `decode (encode a)` is within `1.0001e-6` of the linear component (`Lemmas.FpRequant.rec2020_dec_enc_any_fp`; the
  exact-real sliver bound `Lemmas.Rec2020F1a.rec2020_dec_enc_sliver_tight` is the `1e-6`);
* LCh(ab) `lchlab_requant_fp` (`1.2e-7`), LCh(uv) `lchuv_requant_fp` and HCL `hcl_requant_fp` (`3.1e-6`): the polar
  detour perturbs `(a, b)` resp. `(u, v)` by at most `3e-14·C + 1e-99` (`Lemmas.FpRequant.*_cart_rt_fp`, from
  `Props.C14.*_chroma_sharp_fp`, `*_hue_mod_fp` — the hue only up to a turn, which `cos`/`sin` do not see —,
  `*_reverse_sharp_fp`), carried through the CIELAB / CIELUV round trips with perturbed chromatic coordinates
  (`Lemmas.FpRequant.lab_roundtrip_pert_fp`, `luv_roundtrip_pert_fp`); black: exact zeros.
* the last step is always `Props.C02_fp_cie.requant_stable_fp`.
* Adobe RGB (Adobe profile): `argb_roundtrip_fp` (`3.07e-4`, first sentence); re-quantisation NOT proved (GOAL below:
  the exact-real margin is `0.01` of a level and the existing bound on `decode ∘ encode` in `RF M` is too coarse).
* OkLab, OkLCh: NOT proved (GOAL below, with the finding that the route through `requant_stable_fp` is impossible for
  them); `oklch_reduces_fp` reduces OkLCh to OkLab.
* `roundtrip_5e4_fp` and `*_roundtrip_5e4_fp`: the property's first sentence for the seven spaces above.
-/
namespace Props.C02_fp_rest
open Gen FpCie FpCieXyz Props.C02_fp_cie

/-! ## sRGB, Rec.709, Rec.2020 -/

/-- the sRGB round trip computed in `RF M` returns the real-model XYZ of an 8-bit colour within `4.8e-7` -/
theorem srgb_roundtrip_fp (M : FPModel) (c : Rgb) (hr : c.r ≤ 255) (hg : c.g ≤ 255) (hb : c.b ≤ 255) :
    NearFp (48 / 10 ^ 8) (Xyz.from_Srgb (Srgb.from_Xyz (Xyz.from_rgb (α := RF M) c .D65)))
      (Xyz.from_rgb (α := ℝ) c .D65) := by
  obtain ⟨⟨a0, a1, a2⟩, ⟨b0, b1, b2⟩, ⟨c0, c1, c2⟩⟩ := xyz_d65_fp M c hr hg hb
  obtain ⟨k1, k2, k3⟩ := Lemmas.FpEnc.srgb_roundtrip_fp M c hr hg hb
  exact nearFp_trans (e1 := 4.7e-7) ⟨k1, k2, k3⟩ ⟨a2, b2, c2⟩ (by norm_num)

/-- **C02, sRGB, second sentence, rounded model**: `rgb → xyz → sRGB → xyz → rgb` returns the colour exactly -/
theorem srgb_requant_fp (M : FPModel) (c : Rgb) (hr : c.r ≤ 255) (hg : c.g ≤ 255) (hb : c.b ≤ 255) :
    Xyz.as_rgb (Xyz.from_Srgb (Srgb.from_Xyz (Xyz.from_rgb (α := RF M) c .D65))) .D65 = c :=
  requant_stable_fp M c hr hg hb _ ((srgb_roundtrip_fp M c hr hg hb).mono (by norm_num))

/-- the Rec.709 round trip computed in `RF M`: within `4.6e-7` of the real-model XYZ -/
theorem rec709_roundtrip_fp (M : FPModel) (c : Rgb) (hr : c.r ≤ 255) (hg : c.g ≤ 255) (hb : c.b ≤ 255) :
    NearFp (46 / 10 ^ 8) (Xyz.from_Rec709 (Rec709.from_Xyz (Xyz.from_rgb (α := RF M) c .D65)))
      (Xyz.from_rgb (α := ℝ) c .D65) := by
  obtain ⟨⟨a0, a1, a2⟩, ⟨b0, b1, b2⟩, ⟨c0, c1, c2⟩⟩ := xyz_d65_fp M c hr hg hb
  obtain ⟨k1, k2, k3⟩ := Props.C08_fp_reverse.reverse_rec709_tight_fp M c hr hg hb
  exact nearFp_trans (e1 := 4.5e-7) ⟨k1, k2, k3⟩ ⟨a2, b2, c2⟩ (by norm_num)

/-- **C02, Rec.709, second sentence, rounded model** -/
theorem rec709_requant_fp (M : FPModel) (c : Rgb) (hr : c.r ≤ 255) (hg : c.g ≤ 255) (hb : c.b ≤ 255) :
    Xyz.as_rgb (Xyz.from_Rec709 (Rec709.from_Xyz (Xyz.from_rgb (α := RF M) c .D65))) .D65 = c :=
  requant_stable_fp M c hr hg hb _ ((rec709_roundtrip_fp M c hr hg hb).mono (by norm_num))

/-- the Rec.2020 round trip computed in `RF M`, for EVERY 8-bit colour (no breakpoint condition): within `1.4e-6` of
the real-model XYZ (exact-real `1.4e-6` too, `Props.C02_requant.rec2020_roundtrip_8bit_tight`: the same sliver bound
and the same `8.1e-8·‖x‖₁` of the matrix pair dominate; the rounding part is `≈ 1e-10`) -/
theorem rec2020_roundtrip_fp (M : FPModel) (c : Rgb) (hr : c.r ≤ 255) (hg : c.g ≤ 255) (hb : c.b ≤ 255) :
    NearFp (14 / 10 ^ 7) (Xyz.from_Rec2020 (Rec2020.from_Xyz (Xyz.from_rgb (α := RF M) c .D65)))
      (Xyz.from_rgb (α := ℝ) c .D65) := by
  obtain ⟨k1, k2, k3⟩ := Lemmas.FpRequant.rec2020_roundtrip_any_fp M c hr hg hb
  exact ⟨k1.trans (by norm_num), k2.trans (by norm_num), k3.trans (by norm_num)⟩

/-- **C02, Rec.2020, second sentence, rounded model**, unconditional -/
theorem rec2020_requant_fp (M : FPModel) (c : Rgb) (hr : c.r ≤ 255) (hg : c.g ≤ 255) (hb : c.b ≤ 255) :
    Xyz.as_rgb (Xyz.from_Rec2020 (Rec2020.from_Xyz (Xyz.from_rgb (α := RF M) c .D65))) .D65 = c :=
  requant_stable_fp M c hr hg hb _ ((rec2020_roundtrip_fp M c hr hg hb).mono (by norm_num))

/-- the Rec.2020 round trip against the COMPUTED XYZ, without `Props.C08_fp_reverse.AwayFromBreaks`: `1.41e-6`
(inside the `5e-6` of C08's last sentence; this settles the GOAL recorded in `Props/C08_fp_reverse.lean`) -/
theorem reverse_rec2020_any_fp (M : FPModel) (c : Rgb) (hr : c.r ≤ 255) (hg : c.g ≤ 255) (hb : c.b ≤ 255) :
    |(Xyz.from_Rec2020 (Rec2020.from_Xyz (Xyz.from_rgb (α := RF M) c .D65))).x.val - (Xyz.from_rgb (α := RF M) c .D65).x.val| ≤ 1.41e-6 ∧
    |(Xyz.from_Rec2020 (Rec2020.from_Xyz (Xyz.from_rgb (α := RF M) c .D65))).y.val - (Xyz.from_rgb (α := RF M) c .D65).y.val| ≤ 1.41e-6 ∧
    |(Xyz.from_Rec2020 (Rec2020.from_Xyz (Xyz.from_rgb (α := RF M) c .D65))).z.val - (Xyz.from_rgb (α := RF M) c .D65).z.val| ≤ 1.41e-6 := by
  obtain ⟨k1, k2, k3⟩ := Lemmas.FpRequant.rec2020_roundtrip_any_fp M c hr hg hb
  obtain ⟨⟨a0, a1, a2⟩, ⟨b0, b1, b2⟩, ⟨c0, c1, c2⟩⟩ := xyz_d65_fp M c hr hg hb
  refine ⟨?_, ?_, ?_⟩
  · have := abs_sub_le (Xyz.from_Rec2020 (Rec2020.from_Xyz (Xyz.from_rgb (α := RF M) c .D65))).x.val
      (Xyz.from_rgb (α := ℝ) c .D65).x (Xyz.from_rgb (α := RF M) c .D65).x.val
    rw [abs_sub_comm] at a2; norm_num at k1 a2 ⊢; linarith
  · have := abs_sub_le (Xyz.from_Rec2020 (Rec2020.from_Xyz (Xyz.from_rgb (α := RF M) c .D65))).y.val
      (Xyz.from_rgb (α := ℝ) c .D65).y (Xyz.from_rgb (α := RF M) c .D65).y.val
    rw [abs_sub_comm] at b2; norm_num at k2 b2 ⊢; linarith
  · have := abs_sub_le (Xyz.from_Rec2020 (Rec2020.from_Xyz (Xyz.from_rgb (α := RF M) c .D65))).z.val
      (Xyz.from_rgb (α := ℝ) c .D65).z (Xyz.from_rgb (α := RF M) c .D65).z.val
    rw [abs_sub_comm] at c2; norm_num at k3 c2 ⊢; linarith

/-! ## polar forms of CIELAB and CIELUV -/

/-- the computed XYZ of black is exactly zero -/
theorem xyz_black_vals (M : FPModel) (c : Rgb) (hblack : c.r = 0 ∧ c.g = 0 ∧ c.b = 0) :
    (Xyz.from_rgb (α := RF M) c .D65).x.val = 0 ∧ (Xyz.from_rgb (α := RF M) c .D65).y.val = 0 ∧
    (Xyz.from_rgb (α := RF M) c .D65).z.val = 0 := by
  have hc : c = ⟨0, 0, 0⟩ := Lemmas.CieRtF1b.eq_black_of_zero c hblack
  obtain ⟨z1, z2, z3⟩ := Lemmas.FpXyz.xyz_black_fp M .D65
  have ex : Xyz.from_rgb (α := RF M) c .D65 = ⟨(Lemmas.FpXyz.xyzF M .D65 c).1, (Lemmas.FpXyz.xyzF M .D65 c).2.1,
      (Lemmas.FpXyz.xyzF M .D65 c).2.2⟩ := Lemmas.FpXyz.from_rgb_eq_fp' M .D65 c
  rw [hc] at ex
  exact ⟨by rw [hc, ex]; exact z1, by rw [hc, ex]; exact z2, by rw [hc, ex]; exact z3⟩

/-- the LCh(ab) round trip computed in `RF M`: within `1.2e-7` of the real-model XYZ -/
theorem lchlab_roundtrip_fp (M : FPModel) (c : Rgb) (hr : c.r ≤ 255) (hg : c.g ≤ 255) (hb : c.b ≤ 255) :
    NearFp (12 / 10 ^ 8) (Xyz.from_Lchlab (Lchlab.from_Xyz (Xyz.from_rgb (α := RF M) c .D65)))
      (Xyz.from_rgb (α := ℝ) c .D65) := by
  obtain ⟨⟨a0, a1, a2⟩, ⟨b0, b1, b2⟩, ⟨c0, c1, c2⟩⟩ := xyz_d65_fp M c hr hg hb
  obtain ⟨q1, q2, q3⟩ := Lemmas.FpRequant.lchlab_cart_rt_fp M (Xyz.from_rgb (α := RF M) c .D65)
  have e : Xyz.from_Lchlab (Lchlab.from_Xyz (Xyz.from_rgb (α := RF M) c .D65)) =
      Xyz.from_Lab ⟨(Lab.from_Xyz (Xyz.from_rgb (α := RF M) c .D65)).l,
        (Lab.from_Lchlab (Lchlab.from_Xyz (Xyz.from_rgb (α := RF M) c .D65))).a,
        (Lab.from_Lchlab (Lchlab.from_Xyz (Xyz.from_rgb (α := RF M) c .D65))).b⟩ := by
    rw [← q1]; rfl
  rw [e]
  obtain ⟨k1, k2, k3⟩ := Lemmas.FpRequant.lab_roundtrip_pert_fp M _ a0 a1 b0 b1 c0 c1 _ _ q2 q3
  exact nearFp_trans (e1 := 11 / 10 ^ 8) ⟨k1, k2, k3⟩ ⟨a2, b2, c2⟩ (by norm_num)

/-- **C02, LCh(ab), second sentence, rounded model** -/
theorem lchlab_requant_fp (M : FPModel) (c : Rgb) (hr : c.r ≤ 255) (hg : c.g ≤ 255) (hb : c.b ≤ 255) :
    Xyz.as_rgb (Xyz.from_Lchlab (Lchlab.from_Xyz (Xyz.from_rgb (α := RF M) c .D65))) .D65 = c :=
  requant_stable_fp M c hr hg hb _ ((lchlab_roundtrip_fp M c hr hg hb).mono (by norm_num))

/-- the LCh(uv) round trip computed in `RF M`: within `3.1e-6` of the real-model XYZ (black: exact zeros) -/
theorem lchuv_roundtrip_fp (M : FPModel) (c : Rgb) (hr : c.r ≤ 255) (hg : c.g ≤ 255) (hb : c.b ≤ 255) :
    NearFp (31 / 10 ^ 7) (Xyz.from_Lchuv (Lchuv.from_Xyz (Xyz.from_rgb (α := RF M) c .D65)))
      (Xyz.from_rgb (α := ℝ) c .D65) := by
  obtain ⟨⟨a0, a1, a2⟩, ⟨b0, b1, b2⟩, ⟨c0, c1, c2⟩⟩ := xyz_d65_fp M c hr hg hb
  by_cases hblack : c.r = 0 ∧ c.g = 0 ∧ c.b = 0
  · obtain ⟨y1, y2, y3⟩ := xyz_black_vals M c hblack
    obtain ⟨k1, k2, k3⟩ := Lemmas.FpRequant.lchuv_black_fp M _ y1 y2 y3
    refine nearFp_trans (e1 := 0) ⟨?_, ?_, ?_⟩ ⟨a2, b2, c2⟩ (by norm_num)
    · rw [k1, y1]; simp
    · rw [k2, y2]; simp
    · rw [k3, y3]; simp
  · obtain ⟨p1, p2, p3⟩ := xyz_cone_fp M c hr hg hb hblack
    obtain ⟨q1, q2, q3⟩ := Lemmas.FpRequant.lchuv_cart_rt_fp M (Xyz.from_rgb (α := RF M) c .D65)
    have e : Xyz.from_Lchuv (Lchuv.from_Xyz (Xyz.from_rgb (α := RF M) c .D65)) =
        Xyz.from_Luv ⟨(Luv.from_Xyz (Xyz.from_rgb (α := RF M) c .D65)).l,
          (Luv.from_Lchuv (Lchuv.from_Xyz (Xyz.from_rgb (α := RF M) c .D65))).u,
          (Luv.from_Lchuv (Lchuv.from_Xyz (Xyz.from_rgb (α := RF M) c .D65))).v⟩ := by
      rw [← q1]; rfl
    rw [e]
    obtain ⟨k1, k2, k3⟩ := Lemmas.FpRequant.luv_roundtrip_pert_fp M _ a0 a1 p1 b1 c0 c1 p2 p3 _ _ q2 q3
    exact nearFp_trans (e1 := 3 / 10 ^ 6) ⟨k1.trans (by norm_num), k2.trans (by norm_num), k3⟩ ⟨a2, b2, c2⟩
      (by norm_num)

/-- **C02, LCh(uv), second sentence, rounded model** -/
theorem lchuv_requant_fp (M : FPModel) (c : Rgb) (hr : c.r ≤ 255) (hg : c.g ≤ 255) (hb : c.b ≤ 255) :
    Xyz.as_rgb (Xyz.from_Lchuv (Lchuv.from_Xyz (Xyz.from_rgb (α := RF M) c .D65))) .D65 = c :=
  requant_stable_fp M c hr hg hb _ ((lchuv_roundtrip_fp M c hr hg hb).mono (by norm_num))

/-- the HCL round trip computed in `RF M`: within `3.1e-6` of the real-model XYZ (black: exact zeros) -/
theorem hcl_roundtrip_fp (M : FPModel) (c : Rgb) (hr : c.r ≤ 255) (hg : c.g ≤ 255) (hb : c.b ≤ 255) :
    NearFp (31 / 10 ^ 7) (Xyz.from_Hcl (Hcl.from_Xyz (Xyz.from_rgb (α := RF M) c .D65)))
      (Xyz.from_rgb (α := ℝ) c .D65) := by
  obtain ⟨⟨a0, a1, a2⟩, ⟨b0, b1, b2⟩, ⟨c0, c1, c2⟩⟩ := xyz_d65_fp M c hr hg hb
  by_cases hblack : c.r = 0 ∧ c.g = 0 ∧ c.b = 0
  · obtain ⟨y1, y2, y3⟩ := xyz_black_vals M c hblack
    obtain ⟨k1, k2, k3⟩ := Lemmas.FpRequant.hcl_black_fp M _ y1 y2 y3
    refine nearFp_trans (e1 := 0) ⟨?_, ?_, ?_⟩ ⟨a2, b2, c2⟩ (by norm_num)
    · rw [k1, y1]; simp
    · rw [k2, y2]; simp
    · rw [k3, y3]; simp
  · obtain ⟨p1, p2, p3⟩ := xyz_cone_fp M c hr hg hb hblack
    obtain ⟨q1, q2, q3⟩ := Lemmas.FpRequant.hcl_cart_rt_fp M (Luv.from_Xyz (Xyz.from_rgb (α := RF M) c .D65))
    have e : Xyz.from_Hcl (Hcl.from_Xyz (Xyz.from_rgb (α := RF M) c .D65)) =
        Xyz.from_Luv ⟨(Luv.from_Xyz (Xyz.from_rgb (α := RF M) c .D65)).l,
          (Luv.from_Hcl (Hcl.from_Luv (Luv.from_Xyz (Xyz.from_rgb (α := RF M) c .D65)))).u,
          (Luv.from_Hcl (Hcl.from_Luv (Luv.from_Xyz (Xyz.from_rgb (α := RF M) c .D65)))).v⟩ := by
      rw [← q1]; rfl
    rw [e]
    obtain ⟨k1, k2, k3⟩ := Lemmas.FpRequant.luv_roundtrip_pert_fp M _ a0 a1 p1 b1 c0 c1 p2 p3 _ _ q2 q3
    exact nearFp_trans (e1 := 3 / 10 ^ 6) ⟨k1.trans (by norm_num), k2.trans (by norm_num), k3⟩ ⟨a2, b2, c2⟩
      (by norm_num)

/-- **C02, HCL, second sentence, rounded model** -/
theorem hcl_requant_fp (M : FPModel) (c : Rgb) (hr : c.r ≤ 255) (hg : c.g ≤ 255) (hb : c.b ≤ 255) :
    Xyz.as_rgb (Xyz.from_Hcl (Hcl.from_Xyz (Xyz.from_rgb (α := RF M) c .D65))) .D65 = c :=
  requant_stable_fp M c hr hg hb _ ((hcl_roundtrip_fp M c hr hg hb).mono (by norm_num))

/-! ## Adobe RGB (XYZ under the Adobe profile) -/

/-- the computed XYZ under the Adobe profile is within `2e-13` of the real model's -/
theorem xyz_adobe_close_fp (M : FPModel) (c : Rgb) (hr : c.r ≤ 255) (hg : c.g ≤ 255) (hb : c.b ≤ 255) :
    |(Xyz.from_rgb (α := RF M) c .Adobe).x.val - (Xyz.from_rgb (α := ℝ) c .Adobe).x| ≤ 2e-13 ∧
    |(Xyz.from_rgb (α := RF M) c .Adobe).y.val - (Xyz.from_rgb (α := ℝ) c .Adobe).y| ≤ 2e-13 ∧
    |(Xyz.from_rgb (α := RF M) c .Adobe).z.val - (Xyz.from_rgb (α := ℝ) c .Adobe).z| ≤ 2e-13 := by
  obtain ⟨f1, f2, f3⟩ := Lemmas.FpXyz.xyz_fp_close M .Adobe c hr hg hb
  rw [Lemmas.FpXyz.from_rgb_eq_fp' M .Adobe c, Lemmas.XyzDispatch.from_rgb_eq .Adobe c]
  exact ⟨f1, f2, f3⟩

/-- **C02, Adobe RGB (XYZ under the Adobe profile), first sentence, rounded model**: the round trip is within
`3.07e-4 < 5e-4` of the real-model XYZ (`3e-4` is the exact-real constant: the crate's two Adobe tables are not inverse
to each other beyond `2.6e-4`, `Props.C02_curves.argb_matrix_product_box`) -/
theorem argb_roundtrip_fp (M : FPModel) (c : Rgb) (hr : c.r ≤ 255) (hg : c.g ≤ 255) (hb : c.b ≤ 255) :
    NearFp (307 / 10 ^ 6) (Xyz.from_Argb (Argb.from_Xyz (Xyz.from_rgb (α := RF M) c .Adobe)))
      (Xyz.from_rgb (α := ℝ) c .Adobe) := by
  obtain ⟨k1, k2, k3⟩ := Props.C08_fp_reverse.reverse_argb_fp M c hr hg hb
  exact nearFp_trans (e1 := 3.06e-4) ⟨k1, k2, k3⟩ (xyz_adobe_close_fp M c hr hg hb) (by norm_num)

/- GOAL (not proved): `argb_requant_fp`:
     `Xyz.as_rgb (Xyz.from_Argb (Argb.from_Xyz (Xyz.from_rgb (α := RF M) c .Adobe))) .Adobe = c` for every `M`, 8-bit `c`.
   The exact-real proof (`Lemmas.ArgbRequantF1a.argb_requant_adobe`) has a margin of `0.01` of a level only: a level-0
   channel comes back with Adobe-linear value up to `β = 1e-6` (`lin_core_adobe`), which the encoder `x^(256/563)` (infinite
   slope at 0) turns into `0.477` of a level (`CurvesF1a.argb_stable_wide`: `1.06e-6 ↦ 0.49`; the generic certificate
   `argb_stable_zero` would give `1.10e-6 ↦ 0.499`).  So the rounded evaluation may add at most `≈ 6e-8` (resp. `1e-7`) to the
   linear value of a level-0 channel.  What exists is too coarse by a factor 4 to 7:
   `Props.C08_fp_reverse.adobe_dec_enc_fp` bounds `|decode (encode a) − max a 0|` by `4.2e-7`, because for `a ≤ 6e-8` it only
   uses `encode a ≤ 5.8e-4` and `decode ≤ 3.5e-7` (crude certificates); the true error is relative (`≈ 1e-13·a`).  Missing, exactly:
   (1) `|decode (encode a) − max a 0| ≤ 2e-8` in `RF M` for every computed `a ≤ 1.001` — e.g. by splitting at `a = 1e-9`
       (below: both sides `≤ 1.1e-9` by the certificates `(1e-9)^(256/563) ≤ 8.2e-5`, `(8.3e-5)^(563/256) ≤ 1.1e-9`; above:
       `Lemmas.FpEnc2.argb_dec_tight` after an encoder bound with a slope certificate at `1e-9` in place of `adobe_slope_small`);
   (2) `Lemmas.ArgbRequantF1a.lin_core_adobe` with the admissible clamping widened from `[T, T + 1e-7]` to
       `[T − 2e-8, T + 1e-7 + 2e-8]` and `β = 1.03e-6` (a `norm_num; linarith` fact about the literals);
   (3) `CurvesF1a.argb_stable_rel` with `β = 1.03e-6` (`argb_stable_zero 1.06e-6 0.49` already covers level 0; levels `≥ 1` by
       `argb_stable_pow`, which is generic);
   (4) the Adobe counterpart of `FpCieXyz.as_rgb_fp_of_near` (computed `as_rgb · Adobe` against the real pre-quantisation
       values: `Lemmas.FpXyz.rev_rows`, `argb_enc_*`; only the D65 version exists).
   None of the four is deep; together they did not fit the time box. -/

/-! ## OkLCh reduces to OkLab -/

/-- **the OkLCh round trip is the OkLab reverse on a slightly perturbed OkLab value**, in `RF M`, EVERY input: with
`o = OkLab.from_Xyz x` (computed), `Xyz.from_OkLch (OkLch.from_Xyz x) = Xyz.from_OkLab ⟨o.l, a', b'⟩` where `a'`, `b'` are within
`3e-14·√(a²+b²) + 1e-99` of `o.a`, `o.b` (the hue is not wrapped, so no side condition) -/
theorem oklch_reduces_fp (M : FPModel) (x : Xyz (RF M)) :
    ∃ a' b' : RF M, Xyz.from_OkLch (OkLch.from_Xyz x) = Xyz.from_OkLab ⟨(OkLab.from_Xyz x).l, a', b'⟩ ∧
      |a'.val - (OkLab.from_Xyz x).a.val| ≤
        3e-14 * Props.C14.chroma (OkLab.from_Xyz x).a.val (OkLab.from_Xyz x).b.val + 1e-99 ∧
      |b'.val - (OkLab.from_Xyz x).b.val| ≤
        3e-14 * Props.C14.chroma (OkLab.from_Xyz x).a.val (OkLab.from_Xyz x).b.val + 1e-99 := by
  obtain ⟨q1, q2, q3⟩ := Lemmas.FpRequant.oklch_cart_rt_fp M (OkLab.from_Xyz x)
  refine ⟨(OkLab.from_OkLch (OkLch.from_OkLab (OkLab.from_Xyz x))).a,
    (OkLab.from_OkLch (OkLch.from_OkLab (OkLab.from_Xyz x))).b, ?_, q2, q3⟩
  rw [← q1]; rfl

/- GOAL (not proved): `oklab_requant_fp`, `oklch_requant_fp`, and the `5e-4` round trips of OkLab / OkLCh in `RF M`.
   FINDING about the route: a proof through `Props.C02_fp_cie.requant_stable_fp` (computed round trip within `1e-5` of the
   real XYZ) is IMPOSSIBLE for these two spaces — already the exact-real round trip is farther than that from the XYZ
   (`1.8e-5` at pure green, proved bound `1.25e-4`, `Props.C02_cie.oklab_roundtrip_of_rgb`; recorded in the header of
   `Props/C02_cie.lean`); the exact-real re-quantisation is proved channel by channel (`Lemmas.OkLabXyzF1b.channel_requant`,
   `oklab_pre_close`, conclusion `< 1/2` with no stated margin) with the fixed constants `5.82e-7` (linear light),
   `1.147e-4` / `3.04e-5` (decoded channel), `3e-7` (matrix pair).
   What exists in `RF M`: forward `8.1e-10` against the real OkLab (`Props.C07_fp_sharp`), `1e-13` against the real OkLab of
   the COMPUTED encoded triple (`Props.C07_fp.forward_core_fp` with `e = 0`); reverse `Props.C07_fp_reverse.xyz_from_oklab_any_fp`
   (`1e-6`) on the box `0 ≤ L ≤ 1`, `|a|, |b| ≤ 0.51`, real linear channels `≤ 1`; the polar detour (`oklch_reduces_fp` above).
   Missing, exactly:
   (1) the input box of the reverse lemmas excludes colours with a full channel: their real OkLab lightness is up to
       `1 + 3e-6` and their real linear-light channels up to `1 + 9e-6` (`Props.C13_derived.oklab_lightness_range` has
       `≤ 1 + 1e-5`); `FpRevOk.lms_add/lms_sub/oklin_close/chan_dec/xyz_from_oklab_any` need `L ≤ 1.00001`, `lin ≤ 1.0001`
       (their proofs have the room: `Bm = 1.8`, decoder range `≤ 1.001`); and no range theorem `|a|, |b| ≤ 0.51` for the
       OkLab of 8-bit colours exists (only the lightness);
   (2) `FpRevOk.oklin_close` assumes the computed `L` EQUALS the real one; after the forward conversion `L` is perturbed too
       (a three-variable version of `lms_add`);
   (3) for re-quantisation: the decoded channel `d` of the computed round trip must satisfy the bounds `1.147e-4` / `3.04e-5` of
       `channel_requant` and the linear-light value the bound `5.82e-7` of `channel_back` (slack `≈ 1.4e-9` only); the computed
       `decode (max(lin,0)^(1/2.2))` is known within `3.1e-7` (`FpRevOk.chan_dec`, Hölder at dark channels), which those fixed
       constants do not absorb: either `channel_requant` with explicit slack, or a relative-error version of `chan_dec`
       (the true rounding error is `≈ 1e-15` relative), plus `as_rgb_fp_of_near` with the weaker hypothesis "linear value
       within `1.2e-4` of the decoded level" (a level-0 channel comes back up to `1.15e-4`, beyond the `6e-5` of
       `FpCieXyz.srgb_lin_gap_wide`, still far below the encoder threshold `0.0031308`). -/

/-! ## C02, first sentence (within `5e-4`), rounded model -/

/-- within `5e-4` of the real-model XYZ, for sRGB, Rec.709, Rec.2020, LCh(ab), LCh(uv), HCL (D65) and Adobe RGB (Adobe
profile); CIELAB, xyY: `Props.C02_fp_cie.roundtrip_5e4_fp`, CIELUV: `Props.C02_fp_luv.luv_roundtrip_5e4_fp` -/
theorem roundtrip_5e4_fp (M : FPModel) (c : Rgb) (hr : c.r ≤ 255) (hg : c.g ≤ 255) (hb : c.b ≤ 255) :
    NearFp 5e-4 (Xyz.from_Srgb (Srgb.from_Xyz (Xyz.from_rgb (α := RF M) c .D65))) (Xyz.from_rgb (α := ℝ) c .D65) ∧
    NearFp 5e-4 (Xyz.from_Rec709 (Rec709.from_Xyz (Xyz.from_rgb (α := RF M) c .D65))) (Xyz.from_rgb (α := ℝ) c .D65) ∧
    NearFp 5e-4 (Xyz.from_Rec2020 (Rec2020.from_Xyz (Xyz.from_rgb (α := RF M) c .D65))) (Xyz.from_rgb (α := ℝ) c .D65) ∧
    NearFp 5e-4 (Xyz.from_Lchlab (Lchlab.from_Xyz (Xyz.from_rgb (α := RF M) c .D65))) (Xyz.from_rgb (α := ℝ) c .D65) ∧
    NearFp 5e-4 (Xyz.from_Lchuv (Lchuv.from_Xyz (Xyz.from_rgb (α := RF M) c .D65))) (Xyz.from_rgb (α := ℝ) c .D65) ∧
    NearFp 5e-4 (Xyz.from_Hcl (Hcl.from_Xyz (Xyz.from_rgb (α := RF M) c .D65))) (Xyz.from_rgb (α := ℝ) c .D65) ∧
    NearFp 5e-4 (Xyz.from_Argb (Argb.from_Xyz (Xyz.from_rgb (α := RF M) c .Adobe))) (Xyz.from_rgb (α := ℝ) c .Adobe) :=
  ⟨(srgb_roundtrip_fp M c hr hg hb).mono (by norm_num), (rec709_roundtrip_fp M c hr hg hb).mono (by norm_num),
    (rec2020_roundtrip_fp M c hr hg hb).mono (by norm_num), (lchlab_roundtrip_fp M c hr hg hb).mono (by norm_num),
    (lchuv_roundtrip_fp M c hr hg hb).mono (by norm_num), (hcl_roundtrip_fp M c hr hg hb).mono (by norm_num),
    (argb_roundtrip_fp M c hr hg hb).mono (by norm_num)⟩

/-- the individual statements, by name -/
theorem srgb_roundtrip_5e4_fp (M : FPModel) (c : Rgb) (hr : c.r ≤ 255) (hg : c.g ≤ 255) (hb : c.b ≤ 255) :
    NearFp 5e-4 (Xyz.from_Srgb (Srgb.from_Xyz (Xyz.from_rgb (α := RF M) c .D65))) (Xyz.from_rgb (α := ℝ) c .D65) :=
  (roundtrip_5e4_fp M c hr hg hb).1
theorem rec709_roundtrip_5e4_fp (M : FPModel) (c : Rgb) (hr : c.r ≤ 255) (hg : c.g ≤ 255) (hb : c.b ≤ 255) :
    NearFp 5e-4 (Xyz.from_Rec709 (Rec709.from_Xyz (Xyz.from_rgb (α := RF M) c .D65))) (Xyz.from_rgb (α := ℝ) c .D65) :=
  (roundtrip_5e4_fp M c hr hg hb).2.1
theorem rec2020_roundtrip_5e4_fp (M : FPModel) (c : Rgb) (hr : c.r ≤ 255) (hg : c.g ≤ 255) (hb : c.b ≤ 255) :
    NearFp 5e-4 (Xyz.from_Rec2020 (Rec2020.from_Xyz (Xyz.from_rgb (α := RF M) c .D65))) (Xyz.from_rgb (α := ℝ) c .D65) :=
  (roundtrip_5e4_fp M c hr hg hb).2.2.1
theorem lchlab_roundtrip_5e4_fp (M : FPModel) (c : Rgb) (hr : c.r ≤ 255) (hg : c.g ≤ 255) (hb : c.b ≤ 255) :
    NearFp 5e-4 (Xyz.from_Lchlab (Lchlab.from_Xyz (Xyz.from_rgb (α := RF M) c .D65))) (Xyz.from_rgb (α := ℝ) c .D65) :=
  (roundtrip_5e4_fp M c hr hg hb).2.2.2.1
theorem lchuv_roundtrip_5e4_fp (M : FPModel) (c : Rgb) (hr : c.r ≤ 255) (hg : c.g ≤ 255) (hb : c.b ≤ 255) :
    NearFp 5e-4 (Xyz.from_Lchuv (Lchuv.from_Xyz (Xyz.from_rgb (α := RF M) c .D65))) (Xyz.from_rgb (α := ℝ) c .D65) :=
  (roundtrip_5e4_fp M c hr hg hb).2.2.2.2.1
theorem hcl_roundtrip_5e4_fp (M : FPModel) (c : Rgb) (hr : c.r ≤ 255) (hg : c.g ≤ 255) (hb : c.b ≤ 255) :
    NearFp 5e-4 (Xyz.from_Hcl (Hcl.from_Xyz (Xyz.from_rgb (α := RF M) c .D65))) (Xyz.from_rgb (α := ℝ) c .D65) :=
  (roundtrip_5e4_fp M c hr hg hb).2.2.2.2.2.1
theorem argb_roundtrip_5e4_fp (M : FPModel) (c : Rgb) (hr : c.r ≤ 255) (hg : c.g ≤ 255) (hb : c.b ≤ 255) :
    NearFp 5e-4 (Xyz.from_Argb (Argb.from_Xyz (Xyz.from_rgb (α := RF M) c .Adobe))) (Xyz.from_rgb (α := ℝ) c .Adobe) :=
  (roundtrip_5e4_fp M c hr hg hb).2.2.2.2.2.2

/-! ## examples -/

example : Xyz.as_rgb (Xyz.from_Srgb (Srgb.from_Xyz (Xyz.from_rgb (α := RF FPModel.exact) ⟨50, 10, 95⟩ .D65))) .D65
    = ⟨50, 10, 95⟩ := srgb_requant_fp FPModel.exact _ (by norm_num) (by norm_num) (by norm_num)
example (M : FPModel) : Xyz.as_rgb (Xyz.from_Rec709 (Rec709.from_Xyz (Xyz.from_rgb (α := RF M) ⟨37, 36, 128⟩ .D65))) .D65
    = ⟨37, 36, 128⟩ := rec709_requant_fp M _ (by norm_num) (by norm_num) (by norm_num)
-- (0, 125, 0): the colour whose BT.2020 blue component lies in the sliver `[0.018, 0.0181)`
-- (`Props.C02_requant.rec2020_sliver_inhabited`), excluded by `AwayFromBreaks`, covered here
example (M : FPModel) : Xyz.as_rgb (Xyz.from_Rec2020 (Rec2020.from_Xyz (Xyz.from_rgb (α := RF M) ⟨0, 125, 0⟩ .D65))) .D65
    = ⟨0, 125, 0⟩ := rec2020_requant_fp M _ (by norm_num) (by norm_num) (by norm_num)
example (M : FPModel) :
    |(Xyz.from_Rec2020 (Rec2020.from_Xyz (Xyz.from_rgb (α := RF M) ⟨0, 125, 0⟩ .D65))).z.val
      - (Xyz.from_rgb (α := RF M) ⟨0, 125, 0⟩ .D65).z.val| ≤ 1.41e-6 :=
  (reverse_rec2020_any_fp M _ (by norm_num) (by norm_num) (by norm_num)).2.2
-- greys (exact hue 0: the wrap branch of the polar forms is NOT stable in `FPModel`; the round trip does not care), black, white
example (M : FPModel) : Xyz.as_rgb (Xyz.from_Lchlab (Lchlab.from_Xyz (Xyz.from_rgb (α := RF M) ⟨128, 128, 128⟩ .D65))) .D65
    = ⟨128, 128, 128⟩ := lchlab_requant_fp M _ (by norm_num) (by norm_num) (by norm_num)
example (M : FPModel) : Xyz.as_rgb (Xyz.from_Lchuv (Lchuv.from_Xyz (Xyz.from_rgb (α := RF M) ⟨0, 0, 0⟩ .D65))) .D65
    = ⟨0, 0, 0⟩ := lchuv_requant_fp M _ (by norm_num) (by norm_num) (by norm_num)
example (M : FPModel) : Xyz.as_rgb (Xyz.from_Lchuv (Lchuv.from_Xyz (Xyz.from_rgb (α := RF M) ⟨0, 0, 1⟩ .D65))) .D65
    = ⟨0, 0, 1⟩ := lchuv_requant_fp M _ (by norm_num) (by norm_num) (by norm_num)
example (M : FPModel) : Xyz.as_rgb (Xyz.from_Hcl (Hcl.from_Xyz (Xyz.from_rgb (α := RF M) ⟨255, 255, 255⟩ .D65))) .D65
    = ⟨255, 255, 255⟩ := hcl_requant_fp M _ (by norm_num) (by norm_num) (by norm_num)
example : NearFp 5e-4 (Xyz.from_Argb (Argb.from_Xyz (Xyz.from_rgb (α := RF FPModel.exact) ⟨0, 1, 255⟩ .Adobe)))
    (Xyz.from_rgb (α := ℝ) ⟨0, 1, 255⟩ .Adobe) := argb_roundtrip_5e4_fp FPModel.exact _ (by norm_num) (by norm_num) (by norm_num)
-- the hypotheses of the helper `Lemmas.FpRequant.rec2020_dec_enc_any_fp` are satisfiable ON a breakpoint
example (M : FPModel) :
    |(F64.compute_rec2020_gamma_expanded (F64.compute_rec2020_gamma_correction (⟨0.0181⟩ : RF M))).val - 0.0181| ≤ 1.0001e-6 :=
  Lemmas.FpRequant.rec2020_dec_enc_any_fp M ⟨0.0181⟩ 0.0181 (by simp; norm_num) (by norm_num) (by norm_num)

end Props.C02_fp_rest
