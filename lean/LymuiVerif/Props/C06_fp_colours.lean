import LymuiVerif.Lemmas.FpAssemble
import LymuiVerif.Lemmas.FpGrey
/-!
# C06, forward clause, rounded-arithmetic reading (`RF M`, every `M : FPModel`), EVERY 8-bit colour, no side condition

"For every 8-bit colour, the CIELAB, CIELUV and Hunter Lab coordinates of its XYZ (D65) are within 1e-3 of the CIE
formulae (white 0.95047, 1, 1.08883; exact `ε = 216/24389`, `κ = 24389/27`), xyY within 1e-9."

`Props/C06_fp.lean` / `Props/C06_fp_luv.lean` compare the computed conversion with the exact-real model of the same
code and need the side condition `Clear` (the normalised component is farther than `1e-12` from the threshold
`0.008856`): within rounding error of the threshold the two models may take different branches.  Here the comparison
is with the CIE FORMULAE themselves (`Props.C06.cielab`, `cieluv`, `hunter`, `xyY`), evaluated at the computed XYZ
`x = Xyz.from_rgb (α := RF M) c D65` (the value that the conversion receives), and no side condition is needed: whichever
branch the computed comparison selects, the computed `f` is within `3.4e-7 + 4e-15` of the exact CIE `f`
(`FpCie.fwd_f_fp`, `FpCie.fwd_spec`; CIELUV: `FpLuv.lum_fwd_fp`, `FpLuv.lfwd_spec`), and the exact CIE `f` is
`7.79`-Lipschitz (`FpAssemble.fSpec_lip`).

* `lab_forward_box_fp` / `lab_forward_colour_fp` — CIELAB: `L*` within `5e-5`, `a*` within `4e-4`, `b*` within `2e-4`
  (every XYZ of `[0, 1.1]³` / every 8-bit colour, black included).
* `luv_forward_gamut_fp` / `luv_forward_colour_fp` — CIELUV: `L*` within `4e-5`, `u*`, `v*` within `6e-4`
  (in gamut `X ≤ 5Y + Z`, `Y ≥ 1e-5` / every 8-bit colour; black: the exact guard gives `(0,0,0)`, the CIE convention).
* `hlab_forward_colour_fp` — Hunter Lab of every non-black colour: `L` within `1e-12`, `a`, `b` within `1e-9` of the
  Hunter formulae; `hlab_black_colour_fp`: black takes the exact guard `Y == 0` and returns `(0,0,0)` (the formulae
  divide by `√Y`; nothing rests on `x/0 = 0`).
* `xyy_forward_colour_fp` — xyY of every non-black colour: chromaticities within `1e-15`, `Y` exact;
  `xyy_black_colour_fp`: black takes the `is_null` guard, white-point chromaticity within `1e-16`.
* `black_clause_fp` — the property's black clause in every model (CIELAB `|L*| ≤ 1e-12`, everything else exact).
* `luv_forward_colour_real_xyz_fp`, `hlab_forward_colour_real_xyz_fp` — the same for CIELUV / Hunter Lab at the exact-real
  XYZ (the formulae are Lipschitz on the cone, `FpAssemble.cieluv_lip`, `hunter_lip`).
* `lab_forward_colour_real_xyz_fp` — CIELAB against the CIE formulae evaluated at the EXACT-REAL XYZ of the colour
  (the computed XYZ is within `2e-13` of it, `FpCieXyz.xyz_d65_fp`): same bounds.
-/
namespace Props.C06_fp_colours
open Gen FpErr FpLin FpCie FpAssemble Lemmas.Cie Props.C06

/-- the computed XYZ (D65) of an 8-bit colour -/
noncomputable abbrev xyzF (M : FPModel) (c : Rgb) : Xyz (RF M) := Xyz.from_rgb (α := RF M) c XyzKind.D65

/-! ## CIELAB -/

/-- **CIELAB forward in `RF M` against the CIE formulae**, every XYZ of `[0, 1.1]³`, no side condition -/
theorem lab_forward_box_fp (M : FPModel) (x : Xyz (RF M)) (hx0 : 0 ≤ x.x.val) (hx1 : x.x.val ≤ 11 / 10)
    (hy0 : 0 ≤ x.y.val) (hy1 : x.y.val ≤ 11 / 10) (hz0 : 0 ≤ x.z.val) (hz1 : x.z.val ≤ 11 / 10) :
    |(Lab.from_Xyz x).l.val - (cielab x.x.val x.y.val x.z.val).l| ≤ 5 / 10 ^ 5 ∧
    |(Lab.from_Xyz x).a.val - (cielab x.x.val x.y.val x.z.val).a| ≤ 4 / 10 ^ 4 ∧
    |(Lab.from_Xyz x).b.val - (cielab x.x.val x.y.val x.z.val).b| ≤ 2 / 10 ^ 4 :=
  lab_cie_fp M x hx0 hx1 hy0 hy1 hz0 hz1

/-- **C06 forward, CIELAB, every 8-bit colour, every model**: within `1e-3` (proved `5e-5`, `4e-4`, `2e-4`) -/
theorem lab_forward_colour_fp (M : FPModel) (c : Rgb) (hr : c.r ≤ 255) (hg : c.g ≤ 255) (hb : c.b ≤ 255) :
    |(Lab.from_Xyz (xyzF M c)).l.val - (cielab (xyzF M c).x.val (xyzF M c).y.val (xyzF M c).z.val).l| ≤ 1e-3 ∧
    |(Lab.from_Xyz (xyzF M c)).a.val - (cielab (xyzF M c).x.val (xyzF M c).y.val (xyzF M c).z.val).a| ≤ 1e-3 ∧
    |(Lab.from_Xyz (xyzF M c)).b.val - (cielab (xyzF M c).x.val (xyzF M c).y.val (xyzF M c).z.val).b| ≤ 1e-3 := by
  obtain ⟨⟨a0, a1, -⟩, ⟨b0, b1, -⟩, ⟨c0, c1, -⟩⟩ := FpCieXyz.xyz_d65_fp M c hr hg hb
  obtain ⟨h1, h2, h3⟩ := lab_cie_fp M (xyzF M c) a0 a1 b0 b1 c0 c1
  exact ⟨h1.trans (by norm_num), h2.trans (by norm_num), h3.trans (by norm_num)⟩

/-- the same with the sharp constants -/
theorem lab_forward_colour_tight_fp (M : FPModel) (c : Rgb) (hr : c.r ≤ 255) (hg : c.g ≤ 255) (hb : c.b ≤ 255) :
    |(Lab.from_Xyz (xyzF M c)).l.val - (cielab (xyzF M c).x.val (xyzF M c).y.val (xyzF M c).z.val).l| ≤ 5 / 10 ^ 5 ∧
    |(Lab.from_Xyz (xyzF M c)).a.val - (cielab (xyzF M c).x.val (xyzF M c).y.val (xyzF M c).z.val).a| ≤ 4 / 10 ^ 4 ∧
    |(Lab.from_Xyz (xyzF M c)).b.val - (cielab (xyzF M c).x.val (xyzF M c).y.val (xyzF M c).z.val).b| ≤ 2 / 10 ^ 4 := by
  obtain ⟨⟨a0, a1, -⟩, ⟨b0, b1, -⟩, ⟨c0, c1, -⟩⟩ := FpCieXyz.xyz_d65_fp M c hr hg hb
  exact lab_cie_fp M (xyzF M c) a0 a1 b0 b1 c0 c1

/-! ## CIELUV -/

/-- **CIELUV forward in `RF M` against the CIE formulae**, `X, Z ≥ 0`, `Y ∈ [1e-5, 1.1]`, in gamut `X ≤ 5Y + Z`,
no side condition -/
theorem luv_forward_gamut_fp (M : FPModel) (x : Xyz (RF M)) (hx0 : 0 ≤ x.x.val) (hy0 : 1 / 10 ^ 5 ≤ x.y.val)
    (hy1 : x.y.val ≤ 11 / 10) (hz0 : 0 ≤ x.z.val) (hg : x.x.val ≤ 5 * x.y.val + x.z.val) :
    |(Luv.from_Xyz x).l.val - (cieluv x.x.val x.y.val x.z.val).l| ≤ 4 / 10 ^ 5 ∧
    |(Luv.from_Xyz x).u.val - (cieluv x.x.val x.y.val x.z.val).u| ≤ 6 / 10 ^ 4 ∧
    |(Luv.from_Xyz x).v.val - (cieluv x.x.val x.y.val x.z.val).v| ≤ 6 / 10 ^ 4 :=
  luv_cie_fp M x hx0 hy0 hy1 hz0 hg

/-- **C06 forward, CIELUV, every 8-bit colour (black included), every model**: within `1e-3`
(proved `4e-5`, `6e-4`, `6e-4`; black: exactly the CIE convention `(0, 0, 0)`) -/
theorem luv_forward_colour_fp (M : FPModel) (c : Rgb) (hr : c.r ≤ 255) (hg : c.g ≤ 255) (hb : c.b ≤ 255) :
    |(Luv.from_Xyz (xyzF M c)).l.val - (cieluv (xyzF M c).x.val (xyzF M c).y.val (xyzF M c).z.val).l| ≤ 1e-3 ∧
    |(Luv.from_Xyz (xyzF M c)).u.val - (cieluv (xyzF M c).x.val (xyzF M c).y.val (xyzF M c).z.val).u| ≤ 1e-3 ∧
    |(Luv.from_Xyz (xyzF M c)).v.val - (cieluv (xyzF M c).x.val (xyzF M c).y.val (xyzF M c).z.val).v| ≤ 1e-3 := by
  by_cases hnb : c.r = 0 ∧ c.g = 0 ∧ c.b = 0
  · rw [eq_black hnb]
    obtain ⟨z1, z2, z3⟩ := black_fp M .D65
    obtain ⟨l1, l2, l3⟩ := FpLuv.luv_black_fp M (xyzF M ⟨0, 0, 0⟩) z1 z2 z3
    rw [l1, l2, l3, z1, z2, z3, luv_black.2]
    norm_num
  · obtain ⟨⟨a0, -, -⟩, ⟨-, b1, -⟩, ⟨c0, -, -⟩⟩ := FpCieXyz.xyz_d65_fp M c hr hg hb
    obtain ⟨q1, q2, -⟩ := FpCieXyz.xyz_cone_fp M c hr hg hb hnb
    have hY : 0 ≤ (xyzF M c).y.val := le_trans (by norm_num) q1
    obtain ⟨h1, h2, h3⟩ := luv_cie_fp M (xyzF M c) a0 (le_trans (by norm_num) q1) b1 c0 (by linarith)
    exact ⟨h1.trans (by norm_num), h2.trans (by norm_num), h3.trans (by norm_num)⟩

/-! ## Hunter Lab -/

/-- **C06 forward, Hunter Lab, every non-black 8-bit colour, every model**: `L` within `1e-12`, `a`, `b` within `1e-9`
of the Hunter formulae (`Props.C06.hunter`) at the computed XYZ (`Y ≥ 1.9e-5 > 0`: the division by `√Y` is genuine) -/
theorem hlab_forward_colour_fp (M : FPModel) (c : Rgb) (hr : c.r ≤ 255) (hg : c.g ≤ 255) (hb : c.b ≤ 255)
    (hnb : ¬ (c.r = 0 ∧ c.g = 0 ∧ c.b = 0)) :
    |(Hlab.from_Xyz (xyzF M c)).l.val - (hunter (xyzF M c).x.val (xyzF M c).y.val (xyzF M c).z.val).l| ≤ 1 / 10 ^ 12 ∧
    |(Hlab.from_Xyz (xyzF M c)).a.val - (hunter (xyzF M c).x.val (xyzF M c).y.val (xyzF M c).z.val).a| ≤ 1 / 10 ^ 9 ∧
    |(Hlab.from_Xyz (xyzF M c)).b.val - (hunter (xyzF M c).x.val (xyzF M c).y.val (xyzF M c).z.val).b| ≤ 1 / 10 ^ 9 := by
  obtain ⟨⟨a0, a1, -⟩, ⟨-, b1, -⟩, ⟨c0, c1, -⟩⟩ := FpCieXyz.xyz_d65_fp M c hr hg hb
  obtain ⟨q1, -, -⟩ := FpCieXyz.xyz_cone_fp M c hr hg hb hnb
  have h := Props.C06_fp.hlab_forward_fp M (xyzF M c) a0 a1 (le_trans (by norm_num) q1) b1 c0 c1
  rwa [hlab_forward (⟨(xyzF M c).x.val, (xyzF M c).y.val, (xyzF M c).z.val⟩ : Xyz ℝ)
    (lt_of_lt_of_le (by norm_num) q1)] at h

/-- black: the computed `Y` is exactly `0`, the guard `Y == 0` (an exact comparison) returns `(0, 0, 0)` -/
theorem hlab_black_colour_fp (M : FPModel) :
    (Hlab.from_Xyz (xyzF M ⟨0, 0, 0⟩)).l.val = 0 ∧ (Hlab.from_Xyz (xyzF M ⟨0, 0, 0⟩)).a.val = 0 ∧
    (Hlab.from_Xyz (xyzF M ⟨0, 0, 0⟩)).b.val = 0 :=
  Props.C06_fp.hlab_black_fp M _ (black_fp M .D65).2.1

/-! ## xyY -/

/-- **C06 forward, xyY, every non-black 8-bit colour, every model**: chromaticities within `1e-15` (property: `1e-9`)
of `X/(X+Y+Z)`, `Y/(X+Y+Z)`; `Y` copied exactly -/
theorem xyy_forward_colour_fp (M : FPModel) (c : Rgb) (hr : c.r ≤ 255) (hg : c.g ≤ 255) (hb : c.b ≤ 255)
    (hnb : ¬ (c.r = 0 ∧ c.g = 0 ∧ c.b = 0)) :
    |(Xyy.from_Xyz (xyzF M c)).x.val - (xyY (xyzF M c).x.val (xyzF M c).y.val (xyzF M c).z.val).x| ≤ 1 / 10 ^ 15 ∧
    |(Xyy.from_Xyz (xyzF M c)).y.val - (xyY (xyzF M c).x.val (xyzF M c).y.val (xyzF M c).z.val).y| ≤ 1 / 10 ^ 15 ∧
    (Xyy.from_Xyz (xyzF M c))._y.val = (xyY (xyzF M c).x.val (xyzF M c).y.val (xyzF M c).z.val)._y := by
  obtain ⟨⟨a0, -, -⟩, ⟨b0, -, -⟩, ⟨c0, -, -⟩⟩ := FpCieXyz.xyz_d65_fp M c hr hg hb
  obtain ⟨q1, -, -⟩ := FpCieXyz.xyz_cone_fp M c hr hg hb hnb
  have hS : 1e-100 ≤ (xyzF M c).x.val + (xyzF M c).y.val + (xyzF M c).z.val := by
    norm_num at q1 ⊢; linarith
  have hS0 : (xyzF M c).x.val + (xyzF M c).y.val + (xyzF M c).z.val ≠ 0 := by
    intro h; rw [h] at hS; norm_num at hS
  have h := Props.C06_fp.xyy_forward_fp M (xyzF M c) a0 b0 c0 hS
  rwa [xyy_forward (⟨(xyzF M c).x.val, (xyzF M c).y.val, (xyzF M c).z.val⟩ : Xyz ℝ) hS0] at h

/-- black: the `is_null` guard (exact comparisons) returns the white-point chromaticity literals, each rounded once:
within `1e-16` of the specification's `(0.31271, 0.32902)`; `Y = 0` exactly -/
theorem xyy_black_colour_fp (M : FPModel) :
    |(Xyy.from_Xyz (xyzF M ⟨0, 0, 0⟩)).x.val - (xyY 0 0 0).x| ≤ 1 / 10 ^ 16 ∧
    |(Xyy.from_Xyz (xyzF M ⟨0, 0, 0⟩)).y.val - (xyY 0 0 0).y| ≤ 1 / 10 ^ 16 ∧
    (Xyy.from_Xyz (xyzF M ⟨0, 0, 0⟩))._y.val = (xyY 0 0 0)._y := by
  obtain ⟨z1, z2, z3⟩ := black_fp M .D65
  have h := Props.C06_fp.xyy_black_fp M (xyzF M ⟨0, 0, 0⟩) z1 z2 z3
  rw [xyy_black.1] at h
  have e : (xyY 0 0 0)._y = 0 := by simp [xyY]
  rw [e]; exact h

/-- **C06 forward, xyY, as the property states it** (`1e-9`), every 8-bit colour, black included -/
theorem xyy_forward_all_fp (M : FPModel) (c : Rgb) (hr : c.r ≤ 255) (hg : c.g ≤ 255) (hb : c.b ≤ 255) :
    |(Xyy.from_Xyz (xyzF M c)).x.val - (xyY (xyzF M c).x.val (xyzF M c).y.val (xyzF M c).z.val).x| ≤ 1e-9 ∧
    |(Xyy.from_Xyz (xyzF M c)).y.val - (xyY (xyzF M c).x.val (xyzF M c).y.val (xyzF M c).z.val).y| ≤ 1e-9 ∧
    |(Xyy.from_Xyz (xyzF M c))._y.val - (xyY (xyzF M c).x.val (xyzF M c).y.val (xyzF M c).z.val)._y| ≤ 1e-9 := by
  by_cases hnb : c.r = 0 ∧ c.g = 0 ∧ c.b = 0
  · rw [eq_black hnb]
    obtain ⟨z1, z2, z3⟩ := black_fp M .D65
    obtain ⟨h1, h2, h3⟩ := xyy_black_colour_fp M
    rw [z1, z2, z3, h3]
    exact ⟨h1.trans (by norm_num), h2.trans (by norm_num), by norm_num⟩
  · obtain ⟨h1, h2, h3⟩ := xyy_forward_colour_fp M c hr hg hb hnb
    rw [h3]
    exact ⟨h1.trans (by norm_num), h2.trans (by norm_num), by norm_num⟩

/-! ## black -/

/-- **"Black has lightness 0, zero a/b/u/v and the white-point chromaticity in xyY"**, every model: CIELAB `a = b = 0`
exactly and `|L*| ≤ 1e-12` (NOT exactly `0` in every model: `116·rnd(rnd(0·7.787) + rnd(16/116)) − 16` may be
`−3.6e-15`; it is `0` in binary64); CIELUV and Hunter Lab `(0, 0, 0)` exactly (guards); xyY: the white-point chromaticity
literals (each rounded once, within `1e-16` of `0.31271`, `0.32902`) and `Y = 0` exactly -/
theorem black_clause_fp (M : FPModel) :
    (|(Lab.from_Xyz (xyzF M ⟨0, 0, 0⟩)).l.val| ≤ 1 / 10 ^ 12 ∧ (Lab.from_Xyz (xyzF M ⟨0, 0, 0⟩)).a.val = 0 ∧
      (Lab.from_Xyz (xyzF M ⟨0, 0, 0⟩)).b.val = 0) ∧
    ((Luv.from_Xyz (xyzF M ⟨0, 0, 0⟩)).l.val = 0 ∧ (Luv.from_Xyz (xyzF M ⟨0, 0, 0⟩)).u.val = 0 ∧
      (Luv.from_Xyz (xyzF M ⟨0, 0, 0⟩)).v.val = 0) ∧
    ((Hlab.from_Xyz (xyzF M ⟨0, 0, 0⟩)).l.val = 0 ∧ (Hlab.from_Xyz (xyzF M ⟨0, 0, 0⟩)).a.val = 0 ∧
      (Hlab.from_Xyz (xyzF M ⟨0, 0, 0⟩)).b.val = 0) ∧
    (|(Xyy.from_Xyz (xyzF M ⟨0, 0, 0⟩)).x.val - 0.31271| ≤ 1 / 10 ^ 16 ∧
      |(Xyy.from_Xyz (xyzF M ⟨0, 0, 0⟩)).y.val - 0.32902| ≤ 1 / 10 ^ 16 ∧
      (Xyy.from_Xyz (xyzF M ⟨0, 0, 0⟩))._y.val = 0) := by
  obtain ⟨z1, z2, z3⟩ := black_fp M .D65
  refine ⟨⟨?_, FpGrey.lab_black_fp M z1 z2 z3⟩, FpLuv.luv_black_fp M _ z1 z2 z3,
    Props.C06_fp.hlab_black_fp M _ z2, ?_⟩
  · rw [Lemmas.FpMono.lab_l_eq_fp, z2]
    have h := Lemmas.FpMono.labLF_close M (y := 0) le_rfl (by norm_num)
    have hθ : ¬ (Lemmas.FpMono.thF M < M.rnd 0) := by
      rw [rnd_zero]; exact not_lt.mpr (rnd_nonneg M (by positivity))
    have e : 116 * Lemmas.FpMono.fTh (Lemmas.FpMono.thF M) (M.rnd 0) - 16 = 0 := by
      unfold Lemmas.FpMono.fTh; rw [if_neg hθ, rnd_zero]; norm_num
    rwa [e, sub_zero] at h
  · have h := Props.C06_fp.xyy_black_fp M (xyzF M ⟨0, 0, 0⟩) z1 z2 z3
    rw [xyy_black.2] at h
    exact h

/-! ## CIELAB against the CIE formulae at the exact-real XYZ -/

/-- the CIE formulae evaluated at the EXACT-REAL XYZ of the colour (`Xyz.from_rgb (α := ℝ) c D65`; the computed XYZ
is within `2e-13` of it and the exact CIE `f` is `7.79`-Lipschitz): same bounds as `lab_forward_colour_tight_fp`,
up to `1e-9` -/
theorem lab_forward_colour_real_xyz_fp (M : FPModel) (c : Rgb) (hr : c.r ≤ 255) (hg : c.g ≤ 255) (hb : c.b ≤ 255) :
    let xr : Xyz ℝ := Xyz.from_rgb c XyzKind.D65
    |(Lab.from_Xyz (xyzF M c)).l.val - (cielab xr.x xr.y xr.z).l| ≤ 51 / 10 ^ 6 ∧
    |(Lab.from_Xyz (xyzF M c)).a.val - (cielab xr.x xr.y xr.z).a| ≤ 41 / 10 ^ 5 ∧
    |(Lab.from_Xyz (xyzF M c)).b.val - (cielab xr.x xr.y xr.z).b| ≤ 21 / 10 ^ 5 := by
  intro xr
  obtain ⟨⟨a0, a1, a2⟩, ⟨b0, b1, b2⟩, ⟨c0, c1, c2⟩⟩ := FpCieXyz.xyz_d65_fp M c hr hg hb
  obtain ⟨h1, h2, h3⟩ := lab_cie_fp M (xyzF M c) a0 a1 b0 b1 c0 c1
  obtain ⟨r1, r2, r3, -⟩ := luv_gamut_of_srgb_cone c
  have key : ∀ (W v w : ℝ), 95 / 100 ≤ W → 0 ≤ v → 0 ≤ w → |v - w| ≤ 2e-13 →
      |fSpec (v / W) - fSpec (w / W)| ≤ 2 / 10 ^ 12 := by
    intro W v w hW hv hw hvw
    have hWp : 0 < W := by linarith
    have l := fSpec_lip (div_nonneg hv hWp.le) (div_nonneg hw hWp.le)
    have e : v / W - w / W = (v - w) / W := by ring
    rw [e, abs_div, abs_of_pos hWp] at l
    have : |v - w| / W ≤ 2e-13 / (95 / 100) := by
      apply div_le_div₀ (by norm_num) hvw (by norm_num) hW
    norm_num at this l ⊢; linarith
  have kx := key Xn _ _ (by unfold Xn; norm_num) a0 r1 a2
  have ky := key Yn _ _ (by unfold Yn; norm_num) b0 r2 b2
  have kz := key Zn _ _ (by unfold Zn; norm_num) c0 r3 c2
  simp only [cielab, cieF_eq_fSpec] at h1 h2 h3 ⊢
  obtain ⟨kx1, kx2⟩ := abs_le.mp kx
  obtain ⟨ky1, ky2⟩ := abs_le.mp ky
  obtain ⟨kz1, kz2⟩ := abs_le.mp kz
  obtain ⟨p1, p2⟩ := abs_le.mp h1
  obtain ⟨p3, p4⟩ := abs_le.mp h2
  obtain ⟨p5, p6⟩ := abs_le.mp h3
  refine ⟨abs_le.mpr ⟨by linarith, by linarith⟩, abs_le.mpr ⟨by linarith, by linarith⟩,
    abs_le.mpr ⟨by linarith, by linarith⟩⟩

/-! ## CIELUV and Hunter Lab against the formulae at the exact-real XYZ -/

/-- the exact-real XYZ of black is `(0, 0, 0)` -/
theorem real_black : (Xyz.from_rgb ⟨0, 0, 0⟩ XyzKind.D65 : Xyz ℝ) = ⟨0, 0, 0⟩ := by
  simp [Xyz.from_rgb, Xyz.compute_xyz_from_matrix, Srgb.as_f64, Srgb.from_Rgb, Rgb.as_f64,
    F64.compute_srgb_gamma_expanded]
  norm_num

/-- **CIELUV, every 8-bit colour, against the CIE formulae at the EXACT-REAL XYZ of the colour**: the CIELUV formulae
move by at most `2e-10` / `1e-7` under the `2e-13` perturbation of XYZ on the cone (`FpAssemble.cieluv_lip`) -/
theorem luv_forward_colour_real_xyz_fp (M : FPModel) (c : Rgb) (hr : c.r ≤ 255) (hg : c.g ≤ 255) (hb : c.b ≤ 255) :
    let xr : Xyz ℝ := Xyz.from_rgb c XyzKind.D65
    |(Luv.from_Xyz (xyzF M c)).l.val - (cieluv xr.x xr.y xr.z).l| ≤ 41 / 10 ^ 6 ∧
    |(Luv.from_Xyz (xyzF M c)).u.val - (cieluv xr.x xr.y xr.z).u| ≤ 61 / 10 ^ 5 ∧
    |(Luv.from_Xyz (xyzF M c)).v.val - (cieluv xr.x xr.y xr.z).v| ≤ 61 / 10 ^ 5 := by
  intro xr
  by_cases hnb : c.r = 0 ∧ c.g = 0 ∧ c.b = 0
  · have ec := eq_black hnb
    have exr : xr = ⟨0, 0, 0⟩ := by simp only [xr, ec, real_black]
    rw [exr, ec]
    obtain ⟨z1, z2, z3⟩ := black_fp M .D65
    obtain ⟨l1, l2, l3⟩ := FpLuv.luv_black_fp M (xyzF M ⟨0, 0, 0⟩) z1 z2 z3
    rw [l1, l2, l3, luv_black.2]
    norm_num
  · obtain ⟨⟨a0, -, a2⟩, ⟨-, b1, b2⟩, ⟨c0, -, c2⟩⟩ := FpCieXyz.xyz_d65_fp M c hr hg hb
    obtain ⟨q1, q2, -⟩ := FpCieXyz.xyz_cone_fp M c hr hg hb hnb
    obtain ⟨r1, r2, r3, -⟩ := luv_gamut_of_srgb_cone c
    have hY : 0 ≤ (xyzF M c).y.val := le_trans (by norm_num) q1
    have hgm : (xyzF M c).x.val ≤ 5 * (xyzF M c).y.val + (xyzF M c).z.val := by linarith
    obtain ⟨h1, h2, h3⟩ := luv_cie_fp M (xyzF M c) a0 (le_trans (by norm_num) q1) b1 c0 hgm
    obtain ⟨k1, k2, k3⟩ := cieluv_lip (X := xr.x) (Y := xr.y) (Z := xr.z) r1 r2 r3 a0 q1 c0 a2 b2 c2 hgm
    refine ⟨?_, ?_, ?_⟩
    · have := abs_sub_le (Luv.from_Xyz (xyzF M c)).l.val
        (cieluv (xyzF M c).x.val (xyzF M c).y.val (xyzF M c).z.val).l (cieluv xr.x xr.y xr.z).l
      norm_num at h1 k1 this ⊢; linarith
    · have := abs_sub_le (Luv.from_Xyz (xyzF M c)).u.val
        (cieluv (xyzF M c).x.val (xyzF M c).y.val (xyzF M c).z.val).u (cieluv xr.x xr.y xr.z).u
      norm_num at h2 k2 this ⊢; linarith
    · have := abs_sub_le (Luv.from_Xyz (xyzF M c)).v.val
        (cieluv (xyzF M c).x.val (xyzF M c).y.val (xyzF M c).z.val).v (cieluv xr.x xr.y xr.z).v
      norm_num at h3 k3 this ⊢; linarith

/-- **Hunter Lab, every non-black 8-bit colour, against the Hunter formulae at the EXACT-REAL XYZ of the colour**
(`FpAssemble.hunter_lip`): `L` within `2e-8`, `a`, `b` within `1.1e-7` -/
theorem hlab_forward_colour_real_xyz_fp (M : FPModel) (c : Rgb) (hr : c.r ≤ 255) (hg : c.g ≤ 255) (hb : c.b ≤ 255)
    (hnb : ¬ (c.r = 0 ∧ c.g = 0 ∧ c.b = 0)) :
    let xr : Xyz ℝ := Xyz.from_rgb c XyzKind.D65
    |(Hlab.from_Xyz (xyzF M c)).l.val - (hunter xr.x xr.y xr.z).l| ≤ 2 / 10 ^ 8 ∧
    |(Hlab.from_Xyz (xyzF M c)).a.val - (hunter xr.x xr.y xr.z).a| ≤ 11 / 10 ^ 8 ∧
    |(Hlab.from_Xyz (xyzF M c)).b.val - (hunter xr.x xr.y xr.z).b| ≤ 11 / 10 ^ 8 := by
  intro xr
  obtain ⟨⟨-, -, a2⟩, ⟨-, -, b2⟩, ⟨-, -, c2⟩⟩ := FpCieXyz.xyz_d65_fp M c hr hg hb
  obtain ⟨q1, -, -⟩ := FpCieXyz.xyz_cone_fp M c hr hg hb hnb
  obtain ⟨r1, r2, r3, -⟩ := luv_gamut_of_srgb_cone c
  obtain ⟨s1, s2⟩ := Lemmas.CieRtF1b.srgb_cone_ratios c
  obtain ⟨h1, h2, h3⟩ := hlab_forward_colour_fp M c hr hg hb hnb
  obtain ⟨k1, k2, k3⟩ := hunter_lip (X := xr.x) (Y := xr.y) (Z := xr.z) r1 r3
    (s1.trans (by nlinarith)) (s2.trans (by nlinarith)) q1 a2 b2 c2
  refine ⟨?_, ?_, ?_⟩
  · have := abs_sub_le (Hlab.from_Xyz (xyzF M c)).l.val
      (hunter (xyzF M c).x.val (xyzF M c).y.val (xyzF M c).z.val).l (hunter xr.x xr.y xr.z).l
    norm_num at h1 k1 this ⊢; linarith
  · have := abs_sub_le (Hlab.from_Xyz (xyzF M c)).a.val
      (hunter (xyzF M c).x.val (xyzF M c).y.val (xyzF M c).z.val).a (hunter xr.x xr.y xr.z).a
    norm_num at h2 k2 this ⊢; linarith
  · have := abs_sub_le (Hlab.from_Xyz (xyzF M c)).b.val
      (hunter (xyzF M c).x.val (xyzF M c).y.val (xyzF M c).z.val).b (hunter xr.x xr.y xr.z).b
    norm_num at h3 k3 this ⊢; linarith

/- REMARK (xyY at the exact-real XYZ): not stated.  The chromaticity `X/(X+Y+Z)` amplifies an ABSOLUTE perturbation `δ`
   of XYZ by `4/(X+Y+Z)`; for the darkest colours (`Y ≈ 2e-5`) the available bound `δ = 2e-13` (`FpCieXyz.xyz_d65_fp`;
   `8.5e-15` in `Lemmas/FpOkSharp.lean`) gives `4e-8` (`1.8e-9`), above the property's `1e-9`.  A RELATIVE error bound of the
   computed XYZ (`≈ 1e-15·XYZ`, which is what the arithmetic delivers) would be needed.  The property's clause is about
   the conversion XYZ → xyY applied to the XYZ it receives, which `xyy_forward_all_fp` settles with `1e-15`. -/

/-! ## examples -/

-- every model, concrete colours; a colour whose luminance is near the threshold region is no exception
example (M : FPModel) : |(Lab.from_Xyz (xyzF M ⟨26, 26, 25⟩)).a.val -
    (cielab (xyzF M ⟨26, 26, 25⟩).x.val (xyzF M ⟨26, 26, 25⟩).y.val (xyzF M ⟨26, 26, 25⟩).z.val).a| ≤ 1e-3 :=
  (lab_forward_colour_fp M ⟨26, 26, 25⟩ (by norm_num) (by norm_num) (by norm_num)).2.1
example (M : FPModel) : |(Luv.from_Xyz (xyzF M ⟨0, 0, 0⟩)).l.val -
    (cieluv (xyzF M ⟨0, 0, 0⟩).x.val (xyzF M ⟨0, 0, 0⟩).y.val (xyzF M ⟨0, 0, 0⟩).z.val).l| ≤ 1e-3 :=
  (luv_forward_colour_fp M ⟨0, 0, 0⟩ (by norm_num) (by norm_num) (by norm_num)).1
-- the exact model is a model
example : |(Luv.from_Xyz (xyzF FPModel.exact ⟨255, 0, 7⟩)).u.val - (cieluv (xyzF FPModel.exact ⟨255, 0, 7⟩).x.val
    (xyzF FPModel.exact ⟨255, 0, 7⟩).y.val (xyzF FPModel.exact ⟨255, 0, 7⟩).z.val).u| ≤ 1e-3 :=
  (luv_forward_colour_fp FPModel.exact ⟨255, 0, 7⟩ (by norm_num) (by norm_num) (by norm_num)).2.1
-- the non-black hypothesis is satisfiable
example (M : FPModel) : |(Hlab.from_Xyz (xyzF M ⟨0, 0, 1⟩)).b.val -
    (hunter (xyzF M ⟨0, 0, 1⟩).x.val (xyzF M ⟨0, 0, 1⟩).y.val (xyzF M ⟨0, 0, 1⟩).z.val).b| ≤ 1 / 10 ^ 9 :=
  (hlab_forward_colour_fp M ⟨0, 0, 1⟩ (by norm_num) (by norm_num) (by norm_num) (by norm_num)).2.2
example (M : FPModel) : |(Xyy.from_Xyz (xyzF M ⟨12, 200, 255⟩)).x.val - (xyY (xyzF M ⟨12, 200, 255⟩).x.val
    (xyzF M ⟨12, 200, 255⟩).y.val (xyzF M ⟨12, 200, 255⟩).z.val).x| ≤ 1e-9 :=
  (xyy_forward_all_fp M ⟨12, 200, 255⟩ (by norm_num) (by norm_num) (by norm_num)).1
-- a box XYZ exactly on the rounded threshold side: no `Clear` hypothesis is needed
example (M : FPModel) : |(Lab.from_Xyz (⟨⟨1 / 2⟩, ⟨1107 / 125000⟩, ⟨1 / 4⟩⟩ : Xyz (RF M))).l.val -
    (cielab (1 / 2) (1107 / 125000) (1 / 4)).l| ≤ 5 / 10 ^ 5 :=
  (lab_forward_box_fp M ⟨⟨1 / 2⟩, ⟨1107 / 125000⟩, ⟨1 / 4⟩⟩ (by norm_num) (by norm_num) (by norm_num) (by norm_num)
    (by norm_num) (by norm_num)).1

end Props.C06_fp_colours
