import LymuiVerif.Lemmas.FpEnc2
import LymuiVerif.Props.C11_derived
import LymuiVerif.Props.C14_fp
/-!
# C11 in the rounded-arithmetic reading, remaining clauses — OkLab / OkLch and the encoded RGB spaces

"Every grey (v,v,v) is reported as achromatic …: |a|, |b| … and chroma … below 1e-6 in OkLab/OkLch …,
and equal R = G = B channels (within 2e-3 relative) in sRGB, Adobe RGB, Rec.709, Rec.2020 and Rec.2100.
White has lightness … 1 in OkLab … and black has lightness 0."

For every model `M : FPModel` of floating-point arithmetic and every grey `v ≤ 255`; the XYZ of the grey, the
matrix products and the transfer curves are all computed in `RF M` (`Xyz.from_rgb (α := RF M) ⟨v,v,v⟩ D65`,
Adobe profile for Adobe RGB).  The exact-real facts are those of `Props/C11_derived.lean`
(`Lemmas.GreyF2`); what is added is the distance between the `RF M` values and the exact-real values
(`Lemmas.FpEnc.oklab_xyz_close_all` `4.5e-8`, `srgb_fwd_close` `4e-11`, `rec709_fwd_close` `2e-11`, …).

Proved: `oklab_grey_fp` (`|a|, |b| < 1e-6`; `4.45e-7`, `3.45e-7`), `oklch_chroma_fp` (`< 1e-6`), `oklab_white_black_fp`
(white within `1.01e-5` of 1, black within `1e-70` of 0 — not exactly 0 in every model), `srgb_channels_equal_fp`,
`rec709_channels_equal_fp`, `rec2020_channels_equal_fp`, `argb_channels_equal_fp` (`Eq3`, i.e. within `2e-3` relative; black is
`(0,0,0)` exactly in each).  Not proved: Rec.2100 (GOAL comment at the end).
-/
noncomputable section
namespace Props.C11_fp_derived
open Gen FpErr Lemmas.FpEnc Lemmas.FpEnc2 Lemmas.GreyF2

/-- XYZ of the grey `(v,v,v)` computed in `RF M`, D65 profile / Adobe profile -/
abbrev greyF (M : FPModel) (v : ℕ) : Xyz (RF M) := Xyz.from_rgb (α := RF M) ⟨v, v, v⟩ XyzKind.D65
abbrev greyAF (M : FPModel) (v : ℕ) : Xyz (RF M) := Xyz.from_rgb (α := RF M) ⟨v, v, v⟩ XyzKind.Adobe

/-! ## OkLab / OkLch -/

/-- **OkLab**: `|a|, |b| < 1e-6` for every grey, in every model (proved `4.45e-7`, `3.45e-7`: exact-real
`Lemmas.GreyF2.oklab_grey` `4e-7`, `3e-7`; rounding error of the whole chain XYZ → sRGB → `pow 2.2` → LMS →
`cbrt` → `M2` at most `4.5e-8`, `Lemmas.FpEnc.oklab_xyz_close_all`) -/
theorem oklab_ab_fp (M : FPModel) (v : ℕ) (hv : v ≤ 255) :
    |(OkLab.from_Xyz (greyF M v)).a.val| ≤ 4.45e-7 ∧ |(OkLab.from_Xyz (greyF M v)).b.val| ≤ 3.45e-7 := by
  obtain ⟨_, ka, kb⟩ := oklab_xyz_close_all M ⟨v, v, v⟩ hv hv hv
  obtain ⟨ra, rb⟩ := oklab_grey v hv
  have a' := abs_sub_abs_le_abs_sub (OkLab.from_Xyz (greyF M v)).a.val
    (OkLab.from_Xyz (Xyz.from_rgb (α := ℝ) ⟨v, v, v⟩ XyzKind.D65)).a
  have b' := abs_sub_abs_le_abs_sub (OkLab.from_Xyz (greyF M v)).b.val
    (OkLab.from_Xyz (Xyz.from_rgb (α := ℝ) ⟨v, v, v⟩ XyzKind.D65)).b
  constructor <;> norm_num at ka kb ra rb ⊢ <;> linarith

/-- **OkLab**, the property's form: `|a|, |b| < 1e-6` -/
theorem oklab_grey_fp (M : FPModel) (v : ℕ) (hv : v ≤ 255) :
    |(OkLab.from_Xyz (greyF M v)).a.val| < 1e-6 ∧ |(OkLab.from_Xyz (greyF M v)).b.val| < 1e-6 := by
  obtain ⟨a, b⟩ := oklab_ab_fp M v hv
  exact ⟨lt_of_le_of_lt a (by norm_num), lt_of_le_of_lt b (by norm_num)⟩

/-- **OkLch**: chroma `< 1e-6` for every grey, in every model (proved `≤ 7.91e-7`; the chroma is the rounded
square root of the rounded sum of the rounded squares, `Props.C14.oklch_chroma_sharp_fp`) -/
theorem oklch_chroma_fp (M : FPModel) (v : ℕ) (hv : v ≤ 255) : (OkLch.from_Xyz (greyF M v)).c.val < 1e-6 := by
  obtain ⟨a, b⟩ := oklab_ab_fp M v hv
  have hc := (Props.C14.oklch_chroma_sharp_fp M (OkLab.from_Xyz (greyF M v))).2
  have e : OkLch.from_Xyz (greyF M v) = OkLch.from_OkLab (OkLab.from_Xyz (greyF M v)) := rfl
  rw [e]
  generalize (OkLab.from_Xyz (greyF M v)).a.val = x at a hc
  generalize (OkLab.from_Xyz (greyF M v)).b.val = y at b hc
  have hs : Props.C14.chroma x y ≤ |x| + |y| := by
    unfold Props.C14.chroma
    rw [Real.sqrt_le_left (add_nonneg (abs_nonneg _) (abs_nonneg _))]
    nlinarith [abs_nonneg x, abs_nonneg y, sq_abs x, sq_abs y]
  have h0 : 0 ≤ Props.C14.chroma x y := Real.sqrt_nonneg _
  have := (abs_le.mp hc).2
  norm_num at a b ⊢; nlinarith

/-- **white has OkLab lightness 1** within `1.01e-5` (exact-real `Props.C11_derived.oklab_white_black`: `1e-5`),
**black has lightness 0** within `1e-70` — NOT exactly `0` in every model: `powf(0, 2.2)` is only known to be within
`η = 2^-1075` of `0` (it is exactly `0` on ℝ and in binary64) -/
theorem oklab_white_black_fp (M : FPModel) :
    |(OkLab.from_Xyz (greyF M 255)).l.val - 1| ≤ 1.01e-5 ∧ |(OkLab.from_Xyz (greyF M 0)).l.val| ≤ 1e-70 := by
  constructor
  · obtain ⟨kl, _, _⟩ := oklab_xyz_close_all M ⟨255, 255, 255⟩ le_rfl le_rfl le_rfl
    have r := Props.C11_derived.oklab_white_black.1
    have t := abs_sub_le (OkLab.from_Xyz (greyF M 255)).l.val
      (OkLab.from_Xyz (Xyz.from_rgb (α := ℝ) ⟨255, 255, 255⟩ XyzKind.D65)).l 1
    norm_num at kl r t ⊢; linarith
  · obtain ⟨z1, z2, z3⟩ := srgb_black_fp M
    exact (oklab_black M _ z1 z2 z3).1

/-! ## equal channels -/

/-- **sRGB**: the three channels of a grey are equal within `2e-3` relative (`Eq3`), in every model
(exact-real spread `7.2e-7` relative, `Lemmas.GreyF2.srgb_grey_order`; rounding `4e-11` absolute on channels
`≥ 7.7e-7`; black is `(0,0,0)` exactly) -/
theorem srgb_channels_equal_fp (M : FPModel) (v : ℕ) (hv : v ≤ 255) :
    Eq3 (Srgb.from_Xyz (greyF M v)).r.val (Srgb.from_Xyz (greyF M v)).g.val (Srgb.from_Xyz (greyF M v)).b.val := by
  rcases Nat.eq_zero_or_pos v with h0 | h1
  · obtain ⟨z1, z2, z3⟩ := srgb_black_fp M
    rw [h0, z1, z2, z3]; exact eq3_zero
  · obtain ⟨f1, f2, f3⟩ := srgb_fwd_close M ⟨v, v, v⟩ hv hv hv
    obtain ⟨r0, rb, bg, gr⟩ := srgb_grey_order v hv
    obtain ⟨t1, _, _⟩ := Props.C08.forward_srgb_tight ⟨v, v, v⟩ hv hv hv
    have hlo : (0.0039:ℝ) ≤ (Srgb.from_Xyz (Xyz.from_rgb (α := ℝ) ⟨v, v, v⟩ XyzKind.D65)).r := by
      have h1n : (1:ℝ) ≤ v := by exact_mod_cast h1
      have : (1:ℝ)/255 ≤ (v:ℝ)/255 := div_le_div_of_nonneg_right h1n (by norm_num)
      have := (abs_le.mp t1).1
      dsimp only at this
      norm_num at * ; linarith
    refine eq3_pert (lo := (Srgb.from_Xyz (Xyz.from_rgb (α := ℝ) ⟨v, v, v⟩ XyzKind.D65)).r)
      (hi := (Srgb.from_Xyz (Xyz.from_rgb (α := ℝ) ⟨v, v, v⟩ XyzKind.D65)).g) (ρ := 72 / 10 ^ 8) (δ := 4e-11)
      ⟨le_rfl, rb.trans bg⟩ ⟨rb.trans bg, le_rfl⟩ ⟨rb, bg⟩ (by linarith) f1 f2 f3 ?_ (by linarith)
    norm_num at hlo ⊢; linarith

/-- **Rec.709**: equal channels (`Eq3`) for every grey, in every model (exact-real spread `6.8e-7` relative,
`Lemmas.FpEnc2.rec709_grey_real`; rounding `1.3e-11` absolute on channels `≥ 1.3e-3`; black `(0,0,0)` exactly;
no grey has a linear component within `1e-4` of the BT.709 breakpoint, so the computed comparison takes the branch of
the exact one) -/
theorem rec709_channels_equal_fp (M : FPModel) (v : ℕ) (hv : v ≤ 255) :
    Eq3 (Rec709.from_Xyz (greyF M v)).r.val (Rec709.from_Xyz (greyF M v)).g.val (Rec709.from_Xyz (greyF M v)).b.val := by
  rcases Nat.eq_zero_or_pos v with h0 | h1
  · obtain ⟨z1, z2, z3⟩ := rec709_black_fp M
    rw [h0, z1, z2, z3]; exact eq3_zero
  · obtain ⟨side, u0, o1, o2, w1, lo, rel, mono⟩ := rec709_grey_real v hv h1
    obtain ⟨r1, r2, r3⟩ := Lemmas.FpXyz.rev_rows M .D65
    have q1 := grey_lin_fp M r1 v hv
    have q2 := grey_lin_fp M r2 v hv
    have q3 := grey_lin_fp M r3 v hv
    simp only [Lemmas.Matrix.rev] at q1 q2 q3
    have gap : ∀ y, Props.C08.dot C.RX65 (gx v) (gy v) (gz v) ≤ y → y ≤ Props.C08.dot C.RY65 (gx v) (gy v) (gz v) →
        (y ≤ 0.0179 ∨ 0.0181 ≤ y) ∧ -1 ≤ y ∧ y ≤ 1.1 := by
      intro y h1 h2
      refine ⟨?_, by linarith, by linarith⟩
      rcases side with h | h
      · left; linarith
      · right; linarith
    obtain ⟨g1, g1', g1''⟩ := gap _ le_rfl (o1.trans o2)
    obtain ⟨g2, g2', g2''⟩ := gap _ (o1.trans o2) le_rfl
    obtain ⟨g3, g3', g3''⟩ := gap _ o1 o2
    have d1 := rec709_enc_tight M _ _ _ q1 (by norm_num) g1 g1' g1''
    have d2 := rec709_enc_tight M _ _ _ q2 (by norm_num) g2 g2' g2''
    have d3 := rec709_enc_tight M _ _ _ q3 (by norm_num) g3 g3' g3''
    rw [Props.C08.rec709_encode_is_bt709] at d1 d2 d3
    unfold greyF
    rw [Lemmas.FpXyz.from_rgb_eq_fp', rec709_from_xyz_fp]
    dsimp only [Lemmas.FpXyz.rlinF, Lemmas.FpXyz.revF]
    refine eq3_pert (mono _ le_rfl (o1.trans o2)) (mono _ (o1.trans o2) le_rfl) (mono _ o1 o2) rel d1 d2 d3 ?_ ?_
    · norm_num at lo ⊢; linarith
    · norm_num at lo ⊢; linarith

/-- **Rec.2020**: equal channels (`Eq3`) for every grey, in every model (exact-real spread `6.8e-4` relative,
rounding `1.3e-11` absolute on channels `≥ 1.3e-3`; black `(0,0,0)` exactly; no grey has a linear component within
`1e-5` of `β = 0.0181`) -/
theorem rec2020_channels_equal_fp (M : FPModel) (v : ℕ) (hv : v ≤ 255) :
    Eq3 (Rec2020.from_Xyz (greyF M v)).r.val (Rec2020.from_Xyz (greyF M v)).g.val (Rec2020.from_Xyz (greyF M v)).b.val := by
  rcases Nat.eq_zero_or_pos v with h0 | h1
  · obtain ⟨z1, z2, z3⟩ := rec2020_black_fp M
    rw [h0, z1, z2, z3]; exact eq3_zero
  · obtain ⟨side, u0, o1, o2, w1, lo, rel, mono⟩ := rec2020_grey_real v hv h1
    obtain ⟨r1, r2, r3⟩ := rec2020_rows M
    have q1 := grey_lin_fp M r1 v hv
    have q2 := grey_lin_fp M r2 v hv
    have q3 := grey_lin_fp M r3 v hv
    have gap : ∀ y, Props.C08.dot C.XB (gx v) (gy v) (gz v) ≤ y → y ≤ Props.C08.dot C.rec2020_XR (gx v) (gy v) (gz v) →
        (y ≤ 0.01809 ∨ 0.01811 ≤ y) ∧ -1 ≤ y ∧ y ≤ 1.1 := by
      intro y h1 h2
      refine ⟨?_, by linarith, by linarith⟩
      rcases side with h | h
      · left; linarith
      · right; linarith
    obtain ⟨g1, g1', g1''⟩ := gap _ (o1.trans o2) le_rfl
    obtain ⟨g2, g2', g2''⟩ := gap _ o1 o2
    obtain ⟨g3, g3', g3''⟩ := gap _ le_rfl (o1.trans o2)
    have d1 := rec2020_enc_tight M _ _ _ q1 (by norm_num) g1 g1' g1''
    have d2 := rec2020_enc_tight M _ _ _ q2 (by norm_num) g2 g2' g2''
    have d3 := rec2020_enc_tight M _ _ _ q3 (by norm_num) g3 g3' g3''
    rw [Props.C08.rec2020_encode_is_bt2020] at d1 d2 d3
    unfold greyF
    rw [Lemmas.FpXyz.from_rgb_eq_fp', rec2020_from_xyz_fp]
    dsimp only
    refine eq3_pert (mono _ (o1.trans o2) le_rfl) (mono _ o1 o2) (mono _ le_rfl (o1.trans o2)) rel d1 d2 d3 ?_ ?_
    · norm_num at lo ⊢; linarith
    · norm_num at lo ⊢; linarith

/-- **Adobe RGB** (XYZ under the Adobe profile): equal channels (`Eq3`) for every grey, in every model
(exact-real spread `4e-4` relative; the encoder `x^(256/563)` has slope `≤ 4730` on `[5.9e-8, ∞)`, where the linear
components of every grey but black lie, so the rounding error is `≤ 1.3e-8` on channels `≥ 1.9e-3`; black `(0,0,0)`
exactly) -/
theorem argb_channels_equal_fp (M : FPModel) (v : ℕ) (hv : v ≤ 255) :
    Eq3 (Argb.from_Xyz (greyAF M v)).r.val (Argb.from_Xyz (greyAF M v)).g.val (Argb.from_Xyz (greyAF M v)).b.val := by
  rcases Nat.eq_zero_or_pos v with h0 | h1
  · obtain ⟨z1, z2, z3⟩ := argb_black_fp M
    rw [h0, z1, z2, z3]; exact eq3_zero
  · obtain ⟨u0, o1, o2, w1, lo, rel, mono⟩ := argb_grey_real v hv h1
    obtain ⟨r1, r2, r3⟩ := argb_rows M
    have q1 := greyA_lin_fp M r1 v hv
    have q2 := greyA_lin_fp M r2 v hv
    have q3 := greyA_lin_fp M r3 v hv
    have d1 := argb_enc_tight M _ _ _ q1 (by norm_num) (by linarith) w1
    have d2 := argb_enc_tight M _ _ _ q2 (by norm_num) (by linarith) (by linarith)
    have d3 := argb_enc_tight M _ _ _ q3 (by norm_num) u0 (by linarith)
    unfold greyAF
    rw [Lemmas.FpXyz.from_rgb_eq_fp', argb_from_xyz_fp]
    dsimp only
    refine eq3_pert (mono _ (o1.trans o2) le_rfl) (mono _ o1 o2) (mono _ le_rfl (o1.trans o2)) rel d1 d2 d3 ?_ ?_
    · norm_num at lo ⊢; linarith
    · norm_num at lo ⊢; linarith

/-! ## every proved clause for every 8-bit grey -/

/-- all the clauses above, for one grey and one model -/
theorem grey_of_rgb_fp (M : FPModel) (v : ℕ) (hv : v ≤ 255) :
    |(OkLab.from_Xyz (greyF M v)).a.val| < 1e-6 ∧ |(OkLab.from_Xyz (greyF M v)).b.val| < 1e-6 ∧
    (OkLch.from_Xyz (greyF M v)).c.val < 1e-6 ∧
    Eq3 (Srgb.from_Xyz (greyF M v)).r.val (Srgb.from_Xyz (greyF M v)).g.val (Srgb.from_Xyz (greyF M v)).b.val ∧
    Eq3 (Argb.from_Xyz (greyAF M v)).r.val (Argb.from_Xyz (greyAF M v)).g.val (Argb.from_Xyz (greyAF M v)).b.val ∧
    Eq3 (Rec709.from_Xyz (greyF M v)).r.val (Rec709.from_Xyz (greyF M v)).g.val (Rec709.from_Xyz (greyF M v)).b.val ∧
    Eq3 (Rec2020.from_Xyz (greyF M v)).r.val (Rec2020.from_Xyz (greyF M v)).g.val (Rec2020.from_Xyz (greyF M v)).b.val :=
  ⟨(oklab_grey_fp M v hv).1, (oklab_grey_fp M v hv).2, oklch_chroma_fp M v hv, srgb_channels_equal_fp M v hv,
    argb_channels_equal_fp M v hv, rec709_channels_equal_fp M v hv, rec2020_channels_equal_fp M v hv⟩

/- GOAL (not proved): Rec.2100 in `RF M`,
     ∀ M v, 1 ≤ v → v ≤ 255 → Eq3 (Rec2100.from_Xyz (greyF M v)).r.val (Rec2100.from_Xyz (greyF M v)).g.val (Rec2100.from_Xyz (greyF M v)).b.val
   (exact-real `Props.C11_derived.rec2100_channels_equal`, spread `4.3e-4` relative, `Lemmas.GreyF2.rec2100_grey`).
   Missing: the crate's forward PQ curve `F64.pq_eotf` in `RF M` with a perturbed argument — `powf(E, 1/m2)`,
   the cancelling difference `E^(1/m2) − c1` (for the darkest grey `0.902 − 0.836`, amplification `≈ 14`), the quotient, `powf(·, 1/m1)`
   (relative amplification `6.3`) and the scaling by `10000`; a relative-error chain in the style of `Lemmas.FpEnc.RNear`, estimated total
   `≈ 1e-13` relative against the margin `2e-3 − 4.3e-4`.  The linear components are available (`Lemmas.FpEnc2.grey_lin_fp`, `2.7e-12`).
   For black (`v = 0`) the statement `Eq3` is NOT provable for every model: `F64.pq_eotf 0` contains `powf(0, 1/m2)` and
   `powf(0, 1/m1)`, which `FPModel` only bounds by `2^-1075` in magnitude, so the three channels are tiny (`≤ 1e-300`) but not
   necessarily equal or zero (they are exactly `0` on ℝ and in binary64). -/

/-! ## Examples -/

-- the exact arithmetic is a model: mid grey
example : |(OkLab.from_Xyz (greyF FPModel.exact 128)).a.val| < 1e-6 := (oklab_grey_fp FPModel.exact 128 (by norm_num)).1
-- every model: the greys next to the branch points of the encoders (10/11 sRGB, 36/37 BT.709 / BT.2020), level 1, white
example (M : FPModel) : Eq3 (Srgb.from_Xyz (greyF M 10)).r.val (Srgb.from_Xyz (greyF M 10)).g.val (Srgb.from_Xyz (greyF M 10)).b.val :=
  srgb_channels_equal_fp M 10 (by norm_num)
example (M : FPModel) : Eq3 (Rec709.from_Xyz (greyF M 36)).r.val (Rec709.from_Xyz (greyF M 36)).g.val (Rec709.from_Xyz (greyF M 36)).b.val :=
  rec709_channels_equal_fp M 36 (by norm_num)
example (M : FPModel) : Eq3 (Rec2020.from_Xyz (greyF M 37)).r.val (Rec2020.from_Xyz (greyF M 37)).g.val (Rec2020.from_Xyz (greyF M 37)).b.val :=
  rec2020_channels_equal_fp M 37 (by norm_num)
example (M : FPModel) : Eq3 (Argb.from_Xyz (greyAF M 1)).r.val (Argb.from_Xyz (greyAF M 1)).g.val (Argb.from_Xyz (greyAF M 1)).b.val :=
  argb_channels_equal_fp M 1 (by norm_num)
example (M : FPModel) : (OkLch.from_Xyz (greyF M 255)).c.val < 1e-6 := oklch_chroma_fp M 255 (by norm_num)
-- the hypothesis `v ≤ 255` is satisfiable
example : (0 : ℕ) ≤ 255 ∧ (128 : ℕ) ≤ 255 ∧ (255 : ℕ) ≤ 255 := by norm_num

end Props.C11_fp_derived
