import LymuiVerif.Lemmas.Quant
/-!
# C12 (weak clauses) — one step up in a channel never lowers a lightness-like quantity

Exact-real reading.  `Step c d` says that `d` is the 8-bit colour `c` with exactly one channel raised
by one step (the raised channel was `< 255`).  For such `c`, `d`:
YUV luma, YCbCr luma, HSV value, HSL lightness and every grayscale mode do not decrease, and CMYK's K
does not increase (`step_monotone`).  Each clause is proved in the stronger componentwise form
(`Le c d`: every channel of `c` is at most that of `d`), from the monotonicity of `max`, `min`,
of linear forms with non-negative weights, and of the quantiser `as u8`.

No division by a non-constant is involved: K, V and L only divide by the constants 255 and 2, and the
branches of `Hsv::from` / `Cymk::from` (which do guard a division by `max`) give the same `v` / `k`.
-/
namespace Props.C12_weak
open Gen

/-- componentwise order on colours -/
def Le (c d : Rgb) : Prop := c.r ≤ d.r ∧ c.g ≤ d.g ∧ c.b ≤ d.b

/-- `d` is `c` with a single channel raised by one step, within the 8-bit range -/
def Step (c d : Rgb) : Prop :=
  (c.r < 255 ∧ d = ⟨c.r + 1, c.g, c.b⟩) ∨ (c.g < 255 ∧ d = ⟨c.r, c.g + 1, c.b⟩) ∨
  (c.b < 255 ∧ d = ⟨c.r, c.g, c.b + 1⟩)

theorem Step.le {c d : Rgb} (h : Step c d) : Le c d := by
  rcases h with ⟨_, rfl⟩ | ⟨_, rfl⟩ | ⟨_, rfl⟩ <;> simp [Le]

/-- **YUV luma** is monotone -/
theorem yuv_luma_mono {c d : Rgb} (h : Le c d) :
    (Yuv.from_Rgb (α := ℝ) c).y ≤ (Yuv.from_Rgb (α := ℝ) d).y := by
  obtain ⟨hr, hg, hb⟩ := h
  have hr' : (c.r : ℝ) ≤ d.r := by exact_mod_cast hr
  have hg' : (c.g : ℝ) ≤ d.g := by exact_mod_cast hg
  have hb' : (c.b : ℝ) ≤ d.b := by exact_mod_cast hb
  simp only [Yuv.from_Rgb, Rgb.as_f64, FltReal.lit_eq, FltReal.ofNat_eq]
  push_cast
  linarith

/-- **YCbCr luma** is monotone -/
theorem ycbcr_luma_mono {c d : Rgb} (h : Le c d) :
    (Ycbcr.from_Rgb ℝ c).y ≤ (Ycbcr.from_Rgb ℝ d).y := by
  obtain ⟨hr, hg, hb⟩ := h
  have hr' : (c.r : ℝ) ≤ d.r := by exact_mod_cast hr
  have hg' : (c.g : ℝ) ≤ d.g := by exact_mod_cast hg
  have hb' : (c.b : ℝ) ≤ d.b := by exact_mod_cast hb
  simp only [Ycbcr.from_Rgb, Ycbcr.calculate_indices, Rgb.as_f64, FltReal.lit_eq, FltReal.ofNat_eq,
    FltReal.toU8_eq]
  apply Quant.toU8_mono
  push_cast
  linarith

/-- **HSV value** is monotone -/
theorem hsv_value_mono {c d : Rgb} (h : Le c d) :
    (Hsv.from_Rgb (α := ℝ) c).v ≤ (Hsv.from_Rgb (α := ℝ) d).v := by
  obtain ⟨hr, hg, hb⟩ := h
  have hm : max (c.b : ℝ) (max (c.r : ℝ) (c.g : ℝ)) ≤ max (d.b : ℝ) (max (d.r : ℝ) (d.g : ℝ)) :=
    Quant.max3_mono (by exact_mod_cast hr) (by exact_mod_cast hg) (by exact_mod_cast hb)
  have hv : ∀ e : Rgb, (Hsv.from_Rgb (α := ℝ) e).v =
      max (e.b : ℝ) (max (e.r : ℝ) (e.g : ℝ)) / ((255 : ℕ) / (1 : ℕ)) * ((100 : ℕ) / (1 : ℕ)) := by
    intro e
    simp only [Hsv.from_Rgb]
    split_ifs <;> simp only [Rgb.get_min_max, Rgb.as_f64, FltReal.lit_eq, FltReal.ofNat_eq, FltReal.max_eq]
  rw [hv, hv]
  push_cast
  linarith

/-- **HSL lightness** is monotone -/
theorem hsl_lightness_mono {c d : Rgb} (h : Le c d) :
    (Hsl.from_Rgb (α := ℝ) c).l ≤ (Hsl.from_Rgb (α := ℝ) d).l := by
  obtain ⟨hr, hg, hb⟩ := h
  have hm : max (c.b : ℝ) (max (c.r : ℝ) (c.g : ℝ)) ≤ max (d.b : ℝ) (max (d.r : ℝ) (d.g : ℝ)) :=
    Quant.max3_mono (by exact_mod_cast hr) (by exact_mod_cast hg) (by exact_mod_cast hb)
  have hn : min (c.b : ℝ) (min (c.r : ℝ) (c.g : ℝ)) ≤ min (d.b : ℝ) (min (d.r : ℝ) (d.g : ℝ)) :=
    Quant.min3_mono (by exact_mod_cast hr) (by exact_mod_cast hg) (by exact_mod_cast hb)
  simp only [Hsl.from_Rgb, Rgb.get_min_max, Rgb.as_f64, FltReal.lit_eq, FltReal.ofNat_eq, FltReal.max_eq,
    FltReal.min_eq]
  push_cast
  linarith

/-- **every grayscale mode** is monotone -/
theorem gray_mono {c d : Rgb} (h : Le c d) (k : GrayscaleKind) :
    (GrayScale.from_rgb ℝ c k)._0 ≤ (GrayScale.from_rgb ℝ d k)._0 := by
  obtain ⟨hr, hg, hb⟩ := h
  have hr' : (c.r : ℝ) ≤ d.r := by exact_mod_cast hr
  have hg' : (c.g : ℝ) ≤ d.g := by exact_mod_cast hg
  have hb' : (c.b : ℝ) ≤ d.b := by exact_mod_cast hb
  have hm : max (c.b : ℝ) (max (c.r : ℝ) (c.g : ℝ)) ≤ max (d.b : ℝ) (max (d.r : ℝ) (d.g : ℝ)) :=
    Quant.max3_mono hr' hg' hb'
  have hn : min (c.b : ℝ) (min (c.r : ℝ) (c.g : ℝ)) ≤ min (d.b : ℝ) (min (d.r : ℝ) (d.g : ℝ)) :=
    Quant.min3_mono hr' hg' hb'
  cases k <;>
    (simp only [GrayScale.from_rgb, Rgb.get_min_max, Rgb.as_f64, FltReal.lit_eq, FltReal.ofNat_eq,
      FltReal.max_eq, FltReal.min_eq, FltReal.toU8_eq]
     apply Quant.toU8_mono
     push_cast
     linarith)

/-- **CMYK's K** is antitone -/
theorem cmyk_k_anti {c d : Rgb} (h : Le c d) :
    (Cymk.from_Rgb (α := ℝ) d).k ≤ (Cymk.from_Rgb (α := ℝ) c).k := by
  obtain ⟨hr, hg, hb⟩ := h
  have hm : max (c.b : ℝ) (max (c.r : ℝ) (c.g : ℝ)) ≤ max (d.b : ℝ) (max (d.r : ℝ) (d.g : ℝ)) :=
    Quant.max3_mono (by exact_mod_cast hr) (by exact_mod_cast hg) (by exact_mod_cast hb)
  have hk : ∀ e : Rgb, (Cymk.from_Rgb (α := ℝ) e).k =
      (1 : ℕ) / (1 : ℕ) - max (e.b : ℝ) (max (e.r : ℝ) (e.g : ℝ)) / ((255 : ℕ) / (1 : ℕ)) := by
    intro e
    simp only [Cymk.from_Rgb]
    split_ifs <;> simp only [Rgb.get_min_max, Rgb.as_f64, FltReal.lit_eq, FltReal.ofNat_eq, FltReal.max_eq]
  rw [hk, hk]
  push_cast
  linarith

/-- the conclusion of C12's weak clauses for a pair of colours -/
def Weak (c d : Rgb) : Prop :=
  (Yuv.from_Rgb (α := ℝ) c).y ≤ (Yuv.from_Rgb (α := ℝ) d).y ∧
  (Ycbcr.from_Rgb ℝ c).y ≤ (Ycbcr.from_Rgb ℝ d).y ∧
  (Hsv.from_Rgb (α := ℝ) c).v ≤ (Hsv.from_Rgb (α := ℝ) d).v ∧
  (Hsl.from_Rgb (α := ℝ) c).l ≤ (Hsl.from_Rgb (α := ℝ) d).l ∧
  (∀ k, (GrayScale.from_rgb ℝ c k)._0 ≤ (GrayScale.from_rgb ℝ d k)._0) ∧
  (Cymk.from_Rgb (α := ℝ) d).k ≤ (Cymk.from_Rgb (α := ℝ) c).k

/-- **C12, weak clauses**: raising any single channel of an 8-bit colour by one step never lowers the
YUV or YCbCr luma, the HSV value, the HSL lightness or any grayscale mode, and never raises CMYK's K. -/
theorem step_monotone {c d : Rgb} (h : Step c d) : Weak c d :=
  ⟨yuv_luma_mono h.le, ycbcr_luma_mono h.le, hsv_value_mono h.le, hsl_lightness_mono h.le,
    gray_mono h.le, cmyk_k_anti h.le⟩

/-- the red channel raised by one -/
theorem raise_r (c : Rgb) (h : c.r < 255) : Weak c ⟨c.r + 1, c.g, c.b⟩ :=
  step_monotone (Or.inl ⟨h, rfl⟩)
/-- the green channel raised by one -/
theorem raise_g (c : Rgb) (h : c.g < 255) : Weak c ⟨c.r, c.g + 1, c.b⟩ :=
  step_monotone (Or.inr (Or.inl ⟨h, rfl⟩))
/-- the blue channel raised by one -/
theorem raise_b (c : Rgb) (h : c.b < 255) : Weak c ⟨c.r, c.g, c.b + 1⟩ :=
  step_monotone (Or.inr (Or.inr ⟨h, rfl⟩))

/-! ## Satisfiability of the hypotheses -/

example : Step ⟨254, 55, 102⟩ ⟨255, 55, 102⟩ := Or.inl ⟨by decide, rfl⟩
example : Step ⟨10, 55, 102⟩ ⟨10, 56, 102⟩ := Or.inr (Or.inl ⟨by decide, rfl⟩)
example : Step ⟨10, 55, 254⟩ ⟨10, 55, 255⟩ := Or.inr (Or.inr ⟨by decide, rfl⟩)
example : Le ⟨10, 55, 102⟩ ⟨12, 55, 200⟩ := by simp [Le]

end Props.C12_weak
