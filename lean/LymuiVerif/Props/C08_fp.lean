import LymuiVerif.Lemmas.FpEnc
/-!
# C08 in the rounded-arithmetic reading (`RF M`, every `M : FPModel`)

Property text: "For every 8-bit colour c: converting XYZ(c, D65) to sRGB and XYZ(c, Adobe) to Adobe RGB
returns the encoded channel values c/255 (within 5e-6 resp. 2e-3); Rec.709 and Rec.2020 values are the
BT.709 / BT.2020 OETF of the linear components in the respective primaries within 2e-6; …  For every
in-range encoded triple the reverse conversions apply the inverse curve and matrix (within 5e-6 in XYZ)."

Every theorem is about the GENERATED functions evaluated in `RF M` (each `+ - * /`, literal and `powf`
rounded), for an arbitrary model `M` of floating-point arithmetic.  The exact-real theorems of
`Props/C08.lean`, `Props/C08_rec2020.lean`, `Props/C02_requant.lean` are cited, not re-proved; what is
added is the distance between the `RF M` value and the exact-real value of the same generated function
(`Lemmas/FpEnc.lean`: `srgb_fwd_close` 4e-11, `rec709_fwd_close` 2e-11, `rec2020_enc_quasi`, `srgb_roundtrip_fp`, …).
-/
noncomputable section
namespace Props.C08_fp
open Gen Props.C08 Lemmas.FpEnc

/-- **C08, sRGB forward, rounded model**: XYZ(c, D65) → sRGB returns c/255 within 5e-6
(exact-real distance ≤ 3.6e-6, `Props.C08.forward_srgb_tight`; rounding error ≤ 4e-11) -/
theorem forward_srgb_fp (M : FPModel) (c : Rgb) (hr : c.r ≤ 255) (hg : c.g ≤ 255) (hb : c.b ≤ 255) :
    |(Srgb.from_Xyz (Xyz.from_rgb (α := RF M) c XyzKind.D65)).r.val - (c.r : ℝ) / 255| ≤ 5e-6 ∧
    |(Srgb.from_Xyz (Xyz.from_rgb (α := RF M) c XyzKind.D65)).g.val - (c.g : ℝ) / 255| ≤ 5e-6 ∧
    |(Srgb.from_Xyz (Xyz.from_rgb (α := RF M) c XyzKind.D65)).b.val - (c.b : ℝ) / 255| ≤ 5e-6 := by
  obtain ⟨h1, h2, h3⟩ := forward_srgb_tight c hr hg hb
  obtain ⟨f1, f2, f3⟩ := srgb_fwd_close M c hr hg hb
  refine ⟨?_, ?_, ?_⟩
  · have := abs_sub_le (Srgb.from_Xyz (Xyz.from_rgb (α := RF M) c XyzKind.D65)).r.val
      (Srgb.from_Xyz (Xyz.from_rgb (α := ℝ) c XyzKind.D65)).r ((c.r : ℝ) / 255)
    linarith
  · have := abs_sub_le (Srgb.from_Xyz (Xyz.from_rgb (α := RF M) c XyzKind.D65)).g.val
      (Srgb.from_Xyz (Xyz.from_rgb (α := ℝ) c XyzKind.D65)).g ((c.g : ℝ) / 255)
    linarith
  · have := abs_sub_le (Srgb.from_Xyz (Xyz.from_rgb (α := RF M) c XyzKind.D65)).b.val
      (Srgb.from_Xyz (Xyz.from_rgb (α := ℝ) c XyzKind.D65)).b ((c.b : ℝ) / 255)
    linarith

/-- the rounded sRGB value against the exact-real sRGB value of the same colour: `4e-11` -/
theorem forward_srgb_vs_real_fp (M : FPModel) (c : Rgb) (hr : c.r ≤ 255) (hg : c.g ≤ 255) (hb : c.b ≤ 255) :
    |(Srgb.from_Xyz (Xyz.from_rgb (α := RF M) c XyzKind.D65)).r.val - (Srgb.from_Xyz (Xyz.from_rgb (α := ℝ) c XyzKind.D65)).r| ≤ 4e-11 ∧
    |(Srgb.from_Xyz (Xyz.from_rgb (α := RF M) c XyzKind.D65)).g.val - (Srgb.from_Xyz (Xyz.from_rgb (α := ℝ) c XyzKind.D65)).g| ≤ 4e-11 ∧
    |(Srgb.from_Xyz (Xyz.from_rgb (α := RF M) c XyzKind.D65)).b.val - (Srgb.from_Xyz (Xyz.from_rgb (α := ℝ) c XyzKind.D65)).b| ≤ 4e-11 :=
  srgb_fwd_close M c hr hg hb

/-- **C08, Adobe RGB forward, rounded model**: XYZ(c, Adobe) → Adobe RGB returns c/255 within 2e-3
(proved `1.91e-3`: the 6-digit reverse table `argb::XR..` costs up to `1.9e-3` near black, where the
encoder `x^(256/563)` is only Hölder continuous; the rounding error of the matrix products enters the
same Hölder estimate as `3e-12` added to the `5.5e-7` table error) -/
theorem forward_argb_fp (M : FPModel) (c : Rgb) (hr : c.r ≤ 255) (hg : c.g ≤ 255) (hb : c.b ≤ 255) :
    |(Argb.from_Xyz (Xyz.from_rgb (α := RF M) c XyzKind.Adobe)).r.val - (c.r : ℝ) / 255| ≤ 2e-3 ∧
    |(Argb.from_Xyz (Xyz.from_rgb (α := RF M) c XyzKind.Adobe)).g.val - (c.g : ℝ) / 255| ≤ 2e-3 ∧
    |(Argb.from_Xyz (Xyz.from_rgb (α := RF M) c XyzKind.Adobe)).b.val - (c.b : ℝ) / 255| ≤ 2e-3 := by
  obtain ⟨h1, h2, h3⟩ := argb_fwd_fp M c hr hg hb
  exact ⟨h1.trans (by norm_num), h2.trans (by norm_num), h3.trans (by norm_num)⟩

/-- **C08, Rec.709 forward, rounded model**: XYZ(c, D65) → Rec.709 is the BT.709 OETF of the linear-light
components `decSrgb(c/255)` within 2e-6 (exact-real distance ≤ 1.3e-6, `Props.C08.forward_rec709`;
rounding error ≤ 2e-11) -/
theorem forward_rec709_fp (M : FPModel) (c : Rgb) (hr : c.r ≤ 255) (hg : c.g ≤ 255) (hb : c.b ≤ 255) :
    |(Rec709.from_Xyz (Xyz.from_rgb (α := RF M) c XyzKind.D65)).r.val - oetf709 (decSrgb ((c.r : ℝ) / 255))| ≤ 2e-6 ∧
    |(Rec709.from_Xyz (Xyz.from_rgb (α := RF M) c XyzKind.D65)).g.val - oetf709 (decSrgb ((c.g : ℝ) / 255))| ≤ 2e-6 ∧
    |(Rec709.from_Xyz (Xyz.from_rgb (α := RF M) c XyzKind.D65)).b.val - oetf709 (decSrgb ((c.b : ℝ) / 255))| ≤ 2e-6 := by
  obtain ⟨h1, h2, h3⟩ := forward_rec709 c hr hg hb
  obtain ⟨f1, f2, f3⟩ := rec709_fwd_close M c hr hg hb
  refine ⟨?_, ?_, ?_⟩
  · have := abs_sub_le (Rec709.from_Xyz (Xyz.from_rgb (α := RF M) c XyzKind.D65)).r.val
      (Rec709.from_Xyz (Xyz.from_rgb (α := ℝ) c XyzKind.D65)).r (oetf709 (decSrgb ((c.r : ℝ) / 255)))
    linarith
  · have := abs_sub_le (Rec709.from_Xyz (Xyz.from_rgb (α := RF M) c XyzKind.D65)).g.val
      (Rec709.from_Xyz (Xyz.from_rgb (α := ℝ) c XyzKind.D65)).g (oetf709 (decSrgb ((c.g : ℝ) / 255)))
    linarith
  · have := abs_sub_le (Rec709.from_Xyz (Xyz.from_rgb (α := RF M) c XyzKind.D65)).b.val
      (Rec709.from_Xyz (Xyz.from_rgb (α := ℝ) c XyzKind.D65)).b (oetf709 (decSrgb ((c.b : ℝ) / 255)))
    linarith

/-- **C08, Rec.2020 forward, rounded model** (unconditional form, mirroring
`Props.C08_rec2020.forward_rec2020_partial`): each channel of `Rec2020.from_Xyz` is the BT.2020 OETF of the
linear component in BT.2020 primaries (`lin2020`, derived from the primaries) within `2.81e-6`.
The constant is not `2e-6` for the reason recorded in `Props/C08_rec2020.lean`: the SPECIFICATION OETF with the
12-bit constants jumps by `2.7965e-6` at `β = 0.0181` (`oetf2020_jump`); away from `β` the distance is `≤ 2e-11`. -/
theorem forward_rec2020_partial_fp (M : FPModel) (c : Rgb) (hr : c.r ≤ 255) (hg : c.g ≤ 255) (hb : c.b ≤ 255) :
    |(Rec2020.from_Xyz (Xyz.from_rgb (α := RF M) c XyzKind.D65)).r.val
      - oetf2020 (Props.C08_rec2020.lin2020 (Xyz.from_rgb (α := ℝ) c XyzKind.D65)).1| ≤ 2.81e-6 ∧
    |(Rec2020.from_Xyz (Xyz.from_rgb (α := RF M) c XyzKind.D65)).g.val
      - oetf2020 (Props.C08_rec2020.lin2020 (Xyz.from_rgb (α := ℝ) c XyzKind.D65)).2.1| ≤ 2.81e-6 ∧
    |(Rec2020.from_Xyz (Xyz.from_rgb (α := RF M) c XyzKind.D65)).b.val
      - oetf2020 (Props.C08_rec2020.lin2020 (Xyz.from_rgb (α := ℝ) c XyzKind.D65)).2.2| ≤ 2.81e-6 :=
  rec2020_fwd_fp M c hr hg hb

/- GOAL (not proved): `forward_rec2020_partial_fp` with `2e-6`.  Missing, exactly as for the exact-real
   theorem: that no 8-bit colour has a BT.2020 linear component within `3e-12` of `β = 0.0181` (a finite fact
   about 3·2^24 numbers).  -/

/-- **C08, reverse conversion on the forward images, sRGB, rounded model**: for `x` the (computed) XYZ of an
8-bit colour, `Xyz.from_Srgb (Srgb.from_Xyz x)` is within 5e-6 of `x` in every component (proved `4.7e-7`:
`4.6e-7` is the exact-real distance `Props.C02_requant.srgb_roundtrip_8bit_tight` — the 7-digit tables are
not exact inverses —, `1.5e-9` the rounding error) -/
theorem reverse_srgb_fp (M : FPModel) (c : Rgb) (hr : c.r ≤ 255) (hg : c.g ≤ 255) (hb : c.b ≤ 255) :
    |(Xyz.from_Srgb (Srgb.from_Xyz (Xyz.from_rgb (α := RF M) c XyzKind.D65))).x.val - (Xyz.from_rgb (α := RF M) c XyzKind.D65).x.val| ≤ 5e-6 ∧
    |(Xyz.from_Srgb (Srgb.from_Xyz (Xyz.from_rgb (α := RF M) c XyzKind.D65))).y.val - (Xyz.from_rgb (α := RF M) c XyzKind.D65).y.val| ≤ 5e-6 ∧
    |(Xyz.from_Srgb (Srgb.from_Xyz (Xyz.from_rgb (α := RF M) c XyzKind.D65))).z.val - (Xyz.from_rgb (α := RF M) c XyzKind.D65).z.val| ≤ 5e-6 := by
  obtain ⟨h1, h2, h3⟩ := srgb_roundtrip_fp M c hr hg hb
  exact ⟨h1.trans (by norm_num), h2.trans (by norm_num), h3.trans (by norm_num)⟩

/- GOAL (not proved, time): the same reverse statements for Adobe RGB (`Xyz.from_Argb ∘ Argb.from_Xyz`, Adobe
   profile; exact-real `Props.C02_requant.argb_roundtrip_8bit_adobe`), Rec.709 and Rec.2020.  The pattern is that
   of `Lemmas.FpEnc.srgb_roundtrip_fp`: a perturbed-argument decoder lemma (`srgb_dec_tight`) + `FpXyz.dot3_close'`
   + the exact-real round-trip theorem.  For Adobe the decoder `v^(563/256)` is Lipschitz (no difficulty at 0);
   for Rec.2020 the decoder threshold finding (`Props.C08.rec2020_decode_formula`) has to be carried along. -/

/-! ## examples -/

-- the hypotheses are satisfiable; the theorems at the exact model and at a concrete colour
example : |(Srgb.from_Xyz (Xyz.from_rgb (α := RF FPModel.exact) ⟨12, 200, 255⟩ XyzKind.D65)).r.val - (12 : ℝ) / 255| ≤ 5e-6 := by
  have := (forward_srgb_fp FPModel.exact ⟨12, 200, 255⟩ (by norm_num) (by norm_num) (by norm_num)).1
  simpa using this
example (M : FPModel) : |(Argb.from_Xyz (Xyz.from_rgb (α := RF M) ⟨0, 1, 255⟩ XyzKind.Adobe)).g.val - (1 : ℝ) / 255| ≤ 2e-3 := by
  have := (forward_argb_fp M ⟨0, 1, 255⟩ (by norm_num) (by norm_num) (by norm_num)).2.1
  simpa using this
example (M : FPModel) : |(Rec2020.from_Xyz (Xyz.from_rgb (α := RF M) ⟨255, 255, 255⟩ XyzKind.D65)).r.val
    - oetf2020 (Props.C08_rec2020.lin2020 (Xyz.from_rgb (α := ℝ) ⟨255, 255, 255⟩ XyzKind.D65)).1| ≤ 2.81e-6 :=
  (forward_rec2020_partial_fp M ⟨255, 255, 255⟩ (by norm_num) (by norm_num) (by norm_num)).1
example (M : FPModel) : ∃ c : Rgb, c.r ≤ 255 ∧ c.g ≤ 255 ∧ c.b ≤ 255 ∧
    |(Rec709.from_Xyz (Xyz.from_rgb (α := RF M) c XyzKind.D65)).b.val - oetf709 (decSrgb ((c.b : ℝ) / 255))| ≤ 2e-6 :=
  ⟨⟨37, 36, 128⟩, by norm_num, by norm_num, by norm_num,
    (forward_rec709_fp M ⟨37, 36, 128⟩ (by norm_num) (by norm_num) (by norm_num)).2.2⟩

end Props.C08_fp
