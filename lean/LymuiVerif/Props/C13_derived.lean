import LymuiVerif.Lemmas.DerivedF2
import LymuiVerif.Props.C14
import LymuiVerif.Props.C17
/-!
# C13 (XYZ-derived ranges)

"CIE polar hues lie in [0,360], OkLch hue in [-pi,pi]; … CIE and Hunter lightness in [0,100] and OkLab
lightness in [0,1] (within 1e-5); every chroma >= 0; encoded sRGB, Adobe RGB, Rec.709 and Rec.2020
channels in [0,1] within 1e-3; ANSI-256 code in 16..=255, ANSI-16 code in {30..37, 90..97}".

For every 8-bit colour `c` (channels ≤ 255), `x = Xyz.from_rgb c D65` (Adobe profile for Adobe RGB),
exact-real reading.  The lower bounds `0 ≤ L` are exact; the upper bounds are `100 + 5e-6` resp.
`1 + 4e-6` because the Y row of the generated sRGB matrix sums to `1.0000001` (white is slightly
"whiter than white") and `Srgb.from_Xyz` returns `c/255` only within `3.6e-6`.
-/
namespace Props.C13_derived
open Gen Lemmas.LightnessF2 Lemmas.OkLabF2 Lemmas.DerivedF2 Props.C08

/-- XYZ of an 8-bit colour under the D65 profile / the Adobe profile -/
noncomputable abbrev xyz (c : Rgb) : Xyz ℝ := Xyz.from_rgb c XyzKind.D65
noncomputable abbrev xyzA (c : Rgb) : Xyz ℝ := Xyz.from_rgb c XyzKind.Adobe

/-! ## lightness -/

/-- **CIELAB, CIELUV, Hunter lightness in `[0, 100 + 1e-5]`** (and the same for the polar forms, which
copy the lightness) -/
theorem cie_lightness_range (c : Rgb) (hr : c.r ≤ 255) (hg : c.g ≤ 255) (hb : c.b ≤ 255) :
    (0 ≤ (Lab.from_Xyz (xyz c)).l ∧ (Lab.from_Xyz (xyz c)).l ≤ 100 + 1e-5) ∧
    (0 ≤ (Luv.from_Xyz (xyz c)).l ∧ (Luv.from_Xyz (xyz c)).l ≤ 100 + 1e-5) ∧
    (0 ≤ (Hlab.from_Xyz (xyz c)).l ∧ (Hlab.from_Xyz (xyz c)).l ≤ 100 + 1e-5) ∧
    (0 ≤ (Lchlab.from_Xyz (xyz c)).l ∧ (Lchlab.from_Xyz (xyz c)).l ≤ 100 + 1e-5) ∧
    (0 ≤ (Lchuv.from_Xyz (xyz c)).l ∧ (Lchuv.from_Xyz (xyz c)).l ≤ 100 + 1e-5) ∧
    (0 ≤ (Hcl.from_Xyz (xyz c)).l ∧ (Hcl.from_Xyz (xyz c)).l ≤ 100 + 1e-5) := by
  have y0 := y_d65_nonneg c
  have y1 := y_d65_le c hr hg hb
  obtain ⟨a0, a1⟩ := labL_range y0 y1
  obtain ⟨b0, b1⟩ := luvL_range y0 y1
  obtain ⟨c0, c1⟩ := hunterL_range y0 y1
  rw [(Props.C14.lchlab_forward _).1, (Props.C14.lchuv_forward _).1, (Props.C14.hcl_forward _).1,
    lab_l_eq, luv_l_eq, hlab_l_eq]
  have e : (100 + 5 / 10 ^ 6 : ℝ) ≤ 100 + 1e-5 := by norm_num
  exact ⟨⟨a0, a1.trans e⟩, ⟨b0, b1.trans e⟩, ⟨c0, c1.trans e⟩, ⟨a0, a1.trans e⟩, ⟨b0, b1.trans e⟩,
    ⟨b0, b1.trans e⟩⟩

/-- **OkLab (and OkLch) lightness in `[0, 1 + 1e-5]`** -/
theorem oklab_lightness_range (c : Rgb) (hr : c.r ≤ 255) (hg : c.g ≤ 255) (hb : c.b ≤ 255) :
    (0 ≤ (OkLab.from_Xyz (xyz c)).l ∧ (OkLab.from_Xyz (xyz c)).l ≤ 1 + 1e-5) ∧
    (0 ≤ (OkLch.from_Xyz (xyz c)).l ∧ (OkLch.from_Xyz (xyz c)).l ≤ 1 + 1e-5) := by
  have hl : ∀ k : ℕ, k ≤ 255 → (k : ℝ) / 255 ≤ 1 := by
    intro k hk
    have : (k : ℝ) ≤ 255 := by exact_mod_cast hk
    rw [div_le_one (by norm_num)]; exact this
  obtain ⟨s1, s2, s3⟩ := forward_srgb_tight c hr hg hb
  have u1 := (abs_le.mp s1).2
  have u2 := (abs_le.mp s2).2
  have u3 := (abs_le.mp s3).2
  have h := okL_range (p22_nonneg (Srgb.from_Xyz (xyz c)).r) (p22_nonneg (Srgb.from_Xyz (xyz c)).g)
    (p22_nonneg (Srgb.from_Xyz (xyz c)).b)
    (p22_le (by have := hl _ hr; norm_num at u1 ⊢; linarith))
    (p22_le (by have := hl _ hg; norm_num at u2 ⊢; linarith))
    (p22_le (by have := hl _ hb; norm_num at u3 ⊢; linarith))
  rw [(Props.C14.oklch_forward _).1]
  have e : (OkLab.from_Xyz (xyz c)).l = okL (p22 (Srgb.from_Xyz (xyz c)).r) (p22 (Srgb.from_Xyz (xyz c)).g)
      (p22 (Srgb.from_Xyz (xyz c)).b) := oklab_l_eq _
  rw [e]
  have e' : (1 + 4 / 10 ^ 6 : ℝ) ≤ 1 + 1e-5 := by norm_num
  exact ⟨⟨h.1, h.2.trans e'⟩, ⟨h.1, h.2.trans e'⟩⟩

/-! ## chroma and hue -/

/-- **every chroma is nonnegative** (it is a square root) — any XYZ -/
theorem chroma_nonneg (x : Xyz ℝ) :
    0 ≤ (Lchlab.from_Xyz x).c ∧ 0 ≤ (Lchuv.from_Xyz x).c ∧ 0 ≤ (Hcl.from_Xyz x).c ∧
    0 ≤ (OkLch.from_Xyz x).c := by
  rw [(Props.C14.lchlab_forward x).2.1, (Props.C14.lchuv_forward x).2.1, (Props.C14.hcl_forward x).2.1,
    (Props.C14.oklch_forward x).2.1]
  unfold Props.C14.chroma
  exact ⟨Real.sqrt_nonneg _, Real.sqrt_nonneg _, Real.sqrt_nonneg _, Real.sqrt_nonneg _⟩

/-- **CIE polar hues in `[0, 360]`** (LCh(ab), HCL: `[0, 360)`; LCh(uv): `(0, 360]`), **OkLch hue in
`(-π, π]`** — any XYZ (re-exported from `Props.C14`) -/
theorem hue_ranges (x : Xyz ℝ) :
    (0 ≤ (Lchlab.from_Xyz x).h ∧ (Lchlab.from_Xyz x).h < 360) ∧
    (0 < (Lchuv.from_Xyz x).h ∧ (Lchuv.from_Xyz x).h ≤ 360) ∧
    (0 ≤ (Hcl.from_Xyz x).h ∧ (Hcl.from_Xyz x).h < 360) ∧
    (-Real.pi < (OkLch.from_Xyz x).h ∧ (OkLch.from_Xyz x).h ≤ Real.pi) :=
  ⟨Props.C14.lchlab_hue_range x, Props.C14.lchuv_hue_range x, Props.C14.hcl_hue_range x,
    Props.C14.oklch_hue_range (OkLab.from_Xyz x)⟩

/-! ## encoded channels in `[0, 1]` within `1e-3` -/

/-- sRGB: within `5e-6` of `c/255 ∈ [0, 1]` -/
theorem srgb_range (c : Rgb) (hr : c.r ≤ 255) (hg : c.g ≤ 255) (hb : c.b ≤ 255) :
    (-1e-3 ≤ (Srgb.from_Xyz (xyz c)).r ∧ (Srgb.from_Xyz (xyz c)).r ≤ 1 + 1e-3) ∧
    (-1e-3 ≤ (Srgb.from_Xyz (xyz c)).g ∧ (Srgb.from_Xyz (xyz c)).g ≤ 1 + 1e-3) ∧
    (-1e-3 ≤ (Srgb.from_Xyz (xyz c)).b ∧ (Srgb.from_Xyz (xyz c)).b ≤ 1 + 1e-3) := by
  have hl : ∀ k : ℕ, k ≤ 255 → 0 ≤ (k : ℝ) / 255 ∧ (k : ℝ) / 255 ≤ 1 := by
    intro k hk
    have : (k : ℝ) ≤ 255 := by exact_mod_cast hk
    exact ⟨by positivity, by rw [div_le_one (by norm_num)]; exact this⟩
  obtain ⟨s1, s2, s3⟩ := forward_srgb_tight c hr hg hb
  rw [abs_le] at s1 s2 s3
  obtain ⟨r0, r1⟩ := hl _ hr
  obtain ⟨g0, g1⟩ := hl _ hg
  obtain ⟨b0, b1⟩ := hl _ hb
  refine ⟨⟨?_, ?_⟩, ⟨?_, ?_⟩, ⟨?_, ?_⟩⟩ <;> norm_num at s1 s2 s3 ⊢ <;> linarith [s1.1, s1.2, s2.1, s2.2, s3.1, s3.2]

/-- Adobe RGB (from the Adobe-profile XYZ): `≥ 0` exactly (the encoder clamps), `≤ 1.00024`
(the 6-digit inverse table overshoots white by 1.08e-4 in linear light) -/
theorem argb_range (c : Rgb) (hr : c.r ≤ 255) (hg : c.g ≤ 255) (hb : c.b ≤ 255) :
    (0 ≤ (Argb.from_Xyz (xyzA c)).r ∧ (Argb.from_Xyz (xyzA c)).r ≤ 1 + 1e-3) ∧
    (0 ≤ (Argb.from_Xyz (xyzA c)).g ∧ (Argb.from_Xyz (xyzA c)).g ≤ 1 + 1e-3) ∧
    (0 ≤ (Argb.from_Xyz (xyzA c)).b ∧ (Argb.from_Xyz (xyzA c)).b ≤ 1 + 1e-3) := by
  obtain ⟨m1, m2, m3⟩ := argb_matrix_forward _ _ _ (decA_unit _ hr) (decA_unit _ hg) (decA_unit _ hb)
  have key : ∀ t l : ℝ, 0 ≤ l → l ≤ 1 → |t - l| ≤ 2.32e-4 * l + 5.5e-7 →
      0 ≤ encAdobe (max t 0) ∧ encAdobe (max t 0) ≤ 1 + 1e-3 := by
    intro t l hl0 hl1 ht
    have ht' := (abs_le.mp ht).2
    unfold encAdobe adobeGamma
    refine ⟨Real.rpow_nonneg (le_max_right _ _) _, ?_⟩
    exact rpow_le_of_le_one_exp (le_max_right _ _) (by norm_num) (max_le (by linarith) (by norm_num))
      (by norm_num) (by norm_num)
  rw [argb_from_xyz_def, show xyzA c = _ from xyz_from_rgb_adobe_def c]
  exact ⟨key _ _ (decA_unit _ hr).1 (decA_unit _ hr).2 m1, key _ _ (decA_unit _ hg).1 (decA_unit _ hg).2 m2,
    key _ _ (decA_unit _ hb).1 (decA_unit _ hb).2 m3⟩

/-- Rec.709: the linear components are `R65·(M65·l) ∈ [-3e-7, 1 + 3e-7]`, the BT.709 OETF maps that
interval into `[-1e-5, 1 + 1e-5]` -/
theorem rec709_range (c : Rgb) (hr : c.r ≤ 255) (hg : c.g ≤ 255) (hb : c.b ≤ 255) :
    (-1e-3 ≤ (Rec709.from_Xyz (xyz c)).r ∧ (Rec709.from_Xyz (xyz c)).r ≤ 1 + 1e-3) ∧
    (-1e-3 ≤ (Rec709.from_Xyz (xyz c)).g ∧ (Rec709.from_Xyz (xyz c)).g ≤ 1 + 1e-3) ∧
    (-1e-3 ≤ (Rec709.from_Xyz (xyz c)).b ∧ (Rec709.from_Xyz (xyz c)).b ≤ 1 + 1e-3) := by
  obtain ⟨m1, m2, m3⟩ := srgb_matrix_roundtrip _ _ _ (dec_unit _ hr) (dec_unit _ hg) (dec_unit _ hb)
  have key : ∀ t l : ℝ, 0 ≤ l → l ≤ 1 → |t - l| ≤ 2.76e-7 →
      -1e-3 ≤ oetf709 t ∧ oetf709 t ≤ 1 + 1e-3 := by
    intro t l hl0 hl1 ht
    obtain ⟨t1, t2⟩ := abs_le.mp ht
    obtain ⟨o1, o2⟩ := oetf709_range (t := t) (by norm_num at t1 ⊢; linarith) (by norm_num at t2 ⊢; linarith)
    constructor <;> norm_num at o1 o2 ⊢ <;> linarith
  rw [rec709_from_xyz_def, show xyz c = _ from xyz_from_rgb_d65_def c]
  exact ⟨key _ _ (dec_unit _ hr).1 (dec_unit _ hr).2 m1,
    key _ _ (dec_unit _ hg).1 (dec_unit _ hg).2 (m2.trans (by norm_num)),
    key _ _ (dec_unit _ hb).1 (dec_unit _ hb).2 (m3.trans (by norm_num))⟩

/-- Rec.2020: the linear components `XR·(M65·l)` lie in `[0, 1.0001]` (nonnegative matrix, row sums
`1.0000818, 0.9999872, 0.9997857`), the BT.2020 OETF maps that into `[0, 1.0002]` -/
theorem rec2020_range (c : Rgb) (hr : c.r ≤ 255) (hg : c.g ≤ 255) (hb : c.b ≤ 255) :
    (0 ≤ (Rec2020.from_Xyz (xyz c)).r ∧ (Rec2020.from_Xyz (xyz c)).r ≤ 1 + 1e-3) ∧
    (0 ≤ (Rec2020.from_Xyz (xyz c)).g ∧ (Rec2020.from_Xyz (xyz c)).g ≤ 1 + 1e-3) ∧
    (0 ≤ (Rec2020.from_Xyz (xyz c)).b ∧ (Rec2020.from_Xyz (xyz c)).b ≤ 1 + 1e-3) := by
  obtain ⟨⟨a0, a1⟩, ⟨b0, b1⟩, ⟨c0, c1⟩⟩ :=
    rec2020_lin_range _ _ _ (dec_unit _ hr) (dec_unit _ hg) (dec_unit _ hb)
  rw [rec2020_from_xyz_def, show xyz c = _ from xyz_from_rgb_d65_def c]
  obtain ⟨p0, p1⟩ := oetf2020_range a0 a1
  obtain ⟨q0, q1⟩ := oetf2020_range b0 b1
  obtain ⟨r0, r1⟩ := oetf2020_range c0 c1
  refine ⟨⟨p0, ?_⟩, ⟨q0, ?_⟩, ⟨r0, ?_⟩⟩ <;> norm_num at p1 q1 r1 ⊢ <;> linarith

/-! ## ANSI codes (re-exported from `Props.C17`) -/

/-- **ANSI-256 code in `16..=255`, ANSI-16 code in `{30..37, 90..97}`** -/
theorem ansi_ranges (c : Rgb) (hr : c.r ≤ 255) (hg : c.g ≤ 255) (hb : c.b ≤ 255) :
    (∃ a, Ansi.from_rgb ℝ c AnsiKind.C256 = Res.ok a ∧ 16 ≤ a._0 ∧ a._0 ≤ 255) ∧
    (∃ a, Ansi.from_rgb ℝ c AnsiKind.C16 = Res.ok a ∧
      ((30 ≤ a._0 ∧ a._0 ≤ 37) ∨ (90 ≤ a._0 ∧ a._0 ≤ 97))) :=
  ⟨Props.C17.c256_no_system_colour c hr hg hb, Props.C17.c16_range c hr hg hb⟩

/-! ## examples -/
example : (0 ≤ (Lab.from_Xyz (xyz ⟨255, 255, 255⟩)).l ∧ (Lab.from_Xyz (xyz ⟨255, 255, 255⟩)).l ≤ 100 + 1e-5) :=
  (cie_lightness_range ⟨255, 255, 255⟩ (by norm_num) (by norm_num) (by norm_num)).1
example : 0 ≤ (Argb.from_Xyz (xyzA ⟨0, 255, 0⟩)).r :=
  (argb_range ⟨0, 255, 0⟩ (by norm_num) (by norm_num) (by norm_num)).1.1

end Props.C13_derived
