import LymuiVerif.Props.C20_structs
/-!
# C20 — JS-object marshalling is lossless (generator lists; the per-struct template is in `C20_structs.lean`)

The model (`Gen/JsModel.lean`) is generated from the MIR of the crate built with `--features js`, i.e. from
the REAL expansions of the two derive macros and the hand-written `Shade`/`Tint` impls.  N-API objects are
modelled as association lists (`Core/Js.lean`); that `get/set/create_object` behave like that is assumed.

`C20_structs.lean` (regenerated on every run for every struct that derives the traits) proves, per struct:
keys written = field names (`"0"` for tuple structs), read(write x) = x, the empty object and an object
lacking any single field are rejected.  This file proves the same for the two generator lists, whose
conversions are loops (fuel-indexed in the model; any fuel larger than the list length suffices).
-/
namespace Props.C20
open Gen
variable {α : Type} [Flt α]

/-- the JS object an `Rgb` is written to (newest binding first) -/
def rgbObj (c : Rgb) : JsObject α := [([98], .byte c.b), ([103], .byte c.g), ([114], .byte c.r)]

def keyShade : Str := [115, 104, 97, 100, 101]
def keyTint : Str := [116, 105, 110, 116]

theorem rgb_into (c : Rgb) (env : NapiEnv) : Rgb.into_js_object (α := α) c env = .ok (rgbObj c) := rfl

theorem rgb_from (c : Rgb) : Rgb.from_js_object (rgbObj (α := α) c) = .ok c := by
  simp [rgbObj, Rgb.from_js_object, Rgb.from_js_object.closure0, Rgb.from_js_object.closure1, Rgb.from_js_object.closure2,
    Js.getByte, Js.lookup, Option.okOr, Except.andThen, Try.branch]

theorem shade_into_loop (l : List Rgb) : ∀ (fuel : Nat) (env : NapiEnv) (res : JsObject α) (acc : List (JsObject α)) (b : Bool),
    l.length < fuel →
    Shade.into_js_object.loop8 α fuel env res acc l b = Res.ok (.ok (Js.setObjs res keyShade (acc ++ l.map rgbObj))) := by
  induction l with
  | nil =>
    intro fuel env res acc b h
    cases fuel with
    | zero => omega
    | succ f => simp [Shade.into_js_object.loop8, Try.branch, keyShade]
  | cons c rest ih =>
    intro fuel env res acc b h
    cases fuel with
    | zero => simp at h
    | succ f =>
      have hf : rest.length < f := by simp at h; omega
      simp only [Shade.into_js_object.loop8, List.head?, List.tail, rgb_into, Try.branch]
      have := ih f env res (Vec.push acc (rgbObj c)) b hf
      simp only [Vec.push, List.append_assoc, List.singleton_append] at this
      simpa [Vec.push] using this

theorem tint_into_loop (l : List Rgb) : ∀ (fuel : Nat) (env : NapiEnv) (res : JsObject α) (acc : List (JsObject α)) (b : Bool),
    l.length < fuel →
    Tint.into_js_object.loop8 α fuel env res acc l b = Res.ok (.ok (Js.setObjs res keyTint (acc ++ l.map rgbObj))) := by
  induction l with
  | nil =>
    intro fuel env res acc b h
    cases fuel with
    | zero => omega
    | succ f => simp [Tint.into_js_object.loop8, Try.branch, keyTint]
  | cons c rest ih =>
    intro fuel env res acc b h
    cases fuel with
    | zero => simp at h
    | succ f =>
      have hf : rest.length < f := by simp at h; omega
      simp only [Tint.into_js_object.loop8, List.head?, List.tail, rgb_into, Try.branch]
      have := ih f env res (Vec.push acc (rgbObj c)) b hf
      simp only [Vec.push, List.append_assoc, List.singleton_append] at this
      simpa [Vec.push] using this

/-- **keys**: a shade list is stored under exactly `"shade"`, as the array of its colours' objects -/
theorem shade_js_keys (x : Shade) (env : NapiEnv) (fuel : Nat) (h : x._0.length < fuel) :
    Shade.into_js_object (α := α) fuel x env = Res.ok (.ok [(keyShade, .objs (x._0.map rgbObj))]) := by
  simp only [Shade.into_js_object, Js.create_object, Try.branch]
  have := shade_into_loop (α := α) x._0 fuel env [] [] true h
  simpa [Js.setObjs, Js.put] using this

theorem tint_js_keys (x : Tint) (env : NapiEnv) (fuel : Nat) (h : x._0.length < fuel) :
    Tint.into_js_object (α := α) fuel x env = Res.ok (.ok [(keyTint, .objs (x._0.map rgbObj))]) := by
  simp only [Tint.into_js_object, Js.create_object, Try.branch]
  have := tint_into_loop (α := α) x._0 fuel env [] [] true h
  simpa [Js.setObjs, Js.put] using this

theorem shade_from_loop (l : List Rgb) : ∀ (fuel : Nat) (acc : List Rgb) (b : Bool), l.length < fuel →
    Shade.from_js_object.loop12 α fuel acc (l.map rgbObj) b = Res.ok (.ok ⟨acc ++ l⟩) := by
  induction l with
  | nil =>
    intro fuel acc b h
    cases fuel with
    | zero => omega
    | succ f => simp [Shade.from_js_object.loop12]
  | cons c rest ih =>
    intro fuel acc b h
    cases fuel with
    | zero => simp at h
    | succ f =>
      have hf : rest.length < f := by simp at h; omega
      simp only [List.map, Shade.from_js_object.loop12, List.head?, List.tail, rgb_from, Try.branch]
      have := ih f (Vec.push acc c) b hf
      simpa [Vec.push] using this

theorem tint_from_loop (l : List Rgb) : ∀ (fuel : Nat) (acc : List Rgb) (b : Bool), l.length < fuel →
    Tint.from_js_object.loop12 α fuel acc (l.map rgbObj) b = Res.ok (.ok ⟨acc ++ l⟩) := by
  induction l with
  | nil =>
    intro fuel acc b h
    cases fuel with
    | zero => omega
    | succ f => simp [Tint.from_js_object.loop12]
  | cons c rest ih =>
    intro fuel acc b h
    cases fuel with
    | zero => simp at h
    | succ f =>
      have hf : rest.length < f := by simp at h; omega
      simp only [List.map, Tint.from_js_object.loop12, List.head?, List.tail, rgb_from, Try.branch]
      have := ih f (Vec.push acc c) b hf
      simpa [Vec.push] using this

/-- **round trip**: reading what was written gives the list back -/
theorem shade_js_roundtrip (x : Shade) (env : NapiEnv) (fuel : Nat) (h : x._0.length < fuel) :
    ∃ o, Shade.into_js_object (α := α) fuel x env = Res.ok (.ok o) ∧ Shade.from_js_object fuel o = Res.ok (.ok x) := by
  refine ⟨_, shade_js_keys x env fuel h, ?_⟩
  have := shade_from_loop (α := α) x._0 fuel [] false h
  simp only [List.nil_append] at this
  simp [Shade.from_js_object, Js.getObjs, Js.lookup, keyShade, Try.branch, Option.okOr, this]

theorem tint_js_roundtrip (x : Tint) (env : NapiEnv) (fuel : Nat) (h : x._0.length < fuel) :
    ∃ o, Tint.into_js_object (α := α) fuel x env = Res.ok (.ok o) ∧ Tint.from_js_object fuel o = Res.ok (.ok x) := by
  refine ⟨_, tint_js_keys x env fuel h, ?_⟩
  have := tint_from_loop (α := α) x._0 fuel [] false h
  simp only [List.nil_append] at this
  simp [Tint.from_js_object, Js.getObjs, Js.lookup, keyTint, Try.branch, Option.okOr, this]

/-- **missing field**: an object without `"shade"` is rejected with an invalid-argument error, before any loop iteration -/
theorem shade_js_missing (o : JsObject α) (fuel : Nat) (h : Js.lookup o keyShade = none) :
    Shade.from_js_object fuel o = Res.ok (.error ⟨.InvalidArg⟩) := by
  simp only [keyShade] at h
  simp [Shade.from_js_object, Js.getObjs, h, Try.branch, Option.okOr, Shade.from_js_object.closure0, Try.from_residual, NapiError.from_status]

theorem tint_js_missing (o : JsObject α) (fuel : Nat) (h : Js.lookup o keyTint = none) :
    Tint.from_js_object fuel o = Res.ok (.error ⟨.InvalidArg⟩) := by
  simp only [keyTint] at h
  simp [Tint.from_js_object, Js.getObjs, h, Try.branch, Option.okOr, Tint.from_js_object.closure0, Try.from_residual, NapiError.from_status]

-- the hypotheses are satisfiable: a two-entry list round-trips with fuel 3
example : ∃ o, Shade.into_js_object (α := α) 3 ⟨[⟨1, 2, 3⟩, ⟨0, 0, 0⟩]⟩ ⟨0⟩ = Res.ok (.ok o) ∧ Shade.from_js_object 3 o = Res.ok (.ok ⟨[⟨1, 2, 3⟩, ⟨0, 0, 0⟩]⟩) :=
  shade_js_roundtrip _ _ 3 (by decide)

end Props.C20
