import LymuiVerif.Lemmas.FpHexconeRev
import LymuiVerif.Props.C03_hexcone
/-!
# C03 (hexcone part) in the rounded-arithmetic reading — RGB → HSL / HSV / HWB → RGB, both legs in `RF M`

Every theorem is for an arbitrary `M : FPModel` and is about the GENERATED definitions instantiated at `RF M`.
The conclusions are THE SAME as in the exact-real file `Props/C03_hexcone.lean`, for ALL 8-bit colours (HWB: all but
black), including the colours whose hexcone angle is an exact half-degree tie of `round`:

* `hsl_roundtrip_fp`: every channel of `Rgb::from(Hsl::from(c))` is within 2 of `c`;
* `hsv_roundtrip_fp`, `hwb_roundtrip_fp`: at most 2 above and at most 3 below (the reverse direction truncates);
* `hsl_roundtrip_grey_fp`: greys survive HSL exactly.

How: the forward leg gives a whole-degree hue `k = round(angle + e) mod 360` with `|e| ≤ 1e-12` (`Props.C09.hue_sharp_fp`) and
saturation / lightness / value / whiteness / blackness within `1e-10 … 1e-13` of the standard formulas
(`FpHexcone.hsl_fields`, `hsv_fields`, `hwb_fields`).  The reverse leg in `RF M` decides the sextant `⌊k/60⌋` as in ℝ and
hands to the quantiser a value within `3e-8` of `255 ·` the exact sector formula at `k` and the EXACT standard
saturation / lightness / value (`…_reverse_fp` below).  That value is `min + (max - min) · T(k/60)` with a 1-Lipschitz wave
`T`; the hue error is at most `0.5 + 1e-12` degrees also at a tie (either neighbour), so the channel moves by at most
`255 · (1/120 + 1e-13) + 3e-8 < 2.2` before quantisation, and `2.2 < 2.5` is what the two quantisers need
(`FpMisc.round_near'`, `trunc_near'`; the exact-real proof uses `2.125`).

HWB and black: as in the exact-real file black is excluded — `Rgb::from(Hwb)` divides `w/100` by `1 - b/100 = 0` there.
In `RF M` the blackness of black is exactly `100` (all operations on the way are exact), so the divisor is exactly `0`;
`RF M` has no NaN and would totalise `x/0 = 0`, so nothing is claimed (the `PR` instance in `C03_hexcone_black.lean`
covers that point).
-/
namespace Props.C03_fp_hexcone
open Gen Props.C09 HexconeRT FpHexRev

/-! ## Reverse conversions in the rounded model -/

/-- **hsl_reverse_fp**: `Rgb::from(Hsl)` in `RF M` on a whole-degree hue `k < 360` and saturation / lightness within
`1e-9` of percentages `S`, `L ∈ [0,100]`: every channel is `round() as u8` of a value within `3e-8` of `255 ·` the standard
C/X/m sector formula (`Props.C09.hslSector`) at `(k, S, L)` — the grey shortcut `h == 0 && s == 0` included. -/
theorem hsl_reverse_fp (M : FPModel) (h s l : RF M) (k : ℕ) (hk : k < 360) (hh : h.val = k) (S L : ℝ)
    (hs : |s.val - S| ≤ 1e-9) (hS0 : 0 ≤ S) (hS1 : S ≤ 100) (hl : |l.val - L| ≤ 1e-9) (hL0 : 0 ≤ L) (hL1 : L ≤ 100) :
    ∃ y1 y2 y3 : ℝ,
      Rgb.from_Hsl (⟨h, s, l⟩ : Hsl (RF M)) =
        ⟨Real.toU8 (Real.roundHA y1), Real.toU8 (Real.roundHA y2), Real.toU8 (Real.roundHA y3)⟩ ∧
      |y1 - 255 * (hslSector k S L).1| ≤ 3e-8 ∧ |y2 - 255 * (hslSector k S L).2.1| ≤ 3e-8 ∧
      |y3 - 255 * (hslSector k S L).2.2| ≤ 3e-8 :=
  from_Hsl_near M h s l k hk hh hs hS0 hS1 hl hL0 hL1

/-- **hsv_reverse_fp**: `Rgb::from(Hsv)` in `RF M`, likewise with the truncating quantiser `as u8` and the p/q/t sector
formula `Props.C09.hsvSector` — the grey shortcut `s == 0` included. -/
theorem hsv_reverse_fp (M : FPModel) (h s v : RF M) (k : ℕ) (hk : k < 360) (hh : h.val = k) (S V : ℝ)
    (hs : |s.val - S| ≤ 1e-9) (hS0 : 0 ≤ S) (hS1 : S ≤ 100) (hv : |v.val - V| ≤ 1e-9) (hV0 : 0 ≤ V) (hV1 : V ≤ 100) :
    ∃ y1 y2 y3 : ℝ,
      Rgb.from_Hsv (⟨h, s, v⟩ : Hsv (RF M)) = ⟨Real.toU8 y1, Real.toU8 y2, Real.toU8 y3⟩ ∧
      |y1 - 255 * (hsvSector k S V).1| ≤ 3e-8 ∧ |y2 - 255 * (hsvSector k S V).2.1| ≤ 3e-8 ∧
      |y3 - 255 * (hsvSector k S V).2.2| ≤ 3e-8 :=
  from_Hsv_near M h s v k hk hh hs hS0 hS1 hv hV0 hV1

/-- **hwb_reverse_fp**: `Rgb::from(Hwb)` in `RF M` on whiteness / blackness within `1e-12` of percentages `W`, `B` with
`W + B ≤ 100` and `100 - B ≥ 100/255` (the guard of the division `w / (1 - b)`: the divisor is at least `1/255`): the
p/q/t sector formula at the derived saturation `(1 - W/(1-B))` and value `1 - B`, quantised by truncation. -/
theorem hwb_reverse_fp (M : FPModel) (h w b : RF M) (k : ℕ) (hk : k < 360) (hh : h.val = k) (W B : ℝ)
    (hw : |w.val - W| ≤ 1e-12) (hb : |b.val - B| ≤ 1e-12) (hW0 : 0 ≤ W) (hB0 : 0 ≤ B)
    (hWB : W + B ≤ 100) (hB1 : 100 / 255 ≤ 100 - B) :
    ∃ y1 y2 y3 : ℝ,
      Rgb.from_Hwb (⟨h, w, b⟩ : Hwb (RF M)) = ⟨Real.toU8 y1, Real.toU8 y2, Real.toU8 y3⟩ ∧
      |y1 - 255 * (hsvSector k ((1 - W / 100 / (1 - B / 100)) * 100) ((1 - B / 100) * 100)).1| ≤ 3e-8 ∧
      |y2 - 255 * (hsvSector k ((1 - W / 100 / (1 - B / 100)) * 100) ((1 - B / 100) * 100)).2.1| ≤ 3e-8 ∧
      |y3 - 255 * (hsvSector k ((1 - W / 100 / (1 - B / 100)) * 100) ((1 - B / 100) * 100)).2.2| ≤ 3e-8 :=
  from_Hwb_near M h w b k hk hh hw hb hW0 hB0 hWB hB1

/-! ## Pre-quantisation form of the round trips -/

/-- the value handed to the quantiser by `Rgb::from(Hsl::from(c))` in `RF M`, for each channel, is within `2.2` of the
original channel (`255/120 = 2.125` from the whole-degree hue, the rest is rounding error) -/
theorem hsl_roundtrip_pre_fp (M : FPModel) (c : Rgb) (hr : c.r ≤ 255) (hg : c.g ≤ 255) (hb : c.b ≤ 255) :
    ∃ y1 y2 y3 : ℝ,
      Rgb.from_Hsl (Hsl.from_Rgb (α := RF M) c) =
        ⟨Real.toU8 (Real.roundHA y1), Real.toU8 (Real.roundHA y2), Real.toU8 (Real.roundHA y3)⟩ ∧
      |y1 - c.r| ≤ 2.2 ∧ |y2 - c.g| ≤ 2.2 ∧ |y3 - c.b| ≤ 2.2 := by
  obtain ⟨k, hk, hval, hT⟩ := hue_T_close M c hr hg hb
  obtain ⟨⟨_, _, hs⟩, ⟨_, _, hl⟩⟩ := FpHexcone.hsl_fields M c hr hg hb
  obtain ⟨_, S0, S1, L0, L1⟩ := Props.C13_rgbmodels.hsl_range c hr hg hb
  obtain ⟨_, f2, f3⟩ := hsl_forward c hr hg hb
  rw [f2] at S0 S1; rw [f3] at L0 L1
  obtain ⟨cr, cg, cb⟩ := channel_T c
  obtain ⟨hC, hB⟩ := hsl_chroma_base c hr hg hb
  obtain ⟨b0, b1, b2⟩ := cmin_cmax_bounds c hr hg hb
  have hh : (Hsl.from_Rgb (α := RF M) c).h.val = k := hval
  rcases hfw : Hsl.from_Rgb (α := RF M) c with ⟨h, s, l⟩
  rw [hfw] at hs hl hh
  simp only at hs hl hh
  obtain ⟨y1, y2, y3, e, c1, c2, c3⟩ := from_Hsl_near M h s l k hk hh (hs.trans (by norm_num)) S0 S1
    (hl.trans (by norm_num)) L0 L1
  have hk' : ((k : ℕ) : ℝ) < 360 := by exact_mod_cast hk
  rw [hslSector_T _ _ _ (Nat.cast_nonneg k) hk'] at c1 c2 c3
  simp only [hC, hB] at c1 c2 c3
  exact ⟨y1, y2, y3, e, chan_close c1 cr (hT Tr Tr_lip T_wrap.1) b0 b1 b2,
    chan_close c2 cg (hT Tg Tg_lip T_wrap.2.1) b0 b1 b2, chan_close c3 cb (hT Tb Tb_lip T_wrap.2.2) b0 b1 b2⟩

/-- the same for `Rgb::from(Hsv::from(c))` (truncating quantiser) -/
theorem hsv_roundtrip_pre_fp (M : FPModel) (c : Rgb) (hr : c.r ≤ 255) (hg : c.g ≤ 255) (hb : c.b ≤ 255) :
    ∃ y1 y2 y3 : ℝ,
      Rgb.from_Hsv (Hsv.from_Rgb (α := RF M) c) = ⟨Real.toU8 y1, Real.toU8 y2, Real.toU8 y3⟩ ∧
      |y1 - c.r| ≤ 2.2 ∧ |y2 - c.g| ≤ 2.2 ∧ |y3 - c.b| ≤ 2.2 := by
  obtain ⟨k, hk, hval, hT⟩ := hue_T_close M c hr hg hb
  obtain ⟨eh, ⟨_, _, hs⟩, ⟨_, _, hv⟩⟩ := FpHexcone.hsv_fields M c hr hg hb
  obtain ⟨_, S0, S1, V0, V1⟩ := Props.C13_rgbmodels.hsv_range c hr hg hb
  obtain ⟨_, f2, f3⟩ := hsv_forward c hr hg hb
  rw [f2] at S0 S1; rw [f3] at V0 V1
  obtain ⟨cr, cg, cb⟩ := channel_T c
  obtain ⟨hC, hB⟩ := hsv_chroma_base c hr hg hb
  obtain ⟨b0, b1, b2⟩ := cmin_cmax_bounds c hr hg hb
  have hh : (Hsv.from_Rgb (α := RF M) c).h.val = k := by rw [eh]; exact hval
  rcases hfw : Hsv.from_Rgb (α := RF M) c with ⟨h, s, v⟩
  rw [hfw] at hs hv hh
  simp only at hs hv hh
  obtain ⟨y1, y2, y3, e, c1, c2, c3⟩ := from_Hsv_near M h s v k hk hh (hs.trans (by norm_num)) S0 S1
    (hv.trans (by norm_num)) V0 V1
  have hk' : ((k : ℕ) : ℝ) < 360 := by exact_mod_cast hk
  rw [hsvSector_T _ _ _ (Nat.cast_nonneg k) hk'] at c1 c2 c3
  simp only [hC, hB] at c1 c2 c3
  exact ⟨y1, y2, y3, e, chan_close c1 cr (hT Tr Tr_lip T_wrap.1) b0 b1 b2,
    chan_close c2 cg (hT Tg Tg_lip T_wrap.2.1) b0 b1 b2, chan_close c3 cb (hT Tb Tb_lip T_wrap.2.2) b0 b1 b2⟩

/-- the same for `Rgb::from(Hwb::from(c))`, for every colour except black -/
theorem hwb_roundtrip_pre_fp (M : FPModel) (c : Rgb) (hr : c.r ≤ 255) (hg : c.g ≤ 255) (hb : c.b ≤ 255)
    (hnb : 0 < c.r ∨ 0 < c.g ∨ 0 < c.b) :
    ∃ y1 y2 y3 : ℝ,
      Rgb.from_Hwb (Hwb.from_Rgb (α := RF M) c) = ⟨Real.toU8 y1, Real.toU8 y2, Real.toU8 y3⟩ ∧
      |y1 - c.r| ≤ 2.2 ∧ |y2 - c.g| ≤ 2.2 ∧ |y3 - c.b| ≤ 2.2 := by
  obtain ⟨k, hk, hval, hT⟩ := hue_T_close M c hr hg hb
  obtain ⟨eh, ⟨_, _, hw⟩, ⟨_, _, hbk⟩⟩ := FpHexcone.hwb_fields M c hr hg hb
  obtain ⟨cr, cg, cb⟩ := channel_T c
  obtain ⟨hC, hB⟩ := hsv_chroma_base c hr hg hb
  obtain ⟨b0, b1, b2⟩ := cmin_cmax_bounds c hr hg hb
  obtain ⟨_, ⟨M1, M2, M3⟩⟩ := channel_bounds c
  obtain ⟨_, eM⟩ := cmin_cmax_nat c
  -- not black: the largest channel is at least 1
  have hM1 : 1 ≤ cmax c := by
    have : 1 ≤ max (max c.r c.g) c.b := by omega
    rw [eM]; exact_mod_cast this
  have hM : 0 < cmax c := by linarith
  have hh : (Hwb.from_Rgb (α := RF M) c).h.val = k := by rw [eh]; exact hval
  rcases hfw : Hwb.from_Rgb (α := RF M) c with ⟨h, w, b⟩
  rw [hfw] at hw hbk hh
  simp only at hw hbk hh
  obtain ⟨y1, y2, y3, e, c1, c2, c3⟩ := from_Hwb_near M h w b k hk hh (W := stdW c * 100) (B := stdB c * 100) hw hbk
    (by unfold stdW; positivity) (by unfold stdB; linarith) (by unfold stdW stdB; linarith) (by unfold stdB; linarith)
  -- the derived saturation and value are the standard HSV ones (as in `hwb_via_hsv`)
  have es : (1 - stdW c * 100 / 100 / (1 - stdB c * 100 / 100)) * 100 = stdSHsv c * 100 := by
    unfold stdW stdB stdSHsv
    rw [if_neg (ne_of_gt hM)]
    have hM' : cmax c ≠ 0 := ne_of_gt hM
    have q1 : 1 - (1 - cmax c / 255) * 100 / 100 = cmax c / 255 := by ring
    have q2 : cmin c / 255 * 100 / 100 / (cmax c / 255) = cmin c / cmax c := by field_simp
    have q3 : 1 - cmin c / cmax c = (cmax c - cmin c) / cmax c := by field_simp
    rw [q1, q2, q3]
  have ev : (1 - stdB c * 100 / 100) * 100 = stdV c * 100 := by
    unfold stdB stdV; ring
  rw [es, ev] at c1 c2 c3
  have hk' : ((k : ℕ) : ℝ) < 360 := by exact_mod_cast hk
  rw [hsvSector_T _ _ _ (Nat.cast_nonneg k) hk'] at c1 c2 c3
  simp only [hC, hB] at c1 c2 c3
  exact ⟨y1, y2, y3, e, chan_close c1 cr (hT Tr Tr_lip T_wrap.1) b0 b1 b2,
    chan_close c2 cg (hT Tg Tg_lip T_wrap.2.1) b0 b1 b2, chan_close c3 cb (hT Tb Tb_lip T_wrap.2.2) b0 b1 b2⟩

/-! ## The round trips -/

/-- **hsl_roundtrip_fp**: every channel of `Rgb::from(Hsl::from(c))`, both legs in `RF M`, is within 2 of `c` — for
every 8-bit colour, hue ties included, for every model of the arithmetic -/
theorem hsl_roundtrip_fp (M : FPModel) (c : Rgb) (hr : c.r ≤ 255) (hg : c.g ≤ 255) (hb : c.b ≤ 255) :
    ((Rgb.from_Hsl (Hsl.from_Rgb (α := RF M) c)).r ≤ c.r + 2 ∧ c.r ≤ (Rgb.from_Hsl (Hsl.from_Rgb (α := RF M) c)).r + 2) ∧
    ((Rgb.from_Hsl (Hsl.from_Rgb (α := RF M) c)).g ≤ c.g + 2 ∧ c.g ≤ (Rgb.from_Hsl (Hsl.from_Rgb (α := RF M) c)).g + 2) ∧
    ((Rgb.from_Hsl (Hsl.from_Rgb (α := RF M) c)).b ≤ c.b + 2 ∧ c.b ≤ (Rgb.from_Hsl (Hsl.from_Rgb (α := RF M) c)).b + 2) := by
  obtain ⟨y1, y2, y3, e, c1, c2, c3⟩ := hsl_roundtrip_pre_fp M c hr hg hb
  rw [e]
  exact ⟨FpMisc.round_near' hr c1, FpMisc.round_near' hg c2, FpMisc.round_near' hb c3⟩

/-- **hsv_roundtrip_fp**: every channel of `Rgb::from(Hsv::from(c))`, both legs in `RF M`, is at most 2 above and at
most 3 below `c` -/
theorem hsv_roundtrip_fp (M : FPModel) (c : Rgb) (hr : c.r ≤ 255) (hg : c.g ≤ 255) (hb : c.b ≤ 255) :
    ((Rgb.from_Hsv (Hsv.from_Rgb (α := RF M) c)).r ≤ c.r + 2 ∧ c.r ≤ (Rgb.from_Hsv (Hsv.from_Rgb (α := RF M) c)).r + 3) ∧
    ((Rgb.from_Hsv (Hsv.from_Rgb (α := RF M) c)).g ≤ c.g + 2 ∧ c.g ≤ (Rgb.from_Hsv (Hsv.from_Rgb (α := RF M) c)).g + 3) ∧
    ((Rgb.from_Hsv (Hsv.from_Rgb (α := RF M) c)).b ≤ c.b + 2 ∧ c.b ≤ (Rgb.from_Hsv (Hsv.from_Rgb (α := RF M) c)).b + 3) := by
  obtain ⟨y1, y2, y3, e, c1, c2, c3⟩ := hsv_roundtrip_pre_fp M c hr hg hb
  rw [e]
  exact ⟨FpMisc.trunc_near' hr c1, FpMisc.trunc_near' hg c2, FpMisc.trunc_near' hb c3⟩

/-- **hwb_roundtrip_fp**: every channel of `Rgb::from(Hwb::from(c))`, both legs in `RF M`, is at most 2 above and at
most 3 below `c`, for every colour except black (see the file header) -/
theorem hwb_roundtrip_fp (M : FPModel) (c : Rgb) (hr : c.r ≤ 255) (hg : c.g ≤ 255) (hb : c.b ≤ 255)
    (hnb : 0 < c.r ∨ 0 < c.g ∨ 0 < c.b) :
    ((Rgb.from_Hwb (Hwb.from_Rgb (α := RF M) c)).r ≤ c.r + 2 ∧ c.r ≤ (Rgb.from_Hwb (Hwb.from_Rgb (α := RF M) c)).r + 3) ∧
    ((Rgb.from_Hwb (Hwb.from_Rgb (α := RF M) c)).g ≤ c.g + 2 ∧ c.g ≤ (Rgb.from_Hwb (Hwb.from_Rgb (α := RF M) c)).g + 3) ∧
    ((Rgb.from_Hwb (Hwb.from_Rgb (α := RF M) c)).b ≤ c.b + 2 ∧ c.b ≤ (Rgb.from_Hwb (Hwb.from_Rgb (α := RF M) c)).b + 3) := by
  obtain ⟨y1, y2, y3, e, c1, c2, c3⟩ := hwb_roundtrip_pre_fp M c hr hg hb hnb
  rw [e]
  exact ⟨FpMisc.trunc_near' hr c1, FpMisc.trunc_near' hg c2, FpMisc.trunc_near' hb c3⟩

/-- **hsl_roundtrip_grey_fp**: greys survive HSL exactly, in every model (hue `0`, computed saturation exactly `0`: the
grey shortcut; the lightness is within `1e-12`, so the value handed to `round() as u8` is within `4e-8` of the level) -/
theorem hsl_roundtrip_grey_fp (M : FPModel) (v : ℕ) (hv : v ≤ 255) :
    Rgb.from_Hsl (Hsl.from_Rgb (α := RF M) ⟨v, v, v⟩) = ⟨v, v, v⟩ := by
  obtain ⟨k, hk, hval, _⟩ := hue_T_close M ⟨v, v, v⟩ hv hv hv
  obtain ⟨⟨_, _, hs⟩, ⟨_, _, hl⟩⟩ := FpHexcone.hsl_fields M ⟨v, v, v⟩ hv hv hv
  have hS : stdSHsl ⟨v, v, v⟩ = 0 := by simp [stdSHsl, cmax, cmin]
  have hL : stdL ⟨v, v, v⟩ = (v : ℝ) / 255 := by simp [stdL, cmax, cmin]
  rw [hS, zero_mul] at hs; rw [hL] at hl
  have hv' : (v : ℝ) ≤ 255 := by exact_mod_cast hv
  have hv0 : (0 : ℝ) ≤ v := Nat.cast_nonneg v
  have L0 : 0 ≤ (v : ℝ) / 255 * 100 := by positivity
  have L1 : (v : ℝ) / 255 * 100 ≤ 100 := by linarith
  have hh : (Hsl.from_Rgb (α := RF M) ⟨v, v, v⟩).h.val = k := hval
  rcases hfw : Hsl.from_Rgb (α := RF M) ⟨v, v, v⟩ with ⟨h, s, l⟩
  rw [hfw] at hs hl hh
  simp only at hs hl hh
  obtain ⟨y1, y2, y3, e, c1, c2, c3⟩ := from_Hsl_near M h s l k hk hh (S := 0) (L := (v : ℝ) / 255 * 100)
    (hs.trans (by norm_num)) le_rfl (by norm_num) (hl.trans (by norm_num)) L0 L1
  obtain ⟨g1, g2, g3⟩ := hslSector_grey_close k hk (S := 0) (L := (v : ℝ) / 255 * 100) le_rfl (by norm_num) L0 L1
  have eL : (v : ℝ) / 255 * 100 / 100 * 255 = v := by ring
  rw [eL] at g1 g2 g3
  have q : ∀ y x : ℝ, |y - 255 * x| ≤ 3e-8 → |(v : ℝ) - 255 * x| ≤ 2e-9 → Real.toU8 (Real.roundHA y) = v := by
    intro y x h1 h2
    have h3 : |y - v| < 1 / 2 := by
      rw [abs_le] at h1 h2; rw [abs_lt]; constructor <;> linarith [h1.1, h1.2, h2.1, h2.2]
    have := Quant.toU8_roundHA_natCast_add hv h3
    rwa [add_sub_cancel] at this
  rw [e, q y1 _ c1 g1, q y2 _ c2 g2, q y3 _ c3 g3]

/-! ## Examples -/

-- the theorems at the exact model (the structure is inhabited; nothing is vacuous)
example : ((Rgb.from_Hsl (Hsl.from_Rgb (α := RF FPModel.exact) ⟨241, 27, 28⟩)).r ≤ 241 + 2 ∧
    241 ≤ (Rgb.from_Hsl (Hsl.from_Rgb (α := RF FPModel.exact) ⟨241, 27, 28⟩)).r + 2) :=
  (hsl_roundtrip_fp FPModel.exact ⟨241, 27, 28⟩ (by norm_num) (by norm_num) (by norm_num)).1

-- a hue tie: the exact angle of rgb(120,0,1) is 359.5; the rounded-model hue is 359 or 0 depending on the model
-- (`Props.C09.hue_tie_fp`), and the round trip is within 2 in EVERY model all the same
example (M : FPModel) : (Rgb.from_Hsl (Hsl.from_Rgb (α := RF M) ⟨120, 0, 1⟩)).g ≤ 0 + 2 :=
  (hsl_roundtrip_fp M ⟨120, 0, 1⟩ (by norm_num) (by norm_num) (by norm_num)).2.1.1

example (M : FPModel) : 120 ≤ (Rgb.from_Hwb (Hwb.from_Rgb (α := RF M) ⟨120, 0, 1⟩)).r + 3 :=
  (hwb_roundtrip_fp M ⟨120, 0, 1⟩ (by norm_num) (by norm_num) (by norm_num) (Or.inl (by norm_num))).1.2

-- mid grey survives HSL exactly in every model
example (M : FPModel) : Rgb.from_Hsl (Hsl.from_Rgb (α := RF M) ⟨128, 128, 128⟩) = ⟨128, 128, 128⟩ :=
  hsl_roundtrip_grey_fp M 128 (by norm_num)

-- the non-black hypothesis is satisfiable
example : (0 : ℕ) < (⟨241, 27, 28⟩ : Rgb).r ∨ (0 : ℕ) < (⟨241, 27, 28⟩ : Rgb).g ∨
    (0 : ℕ) < (⟨241, 27, 28⟩ : Rgb).b := Or.inl (by norm_num)

-- the hypotheses of `hwb_reverse_fp` are satisfiable (whiteness 30 %, blackness 20 %)
example : (0 : ℝ) ≤ 30 ∧ (0 : ℝ) ≤ 20 ∧ (30 : ℝ) + 20 ≤ 100 ∧ (100 : ℝ) / 255 ≤ 100 - 20 := by norm_num

end Props.C03_fp_hexcone
