import LymuiVerif.Lemmas.FpEnc2
/-!
# C08 in the rounded-arithmetic reading, reverse direction (`RF M`, every `M : FPModel`)

Property text (last sentence): "For every in-range encoded triple the reverse conversions apply the inverse curve
and matrix (within 5e-6 in XYZ)."

Two families of theorems about the GENERATED reverse conversions evaluated in `RF M`:

* `reverse_*_spec_fp` — the sentence itself: for EVERY encoded triple with channels in `[0,1]` (not within `1e-6` of
  the breakpoint of the decoding curve, where the computed comparison against the rounded literal may choose the other
  branch), `Xyz.from_X s` is within `1e-12` of (forward matrix)·(specification decoder of the channels), the
  exact-real reading of `Props.C08.xyz_from_*_def`.  Adobe RGB needs no breakpoint condition.
* `reverse_*_fp` — the reverse conversion applied to the forward image of an 8-bit colour returns the XYZ it came from
  (continuing `Props.C08_fp.reverse_srgb_fp`): Rec.709 within `4.5e-7`, Rec.2020 within `1.41e-6` (for colours
  whose BT.2020 linear components avoid the two breakpoints), Adobe RGB (Adobe profile) within `3.06e-4` — the two
  Adobe tables `argb::XR..` (6 digits) and `argb::RR..` (Lindbloom) are not inverse to each other beyond `2.6e-4`,
  `Props.C02_curves.argb_matrix_product_box`; that is the exact-real constant of `Props.C02_requant`, not a rounding effect.

The exact-real theorems of `Props/C08.lean`, `Props/C02_requant.lean` are cited, not re-proved.
-/
noncomputable section
namespace Props.C08_fp_reverse
open Gen Props.C08 Lemmas.FpEnc Lemmas.FpEnc2 Lemmas.FpXyz

/-- an encoded channel value in `[0,1]` that is not within `1e-6` of the breakpoint `θ` of its decoding curve -/
def InRange (θ v : ℝ) : Prop := 0 ≤ v ∧ v ≤ 1 ∧ (v ≤ θ - 1e-6 ∨ θ + 1e-6 ≤ v)

/-! ## the reverse conversions apply the inverse curve and the matrix -/

/-- **C08, sRGB reverse, rounded model**: for every in-range encoded triple, `Xyz.from_Srgb` is within `1e-12`
(property: `5e-6`) of the sRGB matrix applied to the IEC 61966-2-1 decoder of the channels -/
theorem reverse_srgb_spec_fp (M : FPModel) (s : Srgb (RF M))
    (hr : InRange 0.04045 s.r.val) (hg : InRange 0.04045 s.g.val) (hb : InRange 0.04045 s.b.val) :
    |(Xyz.from_Srgb s).x.val - dot C.X65 (decSrgb s.r.val) (decSrgb s.g.val) (decSrgb s.b.val)| ≤ 1e-12 ∧
    |(Xyz.from_Srgb s).y.val - dot C.Y65 (decSrgb s.r.val) (decSrgb s.g.val) (decSrgb s.b.val)| ≤ 1e-12 ∧
    |(Xyz.from_Srgb s).z.val - dot C.Z65 (decSrgb s.r.val) (decSrgb s.g.val) (decSrgb s.b.val)| ≤ 1e-12 := by
  have gap : ∀ v, InRange 0.04045 v → (v ≤ 0.040449 ∨ 0.040451 ≤ v) ∧ -0.001 ≤ v ∧ v ≤ 1.001 := by
    rintro v ⟨h0, h1, h | h⟩
    · exact ⟨Or.inl (by linarith), by linarith, by linarith⟩
    · exact ⟨Or.inr (by linarith), by linarith, by linarith⟩
  obtain ⟨g1, g2, g3⟩ := gap _ hr
  obtain ⟨g1', g2', g3'⟩ := gap _ hg
  obtain ⟨g1'', g2'', g3''⟩ := gap _ hb
  have d1 := srgb_dec_tight2 M s.r s.r.val 0 (by simp) (by norm_num) g1 g2 g3
  have d2 := srgb_dec_tight2 M s.g s.g.val 0 (by simp) (by norm_num) g1' g2' g3'
  have d3 := srgb_dec_tight2 M s.b s.b.val 0 (by simp) (by norm_num) g1'' g2'' g3''
  rw [srgb_decode_is_iec] at d1 d2 d3
  obtain ⟨t1, t2, t3⟩ := fwd_rows M .D65
  obtain ⟨p1, p2, p3⟩ := rev3_close M t1 t2 t3 (e := 2e-14)
    (v := (F64.compute_srgb_gamma_expanded s.r, F64.compute_srgb_gamma_expanded s.g, F64.compute_srgb_gamma_expanded s.b))
    (x := (decSrgb s.r.val, decSrgb s.g.val, decSrgb s.b.val))
    (d1.trans (by norm_num)) (d2.trans (by norm_num)) (d3.trans (by norm_num))
    (decSrgb_range _ g2 g3) (decSrgb_range _ g2' g3') (decSrgb_range _ g2'' g3'') (by norm_num)
  rw [xyz_from_srgb_fp]
  simp only [fwdF, Lemmas.Matrix.fwd] at p1 p2 p3
  exact ⟨p1.trans (by norm_num), p2.trans (by norm_num), p3.trans (by norm_num)⟩

/-- **C08, Rec.709 reverse, rounded model**: for every in-range encoded triple, `Xyz.from_Rec709` is within `1e-12`
(property: `5e-6`) of the BT.709 matrix applied to the inverse OETF of the channels -/
theorem reverse_rec709_spec_fp (M : FPModel) (s : Rec709 (RF M))
    (hr : InRange 0.081 s.r.val) (hg : InRange 0.081 s.g.val) (hb : InRange 0.081 s.b.val) :
    |(Xyz.from_Rec709 s).x.val - dot C.X65 (invOetf709 s.r.val) (invOetf709 s.g.val) (invOetf709 s.b.val)| ≤ 1e-12 ∧
    |(Xyz.from_Rec709 s).y.val - dot C.Y65 (invOetf709 s.r.val) (invOetf709 s.g.val) (invOetf709 s.b.val)| ≤ 1e-12 ∧
    |(Xyz.from_Rec709 s).z.val - dot C.Z65 (invOetf709 s.r.val) (invOetf709 s.g.val) (invOetf709 s.b.val)| ≤ 1e-12 := by
  have gap : ∀ v, InRange 0.081 v → (v ≤ 0.080999 ∨ 0.081001 ≤ v) ∧ -0.01 ≤ v ∧ v ≤ 1.001 := by
    rintro v ⟨h0, h1, h | h⟩
    · exact ⟨Or.inl (by linarith), by linarith, by linarith⟩
    · exact ⟨Or.inr (by linarith), by linarith, by linarith⟩
  obtain ⟨g1, g2, g3⟩ := gap _ hr
  obtain ⟨g1', g2', g3'⟩ := gap _ hg
  obtain ⟨g1'', g2'', g3''⟩ := gap _ hb
  have d1 := rec709_dec_tight M s.r s.r.val 0 (by simp) (by norm_num) g1 g2 g3
  have d2 := rec709_dec_tight M s.g s.g.val 0 (by simp) (by norm_num) g1' g2' g3'
  have d3 := rec709_dec_tight M s.b s.b.val 0 (by simp) (by norm_num) g1'' g2'' g3''
  obtain ⟨t1, t2, t3⟩ := fwd_rows M .D65
  obtain ⟨p1, p2, p3⟩ := rev3_close M t1 t2 t3 (e := 2e-14)
    (v := (F64.compute_rec709_gamma_expanded s.r, F64.compute_rec709_gamma_expanded s.g, F64.compute_rec709_gamma_expanded s.b))
    (x := (invOetf709 s.r.val, invOetf709 s.g.val, invOetf709 s.b.val))
    (d1.trans (by norm_num)) (d2.trans (by norm_num)) (d3.trans (by norm_num))
    (invOetf709_range _ g2 g3) (invOetf709_range _ g2' g3') (invOetf709_range _ g2'' g3'') (by norm_num)
  rw [xyz_from_rec709_fp]
  simp only [fwdF, Lemmas.Matrix.fwd] at p1 p2 p3
  exact ⟨p1.trans (by norm_num), p2.trans (by norm_num), p3.trans (by norm_num)⟩

/-- **C08, Rec.2020 reverse, rounded model**: for every in-range encoded triple, `Xyz.from_Rec2020` is within `1e-12`
of the BT.2020 matrix applied to the code's inverse OETF of the channels — the one that switches at `0.081` (finding
`Props.C08.rec2020_decode_formula`; it is the BT.2020 inverse `invOetf2020` outside `[0.081, 0.08145)`,
`Props.C08.rec2020_decode_is_bt2020`) -/
theorem reverse_rec2020_spec_fp (M : FPModel) (s : Rec2020 (RF M))
    (hr : InRange 0.081 s.r.val) (hg : InRange 0.081 s.g.val) (hb : InRange 0.081 s.b.val) :
    |(Xyz.from_Rec2020 s).x.val - dot C.XX (invOetf2020With 0.081 s.r.val) (invOetf2020With 0.081 s.g.val) (invOetf2020With 0.081 s.b.val)| ≤ 1e-12 ∧
    |(Xyz.from_Rec2020 s).y.val - dot C.XY (invOetf2020With 0.081 s.r.val) (invOetf2020With 0.081 s.g.val) (invOetf2020With 0.081 s.b.val)| ≤ 1e-12 ∧
    |(Xyz.from_Rec2020 s).z.val - dot C.XZ (invOetf2020With 0.081 s.r.val) (invOetf2020With 0.081 s.g.val) (invOetf2020With 0.081 s.b.val)| ≤ 1e-12 := by
  have gap : ∀ v, InRange 0.081 v → (v ≤ 0.080999 ∨ 0.081001 ≤ v) ∧ -0.01 ≤ v ∧ v ≤ 1.001 := by
    rintro v ⟨h0, h1, h | h⟩
    · exact ⟨Or.inl (by linarith), by linarith, by linarith⟩
    · exact ⟨Or.inr (by linarith), by linarith, by linarith⟩
  obtain ⟨g1, g2, g3⟩ := gap _ hr
  obtain ⟨g1', g2', g3'⟩ := gap _ hg
  obtain ⟨g1'', g2'', g3''⟩ := gap _ hb
  have d1 := rec2020_dec_tight M s.r s.r.val 0 (by simp) (by norm_num) g1 g2 g3
  have d2 := rec2020_dec_tight M s.g s.g.val 0 (by simp) (by norm_num) g1' g2' g3'
  have d3 := rec2020_dec_tight M s.b s.b.val 0 (by simp) (by norm_num) g1'' g2'' g3''
  obtain ⟨t1, t2, t3⟩ := rec2020_fwd_rows M
  obtain ⟨p1, p2, p3⟩ := rev3_close M t1 t2 t3 (e := 2e-14)
    (v := (F64.compute_rec2020_gamma_expanded s.r, F64.compute_rec2020_gamma_expanded s.g, F64.compute_rec2020_gamma_expanded s.b))
    (x := (invOetf2020With 0.081 s.r.val, invOetf2020With 0.081 s.g.val, invOetf2020With 0.081 s.b.val))
    (d1.trans (by norm_num)) (d2.trans (by norm_num)) (d3.trans (by norm_num))
    (invOetf2020_range _ g2 g3) (invOetf2020_range _ g2' g3') (invOetf2020_range _ g2'' g3'') (by norm_num)
  rw [xyz_from_rec2020_fp]
  exact ⟨p1.trans (by norm_num), p2.trans (by norm_num), p3.trans (by norm_num)⟩

/-- **C08, Adobe RGB reverse, rounded model**: for every encoded triple in `[0,1]³`, `Xyz.from_Argb` is within
`1e-12` of the matrix `argb::RR, GG, BB` applied to `v^(563/256)` of the channels (no breakpoint: the guard `v ≤ 0`
returns `0 = 0^γ`) -/
theorem reverse_argb_spec_fp (M : FPModel) (s : Argb (RF M))
    (hr : 0 ≤ s.r.val ∧ s.r.val ≤ 1) (hg : 0 ≤ s.g.val ∧ s.g.val ≤ 1) (hb : 0 ≤ s.b.val ∧ s.b.val ≤ 1) :
    |(Xyz.from_Argb s).x.val - dot C.RR (decAdobe s.r.val) (decAdobe s.g.val) (decAdobe s.b.val)| ≤ 1e-12 ∧
    |(Xyz.from_Argb s).y.val - dot C.GG (decAdobe s.r.val) (decAdobe s.g.val) (decAdobe s.b.val)| ≤ 1e-12 ∧
    |(Xyz.from_Argb s).z.val - dot C.BB (decAdobe s.r.val) (decAdobe s.g.val) (decAdobe s.b.val)| ≤ 1e-12 := by
  have d1 := argb_dec_tight M s.r s.r.val 0 (by simp) (by norm_num) (by linarith [hr.2])
  have d2 := argb_dec_tight M s.g s.g.val 0 (by simp) (by norm_num) (by linarith [hg.2])
  have d3 := argb_dec_tight M s.b s.b.val 0 (by simp) (by norm_num) (by linarith [hb.2])
  have c1 := decAdobe_range s.r.val (by linarith [hr.2])
  have c2 := decAdobe_range s.g.val (by linarith [hg.2])
  have c3 := decAdobe_range s.b.val (by linarith [hb.2])
  rw [max_eq_left hr.1] at d1 c1
  rw [max_eq_left hg.1] at d2 c2
  rw [max_eq_left hb.1] at d3 c3
  obtain ⟨t1, t2, t3⟩ := argb_fwd_rows M
  obtain ⟨p1, p2, p3⟩ := rev3_close M t1 t2 t3 (e := 2e-14)
    (v := (F64.compute_argb_gamma s.r, F64.compute_argb_gamma s.g, F64.compute_argb_gamma s.b))
    (x := (decAdobe s.r.val, decAdobe s.g.val, decAdobe s.b.val))
    (d1.trans (by norm_num)) (d2.trans (by norm_num)) (d3.trans (by norm_num)) c1 c2 c3 (by norm_num)
  rw [xyz_from_argb_fp]
  exact ⟨p1.trans (by norm_num), p2.trans (by norm_num), p3.trans (by norm_num)⟩

/-! ## the reverse conversion on the forward images -/

/-- **C08, reverse conversion on the forward images, Rec.709, rounded model**: for `x` the (computed) XYZ of an
8-bit colour, `Xyz.from_Rec709 (Rec709.from_Xyz x)` is within 5e-6 of `x` in every component (proved `4.5e-7`:
`4.4e-7` is the exact-real distance `Props.C02_requant.rec709_roundtrip_8bit_tight` — the 7-digit tables are not
exact inverses —, `1.5e-9` the rounding error) -/
theorem reverse_rec709_fp (M : FPModel) (c : Rgb) (hr : c.r ≤ 255) (hg : c.g ≤ 255) (hb : c.b ≤ 255) :
    |(Xyz.from_Rec709 (Rec709.from_Xyz (Xyz.from_rgb (α := RF M) c XyzKind.D65))).x.val - (Xyz.from_rgb (α := RF M) c XyzKind.D65).x.val| ≤ 5e-6 ∧
    |(Xyz.from_Rec709 (Rec709.from_Xyz (Xyz.from_rgb (α := RF M) c XyzKind.D65))).y.val - (Xyz.from_rgb (α := RF M) c XyzKind.D65).y.val| ≤ 5e-6 ∧
    |(Xyz.from_Rec709 (Rec709.from_Xyz (Xyz.from_rgb (α := RF M) c XyzKind.D65))).z.val - (Xyz.from_rgb (α := RF M) c XyzKind.D65).z.val| ≤ 5e-6 := by
  obtain ⟨h1, h2, h3⟩ := rec709_roundtrip_fp M c hr hg hb
  exact ⟨h1.trans (by norm_num), h2.trans (by norm_num), h3.trans (by norm_num)⟩

/-- the sharp constant of `reverse_rec709_fp`: `4.5e-7` -/
theorem reverse_rec709_tight_fp (M : FPModel) (c : Rgb) (hr : c.r ≤ 255) (hg : c.g ≤ 255) (hb : c.b ≤ 255) :
    |(Xyz.from_Rec709 (Rec709.from_Xyz (Xyz.from_rgb (α := RF M) c XyzKind.D65))).x.val - (Xyz.from_rgb (α := RF M) c XyzKind.D65).x.val| ≤ 4.5e-7 ∧
    |(Xyz.from_Rec709 (Rec709.from_Xyz (Xyz.from_rgb (α := RF M) c XyzKind.D65))).y.val - (Xyz.from_rgb (α := RF M) c XyzKind.D65).y.val| ≤ 4.5e-7 ∧
    |(Xyz.from_Rec709 (Rec709.from_Xyz (Xyz.from_rgb (α := RF M) c XyzKind.D65))).z.val - (Xyz.from_rgb (α := RF M) c XyzKind.D65).z.val| ≤ 4.5e-7 :=
  rec709_roundtrip_fp M c hr hg hb

/-- the BT.2020 linear components (rows `rec2020::XR, XG, XB`) of the exact-real XYZ of a colour stay `1e-5` away from
both breakpoints of the code's curve pair (`0.018` and `β = 0.0181`) -/
def AwayFromBreaks (c : Rgb) : Prop :=
  Rec2020NoBreak (dot C.rec2020_XR (Xyz.from_rgb (α := ℝ) c XyzKind.D65).x (Xyz.from_rgb (α := ℝ) c XyzKind.D65).y (Xyz.from_rgb (α := ℝ) c XyzKind.D65).z) ∧
  Rec2020NoBreak (dot C.XG (Xyz.from_rgb (α := ℝ) c XyzKind.D65).x (Xyz.from_rgb (α := ℝ) c XyzKind.D65).y (Xyz.from_rgb (α := ℝ) c XyzKind.D65).z) ∧
  Rec2020NoBreak (dot C.XB (Xyz.from_rgb (α := ℝ) c XyzKind.D65).x (Xyz.from_rgb (α := ℝ) c XyzKind.D65).y (Xyz.from_rgb (α := ℝ) c XyzKind.D65).z)

/-- **C08, reverse conversion on the forward images, Rec.2020, rounded model**, for colours whose BT.2020 linear
components avoid the breakpoints (`AwayFromBreaks`): `Xyz.from_Rec2020 (Rec2020.from_Xyz x)` is within 5e-6 of `x`
(proved `1.41e-6`: exact-real `1.4e-6`, `Props.C02_requant.rec2020_roundtrip_8bit_tight`, which includes the sliver
`[0.018, 0.0181)` where the code's decoder does not invert its encoder; rounding `5e-10`) -/
theorem reverse_rec2020_partial_fp (M : FPModel) (c : Rgb) (hr : c.r ≤ 255) (hg : c.g ≤ 255) (hb : c.b ≤ 255)
    (hc : AwayFromBreaks c) :
    |(Xyz.from_Rec2020 (Rec2020.from_Xyz (Xyz.from_rgb (α := RF M) c XyzKind.D65))).x.val - (Xyz.from_rgb (α := RF M) c XyzKind.D65).x.val| ≤ 1.41e-6 ∧
    |(Xyz.from_Rec2020 (Rec2020.from_Xyz (Xyz.from_rgb (α := RF M) c XyzKind.D65))).y.val - (Xyz.from_rgb (α := RF M) c XyzKind.D65).y.val| ≤ 1.41e-6 ∧
    |(Xyz.from_Rec2020 (Rec2020.from_Xyz (Xyz.from_rgb (α := RF M) c XyzKind.D65))).z.val - (Xyz.from_rgb (α := RF M) c XyzKind.D65).z.val| ≤ 1.41e-6 := by
  obtain ⟨n1, n2, n3⟩ := hc
  rw [Lemmas.XyzDispatch.from_rgb_eq] at n1 n2 n3
  simp only [Lemmas.XyzDispatch.toXyz, ← dot_eq_c08] at n1 n2 n3
  exact rec2020_roundtrip_fp M c hr hg hb n1 n2 n3

/- GOAL (not proved): `reverse_rec2020_partial_fp` without `AwayFromBreaks`, with `5e-6`.
   Near `β = 0.0181` the computed encoder may take the other branch (difference `2.8e-6` in the encoded value,
   `Lemmas.FpEnc.rec2020_enc_quasi`), near `0.018` the computed decoder may (difference `≈ 5e-6` in the decoded linear value:
   the code's decoder switches at `0.081`, where its two branches differ by that much — finding
   `Props.C08.rec2020_decode_formula`).  What is missing is a quasi-Lipschitz bound of `invOetf2020With 0.081` across its
   switch and the bookkeeping of the four cases; the bound would be about `1.4e-6 + 0.7·5e-6 ≈ 4.9e-6`, with no margin
   left against `5e-6` unless the finite fact "no 8-bit colour has a BT.2020 component within `1e-11` of `0.018` or
   `0.0181`" is proved (cf. the GOAL of `Props/C08_rec2020.lean`). -/

/-- **reverse conversion on the forward images, Adobe RGB (XYZ under the Adobe profile), rounded model**:
`Xyz.from_Argb (Argb.from_Xyz x)` is within `3.06e-4` of `x` in every component.  The constant is that of the exact-real
model (`Props.C02_requant.argb_roundtrip_8bit_adobe`, `3e-4`, inside the `5e-4` of C02): the crate's two Adobe tables
`argb::XR, YG, ZB` (6 digits) and `argb::RR, GG, BB` (Lindbloom) are not inverse to each other beyond `2.6e-4`.  The `5e-6`
of C08 is the distance to curve-and-matrix of the specification, `reverse_argb_spec_fp` (`1e-12`).  Rounding part here
`5.5e-6` (crude: Lipschitz estimates of `x^(256/563)` down to `5.95e-8`, magnitudes `≤ 3.5e-7` below). -/
theorem reverse_argb_fp (M : FPModel) (c : Rgb) (hr : c.r ≤ 255) (hg : c.g ≤ 255) (hb : c.b ≤ 255) :
    |(Xyz.from_Argb (Argb.from_Xyz (Xyz.from_rgb (α := RF M) c XyzKind.Adobe))).x.val - (Xyz.from_rgb (α := RF M) c XyzKind.Adobe).x.val| ≤ 3.06e-4 ∧
    |(Xyz.from_Argb (Argb.from_Xyz (Xyz.from_rgb (α := RF M) c XyzKind.Adobe))).y.val - (Xyz.from_rgb (α := RF M) c XyzKind.Adobe).y.val| ≤ 3.06e-4 ∧
    |(Xyz.from_Argb (Argb.from_Xyz (Xyz.from_rgb (α := RF M) c XyzKind.Adobe))).z.val - (Xyz.from_rgb (α := RF M) c XyzKind.Adobe).z.val| ≤ 3.06e-4 :=
  argb_roundtrip_fp M c hr hg hb

/-- the Adobe curve pair composed in `RF M`: `decode (encode a)` is within `4.2e-7` of `max a 0` for every computed
`a ≤ 1.001` (exact-real: equal, `Props.C02_curves.adobe_dec_enc_code`) -/
theorem adobe_dec_enc_fp (M : FPModel) (a : RF M) (ha : a.val ≤ 1.001) :
    |(F64.compute_argb_gamma (F64.compute_argb_gamma_expanded a)).val - max a.val 0| ≤ 4.2e-7 :=
  argb_dec_enc_fp M a a.val (by rw [sub_self, abs_zero]; norm_num) ha

/- GOAL (not proved): Rec.2100 in `RF M`.  The exact-real file states only definitional facts about it
   (`Props.C08.rec2100_from_xyz_def`, `xyz_from_rec2100_def`, `pq_inverse_is_st2084`) and the recorded finding that the forward
   curve `F64.pq_eotf` is not ST 2084 (`pq_forward_is_not_st2084`).  A rounded-model counterpart of `xyz_from_rec2100_def`
   ("within `5e-6` of matrix·`pqInvEotf`") needs `M.pow` with the exponent `m2 = 78.84`: the existing exponent-perturbation
   lemma `FpXyz.rpow_exp_close` is for exponents `≤ 3`; a version `|x^q − x^q'| ≤ |q − q'|·|log x|·x^min(q,q')` on
   `x ∈ [c1, 1]` would do (`|log c1| < 0.18`), error `≈ 79·5e-16`.  Not done in the time box. -/

/-! ## examples -/

-- in-range triples exist on both sides of the breakpoint; the theorems at the exact model
example : InRange 0.081 0.05 ∧ InRange 0.081 0.5 ∧ InRange 0.081 1 ∧ InRange 0.081 0 := by
  unfold InRange; norm_num
example (M : FPModel) (a b c : ℝ) (ha : InRange 0.081 a) (hb : InRange 0.081 b) (hc : InRange 0.081 c) :
    |(Xyz.from_Rec709 (⟨⟨a⟩, ⟨b⟩, ⟨c⟩⟩ : Rec709 (RF M))).y.val - dot C.Y65 (invOetf709 a) (invOetf709 b) (invOetf709 c)| ≤ 1e-12 :=
  (reverse_rec709_spec_fp M ⟨⟨a⟩, ⟨b⟩, ⟨c⟩⟩ ha hb hc).2.1
example : |(Xyz.from_Argb (⟨⟨0⟩, ⟨1 / 2⟩, ⟨1⟩⟩ : Argb (RF FPModel.exact))).x.val
    - dot C.RR (decAdobe 0) (decAdobe (1 / 2)) (decAdobe 1)| ≤ 1e-12 :=
  (reverse_argb_spec_fp FPModel.exact ⟨⟨0⟩, ⟨1 / 2⟩, ⟨1⟩⟩ (by norm_num) (by norm_num) (by norm_num)).1
example (M : FPModel) : |(Xyz.from_Rec709 (Rec709.from_Xyz (Xyz.from_rgb (α := RF M) ⟨37, 36, 128⟩ XyzKind.D65))).z.val
    - (Xyz.from_rgb (α := RF M) ⟨37, 36, 128⟩ XyzKind.D65).z.val| ≤ 5e-6 :=
  (reverse_rec709_fp M ⟨37, 36, 128⟩ (by norm_num) (by norm_num) (by norm_num)).2.2

example : InRange 0.04045 (10 / 255) ∧ InRange 0.04045 (11 / 255) := by unfold InRange; norm_num
-- `AwayFromBreaks` is satisfiable (black: all BT.2020 components are 0)
example : AwayFromBreaks ⟨0, 0, 0⟩ := by
  unfold AwayFromBreaks
  rw [Lemmas.RoundtripF1a.from_rgb_black]
  simp only [dot, zero_mul, add_zero, Rec2020NoBreak]
  norm_num
example (M : FPModel) : |(Xyz.from_Rec2020 (Rec2020.from_Xyz (Xyz.from_rgb (α := RF M) ⟨0, 0, 0⟩ XyzKind.D65))).y.val
    - (Xyz.from_rgb (α := RF M) ⟨0, 0, 0⟩ XyzKind.D65).y.val| ≤ 1.41e-6 := by
  refine (reverse_rec2020_partial_fp M ⟨0, 0, 0⟩ (by norm_num) (by norm_num) (by norm_num) ?_).2.1
  unfold AwayFromBreaks
  rw [Lemmas.RoundtripF1a.from_rgb_black]
  simp only [dot, zero_mul, add_zero, Rec2020NoBreak]
  norm_num
-- … and by white (components `≈ 1`), a non-trivial instance of `reverse_rec2020_partial_fp`
example (M : FPModel) : |(Xyz.from_Rec2020 (Rec2020.from_Xyz (Xyz.from_rgb (α := RF M) ⟨255, 255, 255⟩ XyzKind.D65))).x.val
    - (Xyz.from_rgb (α := RF M) ⟨255, 255, 255⟩ XyzKind.D65).x.val| ≤ 1.41e-6 := by
  refine (reverse_rec2020_partial_fp M ⟨255, 255, 255⟩ (by norm_num) (by norm_num) (by norm_num) ?_).1
  unfold AwayFromBreaks
  rw [Lemmas.XyzDispatch.from_rgb_eq]
  have h1 : Lemmas.XyzDispatch.lin .D65 ⟨255, 255, 255⟩ = (1, 1, 1) := by
    simp only [Lemmas.XyzDispatch.lin]
    have : ((255:ℕ):ℝ) / 255 = 1 := by norm_num
    rw [this, Lemmas.XyzDispatch.dec_one]
  rw [h1]
  simp only [Lemmas.XyzDispatch.toXyz, Lemmas.Matrix.mulVec, Lemmas.Matrix.dot, Lemmas.Matrix.fwd, dot, Rec2020NoBreak,
    C.X65, C.Y65, C.Z65, C.rec2020_XR, C.XG, C.XB, FltReal.lit_eq]
  norm_num
example (M : FPModel) : |(Xyz.from_Argb (Argb.from_Xyz (Xyz.from_rgb (α := RF M) ⟨0, 1, 255⟩ XyzKind.Adobe))).x.val
    - (Xyz.from_rgb (α := RF M) ⟨0, 1, 255⟩ XyzKind.Adobe).x.val| ≤ 3.06e-4 :=
  (reverse_argb_fp M ⟨0, 1, 255⟩ (by norm_num) (by norm_num) (by norm_num)).1

end Props.C08_fp_reverse
