import LymuiVerif.Lemmas.XyzDispatch
import LymuiVerif.Lemmas.ColorimetryEval
/-!
# C05 — `Xyz.from_rgb` / `Xyz.as_rgb` are the colourimetric conversions of the three profiles

"For every 8-bit colour the XYZ returned for the D65, D50 and Adobe profiles equals, within 1e-6 per
component, the tristimulus obtained by decoding the channels with the profile's transfer function
(IEC 61966-2-1 sRGB curve; pure gamma 563/256 for Adobe RGB) and applying the RGB-to-XYZ matrix that
follows from the profile's primaries and white point (D65 = 0.95047/1/1.08883; Bradford-adapted to
0.96422/1/0.82521 for D50).  Conversely XYZ -> RGB is the inverse matrix, the encoding curve and one
uniform round-to-nearest 8-bit quantisation clamped to 0..255; white maps to the reference white and
black to (0,0,0)."

The specification (`LymuiVerif/Spec/Colorimetry.lean`) is pure mathematics: `M = P·diag(P⁻¹W)` from
the xy chromaticities of the primaries, Bradford adaptation, the IEC curve and the 563/256 gamma.
The theorems relate it to the GENERATED `Xyz.from_rgb`, `Xyz.as_rgb`, matrix rows and curves.
-/
namespace Props.C05
open Gen Matrix Spec.Colorimetry Lemmas.Matrix Lemmas.XyzDispatch Lemmas.ColorimetryEval

/-! ## specification per profile -/

/-- the RGB → XYZ matrix that follows from the profile's primaries and white point -/
noncomputable def specMatrix : XyzKind → Mat3
  | .D65 => rgbToXyz srgbPrimaries whiteD65
  | .D50 => adapt whiteD65 whiteD50 * rgbToXyz srgbPrimaries whiteD65
  | .Adobe => rgbToXyz adobePrimaries whiteD65

/-- reference white of the profile -/
noncomputable def refWhite : XyzKind → Vec3
  | .D50 => whiteD50
  | _ => whiteD65

/-- decoding transfer function of the profile -/
noncomputable def specDecode : XyzKind → ℝ → ℝ
  | .Adobe => adobeDecode
  | _ => srgbDecode

/-- encoding transfer function of the profile -/
noncomputable def specEncode : XyzKind → ℝ → ℝ
  | .Adobe => adobeEncode
  | _ => srgbEncode

/-- linear-light channels of an 8-bit colour according to the specification -/
noncomputable def specLin (k : XyzKind) (c : Rgb) : Vec3 :=
  ![specDecode k ((c.r : ℝ) / 255), specDecode k ((c.g : ℝ) / 255), specDecode k ((c.b : ℝ) / 255)]

/-- the specified tristimulus of an 8-bit colour -/
noncomputable def specXyz (k : XyzKind) (c : Rgb) : Vec3 := specMatrix k *ᵥ specLin k c

/-- the ONE quantiser: scale by 255, round to nearest (half away from zero), clamp to 0..255 -/
noncomputable def Q (v : ℝ) : ℕ := Real.toU8 (Real.roundHA (v * 255))

/-- generated forward rows of the profile as a matrix -/
noncomputable def genMatrix (k : XyzKind) : Mat3 := Matrix.of fun i j => M3.ent (fwd k) i j
/-- generated reverse rows of the profile as a matrix -/
noncomputable def genInverse (k : XyzKind) : Mat3 := Matrix.of fun i j => M3.ent (rev k) i j

/-! ## the specification is what its name says (checks of the spec itself) -/

/-- the specified matrix maps RGB white (1,1,1) to the reference white EXACTLY -/
theorem spec_white (k : XyzKind) : specMatrix k *ᵥ ![1, 1, 1] = refWhite k := by
  cases k
  · simp only [specMatrix, refWhite]; rw [rgbToXyz_srgb_D50]
    ext i; fin_cases i <;>
      norm_num [whiteD50, Matrix.mulVec, dotProduct, Fin.sum_univ_three, Matrix.cons_val_two,
        Matrix.vecHead, Matrix.vecTail]
  · simp only [specMatrix, refWhite]; rw [rgbToXyz_srgb_D65]
    ext i; fin_cases i <;>
      norm_num [whiteD65, Matrix.mulVec, dotProduct, Fin.sum_univ_three, Matrix.cons_val_two,
        Matrix.vecHead, Matrix.vecTail]
  · simp only [specMatrix, refWhite]; rw [rgbToXyz_adobe_D65]
    ext i; fin_cases i <;>
      norm_num [whiteD65, Matrix.mulVec, dotProduct, Fin.sum_univ_three, Matrix.cons_val_two,
        Matrix.vecHead, Matrix.vecTail]

/-! ## matrices -/

/-- every generated forward entry is within 5e-8 of the matrix that follows from the primaries and
the white point (the constants are the 7-decimal roundings published by Lindbloom) -/
theorem matrix_matches_spec (k : XyzKind) (i j : Fin 3) :
    |genMatrix k i j - specMatrix k i j| ≤ 5e-8 := by
  cases k
  · simp only [specMatrix]; rw [rgbToXyz_srgb_D50]
    fin_cases i <;> fin_cases j <;> simp only [genMatrix, Matrix.of_apply] <;> unfold_consts <;>
      norm_num [abs_le, Matrix.cons_val_two, Matrix.vecHead, Matrix.vecTail]
  · simp only [specMatrix]; rw [rgbToXyz_srgb_D65]
    fin_cases i <;> fin_cases j <;> simp only [genMatrix, Matrix.of_apply] <;> unfold_consts <;>
      norm_num [abs_le, Matrix.cons_val_two, Matrix.vecHead, Matrix.vecTail]
  · simp only [specMatrix]; rw [rgbToXyz_adobe_D65]
    fin_cases i <;> fin_cases j <;> simp only [genMatrix, Matrix.of_apply] <;> unfold_consts <;>
      norm_num [abs_le, Matrix.cons_val_two, Matrix.vecHead, Matrix.vecTail]

/-- the generated reverse matrix is the inverse of the specified matrix up to 1e-6 per entry -/
theorem inverse_matches_spec (k : XyzKind) (i j : Fin 3) :
    |(genInverse k * specMatrix k) i j - (1 : Mat3) i j| ≤ 1e-6 := by
  cases k
  · simp only [specMatrix]; rw [rgbToXyz_srgb_D50]
    fin_cases i <;> fin_cases j <;>
      simp only [genInverse, Matrix.mul_apply, Fin.sum_univ_three, Matrix.of_apply] <;>
      unfold_consts <;>
      norm_num [abs_le, Matrix.cons_val_two, Matrix.vecHead, Matrix.vecTail, Matrix.one_apply]
  · simp only [specMatrix]; rw [rgbToXyz_srgb_D65]
    fin_cases i <;> fin_cases j <;>
      simp only [genInverse, Matrix.mul_apply, Fin.sum_univ_three, Matrix.of_apply] <;>
      unfold_consts <;>
      norm_num [abs_le, Matrix.cons_val_two, Matrix.vecHead, Matrix.vecTail, Matrix.one_apply]
  · simp only [specMatrix]; rw [rgbToXyz_adobe_D65]
    fin_cases i <;> fin_cases j <;>
      simp only [genInverse, Matrix.mul_apply, Fin.sum_univ_three, Matrix.of_apply] <;>
      unfold_consts <;>
      norm_num [abs_le, Matrix.cons_val_two, Matrix.vecHead, Matrix.vecTail, Matrix.one_apply]

/-! ## curves -/

/-- the generated decode curve of each profile is the specified one (on nonnegative input; for
negative input the Adobe code returns 0 where the real power is not meaningful) -/
theorem decode_is_spec (k : XyzKind) {v : ℝ} (hv : 0 ≤ v) : dec k v = specDecode k v := by
  cases k
  · simp only [dec, specDecode, srgbDecode, Lemmas.Curves.srgb_dec_eq]
  · simp only [dec, specDecode, srgbDecode, Lemmas.Curves.srgb_dec_eq]
  · simp only [dec, specDecode, adobeDecode, Lemmas.Curves.argb_dec_nonneg hv]

/-- the generated encode curve of each profile is the specified one, for every real input -/
theorem encode_is_spec (k : XyzKind) (v : ℝ) : enc k v = specEncode k v := by
  cases k
  · simp only [enc, specEncode, srgbEncode, Lemmas.Curves.srgb_enc_eq]
  · simp only [enc, specEncode, srgbEncode, Lemmas.Curves.srgb_enc_eq]
  · simp only [enc, specEncode, adobeEncode, Lemmas.Curves.argb_enc_eq]

/-! ## forward conversion -/

/-- `from_rgb c k` IS: generated rows of profile `k` applied to the channels `/255` decoded with
the specified curve of profile `k` (exact equality; a mis-wired profile, threshold, slope or
exponent breaks it) -/
theorem forward_def (k : XyzKind) (c : Rgb) :
    Xyz.from_rgb c k = ⟨(genMatrix k *ᵥ specLin k c) 0, (genMatrix k *ᵥ specLin k c) 1,
      (genMatrix k *ᵥ specLin k c) 2⟩ := by
  rw [from_rgb_eq]
  simp [toXyz, lin, specLin, decode_is_spec k (level_nonneg _), genMatrix, Matrix.mulVec,
    dotProduct, Fin.sum_univ_three, Lemmas.Matrix.mulVec, dot, M3.ent, M3.row, V3.get]

/-- **C05, forward**: for every 8-bit colour and profile the returned XYZ is within 2e-7 (hence
within 1e-6) per component of the specified tristimulus -/
theorem forward_close (k : XyzKind) (c : Rgb) (hr : c.r ≤ 255) (hg : c.g ≤ 255) (hb : c.b ≤ 255) :
    |(Xyz.from_rgb c k).x - specXyz k c 0| ≤ 2e-7 ∧ |(Xyz.from_rgb c k).y - specXyz k c 1| ≤ 2e-7 ∧
    |(Xyz.from_rgb c k).z - specXyz k c 2| ≤ 2e-7 := by
  have hl : ∀ j, 0 ≤ specLin k c j ∧ specLin k c j ≤ 1 := by
    intro j
    fin_cases j <;> simp only [specLin, ← decode_is_spec k (level_nonneg _)]
    · exact ⟨dec_level_nonneg k _, dec_level_le_one k hr⟩
    · exact ⟨dec_level_nonneg k _, dec_level_le_one k hg⟩
    · exact ⟨dec_level_nonneg k _, dec_level_le_one k hb⟩
  have h := mulVec_close (genMatrix k) (specMatrix k) 5e-8 (matrix_matches_spec k) (specLin k c) hl
  rw [forward_def]
  refine ⟨(h 0).trans (by norm_num), (h 1).trans (by norm_num), (h 2).trans (by norm_num)⟩

theorem forward_close_1e6 (k : XyzKind) (c : Rgb) (hr : c.r ≤ 255) (hg : c.g ≤ 255)
    (hb : c.b ≤ 255) :
    |(Xyz.from_rgb c k).x - specXyz k c 0| ≤ 1e-6 ∧ |(Xyz.from_rgb c k).y - specXyz k c 1| ≤ 1e-6 ∧
    |(Xyz.from_rgb c k).z - specXyz k c 2| ≤ 1e-6 := by
  obtain ⟨h0, h1, h2⟩ := forward_close k c hr hg hb
  exact ⟨h0.trans (by norm_num), h1.trans (by norm_num), h2.trans (by norm_num)⟩

/-! ## reverse conversion -/

/-- `as_rgb x k` IS: generated reverse rows of profile `k`, the specified encoding curve of profile
`k`, and the SAME quantiser `Q` on all three channels and all three profiles -/
theorem reverse_def (k : XyzKind) (x : Xyz ℝ) :
    Xyz.as_rgb x k = ⟨Q (specEncode k ((genInverse k *ᵥ ![x.x, x.y, x.z]) 0)),
      Q (specEncode k ((genInverse k *ᵥ ![x.x, x.y, x.z]) 1)),
      Q (specEncode k ((genInverse k *ᵥ ![x.x, x.y, x.z]) 2))⟩ := by
  rw [as_rgb_eq]
  simp [quant, Q, encode_is_spec, genInverse, Matrix.mulVec, dotProduct, Fin.sum_univ_three,
    Lemmas.Matrix.mulVec, dot, ofXyz, M3.ent, M3.row, V3.get]

/-- `Q` is round-to-nearest onto 0..255: a scaled value within 1/2 of a level gives that level -/
theorem Q_nearest (n : ℕ) (hn : n ≤ 255) (v : ℝ) (h : |v * 255 - n| < 1 / 2) : Q v = n :=
  Lemmas.Curves.quant_eq n hn _ h

/-- `Q` clamps: non-positive values give 0, values ≥ 1 give 255 -/
theorem Q_clamp (v : ℝ) : (v ≤ 0 → Q v = 0) ∧ (1 ≤ v → Q v = 255) :=
  ⟨fun h => Lemmas.Curves.quant_low _ (by nlinarith), fun h => Lemmas.Curves.quant_high _ (by nlinarith)⟩

/-! ## white and black -/

/-- RGB white maps to the reference white of the profile up to 1e-6 -/
theorem white_to_reference (k : XyzKind) :
    |(Xyz.from_rgb (α := ℝ) ⟨255, 255, 255⟩ k).x - refWhite k 0| ≤ 1e-6 ∧
    |(Xyz.from_rgb (α := ℝ) ⟨255, 255, 255⟩ k).y - refWhite k 1| ≤ 1e-6 ∧
    |(Xyz.from_rgb (α := ℝ) ⟨255, 255, 255⟩ k).z - refWhite k 2| ≤ 1e-6 := by
  have e : Xyz.from_rgb (α := ℝ) ⟨255, 255, 255⟩ k = toXyz (Lemmas.Matrix.mulVec (fwd k) (1, 1, 1)) := by
    rw [from_rgb_eq]; simp [toXyz, Lemmas.Matrix.mulVec, dot, lin, dec_one]
  rw [e]
  have h0 := fwd_white k 0
  have h1 := fwd_white k 1
  have h2 := fwd_white k 2
  cases k <;>
    simpa [refWhite, whiteD50, whiteD65, Lemmas.Matrix.white, V3.get, toXyz] using And.intro h0 (And.intro h1 h2)

/-- conversely the reference white of the profile maps back to RGB white (255,255,255) -/
theorem reference_to_white (k : XyzKind) :
    Xyz.as_rgb (⟨refWhite k 0, refWhite k 1, refWhite k 2⟩ : Xyz ℝ) k = ⟨255, 255, 255⟩ := by
  have h := as_rgb_white k
  cases k <;> simpa [refWhite, whiteD50, whiteD65, Lemmas.Matrix.white, toXyz] using h

/-- RGB black maps to XYZ (0,0,0) exactly -/
theorem black_to_zero (k : XyzKind) : Xyz.from_rgb (α := ℝ) ⟨0, 0, 0⟩ k = ⟨0, 0, 0⟩ := by
  rw [from_rgb_eq]; simp [toXyz, Lemmas.Matrix.mulVec, dot, lin, dec_zero]

/-- XYZ (0,0,0) maps back to RGB black -/
theorem zero_to_black (k : XyzKind) : Xyz.as_rgb (⟨0, 0, 0⟩ : Xyz ℝ) k = ⟨0, 0, 0⟩ := by
  rw [as_rgb_eq]
  have h0 : enc k 0 = 0 := by
    cases k
    · simp only [enc]; rw [Lemmas.Curves.srgb_enc_lin (by norm_num)]; norm_num
    · simp only [enc]; rw [Lemmas.Curves.srgb_enc_lin (by norm_num)]; norm_num
    · simp only [enc]; exact Lemmas.Curves.argb_enc_nonpos le_rfl
  have hq : quant 0 = 0 := by
    simpa [quant] using Lemmas.Curves.quant_low 0 le_rfl
  simp [Lemmas.Matrix.mulVec, dot, ofXyz, h0, hq]

-- hypotheses satisfiable: the colour used by the crate's own tests
example : |(Xyz.from_rgb (α := ℝ) ⟨50, 10, 95⟩ .D50).y - specXyz .D50 ⟨50, 10, 95⟩ 1| ≤ 1e-6 :=
  (forward_close_1e6 .D50 ⟨50, 10, 95⟩ (by norm_num) (by norm_num) (by norm_num)).2.1

end Props.C05
