import LymuiVerif.Props.C08
/-!
# C02 (curve-level part) — XYZ → S → XYZ round trips for S ∈ {sRGB, Rec.709, Adobe RGB, Rec.2020}

Property text (part): "for every XYZ-derived space S converting x to S and back yields an XYZ within
5e-4 of x."

Exact-real reading.  Each round trip is `M · dec (enc (R · x))`; where the curve pair is an exact
inverse the result is the matrix product `(M·R)·x`, which differs from `x` only by the rounding of
the published matrix digits.  `R·x` are the linear components (`lin` below).
Rec.2100 is absent on purpose: `pq_inverse_eotf` is not the inverse of the code's `pq_eotf`
(known finding (b), see `Props.C08.pq_forward_is_not_st2084`).
-/
noncomputable section
namespace Props.C02_curves
open Gen Lemmas.CurvesD2 Props.C08

/-- ℓ¹ norm of an XYZ triple -/
def norm1 (v : Xyz ℝ) : ℝ := |v.x| + |v.y| + |v.z|

/-- the sRGB curve pair is an inverse pair up to 1.4e-8 on ALL reals (exact outside the sliver
`(0.0031308, 0.00313081]`) -/
theorem srgb_dec_enc_all (l : ℝ) : |decSrgb (encSrgb l) - l| ≤ 1.4e-8 := by
  rcases le_or_gt l 0.0031308 with h | h
  · rw [srgb_dec_enc_linear l h]; norm_num
  · rcases le_or_gt l 0.00313081 with h' | h'
    · exact srgb_dec_enc_sliver l h h'
    · rw [srgb_dec_enc_power l h (srgb_enc_gt l h')]; norm_num

/-- sRGB, exact form: outside the sliver the round trip IS the matrix product `(M65·R65)·x` -/
theorem srgb_roundtrip_exact (v : Xyz ℝ)
    (hr : dot C.RX65 v.x v.y v.z ≤ 0.0031308 ∨ 0.00313081 < dot C.RX65 v.x v.y v.z)
    (hg : dot C.RY65 v.x v.y v.z ≤ 0.0031308 ∨ 0.00313081 < dot C.RY65 v.x v.y v.z)
    (hb : dot C.RZ65 v.x v.y v.z ≤ 0.0031308 ∨ 0.00313081 < dot C.RZ65 v.x v.y v.z) :
    Xyz.from_Srgb (Srgb.from_Xyz v) =
      ⟨dot C.X65 (dot C.RX65 v.x v.y v.z) (dot C.RY65 v.x v.y v.z) (dot C.RZ65 v.x v.y v.z),
       dot C.Y65 (dot C.RX65 v.x v.y v.z) (dot C.RY65 v.x v.y v.z) (dot C.RZ65 v.x v.y v.z),
       dot C.Z65 (dot C.RX65 v.x v.y v.z) (dot C.RY65 v.x v.y v.z) (dot C.RZ65 v.x v.y v.z)⟩ := by
  have key : ∀ l : ℝ, (l ≤ 0.0031308 ∨ 0.00313081 < l) → decSrgb (encSrgb l) = l := by
    intro l hl
    rcases hl with h | h
    · exact srgb_dec_enc_linear l h
    · exact srgb_dec_enc_power l (by linarith) (srgb_enc_gt l h)
  rw [srgb_from_xyz_def, xyz_from_srgb_def]
  dsimp only
  rw [key _ hr, key _ hg, key _ hb]

/-- `M65·R65 - I` has entries of at most 1.43e-7 -/
theorem srgb_matrix_product (a b c : ℝ) :
    |dot C.X65 (dot C.RX65 a b c) (dot C.RY65 a b c) (dot C.RZ65 a b c) - a| ≤ 1.43e-7 * (|a| + |b| + |c|) ∧
    |dot C.Y65 (dot C.RX65 a b c) (dot C.RY65 a b c) (dot C.RZ65 a b c) - b| ≤ 1.43e-7 * (|a| + |b| + |c|) ∧
    |dot C.Z65 (dot C.RX65 a b c) (dot C.RY65 a b c) (dot C.RZ65 a b c) - c| ≤ 1.43e-7 * (|a| + |b| + |c|) := by
  have h1 := le_abs_self a; have h2 := neg_abs_le a
  have h3 := le_abs_self b; have h4 := neg_abs_le b
  have h5 := le_abs_self c; have h6 := neg_abs_le c
  simp only [dot, C.X65, C.Y65, C.Z65, C.RX65, C.RY65, C.RZ65, FltReal.lit_eq]
  norm_num
  refine ⟨?_, ?_, ?_⟩ <;> (rw [abs_le]; constructor <;> linarith)


/-- **sRGB round trip** outside the sliver: within 1.43e-7·‖x‖₁ of x (≪ 5e-4) -/
theorem srgb_roundtrip (v : Xyz ℝ)
    (hr : dot C.RX65 v.x v.y v.z ≤ 0.0031308 ∨ 0.00313081 < dot C.RX65 v.x v.y v.z)
    (hg : dot C.RY65 v.x v.y v.z ≤ 0.0031308 ∨ 0.00313081 < dot C.RY65 v.x v.y v.z)
    (hb : dot C.RZ65 v.x v.y v.z ≤ 0.0031308 ∨ 0.00313081 < dot C.RZ65 v.x v.y v.z) :
    |(Xyz.from_Srgb (Srgb.from_Xyz v)).x - v.x| ≤ 1.43e-7 * norm1 v ∧
    |(Xyz.from_Srgb (Srgb.from_Xyz v)).y - v.y| ≤ 1.43e-7 * norm1 v ∧
    |(Xyz.from_Srgb (Srgb.from_Xyz v)).z - v.z| ≤ 1.43e-7 * norm1 v := by
  rw [srgb_roundtrip_exact v hr hg hb]
  exact srgb_matrix_product v.x v.y v.z

/-- **sRGB round trip, unconditional**: for EVERY real XYZ (in or out of gamut, sliver included) -/
theorem srgb_roundtrip_all (v : Xyz ℝ) :
    |(Xyz.from_Srgb (Srgb.from_Xyz v)).x - v.x| ≤ 1.43e-7 * norm1 v + 1.6e-8 ∧
    |(Xyz.from_Srgb (Srgb.from_Xyz v)).y - v.y| ≤ 1.43e-7 * norm1 v + 1.6e-8 ∧
    |(Xyz.from_Srgb (Srgb.from_Xyz v)).z - v.z| ≤ 1.43e-7 * norm1 v + 1.6e-8 := by
  obtain ⟨m1, m2, m3⟩ := srgb_matrix_product v.x v.y v.z
  rw [srgb_from_xyz_def, xyz_from_srgb_def]
  dsimp only
  have e1 := srgb_dec_enc_all (dot C.RX65 v.x v.y v.z)
  have e2 := srgb_dec_enc_all (dot C.RY65 v.x v.y v.z)
  have e3 := srgb_dec_enc_all (dot C.RZ65 v.x v.y v.z)
  generalize decSrgb (encSrgb (dot C.RX65 v.x v.y v.z)) = dr at e1
  generalize decSrgb (encSrgb (dot C.RY65 v.x v.y v.z)) = dg at e2
  generalize decSrgb (encSrgb (dot C.RZ65 v.x v.y v.z)) = db at e3
  generalize dot C.RX65 v.x v.y v.z = lr at *
  generalize dot C.RY65 v.x v.y v.z = lg at *
  generalize dot C.RZ65 v.x v.y v.z = lb at *
  unfold norm1
  rw [abs_le] at e1 e2 e3 m1 m2 m3
  simp only [dot, C.X65, C.Y65, C.Z65, FltReal.lit_eq] at m1 m2 m3 ⊢
  norm_num at m1 m2 m3 ⊢
  refine ⟨?_, ?_, ?_⟩ <;> (rw [abs_le]; constructor <;> linarith)

/-- **Rec.709 round trip**: the BT.709 curve pair is an exact inverse pair on all reals, so the round
trip is exactly `(M65·R65)·x`, for every real XYZ -/
theorem rec709_roundtrip_exact (v : Xyz ℝ) :
    Xyz.from_Rec709 (Rec709.from_Xyz v) =
      ⟨dot C.X65 (dot C.RX65 v.x v.y v.z) (dot C.RY65 v.x v.y v.z) (dot C.RZ65 v.x v.y v.z),
       dot C.Y65 (dot C.RX65 v.x v.y v.z) (dot C.RY65 v.x v.y v.z) (dot C.RZ65 v.x v.y v.z),
       dot C.Z65 (dot C.RX65 v.x v.y v.z) (dot C.RY65 v.x v.y v.z) (dot C.RZ65 v.x v.y v.z)⟩ := by
  rw [rec709_from_xyz_def, xyz_from_rec709_def]
  dsimp only
  simp only [bt709_dec_enc]

theorem rec709_roundtrip (v : Xyz ℝ) :
    |(Xyz.from_Rec709 (Rec709.from_Xyz v)).x - v.x| ≤ 1.43e-7 * norm1 v ∧
    |(Xyz.from_Rec709 (Rec709.from_Xyz v)).y - v.y| ≤ 1.43e-7 * norm1 v ∧
    |(Xyz.from_Rec709 (Rec709.from_Xyz v)).z - v.z| ≤ 1.43e-7 * norm1 v := by
  rw [rec709_roundtrip_exact v]
  exact srgb_matrix_product v.x v.y v.z


/-- Adobe curve pair on the code's functions: decode ∘ encode clamps at 0 and is otherwise exact -/
theorem adobe_dec_enc_code (l : ℝ) : F64.compute_argb_gamma (F64.compute_argb_gamma_expanded l) = max l 0 := by
  have h0 : 0 ≤ max l 0 := le_max_right _ _
  rw [adobe_encode_total, adobe_decode_total]
  have : 0 ≤ encAdobe (max l 0) := by unfold encAdobe; exact Real.rpow_nonneg h0 _
  rw [max_eq_left this, adobe_dec_enc _ h0]

/-- **Adobe RGB round trip**, exact form: `M_A · max(R_A · x, 0)` (negative linear components are
clamped by the encoder; inside the Adobe gamut nothing is clamped) -/
theorem argb_roundtrip_exact (v : Xyz ℝ) :
    Xyz.from_Argb (Argb.from_Xyz v) =
      ⟨dot C.RR (max (dot C.argb_XR v.x v.y v.z) 0) (max (dot C.YG v.x v.y v.z) 0) (max (dot C.ZB v.x v.y v.z) 0),
       dot C.GG (max (dot C.argb_XR v.x v.y v.z) 0) (max (dot C.YG v.x v.y v.z) 0) (max (dot C.ZB v.x v.y v.z) 0),
       dot C.BB (max (dot C.argb_XR v.x v.y v.z) 0) (max (dot C.YG v.x v.y v.z) 0) (max (dot C.ZB v.x v.y v.z) 0)⟩ := by
  simp only [Xyz.from_Argb, Argb.from_Xyz, adobe_dec_enc_code, dot]

/-- the two Adobe tables come from different sources (`argb::XR..` 6 digits, `argb::RR..` Lindbloom
7 digits): `M_A·R_A - I` has entries up to 2.34e-4 -/
theorem argb_matrix_product (a b c : ℝ) :
    |dot C.RR (dot C.argb_XR a b c) (dot C.YG a b c) (dot C.ZB a b c) - a| ≤ 2.34e-4 * (|a| + |b| + |c|) ∧
    |dot C.GG (dot C.argb_XR a b c) (dot C.YG a b c) (dot C.ZB a b c) - b| ≤ 2.34e-4 * (|a| + |b| + |c|) ∧
    |dot C.BB (dot C.argb_XR a b c) (dot C.YG a b c) (dot C.ZB a b c) - c| ≤ 2.34e-4 * (|a| + |b| + |c|) := by
  have h1 := le_abs_self a; have h2 := neg_abs_le a
  have h3 := le_abs_self b; have h4 := neg_abs_le b
  have h5 := le_abs_self c; have h6 := neg_abs_le c
  simp only [dot, C.RR, C.GG, C.BB, C.argb_XR, C.YG, C.ZB, FltReal.lit_eq]
  norm_num
  refine ⟨?_, ?_, ?_⟩ <;> (rw [abs_le]; constructor <;> linarith)

/-- **Adobe RGB round trip** for XYZ whose Adobe linear components are nonnegative: within
2.34e-4·‖x‖₁ of x.  (For ‖x‖₁ ≤ 2.13 this is below the 5e-4 of C02; the D65 white has ‖x‖₁ = 3.04,
giving 7.1e-4 from this bound: the entrywise bound is not enough for the whole gamut, see
`argb_roundtrip_box`.) -/
theorem argb_roundtrip (v : Xyz ℝ) (hr : 0 ≤ dot C.argb_XR v.x v.y v.z) (hg : 0 ≤ dot C.YG v.x v.y v.z)
    (hb : 0 ≤ dot C.ZB v.x v.y v.z) :
    |(Xyz.from_Argb (Argb.from_Xyz v)).x - v.x| ≤ 2.34e-4 * norm1 v ∧
    |(Xyz.from_Argb (Argb.from_Xyz v)).y - v.y| ≤ 2.34e-4 * norm1 v ∧
    |(Xyz.from_Argb (Argb.from_Xyz v)).z - v.z| ≤ 2.34e-4 * norm1 v := by
  rw [argb_roundtrip_exact, max_eq_left hr, max_eq_left hg, max_eq_left hb]
  exact argb_matrix_product v.x v.y v.z


/-- row sums of `|M_A·R_A - I|` are at most 2.61e-4: on the box `‖x‖∞ ≤ B` the product is within 2.61e-4·B -/
theorem argb_matrix_product_box (a b c B : ℝ) (ha : |a| ≤ B) (hb : |b| ≤ B) (hc : |c| ≤ B) :
    |dot C.RR (dot C.argb_XR a b c) (dot C.YG a b c) (dot C.ZB a b c) - a| ≤ 2.61e-4 * B ∧
    |dot C.GG (dot C.argb_XR a b c) (dot C.YG a b c) (dot C.ZB a b c) - b| ≤ 2.61e-4 * B ∧
    |dot C.BB (dot C.argb_XR a b c) (dot C.YG a b c) (dot C.ZB a b c) - c| ≤ 2.61e-4 * B := by
  rw [abs_le] at ha hb hc
  simp only [dot, C.RR, C.GG, C.BB, C.argb_XR, C.YG, C.ZB, FltReal.lit_eq]
  norm_num
  refine ⟨?_, ?_, ?_⟩ <;> (rw [abs_le]; constructor <;> linarith)

/-- **Adobe RGB round trip, C02 form**: for XYZ in the box `‖x‖∞ ≤ 1.09` (contains every D65-white
relative colour) with nonnegative Adobe linear components, the round trip is within 2.85e-4 < 5e-4 -/
theorem argb_roundtrip_box (v : Xyz ℝ) (hx : |v.x| ≤ 1.09) (hy : |v.y| ≤ 1.09) (hz : |v.z| ≤ 1.09)
    (hr : 0 ≤ dot C.argb_XR v.x v.y v.z) (hg : 0 ≤ dot C.YG v.x v.y v.z)
    (hb : 0 ≤ dot C.ZB v.x v.y v.z) :
    |(Xyz.from_Argb (Argb.from_Xyz v)).x - v.x| ≤ 2.85e-4 ∧
    |(Xyz.from_Argb (Argb.from_Xyz v)).y - v.y| ≤ 2.85e-4 ∧
    |(Xyz.from_Argb (Argb.from_Xyz v)).z - v.z| ≤ 2.85e-4 := by
  rw [argb_roundtrip_exact, max_eq_left hr, max_eq_left hg, max_eq_left hb]
  obtain ⟨h1, h2, h3⟩ := argb_matrix_product_box v.x v.y v.z 1.09 hx hy hz
  exact ⟨le_trans h1 (by norm_num), le_trans h2 (by norm_num), le_trans h3 (by norm_num)⟩

/-- **Rec.2020 round trip** when no linear component lies in the sliver `[0.018, 0.0181)`:
exactly `(M_2020·R_2020)·x` -/
theorem rec2020_roundtrip_exact (v : Xyz ℝ)
    (hr : dot C.rec2020_XR v.x v.y v.z < 0.018 ∨ 0.0181 ≤ dot C.rec2020_XR v.x v.y v.z)
    (hg : dot C.XG v.x v.y v.z < 0.018 ∨ 0.0181 ≤ dot C.XG v.x v.y v.z)
    (hb : dot C.XB v.x v.y v.z < 0.018 ∨ 0.0181 ≤ dot C.XB v.x v.y v.z) :
    Xyz.from_Rec2020 (Rec2020.from_Xyz v) =
      ⟨dot C.XX (dot C.rec2020_XR v.x v.y v.z) (dot C.XG v.x v.y v.z) (dot C.XB v.x v.y v.z),
       dot C.XY (dot C.rec2020_XR v.x v.y v.z) (dot C.XG v.x v.y v.z) (dot C.XB v.x v.y v.z),
       dot C.XZ (dot C.rec2020_XR v.x v.y v.z) (dot C.XG v.x v.y v.z) (dot C.XB v.x v.y v.z)⟩ := by
  have k1 := rec2020_dec_enc _ hr
  have k2 := rec2020_dec_enc _ hg
  have k3 := rec2020_dec_enc _ hb
  simp only [dot] at k1 k2 k3
  simp only [Xyz.from_Rec2020, Rec2020.from_Xyz, k1, k2, k3, dot]

theorem rec2020_matrix_product (a b c : ℝ) :
    |dot C.XX (dot C.rec2020_XR a b c) (dot C.XG a b c) (dot C.XB a b c) - a| ≤ 8.1e-8 * (|a| + |b| + |c|) ∧
    |dot C.XY (dot C.rec2020_XR a b c) (dot C.XG a b c) (dot C.XB a b c) - b| ≤ 8.1e-8 * (|a| + |b| + |c|) ∧
    |dot C.XZ (dot C.rec2020_XR a b c) (dot C.XG a b c) (dot C.XB a b c) - c| ≤ 8.1e-8 * (|a| + |b| + |c|) := by
  have h1 := le_abs_self a; have h2 := neg_abs_le a
  have h3 := le_abs_self b; have h4 := neg_abs_le b
  have h5 := le_abs_self c; have h6 := neg_abs_le c
  simp only [dot, C.XX, C.XY, C.XZ, C.rec2020_XR, C.XG, C.XB, FltReal.lit_eq]
  norm_num
  refine ⟨?_, ?_, ?_⟩ <;> (rw [abs_le]; constructor <;> linarith)

theorem rec2020_roundtrip (v : Xyz ℝ)
    (hr : dot C.rec2020_XR v.x v.y v.z < 0.018 ∨ 0.0181 ≤ dot C.rec2020_XR v.x v.y v.z)
    (hg : dot C.XG v.x v.y v.z < 0.018 ∨ 0.0181 ≤ dot C.XG v.x v.y v.z)
    (hb : dot C.XB v.x v.y v.z < 0.018 ∨ 0.0181 ≤ dot C.XB v.x v.y v.z) :
    |(Xyz.from_Rec2020 (Rec2020.from_Xyz v)).x - v.x| ≤ 8.1e-8 * norm1 v ∧
    |(Xyz.from_Rec2020 (Rec2020.from_Xyz v)).y - v.y| ≤ 8.1e-8 * norm1 v ∧
    |(Xyz.from_Rec2020 (Rec2020.from_Xyz v)).z - v.z| ≤ 8.1e-8 * norm1 v := by
  rw [rec2020_roundtrip_exact v hr hg hb]
  exact rec2020_matrix_product v.x v.y v.z


/-- BT.2020 curve pair of the code: exact outside the sliver, within 1.01e-4 inside -/
theorem rec2020_dec_enc_all (L : ℝ) :
    |F64.compute_rec2020_gamma_expanded (F64.compute_rec2020_gamma_correction L) - L| ≤ 1.01e-4 := by
  rcases lt_or_ge L 0.018 with h | h
  · rw [rec2020_dec_enc L (Or.inl h)]; norm_num
  · rcases lt_or_ge L 0.0181 with h' | h'
    · exact (rec2020_dec_enc_sliver L h h').2
    · rw [rec2020_dec_enc L (Or.inr h')]; norm_num

/-- **Rec.2020 round trip, unconditional** (sliver included): within 8.1e-8·‖x‖₁ + 1.11e-4 < 5e-4
for ‖x‖₁ ≤ 3.04 -/
theorem rec2020_roundtrip_all (v : Xyz ℝ) :
    |(Xyz.from_Rec2020 (Rec2020.from_Xyz v)).x - v.x| ≤ 8.1e-8 * norm1 v + 1.11e-4 ∧
    |(Xyz.from_Rec2020 (Rec2020.from_Xyz v)).y - v.y| ≤ 8.1e-8 * norm1 v + 1.11e-4 ∧
    |(Xyz.from_Rec2020 (Rec2020.from_Xyz v)).z - v.z| ≤ 8.1e-8 * norm1 v + 1.11e-4 := by
  obtain ⟨m1, m2, m3⟩ := rec2020_matrix_product v.x v.y v.z
  have e1 := rec2020_dec_enc_all (dot C.rec2020_XR v.x v.y v.z)
  have e2 := rec2020_dec_enc_all (dot C.XG v.x v.y v.z)
  have e3 := rec2020_dec_enc_all (dot C.XB v.x v.y v.z)
  simp only [Xyz.from_Rec2020, Rec2020.from_Xyz]
  simp only [dot] at e1 e2 e3 m1 m2 m3
  generalize F64.compute_rec2020_gamma_expanded (F64.compute_rec2020_gamma_correction
    (v.x * (C.rec2020_XR : ℝ × ℝ × ℝ).1 + v.y * (C.rec2020_XR : ℝ × ℝ × ℝ).2.1 + v.z * (C.rec2020_XR : ℝ × ℝ × ℝ).2.2)) = dr at e1 ⊢
  generalize F64.compute_rec2020_gamma_expanded (F64.compute_rec2020_gamma_correction
    (v.x * (C.XG : ℝ × ℝ × ℝ).1 + v.y * (C.XG : ℝ × ℝ × ℝ).2.1 + v.z * (C.XG : ℝ × ℝ × ℝ).2.2)) = dg at e2 ⊢
  generalize F64.compute_rec2020_gamma_expanded (F64.compute_rec2020_gamma_correction
    (v.x * (C.XB : ℝ × ℝ × ℝ).1 + v.y * (C.XB : ℝ × ℝ × ℝ).2.1 + v.z * (C.XB : ℝ × ℝ × ℝ).2.2)) = db at e3 ⊢
  generalize v.x * (C.rec2020_XR : ℝ × ℝ × ℝ).1 + v.y * (C.rec2020_XR : ℝ × ℝ × ℝ).2.1 + v.z * (C.rec2020_XR : ℝ × ℝ × ℝ).2.2 = lr at *
  generalize v.x * (C.XG : ℝ × ℝ × ℝ).1 + v.y * (C.XG : ℝ × ℝ × ℝ).2.1 + v.z * (C.XG : ℝ × ℝ × ℝ).2.2 = lg at *
  generalize v.x * (C.XB : ℝ × ℝ × ℝ).1 + v.y * (C.XB : ℝ × ℝ × ℝ).2.1 + v.z * (C.XB : ℝ × ℝ × ℝ).2.2 = lb at *
  unfold norm1
  rw [abs_le] at e1 e2 e3 m1 m2 m3
  simp only [C.XX, C.XY, C.XZ, FltReal.lit_eq] at m1 m2 m3 ⊢
  norm_num at m1 m2 m3 ⊢
  refine ⟨?_, ?_, ?_⟩ <;> (rw [abs_le]; constructor <;> linarith)

/-! ## the hypotheses are satisfiable: the D65 white and a dark, saturated colour -/
example : (0.00313081 : ℝ) < dot C.RX65 0.95047 1 1.08883 ∧ (0.00313081 : ℝ) < dot C.RY65 0.95047 1 1.08883
    ∧ (0.00313081 : ℝ) < dot C.RZ65 0.95047 1 1.08883 := by
  simp only [dot, C.RX65, C.RY65, C.RZ65, FltReal.lit_eq]; norm_num
example : dot C.RX65 0.001 0.001 0.001 ≤ (0.0031308 : ℝ) := by
  simp only [dot, C.RX65, FltReal.lit_eq]; norm_num
example : (0 : ℝ) ≤ dot C.argb_XR 0.95047 1 1.08883 ∧ (0 : ℝ) ≤ dot C.YG 0.95047 1 1.08883
    ∧ (0 : ℝ) ≤ dot C.ZB 0.95047 1 1.08883 := by
  simp only [dot, C.argb_XR, C.YG, C.ZB, FltReal.lit_eq]; norm_num
example : (0.0181 : ℝ) ≤ dot C.rec2020_XR 0.95047 1 1.08883 ∧ (0.0181 : ℝ) ≤ dot C.XG 0.95047 1 1.08883
    ∧ (0.0181 : ℝ) ≤ dot C.XB 0.95047 1 1.08883 := by
  simp only [dot, C.rec2020_XR, C.XG, C.XB, FltReal.lit_eq]; norm_num

end Props.C02_curves
