import LymuiVerif.Props.C06
import LymuiVerif.Props.C14
/-!
# C11 (CIE part) — greys are achromatic in CIELAB / CIELUV / LCh / HCL / Hunter Lab / xyY

A grey `(v, v, v)` has linear level `t = compute_srgb_gamma_expanded (v/255) ∈ [0, 1]` and XYZ equal to
`t` times the row sums of the D65 sRGB matrix, `(0.95047, 1.0000001, 1.08883)·t` (`grey_xyz`).  The Y row
sums to `1.0000001`, not `1`, so greys are not exactly achromatic; the theorems bound the residue for
EVERY `t ∈ [0, 1]` (no sliver is excluded: the branch of `compute_f` that straddles the threshold
`0.008856` is covered, the code's `f` has a jump of only `3.3e-7` there).

Exact-real reading (`Flt ℝ`).
-/
namespace Props.C11_cie
open Gen Lemmas.Cie Props.C06

/-! ## Specification -/

/-- XYZ of the grey of linear level `t`: `t` times the row sums of the D65 sRGB matrix -/
noncomputable def greyXyz (t : ℝ) : Xyz ℝ :=
  ⟨95047 / 100000 * t, 10000001 / 10000000 * t, 108883 / 100000 * t⟩

/-- every 8-bit grey has this XYZ, with a linear level in `[0, 1]` -/
theorem grey_xyz (v : ℕ) (hv : v ≤ 255) :
    (Xyz.from_rgb ⟨v, v, v⟩ XyzKind.D65 : Xyz ℝ) = greyXyz (F64.compute_srgb_gamma_expanded ((v : ℝ) / 255)) ∧
    0 ≤ (F64.compute_srgb_gamma_expanded ((v : ℝ) / 255) : ℝ) ∧
    (F64.compute_srgb_gamma_expanded ((v : ℝ) / 255) : ℝ) ≤ 1 := by
  have h1 : (v : ℝ) / 255 ≤ 1 := by
    rw [div_le_one (by norm_num)]; exact_mod_cast hv
  refine ⟨?_, srgb_expanded_nonneg (by positivity), srgb_expanded_le_one (by positivity) h1⟩
  simp only [Xyz.from_rgb, Xyz.compute_xyz_from_matrix, Srgb.as_f64, Srgb.from_Rgb, Rgb.as_f64, C.X65, C.Y65, C.Z65,
    FltReal.lit_eq, FltReal.ofNat_eq, Nat.cast_ofNat, div_one, Nat.cast_one, greyXyz]
  congr 1 <;> ring

/-! ## CIELAB and LCh(ab) -/

/-- CIELAB of a grey: `|a| ≤ 2.5e-4`, `|b| ≤ 1e-4` (so both `< 1e-3`), for every `t ∈ [0, 1]` -/
theorem lab_grey (t : ℝ) (h0 : 0 ≤ t) (h1 : t ≤ 1) :
    |(Lab.from_Xyz (greyXyz t)).a| ≤ 25 / 10 ^ 5 ∧ |(Lab.from_Xyz (greyXyz t)).b| ≤ 1 / 10 ^ 4 := by
  have hf : ∀ c : ℝ, Lab.compute_f c = fCode c := by intro c; simp [Lab.compute_f, fCode]
  obtain ⟨k1, k2⟩ := fCode_grey h0 h1
  have ex : 95047 / 100000 * t / (95047 / 100000) = t := by field_simp
  have ez : 108883 / 100000 * t / (108883 / 100000) = t := by field_simp
  simp only [Lab.from_Xyz, greyXyz, C.D65, FltReal.lit_eq, Nat.cast_ofNat, div_one, Nat.cast_one, hf, ex, ez]
  rw [abs_le, abs_le]
  refine ⟨⟨by linarith, by linarith⟩, ⟨by linarith, by linarith⟩⟩

/-- LCh(ab) chroma of a grey is below `1e-3` -/
theorem lchlab_grey (t : ℝ) (h0 : 0 ≤ t) (h1 : t ≤ 1) : (Lchlab.from_Xyz (greyXyz t)).c < 1e-3 := by
  obtain ⟨ha, hb⟩ := lab_grey t h0 h1
  rw [(Props.C14.lchlab_forward _).2.1, Props.C14.chroma, Real.sqrt_lt' (by norm_num)]
  rw [abs_le] at ha hb
  nlinarith

/-- white (`t = 1`) has CIELAB lightness 100 within `1.2e-5`; black has lightness 0 exactly -/
theorem lab_white_black :
    |(Lab.from_Xyz (greyXyz 1)).l - 100| ≤ 12 / 10 ^ 6 ∧ (Lab.from_Xyz (greyXyz 0)).l = 0 := by
  have hf : ∀ c : ℝ, Lab.compute_f c = fCode c := by intro c; simp [Lab.compute_f, fCode]
  obtain ⟨k1, k2⟩ := fCode_white
  constructor
  · simp only [Lab.from_Xyz, greyXyz, C.D65, FltReal.lit_eq, Nat.cast_ofNat, div_one, Nat.cast_one, hf, mul_one]
    rw [abs_le]; constructor <;> linarith
  · simp [Lab.from_Xyz, greyXyz, C.D65, Lab.compute_f]; norm_num

/-! ## CIELUV, LCh(uv), HCL -/

/-- CIELUV of a grey: `|u|, |v| ≤ 3e-5` for every `t ∈ [0, 1]` (`u'`, `v'` are scale invariant; the residue
comes from the `1e-7` excess of the Y row sum) -/
theorem luv_grey (t : ℝ) (h0 : 0 ≤ t) (h1 : t ≤ 1) :
    |(Luv.from_Xyz (greyXyz t)).u| ≤ 3 / 10 ^ 5 ∧ |(Luv.from_Xyz (greyXyz t)).v| ≤ 3 / 10 ^ 5 := by
  rcases h0.eq_or_lt with rfl | hpos
  · have : greyXyz 0 = ⟨0, 0, 0⟩ := by simp [greyXyz]
    rw [this, luv_black.1]; norm_num
  · have hne : ¬ ((greyXyz t).x = 0 ∧ (greyXyz t).y = 0 ∧ (greyXyz t).z = 0) := by
      simp only [greyXyz]; rintro ⟨h, _, _⟩; linarith
    obtain ⟨l0, l1⟩ := lCodeLuv_bound (y := 10000001 / 10000000 * t) (by positivity) (by linarith)
    rw [luv_from_xyz_shape _ hne]
    simp only [greyXyz]
    have hu : uPrime (95047 / 100000 * t) (10000001 / 10000000 * t) (108883 / 100000 * t) - uPrime Xn Yn Zn
        = 4 * (95047 / 100000) / (95047 / 100000 + 15 * (10000001 / 10000000) + 3 * (108883 / 100000))
          - 4 * (95047 / 100000) / (95047 / 100000 + 15 + 3 * (108883 / 100000)) := by
      unfold uPrime Xn Yn Zn; field_simp
    have hv : vPrime (95047 / 100000 * t) (10000001 / 10000000 * t) (108883 / 100000 * t) - vPrime Xn Yn Zn
        = 9 * (10000001 / 10000000) / (95047 / 100000 + 15 * (10000001 / 10000000) + 3 * (108883 / 100000))
          - 9 / (95047 / 100000 + 15 + 3 * (108883 / 100000)) := by
      unfold vPrime Xn Yn Zn; field_simp
    rw [hu, hv, abs_le, abs_le]
    norm_num
    refine ⟨⟨by nlinarith, by nlinarith⟩, ⟨by nlinarith, by nlinarith⟩⟩

/-- LCh(uv) and HCL chroma of a grey are below `1e-3` -/
theorem lchuv_hcl_grey (t : ℝ) (h0 : 0 ≤ t) (h1 : t ≤ 1) :
    (Lchuv.from_Xyz (greyXyz t)).c < 1e-3 ∧ (Hcl.from_Xyz (greyXyz t)).c < 1e-3 := by
  obtain ⟨ha, hb⟩ := luv_grey t h0 h1
  rw [(Props.C14.lchuv_forward _).2.1, (Props.C14.hcl_forward _).2.1, Props.C14.chroma,
    Real.sqrt_lt' (by norm_num)]
  rw [abs_le] at ha hb
  refine ⟨?_, ?_⟩ <;> nlinarith

/-- white has CIELUV lightness 100 within `1.2e-5`; black has lightness 0 exactly -/
theorem luv_white_black :
    |(Luv.from_Xyz (greyXyz 1)).l - 100| ≤ 12 / 10 ^ 6 ∧ (Luv.from_Xyz (greyXyz 0)).l = 0 := by
  constructor
  · have hne : ¬ ((greyXyz 1).x = 0 ∧ (greyXyz 1).y = 0 ∧ (greyXyz 1).z = 0) := by
      simp only [greyXyz]; rintro ⟨h, _, _⟩; norm_num at h
    rw [luv_from_xyz_shape _ hne]
    simp only [greyXyz, mul_one, lCodeLuv]
    rw [if_pos (by norm_num)]
    have k1 : (1 : ℝ) ≤ (10000001 / 10000000 : ℝ) ^ ((1 : ℝ) / 3) := le_rpow_third (by norm_num) (by norm_num)
    have k2 : (10000001 / 10000000 : ℝ) ^ ((1 : ℝ) / 3) ≤ 10000001 / 10000000 :=
      rpow_third_le (by norm_num) (by norm_num) (by norm_num)
    rw [abs_le]; constructor <;> linarith
  · have : greyXyz 0 = ⟨0, 0, 0⟩ := by simp [greyXyz]
    rw [this, luv_black.1]

/-! ## Hunter Lab -/

/-- Hunter Lab of a grey: `|a| ≤ 1.8e-5`, `|b| ≤ 7e-6`, for every `t ∈ [0, 1]` -/
theorem hlab_grey (t : ℝ) (h0 : 0 ≤ t) (h1 : t ≤ 1) :
    |(Hlab.from_Xyz (greyXyz t)).a| ≤ 18 / 10 ^ 6 ∧ |(Hlab.from_Xyz (greyXyz t)).b| ≤ 7 / 10 ^ 6 := by
  rcases h0.eq_or_lt with rfl | hpos
  · have : greyXyz 0 = ⟨0, 0, 0⟩ := by simp [greyXyz]
    rw [this, hlab_black]; norm_num
  · have hy : 0 < (greyXyz t).y := by simp only [greyXyz]; positivity
    rw [hlab_forward _ hy]
    simp only [greyXyz, hunter, Ka, Kb, Xn, Yn, Zn, div_one]
    set w := √(10000001 / 10000000 * t) with hw
    have hw0 : 0 < w := Real.sqrt_pos.mpr (by positivity)
    have htw : t ≤ w := Real.le_sqrt_of_sq_le (by nlinarith)
    have ex : 95047 / 100000 * t / (95047 / 100000) = t := by field_simp
    have ez : 108883 / 100000 * t / (108883 / 100000) = t := by field_simp
    have hq : t / w ≤ 1 := by rw [div_le_one hw0]; exact htw
    have hq0 : 0 ≤ t / w := by positivity
    have ea : (t - 10000001 / 10000000 * t) / w = -(1 / 10000000) * (t / w) := by field_simp; ring
    have eb : (10000001 / 10000000 * t - t) / w = (1 / 10000000) * (t / w) := by field_simp; ring
    rw [ex, ez, ea, eb, abs_le, abs_le]
    norm_num
    refine ⟨⟨by nlinarith, by nlinarith⟩, ⟨by nlinarith, by nlinarith⟩⟩

/-- white has Hunter lightness 100 within `1e-5`; black has lightness 0 exactly -/
theorem hlab_white_black :
    |(Hlab.from_Xyz (greyXyz 1)).l - 100| ≤ 1 / 10 ^ 5 ∧ (Hlab.from_Xyz (greyXyz 0)).l = 0 := by
  constructor
  · have hy : 0 < (greyXyz 1).y := by simp only [greyXyz]; norm_num
    rw [hlab_forward _ hy]
    simp only [greyXyz, hunter, Yn, div_one, mul_one]
    have k1 : (1 : ℝ) ≤ √(10000001 / 10000000) := Real.le_sqrt_of_sq_le (by norm_num)
    have k2 : √(10000001 / 10000000 : ℝ) ≤ 10000001 / 10000000 :=
      Real.sqrt_le_iff.mpr ⟨by norm_num, by norm_num⟩
    rw [abs_le]; constructor <;> linarith
  · have : greyXyz 0 = ⟨0, 0, 0⟩ := by simp [greyXyz]
    rw [this, hlab_black]

/-! ## xyY -/

/-- xyY chromaticity of a grey is within `1.7e-5` (x) and `3.2e-6` (y) of the D65 white point
(0.31271, 0.32902); for black it is exactly the white point -/
theorem xyy_grey (t : ℝ) (h0 : 0 ≤ t) :
    |(Xyy.from_Xyz (greyXyz t)).x - 0.31271| ≤ 17 / 10 ^ 6 ∧
    |(Xyy.from_Xyz (greyXyz t)).y - 0.32902| ≤ 32 / 10 ^ 7 := by
  rcases h0.eq_or_lt with rfl | hpos
  · have : greyXyz 0 = ⟨0, 0, 0⟩ := by simp [greyXyz]
    rw [this, xyy_black.2]; norm_num
  · have hs : (greyXyz t).x + (greyXyz t).y + (greyXyz t).z ≠ 0 := by
      simp only [greyXyz]; positivity
    rw [xyy_forward _ hs]
    simp only [xyY, if_neg hs]
    simp only [greyXyz]
    have e1 : 95047 / 100000 * t / (95047 / 100000 * t + 10000001 / 10000000 * t + 108883 / 100000 * t)
        = 9504700 / 30393001 := by field_simp; norm_num
    have e2 : 10000001 / 10000000 * t / (95047 / 100000 * t + 10000001 / 10000000 * t + 108883 / 100000 * t)
        = 10000001 / 30393001 := by field_simp; norm_num
    rw [e1, e2, abs_le, abs_le]
    norm_num

/-! ## every 8-bit grey -/

/-- C11 (CIE part) for every 8-bit grey `(v, v, v)` -/
theorem grey_of_rgb (v : ℕ) (hv : v ≤ 255) :
    let x : Xyz ℝ := Xyz.from_rgb ⟨v, v, v⟩ XyzKind.D65
    |(Lab.from_Xyz x).a| < 1e-3 ∧ |(Lab.from_Xyz x).b| < 1e-3 ∧
    |(Luv.from_Xyz x).u| < 1e-3 ∧ |(Luv.from_Xyz x).v| < 1e-3 ∧
    (Lchlab.from_Xyz x).c < 1e-3 ∧ (Lchuv.from_Xyz x).c < 1e-3 ∧ (Hcl.from_Xyz x).c < 1e-3 ∧
    |(Hlab.from_Xyz x).a| < 1e-3 ∧ |(Hlab.from_Xyz x).b| < 1e-3 ∧
    |(Xyy.from_Xyz x).x - 0.31271| < 1e-4 ∧ |(Xyy.from_Xyz x).y - 0.32902| < 1e-4 := by
  intro x
  obtain ⟨e, t0, t1⟩ := grey_xyz v hv
  have ex : x = greyXyz (F64.compute_srgb_gamma_expanded ((v : ℝ) / 255)) := e
  rw [ex]
  obtain ⟨a1, a2⟩ := lab_grey _ t0 t1
  obtain ⟨b1, b2⟩ := luv_grey _ t0 t1
  obtain ⟨c1, c2⟩ := lchuv_hcl_grey _ t0 t1
  obtain ⟨d1, d2⟩ := hlab_grey _ t0 t1
  obtain ⟨f1, f2⟩ := xyy_grey _ t0
  refine ⟨lt_of_le_of_lt a1 (by norm_num), lt_of_le_of_lt a2 (by norm_num), lt_of_le_of_lt b1 (by norm_num),
    lt_of_le_of_lt b2 (by norm_num), lchlab_grey _ t0 t1, c1, c2, lt_of_le_of_lt d1 (by norm_num),
    lt_of_le_of_lt d2 (by norm_num), lt_of_le_of_lt f1 (by norm_num), lt_of_le_of_lt f2 (by norm_num)⟩

-- the hypotheses are satisfiable: mid grey 128
example : (128 : ℕ) ≤ 255 := by norm_num
example : (0 : ℝ) ≤ 1 / 2 ∧ (1 / 2 : ℝ) ≤ 1 := by norm_num

end Props.C11_cie
