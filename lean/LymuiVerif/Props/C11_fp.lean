import LymuiVerif.Lemmas.FpGrey
import LymuiVerif.Props.C14_fp
/-!
# C11 in the rounded-arithmetic reading — neutral greys (`RF M`, every `M : FPModel`)

"Every grey (v,v,v) is reported as achromatic in every space … white and black hit the end points."
For every model of floating-point arithmetic and every grey `v ≤ 255`, about the generated conversions at `RF M`.

**Exact in every model** (the operations involved are exact or cancel exactly):
* `grey_hue_fp`, `grey_hsl_fp`, `grey_hsv_fp`: hue `= 0` (the test `min == max` compares two equal exact numbers and the
  code returns the literal `0.0`), HSL / HSV saturation `= 0` (`max − min = rnd 0 = 0`, then `0 / positive`, `0 · 100`;
  the divisors are positive in every model, `FpHexcone.den_A_pos`, `den_B_pos`, the HSV guard `max > 0`).
* `grey_cymk_fp`: `C = M = Y = 0` (numerator `(1 − v/255) − K` is the difference of the same computed number with
  itself; black through the guard `k != 1`); `grey_cymk_den_pos_fp`: for `v ≥ 1` the divisor `1 − K` is positive.
* `white_fp`, `black_fp`: HSV `v = 100`, HSL `l = 100`, `K = 0`; HSL `l = 0`, HSV `v = 0`, `K = 1`.

**With a tolerance** (NOT exact in every model):
* `grey_hwb_fp`: `w`, `b` within `1e-12` of `100·v/255`, `100·(1 − v/255)`, so `|w + b − 100| ≤ 2e-12`; hue `0` exactly.
  (`w + b = 100` exactly is not provable: in binary64 some greys give one ulp above 100.)
* `grey_yuv_fp`: `|U|, |V| ≤ 1e-12`.  The property text says `U = V = 0`; in `RF M` they are in general NOT exactly `0`
  (`b' − y'` with `y'` a rounded three-term sum of rounded products), only within the stated bound.
* `grey_ycbcr_fp`: `Cb, Cr ∈ {127, 128}`.  `Cb = Cr = 128` is NOT provable for every model: the sum is `128 + noise`
  with noise of either sign (`|noise| ≤ 1e-12`) and `as u8` truncates — `127` when the noise is negative.  Nothing
  more is claimed.
* `grey_xyz_fp`: XYZ within `1e-12` of `(0.95047, 1.0000001, 1.08883)·t`, `t ∈ [0, 1]` the real linear level.
* CIE spaces, XYZ computed in the SAME model (`Xyz.from_rgb (α := RF M) ⟨v,v,v⟩ D65`):
  `grey_lab_fp` `|a|, |b| < 1e-3` (real model `Props.C11_cie.lab_grey`: `2.5e-4`, `1e-4`; fp error `3.6e-4`, `1.5e-4`,
  dominated by the possibly different branch of `compute_f` within `2e-12` of its threshold; proved `6.1e-4`, `2.5e-4`),
  `grey_luv_fp` `|u|, |v| < 1e-3` (real `3e-5`; proved `5e-5`), `grey_hlab_fp` Hunter `|a|, |b| < 1e-3` (real `1.8e-5`,
  `7e-6`; fp error `2e-5`), `grey_xyy_fp` chromaticity within `1e-4` of `(0.31271, 0.32902)` (real `1.7e-5`, `3.2e-6`; fp
  error `1e-8`), `grey_chroma_fp` LCh(ab), LCh(uv), HCL chroma `< 1e-3` (via `Props.C14` `*_chroma_sharp_fp`).
  Black is exact in every one of them.
* `white_cie_fp`, `black_cie_fp`: CIELAB / CIELUV / Hunter lightness of white within `2e-5` of `100`; of black `0` exactly
  for CIELUV and Hunter, within `1e-13` for CIELAB (NOT exactly `0` in every model).

NOT covered here (goal kept below): OkLab / OkLch `< 1e-6` and the equal-channel statements of sRGB / Adobe / Rec.709 /
Rec.2020 / Rec.2100 in `RF M`.
-/
namespace Props.C11_fp
open Gen FpErr FpLin FpGrey Props.C09

/-! ## exact statements -/

/-- hue of a grey: exactly `0` in every model -/
theorem grey_hue_fp (M : FPModel) (v : ℕ) : (F64.from_Rgb (α := RF M) ⟨v, v, v⟩).val = 0 := grey_hue_rf M v

/-- HSL: a grey has saturation `0` and hue `0`, exactly, in every model -/
theorem grey_hsl_fp (M : FPModel) (v : ℕ) :
    (Hsl.from_Rgb (α := RF M) ⟨v, v, v⟩).s.val = 0 ∧ (Hsl.from_Rgb (α := RF M) ⟨v, v, v⟩).h.val = 0 := by
  refine ⟨?_, grey_hue_rf M v⟩
  simp only [Hsl.from_Rgb, FpHexcone.get_min_max_rf, cmin_grey, cmax_grey, FltRF.mul_val]
  have : (Hsl.compute_saturation (α := RF M) ((⟨(v:ℝ)⟩ : RF M) / Flt.lit 0x406FE00000000000 255 1)
      ((⟨(v:ℝ)⟩ : RF M) / Flt.lit 0x406FE00000000000 255 1)
      ((((⟨(v:ℝ)⟩ : RF M) / Flt.lit 0x406FE00000000000 255 1) + ((⟨(v:ℝ)⟩ : RF M) / Flt.lit 0x406FE00000000000 255 1)) /
        Flt.lit 0x4000000000000000 2 1)).val = 0 := by
    unfold Hsl.compute_saturation
    simp only [apply_ite RF.val, FltRF.sub_val, FltRF.div_val, FltRF.lit_val, sub_self, rnd_zero, zero_div,
      Nat.cast_zero, ite_self]
  rw [this, zero_mul, rnd_zero]

/-- HSV: a grey has saturation `0` and hue `0`, exactly, in every model -/
theorem grey_hsv_fp (M : FPModel) (v : ℕ) (hv : v ≤ 255) :
    (Hsv.from_Rgb (α := RF M) ⟨v, v, v⟩).s.val = 0 ∧ (Hsv.from_Rgb (α := RF M) ⟨v, v, v⟩).h.val = 0 := by
  constructor
  · unfold Hsv.from_Rgb
    simp only [FpHexcone.get_min_max_rf, cmin_grey, cmax_grey, apply_ite Hsv.s, apply_ite RF.val,
      FltRF.sub_val, FltRF.div_val, FltRF.mul_val, FltRF.lit_val, sub_self, rnd_zero, zero_div, zero_mul,
      Nat.cast_zero, ite_self]
  · rw [(FpHexcone.hsv_fields M ⟨v, v, v⟩ hv hv hv).1]; exact grey_hue_rf M v

/-- CMYK: a grey has `C = M = Y = 0`, exactly, in every model -/
theorem grey_cymk_fp (M : FPModel) (v : ℕ) :
    (Cymk.from_Rgb (α := RF M) ⟨v, v, v⟩).c.val = 0 ∧ (Cymk.from_Rgb (α := RF M) ⟨v, v, v⟩).m.val = 0 ∧
    (Cymk.from_Rgb (α := RF M) ⟨v, v, v⟩).y.val = 0 := by
  unfold Cymk.from_Rgb
  simp only [FpHexcone.get_min_max_rf, cmax_grey, Rgb.as_f64, Cymk.default]
  split_ifs <;>
  simp only [FltRF.sub_val, FltRF.div_val, FltRF.lit_val, FltRF.ofNat_val, sub_self, rnd_zero, zero_div,
    Nat.cast_zero, and_self]

/-- for a grey other than black the code takes the `k != 1` branch and the divisor `1 − K` of the three quotients is
positive: the zeros of `grey_cymk_fp` are `0 / positive`, not `0 / 0` -/
theorem grey_cymk_den_pos_fp (M : FPModel) (v : ℕ) (h1 : 1 ≤ v) (hv : v ≤ 255) :
    (Cymk.from_Rgb (α := RF M) ⟨v, v, v⟩).k.val ≠ 1 ∧
    0 < ((Flt.lit 0x3FF0000000000000 1 1 : RF M) - (Cymk.from_Rgb (α := RF M) ⟨v, v, v⟩).k).val := by
  obtain ⟨_, _, k2⟩ := k_bounds M v hv
  have kle := k2 h1
  have mp := mk_pos M v hv h1
  rw [FltRF.sub_val, FltRF.lit_val, lit_int M 1 (by norm_num), grey_k_val]
  refine ⟨fun h => ?_, by simpa using mp⟩
  rw [h] at kle; norm_num at kle

/-- white: HSV `v = 100`, HSL `l = 100`, CMYK `K = 0`, exactly, in every model -/
theorem white_fp (M : FPModel) :
    (Hsv.from_Rgb (α := RF M) ⟨255, 255, 255⟩).v.val = 100 ∧ (Hsl.from_Rgb (α := RF M) ⟨255, 255, 255⟩).l.val = 100 ∧
    (Cymk.from_Rgb (α := RF M) ⟨255, 255, 255⟩).k.val = 0 := by
  have c1 : cmax ⟨255, 255, 255⟩ = 255 := by norm_num [cmax]
  have c2 : cmin ⟨255, 255, 255⟩ = 255 := by norm_num [cmin]
  have h100 := rnd_nat M 100 (by norm_num)
  have h2 := rnd_nat M 2 (by norm_num)
  refine ⟨?_, ?_, ?_⟩
  · unfold Hsv.from_Rgb
    simp only [FpHexcone.get_min_max_rf, c1, c2, FltRF.lt_eq, FltRF.lit_val, lit_int M 0 (by norm_num)]
    rw [if_pos (by norm_num)]
    simp only [FltRF.lit_val, lit_int M 255 (by norm_num), lit_int M 100 (by norm_num), FltRF.div_val, FltRF.mul_val]
    norm_num [rnd_one] at h100 ⊢
    exact h100
  · simp only [Hsl.from_Rgb, FpHexcone.get_min_max_rf, c1, c2, FltRF.lit_val,
      lit_int M 255 (by norm_num), lit_int M 100 (by norm_num), lit_int M 2 (by norm_num), FltRF.div_val, FltRF.mul_val,
      FltRF.add_val]
    norm_num [rnd_one]
    norm_num at h2 h100
    rw [h2]; norm_num [rnd_one, h100]
  · rw [grey_k_val]; norm_num [rnd_one, rnd_zero]

/-- black: HSL `l = 0`, HSV `v = 0`, CMYK `K = 1`, exactly, in every model -/
theorem black_fp (M : FPModel) :
    (Hsl.from_Rgb (α := RF M) ⟨0, 0, 0⟩).l.val = 0 ∧ (Hsv.from_Rgb (α := RF M) ⟨0, 0, 0⟩).v.val = 0 ∧
    (Cymk.from_Rgb (α := RF M) ⟨0, 0, 0⟩).k.val = 1 := by
  have c1 : cmax ⟨0, 0, 0⟩ = 0 := by norm_num [cmax]
  have c2 : cmin ⟨0, 0, 0⟩ = 0 := by norm_num [cmin]
  refine ⟨?_, ?_, (Props.C10.cmyk_black_fp M).2.2.2⟩
  · simp only [Hsl.from_Rgb, FpHexcone.get_min_max_rf, c1, c2, FltRF.div_val, FltRF.mul_val,
      FltRF.add_val, zero_div, rnd_zero, add_zero, zero_mul]
  · unfold Hsv.from_Rgb
    simp only [FpHexcone.get_min_max_rf, c1, FltRF.div_val, FltRF.mul_val, zero_div, rnd_zero, zero_mul,
      apply_ite Hsv.v, ite_self]

/-! ## statements with a tolerance: RGB-derived models -/

/-- HWB: a grey has `w`, `b` within `1e-12` of `100·v/255`, `100·(1 − v/255)`, so `w + b` within `2e-12` of `100`;
hue `0` exactly -/
theorem grey_hwb_fp (M : FPModel) (v : ℕ) (hv : v ≤ 255) :
    |(Hwb.from_Rgb (α := RF M) ⟨v, v, v⟩).w.val - (v:ℝ) / 255 * 100| ≤ 1e-12 ∧
    |(Hwb.from_Rgb (α := RF M) ⟨v, v, v⟩).b.val - (1 - (v:ℝ) / 255) * 100| ≤ 1e-12 ∧
    |(Hwb.from_Rgb (α := RF M) ⟨v, v, v⟩).w.val + (Hwb.from_Rgb (α := RF M) ⟨v, v, v⟩).b.val - 100| ≤ 2e-12 ∧
    (Hwb.from_Rgb (α := RF M) ⟨v, v, v⟩).h.val = 0 := by
  obtain ⟨eh, ⟨_, _, we⟩, ⟨_, _, ke⟩⟩ := FpHexcone.hwb_fields M ⟨v, v, v⟩ hv hv hv
  simp only [stdW, stdB, cmin_grey, cmax_grey] at we ke
  refine ⟨we, ke, ?_, ?_⟩
  · have h1 := abs_le.mp we
    have h2 := abs_le.mp ke
    rw [abs_le]; constructor <;> linarith [h1.1, h1.2, h2.1, h2.2]
  · rw [eh]; exact grey_hue_rf M v

/-- YUV: a grey has `|U|, |V| ≤ 1e-12` (NOT exactly `0` in general) and `Y` within `1e-12` of `v/255` -/
theorem grey_yuv_fp (M : FPModel) (v : ℕ) (hv : v ≤ 255) :
    |(Yuv.from_Rgb (α := RF M) ⟨v, v, v⟩).u.val| ≤ 1e-12 ∧ |(Yuv.from_Rgb (α := RF M) ⟨v, v, v⟩).v.val| ≤ 1e-12 ∧
    |(Yuv.from_Rgb (α := RF M) ⟨v, v, v⟩).y.val - (v:ℝ) / 255| ≤ 1e-12 := by
  obtain ⟨hy, hu, hv'⟩ := Props.C10.yuv_forward_fp M ⟨v, v, v⟩ hv hv hv
  have eu : Props.C10.Spec.yuvU (v:ℝ) v v = 0 := by unfold Props.C10.Spec.yuvU Props.C10.Spec.yuvY; ring
  have ev : Props.C10.Spec.yuvV (v:ℝ) v v = 0 := by unfold Props.C10.Spec.yuvV Props.C10.Spec.yuvY; ring
  have ey : Props.C10.Spec.yuvY (v:ℝ) v v = (v:ℝ) / 255 := by unfold Props.C10.Spec.yuvY; ring
  simp only [eu, ev, ey, sub_zero] at hy hu hv'
  exact ⟨hu, hv', hy⟩

/-- YCbCr: a grey has `Cb, Cr ∈ {127, 128}` in every model (`128` is NOT provable for every model: the exact sum is
`128` and the computed one `128 + noise` with noise of either sign, truncated) -/
theorem grey_ycbcr_fp (M : FPModel) (v : ℕ) (hv : v ≤ 255) :
    ((Ycbcr.from_Rgb (RF M) ⟨v, v, v⟩).cb = 127 ∨ (Ycbcr.from_Rgb (RF M) ⟨v, v, v⟩).cb = 128) ∧
    ((Ycbcr.from_Rgb (RF M) ⟨v, v, v⟩).cr = 127 ∨ (Ycbcr.from_Rgb (RF M) ⟨v, v, v⟩).cr = 128) := by
  obtain ⟨_, ⟨e1, he1, h1⟩, ⟨e2, he2, h2⟩⟩ := Props.C10.ycbcr_forward_fp M ⟨v, v, v⟩ hv hv hv
  have eb : Props.C10.Spec.ycbcrCb (v:ℝ) v v = 128 := by unfold Props.C10.Spec.ycbcrCb; ring
  have er : Props.C10.Spec.ycbcrCr (v:ℝ) v v = 128 := by unfold Props.C10.Spec.ycbcrCr; ring
  simp only [eb, er] at h1 h2
  have key : ∀ e : ℝ, |e| ≤ 1e-12 → Real.toU8 (128 + e) = 127 ∨ Real.toU8 (128 + e) = 128 := by
    intro e he
    have h := abs_le.mp he
    have := QuantA2.toU8_bounds (x := 128 + e) (a := 127) (b := 128) (by push_cast; linarith [h.1])
      (by push_cast; linarith [h.2]) (by norm_num)
    omega
  rw [h1, h2]
  exact ⟨key e1 he1, key e2 he2⟩

/-- the pre-truncation value of `Cb`, `Cr` of a grey is within `1e-12` of `128` -/
theorem grey_ycbcr_pre_fp (M : FPModel) (v : ℕ) (hv : v ≤ 255) :
    (∃ e : ℝ, |e| ≤ 1e-12 ∧ (Ycbcr.from_Rgb (RF M) ⟨v, v, v⟩).cb = Real.toU8 (128 + e)) ∧
    (∃ e : ℝ, |e| ≤ 1e-12 ∧ (Ycbcr.from_Rgb (RF M) ⟨v, v, v⟩).cr = Real.toU8 (128 + e)) := by
  obtain ⟨_, ⟨e1, he1, h1⟩, ⟨e2, he2, h2⟩⟩ := Props.C10.ycbcr_forward_fp M ⟨v, v, v⟩ hv hv hv
  have eb : Props.C10.Spec.ycbcrCb (v:ℝ) v v = 128 := by unfold Props.C10.Spec.ycbcrCb; ring
  have er : Props.C10.Spec.ycbcrCr (v:ℝ) v v = 128 := by unfold Props.C10.Spec.ycbcrCr; ring
  simp only [eb, er] at h1 h2
  exact ⟨⟨e1, he1, h1⟩, ⟨e2, he2, h2⟩⟩

/-! ## XYZ and the CIE spaces -/

/-- XYZ of the grey `(v,v,v)` computed in `RF M`, D65 profile -/
noncomputable abbrev greyF (M : FPModel) (v : ℕ) : Xyz (RF M) := Xyz.from_rgb (α := RF M) ⟨v, v, v⟩ XyzKind.D65

/-- XYZ of a grey: within `1e-12` of `(0.95047, 1.0000001, 1.08883)·t` — proportional to (the row sums of the table
that give) the D65 white — `t ∈ [0, 1]` the real linear level of `v/255`; black is `(0,0,0)` exactly -/
theorem grey_xyz_fp (M : FPModel) (v : ℕ) (hv : v ≤ 255) :
    ∃ t : ℝ, 0 ≤ t ∧ t ≤ 1 ∧ t = (F64.compute_srgb_gamma_expanded ((v : ℝ) / 255) : ℝ) ∧
    |(greyF M v).x.val - 95047 / 100000 * t| ≤ 1e-12 ∧
    |(greyF M v).y.val - 10000001 / 10000000 * t| ≤ 1e-12 ∧
    |(greyF M v).z.val - 108883 / 100000 * t| ≤ 1e-12 := by
  obtain ⟨e, t0, t1⟩ := Props.C11_cie.grey_xyz v hv
  obtain ⟨f1, f2, f3⟩ := Props.C05.forward_fp M .D65 ⟨v, v, v⟩ hv hv hv
  rw [e] at f1 f2 f3
  exact ⟨_, t0, t1, rfl, f1, f2, f3⟩

/-- black: XYZ `(0,0,0)` exactly -/
theorem black_xyz_fp (M : FPModel) : (greyF M 0).x.val = 0 ∧ (greyF M 0).y.val = 0 ∧ (greyF M 0).z.val = 0 :=
  Props.C05.black_to_zero_fp M .D65

/-- **CIELAB**: `|a|, |b| < 1e-3` for every grey, in every model (proved `6.1e-4`, `2.5e-4`) -/
theorem grey_lab_fp (M : FPModel) (v : ℕ) (hv : v ≤ 255) :
    |(Lab.from_Xyz (greyF M v)).a.val| < 1e-3 ∧ |(Lab.from_Xyz (greyF M v)).b.val| < 1e-3 := by
  rcases Nat.eq_zero_or_pos v with h0 | h1
  · obtain ⟨z1, z2, z3⟩ := black_xyz_fp M
    obtain ⟨a, b⟩ := lab_black_fp M z1 z2 z3
    rw [h0, a, b]; norm_num
  · have g := grey_xyz_near M v h1 hv
    obtain ⟨a, b⟩ := lab_grey_fp M g
    obtain ⟨ra, rb⟩ := Props.C11_cie.lab_grey _ (le_trans (by norm_num) g.t0) g.t1
    have a' := abs_sub_abs_le_abs_sub (Lab.from_Xyz (greyF M v)).a.val
      (Lab.from_Xyz (Props.C11_cie.greyXyz (F64.compute_srgb_gamma_expanded ((v : ℝ) / 255)))).a
    have b' := abs_sub_abs_le_abs_sub (Lab.from_Xyz (greyF M v)).b.val
      (Lab.from_Xyz (Props.C11_cie.greyXyz (F64.compute_srgb_gamma_expanded ((v : ℝ) / 255)))).b
    constructor <;> norm_num at a b ra rb ⊢ <;> linarith

/-- **CIELUV**: `|u|, |v| < 1e-3` for every grey, in every model (proved `5e-5`) -/
theorem grey_luv_fp (M : FPModel) (v : ℕ) (hv : v ≤ 255) :
    |(Luv.from_Xyz (greyF M v)).u.val| < 1e-3 ∧ |(Luv.from_Xyz (greyF M v)).v.val| < 1e-3 := by
  rcases Nat.eq_zero_or_pos v with h0 | h1
  · obtain ⟨_, z2, _⟩ := black_xyz_fp M
    obtain ⟨a, b⟩ := luv_black_fp M z2
    rw [h0, a, b]; norm_num
  · obtain ⟨a, b⟩ := luv_grey_fp M (grey_xyz_near M v h1 hv)
    exact ⟨lt_of_le_of_lt a (by norm_num), lt_of_le_of_lt b (by norm_num)⟩

/-- **Hunter Lab**: `|a|, |b| < 1e-3` for every grey, in every model (proved `3.8e-5`, `2.7e-5`) -/
theorem grey_hlab_fp (M : FPModel) (v : ℕ) (hv : v ≤ 255) :
    |(Hlab.from_Xyz (greyF M v)).a.val| < 1e-3 ∧ |(Hlab.from_Xyz (greyF M v)).b.val| < 1e-3 := by
  rcases Nat.eq_zero_or_pos v with h0 | h1
  · obtain ⟨_, z2, _⟩ := black_xyz_fp M
    obtain ⟨a, b⟩ := hlab_black_fp M z2
    rw [h0, a, b]; norm_num
  · have g := grey_xyz_near M v h1 hv
    obtain ⟨a, b⟩ := hlab_grey_fp M g
    obtain ⟨ra, rb⟩ := Props.C11_cie.hlab_grey _ (le_trans (by norm_num) g.t0) g.t1
    have a' := abs_sub_abs_le_abs_sub (Hlab.from_Xyz (greyF M v)).a.val
      (Hlab.from_Xyz (Props.C11_cie.greyXyz (F64.compute_srgb_gamma_expanded ((v : ℝ) / 255)))).a
    have b' := abs_sub_abs_le_abs_sub (Hlab.from_Xyz (greyF M v)).b.val
      (Hlab.from_Xyz (Props.C11_cie.greyXyz (F64.compute_srgb_gamma_expanded ((v : ℝ) / 255)))).b
    constructor <;> norm_num at a b ra rb ⊢ <;> linarith

/-- **xyY**: the chromaticity of every grey is within `1e-4` of the D65 white point `(0.31271, 0.32902)`, in every
model (proved `1.8e-5`, `3.3e-6`) -/
theorem grey_xyy_fp (M : FPModel) (v : ℕ) (hv : v ≤ 255) :
    |(Xyy.from_Xyz (greyF M v)).x.val - 0.31271| < 1e-4 ∧ |(Xyy.from_Xyz (greyF M v)).y.val - 0.32902| < 1e-4 := by
  rcases Nat.eq_zero_or_pos v with h0 | h1
  · obtain ⟨z1, z2, z3⟩ := black_xyz_fp M
    obtain ⟨a, b⟩ := xyy_black_fp M z1 z2 z3
    rw [h0]
    exact ⟨lt_of_le_of_lt a (by norm_num), lt_of_le_of_lt b (by norm_num)⟩
  · have g := grey_xyz_near M v h1 hv
    obtain ⟨a, b⟩ := xyy_grey_fp M g
    obtain ⟨ra, rb⟩ := Props.C11_cie.xyy_grey _ (le_trans (by norm_num) g.t0)
    have a' := abs_sub_le (Xyy.from_Xyz (greyF M v)).x.val
      (Xyy.from_Xyz (Props.C11_cie.greyXyz (F64.compute_srgb_gamma_expanded ((v : ℝ) / 255)))).x 0.31271
    have b' := abs_sub_le (Xyy.from_Xyz (greyF M v)).y.val
      (Xyy.from_Xyz (Props.C11_cie.greyXyz (F64.compute_srgb_gamma_expanded ((v : ℝ) / 255)))).y 0.32902
    constructor <;> norm_num at a b ra rb a' b' ⊢ <;> linarith

/-- **LCh(ab), LCh(uv), HCL**: the chroma of every grey is below `1e-3`, in every model -/
theorem grey_chroma_fp (M : FPModel) (v : ℕ) (hv : v ≤ 255) :
    (Lchlab.from_Xyz (greyF M v)).c.val < 1e-3 ∧ (Lchuv.from_Xyz (greyF M v)).c.val < 1e-3 ∧
    (Hcl.from_Xyz (greyF M v)).c.val < 1e-3 := by
  have key : ∀ (c a b A B : ℝ), |a| ≤ A → |b| ≤ B → A + B ≤ 9e-4 →
      |c - Props.C14.chroma a b| ≤ 6e-16 * Props.C14.chroma a b + 1e-100 → c < 1e-3 := by
    intro c a b A B ha hb hAB hc
    have hs : Props.C14.chroma a b ≤ |a| + |b| := by
      unfold Props.C14.chroma
      rw [Real.sqrt_le_left (add_nonneg (abs_nonneg _) (abs_nonneg _))]
      nlinarith [abs_nonneg a, abs_nonneg b, sq_abs a, sq_abs b]
    have h0 : 0 ≤ Props.C14.chroma a b := Real.sqrt_nonneg _
    have := (abs_le.mp hc).2
    norm_num at hAB ⊢; nlinarith
  have lab : |(Lab.from_Xyz (greyF M v)).a.val| ≤ 6.1e-4 ∧ |(Lab.from_Xyz (greyF M v)).b.val| ≤ 2.5e-4 := by
    rcases Nat.eq_zero_or_pos v with h0 | h1
    · obtain ⟨z1, z2, z3⟩ := black_xyz_fp M
      obtain ⟨a, b⟩ := lab_black_fp M z1 z2 z3
      rw [h0, a, b]; norm_num
    · have g := grey_xyz_near M v h1 hv
      obtain ⟨a, b⟩ := lab_grey_fp M g
      obtain ⟨ra, rb⟩ := Props.C11_cie.lab_grey _ (le_trans (by norm_num) g.t0) g.t1
      have a' := abs_sub_abs_le_abs_sub (Lab.from_Xyz (greyF M v)).a.val
        (Lab.from_Xyz (Props.C11_cie.greyXyz (F64.compute_srgb_gamma_expanded ((v : ℝ) / 255)))).a
      have b' := abs_sub_abs_le_abs_sub (Lab.from_Xyz (greyF M v)).b.val
        (Lab.from_Xyz (Props.C11_cie.greyXyz (F64.compute_srgb_gamma_expanded ((v : ℝ) / 255)))).b
      constructor <;> norm_num at a b ra rb ⊢ <;> linarith
  have luv : |(Luv.from_Xyz (greyF M v)).u.val| ≤ 5e-5 ∧ |(Luv.from_Xyz (greyF M v)).v.val| ≤ 5e-5 := by
    rcases Nat.eq_zero_or_pos v with h0 | h1
    · obtain ⟨_, z2, _⟩ := black_xyz_fp M
      obtain ⟨a, b⟩ := luv_black_fp M z2
      rw [h0, a, b]; norm_num
    · exact luv_grey_fp M (grey_xyz_near M v h1 hv)
  refine ⟨key _ _ _ _ _ lab.1 lab.2 (by norm_num) (Props.C14.lchlab_chroma_sharp_fp M _).2,
    key _ _ _ _ _ luv.1 luv.2 (by norm_num) (Props.C14.lchuv_chroma_sharp_fp M _).2, ?_⟩
  exact key _ _ _ _ _ luv.1 luv.2 (by norm_num) (Props.C14.hcl_chroma_sharp_fp M (Luv.from_Xyz (greyF M v))).2

/-- **white**: CIELAB, CIELUV and Hunter lightness within `2e-5` of `100` in every model (real model
`Props.C11_cie.lab_white_black` …: `1.2e-5`, the Y row of the table sums to `1.0000001`) -/
theorem white_cie_fp (M : FPModel) :
    |(Lab.from_Xyz (greyF M 255)).l.val - 100| ≤ 2e-5 ∧ |(Luv.from_Xyz (greyF M 255)).l.val - 100| ≤ 2e-5 ∧
    |(Hlab.from_Xyz (greyF M 255)).l.val - 100| ≤ 2e-5 := by
  obtain ⟨t, _, _, ht, _, hy, _⟩ := grey_xyz_fp M 255 le_rfl
  have e1 : t = 1 := by
    rw [ht]; have := Lemmas.Curves.srgb_dec_one
    simpa using this
  rw [e1, mul_one] at hy
  exact white_lightness_fp M ⟨hy⟩

/-- **black**: CIELUV and Hunter lightness `0` exactly; CIELAB lightness within `1e-13` of `0` — NOT exactly `0` in every
model (`116 · rnd(rnd(16/116)) − 16`), although it is `0` on ℝ and in binary64 -/
theorem black_cie_fp (M : FPModel) :
    |(Lab.from_Xyz (greyF M 0)).l.val| ≤ 1e-13 ∧ (Luv.from_Xyz (greyF M 0)).l.val = 0 ∧
    (Hlab.from_Xyz (greyF M 0)).l.val = 0 :=
  black_lightness_fp M (black_xyz_fp M).2.1

/- GOAL (not proved): OkLab / OkLch and the encoded RGB spaces in `RF M`.
   ∀ M v, v ≤ 255 → |(OkLab.from_Xyz (greyF M v)).a.val| < 1e-6 ∧ |(OkLab.from_Xyz (greyF M v)).b.val| < 1e-6
   (real model `Props.C11_derived.oklab_ab`: `4e-7`, `3e-7`, i.e. a margin of `6e-7` for the fp error of the chain
   XYZ → linear sRGB → sRGB encode (`pow 1/2.4`) → `pow 2.2` → LMS → `cbrt` → matrix, which amplifies the `1e-12` of XYZ by
   about `13 · 1140` at the darkest grey: `≈ 2e-8`, well inside the margin, but the chain of `M.pow` Lipschitz estimates
   was not carried out in the time box), and the `Eq3` statements of `Props.C11_derived` for
   sRGB / Adobe RGB / Rec.709 / Rec.2020 / Rec.2100 with XYZ and encoders computed in `RF M`. -/

/-! ## Examples -/

-- the exact arithmetic is a model: mid grey
example : (Hsl.from_Rgb (α := RF FPModel.exact) ⟨128, 128, 128⟩).s.val = 0 := (grey_hsl_fp FPModel.exact 128).1
-- every model, a dark grey next to the sRGB branch point and the CIE threshold
example (M : FPModel) : |(Lab.from_Xyz (greyF M 10)).a.val| < 1e-3 := (grey_lab_fp M 10 (by norm_num)).1
example (M : FPModel) : |(Luv.from_Xyz (greyF M 1)).u.val| < 1e-3 := (grey_luv_fp M 1 (by norm_num)).1
example (M : FPModel) : (Ycbcr.from_Rgb (RF M) ⟨77, 77, 77⟩).cb = 127 ∨ (Ycbcr.from_Rgb (RF M) ⟨77, 77, 77⟩).cb = 128 :=
  (grey_ycbcr_fp M 77 (by norm_num)).1
example (M : FPModel) : |(Yuv.from_Rgb (α := RF M) ⟨200, 200, 200⟩).u.val| ≤ 1e-12 := (grey_yuv_fp M 200 (by norm_num)).1
-- the hypothesis of `grey_cymk_den_pos_fp` is satisfiable
example (M : FPModel) : (Cymk.from_Rgb (α := RF M) ⟨1, 1, 1⟩).k.val ≠ 1 := (grey_cymk_den_pos_fp M 1 (by norm_num) (by norm_num)).1

end Props.C11_fp
