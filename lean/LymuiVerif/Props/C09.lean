import LymuiVerif.Lemmas.HexconeA2
/-!
# C09 — hexcone models (Hue, HSL, HSV, HWB): forward = standard definitions, reverse = sector formulae

Exact-real instance (`α := ℝ`).  All statements are about the GENERATED definitions
`F64.from_Rgb` (`impl From<Rgb> for Hue`), `Hsl.from_Rgb`, `Hsv.from_Rgb`, `Hwb.from_Rgb`,
`Rgb.from_Hsl`, `Rgb.from_Hsv`, `Rgb.from_Hwb`.

On ℝ the "within 1e-9" of the property text is exact equality; the float gap is measured elsewhere.
-/
namespace Props.C09
open Gen

/-! ## Specification -/

/-- largest channel -/
noncomputable def cmax (c : Rgb) : ℝ := max (max (c.r : ℝ) c.g) c.b
/-- smallest channel -/
noncomputable def cmin (c : Rgb) : ℝ := min (min (c.r : ℝ) c.g) c.b

/-- hexcone angle in degrees; tie order of the code: red first, then green -/
noncomputable def hexAngle (c : Rgb) : ℝ :=
  let d := cmax c - cmin c
  if cmax c = cmin c then 0
  else if cmax c = c.r then
    (if 60 * (((c.g : ℝ) - c.b) / d) < 0 then 60 * (((c.g : ℝ) - c.b) / d) + 360
     else 60 * (((c.g : ℝ) - c.b) / d))
  else if cmax c = c.g then 60 * (2 + ((c.b : ℝ) - c.r) / d)
  else 60 * (4 + ((c.r : ℝ) - c.g) / d)

/-- standard lightness in 0..1 -/
noncomputable def stdL (c : Rgb) : ℝ := (cmax c + cmin c) / 2 / 255
/-- standard HSL saturation in 0..1 -/
noncomputable def stdSHsl (c : Rgb) : ℝ :=
  if cmax c = cmin c then 0 else ((cmax c - cmin c) / 255) / (1 - |2 * stdL c - 1|)
/-- standard HSV saturation in 0..1 -/
noncomputable def stdSHsv (c : Rgb) : ℝ := if cmax c = 0 then 0 else (cmax c - cmin c) / cmax c
/-- standard value in 0..1 -/
noncomputable def stdV (c : Rgb) : ℝ := cmax c / 255
/-- standard whiteness in 0..1 -/
noncomputable def stdW (c : Rgb) : ℝ := cmin c / 255
/-- standard blackness in 0..1 -/
noncomputable def stdB (c : Rgb) : ℝ := 1 - cmax c / 255

/-- quantiser of the HSL reverse direction: `(255 x).round() as u8` -/
noncomputable def q8round (x : ℝ) : ℕ := Real.toU8 (Real.roundHA (255 * x))
/-- quantiser of the HSV / HWB reverse direction: `(255 x) as u8` (truncation) -/
noncomputable def q8trunc (x : ℝ) : ℕ := Real.toU8 (255 * x)

/-- standard HSL → RGB in 0..1 (chroma `C`, second component `X`, offset `m`); `h` in degrees,
`s`, `l` in percent -/
noncomputable def hslSector (h s l : ℝ) : ℝ × ℝ × ℝ :=
  let C := (1 - |2 * (l / 100) - 1|) * (s / 100)
  let H := h / 60
  let X := C * (1 - |H - 2 * (⌊H / 2⌋ : ℝ) - 1|)
  let m := l / 100 - C / 2
  if H < 1 then (C + m, X + m, m) else if H < 2 then (X + m, C + m, m)
  else if H < 3 then (m, C + m, X + m) else if H < 4 then (m, X + m, C + m)
  else if H < 5 then (X + m, m, C + m) else (C + m, m, X + m)

/-- standard HSV → RGB in 0..1 (`p`, `q`, `t` form); `h` in degrees, `s`, `v` in percent -/
noncomputable def hsvSector (h s v : ℝ) : ℝ × ℝ × ℝ :=
  let H := h / 60
  let i : ℤ := ⌊H⌋
  let f := H - i
  let V := v / 100
  let S := s / 100
  let p := V * (1 - S)
  let q := V * (1 - S * f)
  let t := V * (1 - (1 - f) * S)
  if i = 0 then (V, t, p) else if i = 1 then (q, V, p) else if i = 2 then (p, V, t)
  else if i = 3 then (p, q, V) else if i = 4 then (t, p, V) else (V, p, q)

/-! ## Hue -/

/-- the code's `(min, max)` are the smallest and the largest channel -/
theorem get_min_max_spec (c : Rgb) : Rgb.get_min_max (α := ℝ) c = (cmin c, cmax c) := by
  simp [Rgb.get_min_max, Rgb.as_f64, cmin, cmax, min_comm, max_comm]

/-- the hexcone angle lies in `[0, 360)` -/
theorem hexAngle_range (c : Rgb) : 0 ≤ hexAngle c ∧ hexAngle c < 360 := by
  unfold hexAngle cmax cmin
  generalize (c.r : ℝ) = r; generalize (c.g : ℝ) = g; generalize (c.b : ℝ) = b
  have hM1 : r ≤ max (max r g) b := le_trans (le_max_left _ _) (le_max_left _ _)
  have hM2 : g ≤ max (max r g) b := le_trans (le_max_right _ _) (le_max_left _ _)
  have hM3 : b ≤ max (max r g) b := le_max_right _ _
  have hm1 : min (min r g) b ≤ r := le_trans (min_le_left _ _) (min_le_left _ _)
  have hm2 : min (min r g) b ≤ g := le_trans (min_le_left _ _) (min_le_right _ _)
  have hm3 : min (min r g) b ≤ b := min_le_right _ _
  generalize max (max r g) b = M at *
  generalize min (min r g) b = m at *
  simp only []
  by_cases h0 : M = m
  · simp [h0]
  have hd : 0 < M - m := by
    rcases lt_or_eq_of_le (le_trans hm1 hM1) with h | h
    · linarith
    · exact absurd h.symm h0
  rw [if_neg h0]
  split_ifs with h1 h2 h3
  · have : -1 ≤ (g - b) / (M - m) := by rw [le_div_iff₀ hd]; linarith
    constructor <;> linarith
  · have : (g - b) / (M - m) ≤ 1 := by rw [div_le_iff₀ hd]; linarith
    constructor <;> linarith
  · have h5 : -1 ≤ (b - r) / (M - m) := by rw [le_div_iff₀ hd]; linarith
    have h6 : (b - r) / (M - m) ≤ 1 := by rw [div_le_iff₀ hd]; linarith
    constructor <;> linarith
  · have h5 : -1 ≤ (r - g) / (M - m) := by rw [le_div_iff₀ hd]; linarith
    have h6 : (r - g) / (M - m) < 1 := by
      rw [div_lt_iff₀ hd]
      have : r < M := lt_of_le_of_ne hM1 (Ne.symm h1)
      linarith
    constructor <;> linarith

/-- **hue, code form**: the code computes `round(hexAngle) % 360` (`f64::round`, `f64 %`).
The `if hue < 0 { hue += 360 }` of the green and blue branches is dead. -/
theorem hue_eq (c : Rgb) :
    F64.from_Rgb (α := ℝ) c = Flt.rem (Real.roundHA (hexAngle c)) (360 : ℝ) := by
  have hr := hexAngle_range c
  revert hr
  unfold F64.from_Rgb
  simp only [get_min_max_spec, Rgb.as_f64, FltReal.lit_eq, FltReal.beq_eq, FltReal.lt_eq,
    FltReal.ofNat_eq, FltReal.round_eq, decide_eq_true_eq, Nat.cast_ofNat, Nat.cast_one, div_one,
    Nat.cast_zero]
  unfold hexAngle
  simp only []
  generalize cmax c = M; generalize cmin c = m
  generalize (c.r : ℝ) = r; generalize (c.g : ℝ) = g; generalize (c.b : ℝ) = b
  intro hr
  by_cases h0 : M = m
  · have h0' : m = M := h0.symm
    rw [if_pos h0', if_pos h0]
    have h := QuantA2.roundHA_natCast 0
    have h2 := QuantA2.rem360 (k := 0) (by norm_num)
    simp only [Nat.cast_zero] at h h2
    rw [h, h2]; simp
  · have h0' : ¬ m = M := fun h => h0 h.symm
    rw [if_neg h0']
    rw [if_neg h0] at hr ⊢
    by_cases h1 : M = r
    · rw [if_pos h1] at hr ⊢
      rw [if_pos h1]
      have e : (g - b) / (M - m) * 60 = 60 * ((g - b) / (M - m)) := by ring
      rw [e]
      split_ifs <;> rfl
    · rw [if_neg h1] at hr ⊢
      rw [if_neg h1]
      by_cases h2 : M = g
      · rw [if_pos h2] at hr ⊢
        rw [if_pos h2]
        have e : (2 + (b - r) / (M - m)) * 60 = 60 * (2 + (b - r) / (M - m)) := by ring
        rw [e, if_neg (not_lt.mpr hr.1)]
      · rw [if_neg h2] at hr ⊢
        rw [if_neg h2]
        have e : (4 + (r - g) / (M - m)) * 60 = 60 * (4 + (r - g) / (M - m)) := by ring
        rw [e, if_neg (not_lt.mpr hr.1)]

/-- **hue_spec**: the hue is the hexcone angle rounded (half away from zero) to a whole number
`k ≤ 360` of degrees and then reduced modulo 360 (so `k = 360` wraps to `0`). -/
theorem hue_spec (c : Rgb) :
    ∃ k : ℕ, Real.roundHA (hexAngle c) = k ∧ k ≤ 360 ∧
      F64.from_Rgb (α := ℝ) c = ((k % 360 : ℕ) : ℝ) := by
  obtain ⟨h0, h1⟩ := hexAngle_range c
  obtain ⟨k, hk, hk1, _⟩ := QuantA2.roundHA_nat h0
  have hk360 : k ≤ 360 := by
    have : (k : ℝ) < 361 := by linarith
    have : k < 361 := by exact_mod_cast this
    omega
  exact ⟨k, hk, hk360, by rw [hue_eq, hk, QuantA2.rem360 hk360]⟩

/-- **hue_range**: the hue is a whole number in `[0, 360)` -/
theorem hue_range (c : Rgb) : ∃ n : ℕ, n < 360 ∧ F64.from_Rgb (α := ℝ) c = (n : ℝ) := by
  obtain ⟨k, _, _, h⟩ := hue_spec c
  exact ⟨k % 360, Nat.mod_lt _ (by norm_num), h⟩

/-- the hue is within half a degree of the angle, except for the wrap at 360 -/
theorem hue_close (c : Rgb) :
    |F64.from_Rgb (α := ℝ) c - hexAngle c| ≤ 1 / 2 ∨
      (359.5 ≤ hexAngle c ∧ F64.from_Rgb (α := ℝ) c = 0) := by
  obtain ⟨h0, h1⟩ := hexAngle_range c
  obtain ⟨k, hk, hk360, h⟩ := hue_spec c
  obtain ⟨k', hk', hk1, hk2⟩ := QuantA2.roundHA_nat h0
  have : k' = k := by exact_mod_cast hk'.symm.trans hk
  subst this
  rcases Nat.lt_or_eq_of_le hk360 with hlt | heq
  · left
    rw [h, Nat.mod_eq_of_lt hlt, abs_le]; constructor <;> linarith
  · right
    subst heq
    refine ⟨?_, by rw [h]; simp⟩
    push_cast at hk1; linarith

/-! ## Forward conversions -/

/-- every channel lies between `cmin` and `cmax` -/
theorem channel_bounds (c : Rgb) :
    (cmin c ≤ c.r ∧ cmin c ≤ c.g ∧ cmin c ≤ c.b) ∧ ((c.r : ℝ) ≤ cmax c ∧ (c.g : ℝ) ≤ cmax c ∧ (c.b : ℝ) ≤ cmax c) :=
  ⟨⟨le_trans (min_le_left _ _) (min_le_left _ _), le_trans (min_le_left _ _) (min_le_right _ _),
    min_le_right _ _⟩,
   ⟨le_trans (le_max_left _ _) (le_max_left _ _), le_trans (le_max_right _ _) (le_max_left _ _),
    le_max_right _ _⟩⟩

/-- `cmin` and `cmax` are channels (as natural numbers) -/
theorem cmin_cmax_nat (c : Rgb) :
    cmin c = ((min (min c.r c.g) c.b : ℕ) : ℝ) ∧ cmax c = ((max (max c.r c.g) c.b : ℕ) : ℝ) := by
  simp [cmin, cmax, min_assoc, max_assoc]

/-- `0 ≤ cmin ≤ cmax ≤ 255`, and both are channels -/
theorem cmin_cmax_bounds (c : Rgb) (hr : c.r ≤ 255) (hg : c.g ≤ 255) (hb : c.b ≤ 255) :
    0 ≤ cmin c ∧ cmin c ≤ cmax c ∧ cmax c ≤ 255 := by
  have h1 : (c.r : ℝ) ≤ 255 := by exact_mod_cast hr
  have h2 : (c.g : ℝ) ≤ 255 := by exact_mod_cast hg
  have h3 : (c.b : ℝ) ≤ 255 := by exact_mod_cast hb
  have p1 : (0 : ℝ) ≤ c.r := Nat.cast_nonneg _
  have p2 : (0 : ℝ) ≤ c.g := Nat.cast_nonneg _
  have p3 : (0 : ℝ) ≤ c.b := Nat.cast_nonneg _
  refine ⟨?_, ?_, ?_⟩
  · exact le_min (le_min p1 p2) p3
  · exact le_trans (min_le_right _ _) (le_max_right _ _)
  · exact max_le (max_le h1 h2) h3

theorem hsl_forward (c : Rgb) (hr : c.r ≤ 255) (hg : c.g ≤ 255) (hb : c.b ≤ 255) :
    (Hsl.from_Rgb (α := ℝ) c).h = F64.from_Rgb (α := ℝ) c ∧
    (Hsl.from_Rgb (α := ℝ) c).s = stdSHsl c * 100 ∧
    (Hsl.from_Rgb (α := ℝ) c).l = stdL c * 100 := by
  obtain ⟨b0, b1, b2⟩ := cmin_cmax_bounds c hr hg hb
  refine ⟨rfl, ?_, ?_⟩
  · simp only [Hsl.from_Rgb, get_min_max_spec, FltReal.lit_eq, Nat.cast_ofNat, Nat.cast_one, div_one]
    rw [HexconeA2.compute_saturation_eq _ _ (by positivity) (by linarith) (by linarith)]
    unfold stdSHsl stdL
    by_cases h : cmax c = cmin c
    · simp [h]
    · have h' : ¬ cmax c / 255 = cmin c / 255 := by
        intro e; apply h; linarith
      rw [if_neg h, if_neg h']
      have e : 2 * ((cmin c / 255 + cmax c / 255) / 2) - 1 = 2 * ((cmax c + cmin c) / 2 / 255) - 1 := by ring
      rw [e]; ring
  · simp only [Hsl.from_Rgb, get_min_max_spec, FltReal.lit_eq, Nat.cast_ofNat, Nat.cast_one, div_one, stdL]
    ring

theorem hsv_forward (c : Rgb) (hr : c.r ≤ 255) (hg : c.g ≤ 255) (hb : c.b ≤ 255) :
    (Hsv.from_Rgb (α := ℝ) c).h = F64.from_Rgb (α := ℝ) c ∧
    (Hsv.from_Rgb (α := ℝ) c).s = stdSHsv c * 100 ∧
    (Hsv.from_Rgb (α := ℝ) c).v = stdV c * 100 := by
  obtain ⟨b0, b1, b2⟩ := cmin_cmax_bounds c hr hg hb
  unfold Hsv.from_Rgb stdSHsv stdV
  simp only [get_min_max_spec, FltReal.lit_eq, FltReal.lt_eq, Nat.cast_ofNat, Nat.cast_one, div_one,
    Nat.cast_zero, decide_eq_true_eq]
  by_cases h : cmax c = 0
  · simp [h]
  · have : 0 < cmax c := lt_of_le_of_ne (le_trans b0 b1) (Ne.symm h)
    simp [h, this]

theorem hwb_forward (c : Rgb) (hr : c.r ≤ 255) (hg : c.g ≤ 255) (hb : c.b ≤ 255) :
    (Hwb.from_Rgb (α := ℝ) c).h = F64.from_Rgb (α := ℝ) c ∧
    (Hwb.from_Rgb (α := ℝ) c).w = stdW c * 100 ∧
    (Hwb.from_Rgb (α := ℝ) c).b = stdB c * 100 := by
  obtain ⟨h1, h2, h3⟩ := hsv_forward c hr hg hb
  obtain ⟨b0, b1, b2⟩ := cmin_cmax_bounds c hr hg hb
  simp only [Hwb.from_Rgb, h1, h2, h3, FltReal.lit_eq, Nat.cast_ofNat, Nat.cast_one, div_one]
  refine ⟨trivial, ?_, ?_⟩
  · unfold stdSHsv stdV stdW
    by_cases h : cmax c = 0
    · have : cmin c = 0 := le_antisymm (h ▸ b1) b0
      simp [h, this]
    · rw [if_neg h]; field_simp; ring
  · unfold stdV stdB; ring
/-! ## Reverse conversions -/

/-- **hsl_reverse**: for a hue in `[0,360)` (any `s`, `l`, in particular percentages in `[0,100]`)
`Rgb::from(Hsl)` is the standard C/X/m sector formula, every channel quantised by the one rule
`(255 x).round() as u8` — the grey shortcut `h == 0 && s == 0` included. -/
theorem hsl_reverse (h s l : ℝ) (h0 : 0 ≤ h) (h1 : h < 360) :
    Rgb.from_Hsl (⟨h, s, l⟩ : Hsl ℝ) =
      ⟨q8round (hslSector h s l).1, q8round (hslSector h s l).2.1, q8round (hslSector h s l).2.2⟩ := by
  unfold Rgb.from_Hsl
  simp only [FltReal.lit_eq, FltReal.beq_eq, FltReal.abs_eq, FltReal.toU8_eq, FltReal.round_eq,
    decide_eq_true_eq, Nat.cast_ofNat, Nat.cast_one, div_one, Nat.cast_zero]
  rw [HexconeA2.compute_rgb_value_eq h s l _ h0 h1]
  unfold hslSector q8round
  simp only []
  by_cases hgrey : h = 0 ∧ s = 0
  · obtain ⟨hh, hs⟩ := hgrey
    subst hh; subst hs
    simp [Hsl.compute_shade_of_grey, mul_comm]
  · split_ifs <;> first | (exfalso; exact hgrey ⟨‹_›, ‹_›⟩) | simp only [zero_add, mul_comm]
/-- **hsv_reverse**: for a hue in `[0,360)` `Rgb::from(Hsv)` is the standard p/q/t sector formula,
every channel quantised by the one rule `(255 x) as u8` (truncation) — the grey shortcut `s == 0`
included. -/
theorem hsv_reverse (h s v : ℝ) (h0 : 0 ≤ h) (h1 : h < 360) :
    Rgb.from_Hsv (⟨h, s, v⟩ : Hsv ℝ) =
      ⟨q8trunc (hsvSector h s v).1, q8trunc (hsvSector h s v).2.1, q8trunc (hsvSector h s v).2.2⟩ := by
  unfold Rgb.from_Hsv
  simp only [FltReal.lit_eq, FltReal.beq_eq, FltReal.toU8_eq, FltReal.toI64_eq, FltReal.ofInt_eq,
    decide_eq_true_eq, Nat.cast_ofNat, Nat.cast_one, div_one, Nat.cast_zero, Rgb.new, Rgb.default,
    beq_iff_eq]
  rw [QuantA2.truncZ_nonneg (by positivity : 0 ≤ h / 60)]
  unfold hsvSector q8trunc
  simp only []
  have hk0 : 0 ≤ ⌊h / 60⌋ := Int.floor_nonneg.mpr (by positivity)
  have hk6 : ⌊h / 60⌋ < 6 := Int.floor_lt.mpr (by norm_num; linarith)
  generalize ⌊h / 60⌋ = k at *
  by_cases hs : s = 0
  · subst hs
    rw [if_pos rfl]
    interval_cases k <;> simp [mul_comm]
  · rw [if_neg hs]
    interval_cases k <;> simp [mul_comm]
/-- **hwb_reverse (code form)**: `Rgb::from(Hwb)` is `Rgb::from(Hsv)` at
`S = 1 - W/(1-B)`, `V = 1 - B` (all in percent).  Remark: at `b = 100` the Rust code divides
`w/100` by zero (`NaN`/`inf` in `f64`); on ℝ Mathlib totalises `x/0 = 0`, so nothing is claimed
about that point beyond this syntactic identity. -/
theorem hwb_reverse_eq (h w b : ℝ) :
    Rgb.from_Hwb (⟨h, w, b⟩ : Hwb ℝ) =
      Rgb.from_Hsv (⟨h, (1 - (w / 100) / (1 - b / 100)) * 100, (1 - b / 100) * 100⟩ : Hsv ℝ) := by
  simp [Rgb.from_Hwb]

/-- **hwb_reverse**: for a hue in `[0,360)`, `w, b ≥ 0`, `w + b ≤ 100` and `b < 100` (the guard of the
division) the derived HSV saturation and value are percentages in `[0,100]` and `Rgb::from(Hwb)`
is the p/q/t sector formula quantised by truncation. -/
theorem hwb_reverse (h w b : ℝ) (h0 : 0 ≤ h) (h1 : h < 360) (hw : 0 ≤ w) (hb : 0 ≤ b)
    (hb1 : b < 100) (hwb : w + b ≤ 100) :
    0 ≤ (1 - (w / 100) / (1 - b / 100)) * 100 ∧ (1 - (w / 100) / (1 - b / 100)) * 100 ≤ 100 ∧
    0 ≤ (1 - b / 100) * 100 ∧ (1 - b / 100) * 100 ≤ 100 ∧
    Rgb.from_Hwb (⟨h, w, b⟩ : Hwb ℝ) =
      ⟨q8trunc (hsvSector h ((1 - (w / 100) / (1 - b / 100)) * 100) ((1 - b / 100) * 100)).1,
       q8trunc (hsvSector h ((1 - (w / 100) / (1 - b / 100)) * 100) ((1 - b / 100) * 100)).2.1,
       q8trunc (hsvSector h ((1 - (w / 100) / (1 - b / 100)) * 100) ((1 - b / 100) * 100)).2.2⟩ := by
  have hd : 0 < 1 - b / 100 := by linarith
  have q0 : 0 ≤ (w / 100) / (1 - b / 100) := div_nonneg (by positivity) hd.le
  have q1 : (w / 100) / (1 - b / 100) ≤ 1 := by rw [div_le_one hd]; linarith
  refine ⟨by nlinarith, by nlinarith, by nlinarith, by nlinarith, ?_⟩
  rw [hwb_reverse_eq, hsv_reverse _ _ _ h0 h1]

/-! ## Examples (hypotheses are satisfiable, specifications are the familiar ones) -/

-- rgb(241,27,28): angle 359.72 rounds to 360 and wraps to hue 0
example : hexAngle ⟨241, 27, 28⟩ = 360 - 60 / 214 ∧ F64.from_Rgb (α := ℝ) ⟨241, 27, 28⟩ = 0 := by
  have ha : hexAngle ⟨241, 27, 28⟩ = 360 - 60 / 214 := by
    norm_num [hexAngle, cmax, cmin]
  refine ⟨ha, ?_⟩
  rcases hue_close ⟨241, 27, 28⟩ with h | h
  · exfalso
    obtain ⟨n, hn, he⟩ := hue_range ⟨241, 27, 28⟩
    rw [he, ha, abs_le] at h
    have h1 : (359 : ℝ) < n := by linarith [h.1]
    have h2 : (n : ℝ) < 360 := by exact_mod_cast hn
    have : 359 < n := by exact_mod_cast h1
    omega
  · exact h.2

-- pure colours: red 0, green 120, blue 240
example : hexAngle ⟨255, 0, 0⟩ = 0 ∧ hexAngle ⟨0, 255, 0⟩ = 120 ∧ hexAngle ⟨0, 0, 255⟩ = 240 := by
  refine ⟨?_, ?_, ?_⟩ <;> norm_num [hexAngle, cmax, cmin]

-- forward: rgb(5,10,95) has l = 50/255, s = 90/100 (the crate's own test vector 237°, 90%, 19.6%)
example : stdL ⟨5, 10, 95⟩ = 50 / 255 ∧ stdSHsl ⟨5, 10, 95⟩ = 9 / 10 ∧
    (Hsl.from_Rgb (α := ℝ) ⟨5, 10, 95⟩).s = 90 := by
  have h1 : stdL ⟨5, 10, 95⟩ = 50 / 255 := by norm_num [stdL, cmax, cmin]
  have h2 : stdSHsl ⟨5, 10, 95⟩ = 9 / 10 := by
    rw [stdSHsl, h1]; norm_num [cmax, cmin, abs_of_nonpos]
  refine ⟨h1, h2, ?_⟩
  rw [(hsl_forward ⟨5, 10, 95⟩ (by norm_num) (by norm_num) (by norm_num)).2.1, h2]; norm_num

-- reverse: navy hsl(240, 100%, 25%) is the sector-4 point (0, 0, 1/2)
example : hslSector 240 100 25 = (0, 0, 1 / 2) := by
  have : ⌊(240 : ℝ) / 60 / 2⌋ = 2 := by norm_num
  norm_num [hslSector, this, abs_of_nonpos]

-- reverse: hsv(120, 100%, 50%) is (0, 1/2, 0)
example : hsvSector 120 100 50 = (0, 1 / 2, 0) := by
  have : ⌊(120 : ℝ) / 60⌋ = 2 := by norm_num
  norm_num [hsvSector, this]

-- the hypotheses of `hwb_reverse` are satisfiable
example : (0 : ℝ) ≤ 200 ∧ (200 : ℝ) < 360 ∧ (0 : ℝ) ≤ 30 ∧ (0 : ℝ) ≤ 20 ∧ (20 : ℝ) < 100 ∧
    (30 : ℝ) + 20 ≤ 100 := by norm_num

end Props.C09
