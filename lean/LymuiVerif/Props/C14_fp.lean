import LymuiVerif.Lemmas.FpPolar
import LymuiVerif.Props.C14
/-!
# C14 in the rounded-arithmetic reading — polar forms LCh(ab), LCh(uv), HCL, OkLCh

Every theorem is for EVERY `M : FPModel` (`Inst/Rounded.lean`): each `+ * /`, `sqrt`, literal and `π` is
the exact operation followed by `M.rnd`; `atan2`, `sin`, `cos` are `M.atan2/sin/cos` with the 1-ulp bound.
`x.powi(2)` is `rnd (1 * rnd (x * x))` (`FpPolar.powi_two`).  The specifications `chroma`, `hueDeg`, `hueRad`
are those of `Props/C14.lean` (exact reals); the inputs are the `.val`s of the computed Cartesian values.

`Lchlab` and `Lchuv` have no `From<Lab>` / `From<Luv>` in the crate (only `From<Xyz>`), so their forward
theorems relate `Lchlab.from_Xyz x` to the COMPUTED `Lab.from_Xyz x` (both in `RF M`), exactly as
`Props.C14.lchlab_forward` does over ℝ.

Results (sharper than the property's `1e-9`):
* chroma: `|c − √(a²+b²)| ≤ 6e-16·√(a²+b²) + 1e-100`, for ALL inputs (the magnitude hypotheses
  `|a|,|b| ≤ 500` of the `*_chroma_fp` forms are not used by the proofs: the model has no overflow; they
  delimit the range in which the no-overflow assumption of the model is evidently met).  The square root is
  relatively well conditioned, so no lower bound on the chroma is needed (`FpPolar.sqrt_rel`).
* lightness: copied exactly.
* hue (degrees): the computed unwrapped angle is within `2e-13` of `atan2(b,a)·180/π`.  The wrap branch
  (`h ≥ 0` / `h > 0` / `h < 0`) compares that computed angle with `0`, so it is STABLE only when the exact
  angle is not within rounding error of `0`: side condition `1e-12 ≤ |hueDeg a b|`; then the hue is within
  `1e-12` of the exact-real model's hue.  The side condition is necessary in the model: for an exact angle
  `0` (e.g. `b = 0 ≤ a`, every grey) `FPModel` allows `M.atan2` to return `±η`, so LCh(ab)/HCL may report
  `≈ 360` where the exact model reports `0` (LCh(uv): `≈ 0` for `360`).  Without the side condition the
  `*_hue_mod_fp` theorems give the hue within `1e-12` of the exact one up to one turn (`± 360`), and
  `*_hue_range_fp` give the range `[0, 360]` EXACTLY (rounding does not cross `0` or `360`).
* OkLCh hue (radians, no wrap): within `1e-15`, unconditionally.
* reverse: `|a − C·cos(h·π/180)| ≤ 1.1e-14·C + 1e-240`, likewise `b` and `sin`, for `C ≥ 0`, `h ∈ [0, 360]`
  (OkLCh: every real `h`, radians).
-/
namespace Props.C14
open Gen FpErr FpPolar

/-! ## Forward: chroma and lightness -/

/-- LCh(ab), sharp form, all inputs -/
theorem lchlab_chroma_sharp_fp (M : FPModel) (x : Xyz (RF M)) :
    (Lchlab.from_Xyz x).l = (Lab.from_Xyz x).l ∧
    |(Lchlab.from_Xyz x).c.val - chroma (Lab.from_Xyz x).a.val (Lab.from_Xyz x).b.val| ≤
      6e-16 * chroma (Lab.from_Xyz x).a.val (Lab.from_Xyz x).b.val + 1e-100 := by
  simp only [Lchlab.from_Xyz]
  generalize Lab.from_Xyz x = lab
  constructor
  · split_ifs <;> rfl
  · have h := chroma_powi_close M lab.a.val lab.b.val
    split_ifs <;> simpa only [chroma, FltRF.sqrt_val, FltRF.add_val, FltRF.powi_val] using h

/-- LCh(ab): chroma within `1e-9` relative (to `1 + chroma`) of `√(a²+b²)`; lightness copied exactly -/
theorem lchlab_chroma_fp (M : FPModel) (x : Xyz (RF M))
    (_ha : |(Lab.from_Xyz x).a.val| ≤ 500) (_hb : |(Lab.from_Xyz x).b.val| ≤ 500) :
    (Lchlab.from_Xyz x).l = (Lab.from_Xyz x).l ∧
    |(Lchlab.from_Xyz x).c.val - chroma (Lab.from_Xyz x).a.val (Lab.from_Xyz x).b.val| ≤
      1e-9 * (1 + chroma (Lab.from_Xyz x).a.val (Lab.from_Xyz x).b.val) :=
  ⟨(lchlab_chroma_sharp_fp M x).1,
    (chroma_bound_weaken (Real.sqrt_nonneg _) (lchlab_chroma_sharp_fp M x).2).2⟩

/-- LCh(uv), sharp form -/
theorem lchuv_chroma_sharp_fp (M : FPModel) (x : Xyz (RF M)) :
    (Lchuv.from_Xyz x).l = (Luv.from_Xyz x).l ∧
    |(Lchuv.from_Xyz x).c.val - chroma (Luv.from_Xyz x).u.val (Luv.from_Xyz x).v.val| ≤
      6e-16 * chroma (Luv.from_Xyz x).u.val (Luv.from_Xyz x).v.val + 1e-100 := by
  simp only [Lchuv.from_Xyz]
  generalize Luv.from_Xyz x = luv
  constructor
  · split_ifs <;> rfl
  · have h := chroma_powi_close M luv.u.val luv.v.val
    split_ifs <;> simpa only [chroma, FltRF.sqrt_val, FltRF.add_val, FltRF.powi_val] using h

theorem lchuv_chroma_fp (M : FPModel) (x : Xyz (RF M))
    (_hu : |(Luv.from_Xyz x).u.val| ≤ 500) (_hv : |(Luv.from_Xyz x).v.val| ≤ 500) :
    (Lchuv.from_Xyz x).l = (Luv.from_Xyz x).l ∧
    |(Lchuv.from_Xyz x).c.val - chroma (Luv.from_Xyz x).u.val (Luv.from_Xyz x).v.val| ≤
      1e-9 * (1 + chroma (Luv.from_Xyz x).u.val (Luv.from_Xyz x).v.val) :=
  ⟨(lchuv_chroma_sharp_fp M x).1,
    (chroma_bound_weaken (Real.sqrt_nonneg _) (lchuv_chroma_sharp_fp M x).2).2⟩

/-- HCL(uv) from CIELUV (the source writes `u * u + v * v`), sharp form -/
theorem hcl_chroma_sharp_fp (M : FPModel) (p : Luv (RF M)) :
    (Hcl.from_Luv p).l = p.l ∧
    |(Hcl.from_Luv p).c.val - chroma p.u.val p.v.val| ≤ 6e-16 * chroma p.u.val p.v.val + 1e-100 := by
  refine ⟨rfl, ?_⟩
  have h := chroma_mul_close M p.u.val p.v.val
  simpa only [Hcl.from_Luv, chroma, FltRF.sqrt_val, FltRF.add_val, FltRF.mul_val] using h

theorem hcl_chroma_fp (M : FPModel) (p : Luv (RF M)) (_hu : |p.u.val| ≤ 500) (_hv : |p.v.val| ≤ 500) :
    (Hcl.from_Luv p).l = p.l ∧
    |(Hcl.from_Luv p).c.val - chroma p.u.val p.v.val| ≤ 1e-9 * (1 + chroma p.u.val p.v.val) :=
  ⟨rfl, (chroma_bound_weaken (Real.sqrt_nonneg _) (hcl_chroma_sharp_fp M p).2).2⟩

/-- OkLCh from OkLab, sharp form -/
theorem oklch_chroma_sharp_fp (M : FPModel) (o : OkLab (RF M)) :
    (OkLch.from_OkLab o).l = o.l ∧
    |(OkLch.from_OkLab o).c.val - chroma o.a.val o.b.val| ≤ 6e-16 * chroma o.a.val o.b.val + 1e-100 := by
  refine ⟨rfl, ?_⟩
  have h := chroma_powi_close M o.a.val o.b.val
  simpa only [OkLch.from_OkLab, chroma, FltRF.sqrt_val, FltRF.add_val, FltRF.powi_val] using h

theorem oklch_chroma_fp (M : FPModel) (o : OkLab (RF M)) (_ha : |o.a.val| ≤ 500) (_hb : |o.b.val| ≤ 500) :
    (OkLch.from_OkLab o).l = o.l ∧
    |(OkLch.from_OkLab o).c.val - chroma o.a.val o.b.val| ≤ 1e-9 * (1 + chroma o.a.val o.b.val) :=
  ⟨rfl, (chroma_bound_weaken (Real.sqrt_nonneg _) (oklch_chroma_sharp_fp M o).2).2⟩

/-! ## Forward: hue -/

/-- LCh(ab): for an exact angle at least `1e-12°` away from the wrap point `0°`, the computed hue is within
`1e-12` of the exact-real model's hue (`Props.C14.lchlab_forward`: wrap `if 0 ≤ h then h else h + 360`). -/
theorem lchlab_hue_fp (M : FPModel) (x : Xyz (RF M))
    (hst : 1e-12 ≤ |hueDeg (Lab.from_Xyz x).a.val (Lab.from_Xyz x).b.val|) :
    |(Lchlab.from_Xyz x).h.val -
      (if 0 ≤ hueDeg (Lab.from_Xyz x).a.val (Lab.from_Xyz x).b.val
       then hueDeg (Lab.from_Xyz x).a.val (Lab.from_Xyz x).b.val
       else hueDeg (Lab.from_Xyz x).a.val (Lab.from_Xyz x).b.val + 360)| ≤ 1e-12 := by
  simp only [Lchlab.from_Xyz]
  generalize Lab.from_Xyz x = lab at *
  have hd := deg_atan2_val_close M lab.b lab.a
  have hr := hueDeg_range lab.a.val lab.b.val
  unfold hueDeg at *
  generalize Complex.arg ⟨lab.a.val, lab.b.val⟩ * 180 / Real.pi = H at *
  generalize F64.get_degree_from_radian (Flt.atan2 lab.b lab.a) = D at *
  have hs := (sign_stable hd hst).1
  simp only [FltRF.le_eq, decide_eq_true_eq, lit0_val, hs]
  split_ifs with h1
  · exact le_trans hd (by norm_num)
  · simp only [FltRF.add_val, lit360_val]
    exact le_trans (add360_close M hd (abs_le.mpr ⟨by linarith, hr.2⟩)) (by norm_num)

/-- LCh(ab): the computed hue lies in `[0, 360]`, for every input -/
theorem lchlab_hue_range_fp (M : FPModel) (x : Xyz (RF M)) :
    0 ≤ (Lchlab.from_Xyz x).h.val ∧ (Lchlab.from_Xyz x).h.val ≤ 360 := by
  simp only [Lchlab.from_Xyz]
  generalize Lab.from_Xyz x = lab at *
  have hd := abs_le.mp (deg_atan2_val_close M lab.b lab.a)
  have hr := hueDeg_range lab.a.val lab.b.val
  unfold hueDeg at *
  generalize Complex.arg ⟨lab.a.val, lab.b.val⟩ * 180 / Real.pi = H at *
  generalize F64.get_degree_from_radian (Flt.atan2 lab.b lab.a) = D at *
  simp only [FltRF.le_eq, decide_eq_true_eq, lit0_val]
  split_ifs with h1
  · exact ⟨h1, by linarith⟩
  · simp only [FltRF.add_val, lit360_val]
    exact add360_range M (by linarith) (by linarith)

/-- LCh(ab), no side condition: the computed hue is within `1e-12` of the exact-real model's hue up to one
turn (near the wrap point the two may sit on opposite ends of `[0, 360]`) -/
theorem lchlab_hue_mod_fp (M : FPModel) (x : Xyz (RF M)) :
    ∃ k : ℤ, (k = 0 ∨ k = 1 ∨ k = -1) ∧
    |(Lchlab.from_Xyz x).h.val -
      ((if 0 ≤ hueDeg (Lab.from_Xyz x).a.val (Lab.from_Xyz x).b.val
        then hueDeg (Lab.from_Xyz x).a.val (Lab.from_Xyz x).b.val
        else hueDeg (Lab.from_Xyz x).a.val (Lab.from_Xyz x).b.val + 360) + 360 * k)| ≤ 1e-12 := by
  simp only [Lchlab.from_Xyz]
  generalize Lab.from_Xyz x = lab at *
  have hd := deg_atan2_val_close M lab.b lab.a
  have hr := hueDeg_range lab.a.val lab.b.val
  unfold hueDeg at *
  generalize Complex.arg ⟨lab.a.val, lab.b.val⟩ * 180 / Real.pi = H at *
  generalize F64.get_degree_from_radian (Flt.atan2 lab.b lab.a) = D at *
  have h360 := add360_close M hd (abs_le.mpr ⟨by linarith, hr.2⟩)
  simp only [FltRF.le_eq, decide_eq_true_eq, lit0_val]
  split_ifs with h1 h2 h2
  · exact ⟨0, by simp, by simpa using le_trans hd (by norm_num)⟩
  · refine ⟨-1, by simp, ?_⟩
    have e : H + 360 + 360 * ((-1 : ℤ) : ℝ) = H := by push_cast; ring
    rw [e]; exact le_trans hd (by norm_num)
  · refine ⟨1, by simp, ?_⟩
    simp only [FltRF.add_val, lit360_val]
    have e : H + 360 * ((1 : ℤ) : ℝ) = H + 360 := by push_cast; ring
    rw [e]; exact le_trans h360 (by norm_num)
  · refine ⟨0, by simp, ?_⟩
    simp only [FltRF.add_val, lit360_val]
    simpa using le_trans h360 (by norm_num)

/-- LCh(uv): wrap `if 0 < h then h else h + 360` (`Props.C14.lchuv_forward`) -/
theorem lchuv_hue_fp (M : FPModel) (x : Xyz (RF M))
    (hst : 1e-12 ≤ |hueDeg (Luv.from_Xyz x).u.val (Luv.from_Xyz x).v.val|) :
    |(Lchuv.from_Xyz x).h.val -
      (if 0 < hueDeg (Luv.from_Xyz x).u.val (Luv.from_Xyz x).v.val
       then hueDeg (Luv.from_Xyz x).u.val (Luv.from_Xyz x).v.val
       else hueDeg (Luv.from_Xyz x).u.val (Luv.from_Xyz x).v.val + 360)| ≤ 1e-12 := by
  simp only [Lchuv.from_Xyz]
  generalize Luv.from_Xyz x = luv at *
  have hd := deg_atan2_val_close M luv.v luv.u
  have hr := hueDeg_range luv.u.val luv.v.val
  unfold hueDeg at *
  generalize Complex.arg ⟨luv.u.val, luv.v.val⟩ * 180 / Real.pi = H at *
  generalize F64.get_degree_from_radian (Flt.atan2 luv.v luv.u) = D at *
  have hs := (sign_stable hd hst).2.1
  simp only [FltRF.lt_eq, decide_eq_true_eq, lit0_val, hs]
  split_ifs with h1
  · exact le_trans hd (by norm_num)
  · simp only [FltRF.add_val, lit360_val]
    exact le_trans (add360_close M hd (abs_le.mpr ⟨by linarith, hr.2⟩)) (by norm_num)

/-- LCh(uv): the computed hue lies in `[0, 360]`, for every input (the exact model: `(0, 360]`) -/
theorem lchuv_hue_range_fp (M : FPModel) (x : Xyz (RF M)) :
    0 ≤ (Lchuv.from_Xyz x).h.val ∧ (Lchuv.from_Xyz x).h.val ≤ 360 := by
  simp only [Lchuv.from_Xyz]
  generalize Luv.from_Xyz x = luv at *
  have hd := abs_le.mp (deg_atan2_val_close M luv.v luv.u)
  have hr := hueDeg_range luv.u.val luv.v.val
  unfold hueDeg at *
  generalize Complex.arg ⟨luv.u.val, luv.v.val⟩ * 180 / Real.pi = H at *
  generalize F64.get_degree_from_radian (Flt.atan2 luv.v luv.u) = D at *
  simp only [FltRF.lt_eq, decide_eq_true_eq, lit0_val]
  split_ifs with h1
  · exact ⟨h1.le, by linarith⟩
  · simp only [FltRF.add_val, lit360_val]
    exact add360_range M (by linarith) (by linarith)

/-- LCh(uv), no side condition: within `1e-12` of the exact-real model's hue up to one turn -/
theorem lchuv_hue_mod_fp (M : FPModel) (x : Xyz (RF M)) :
    ∃ k : ℤ, (k = 0 ∨ k = 1 ∨ k = -1) ∧
    |(Lchuv.from_Xyz x).h.val -
      ((if 0 < hueDeg (Luv.from_Xyz x).u.val (Luv.from_Xyz x).v.val
        then hueDeg (Luv.from_Xyz x).u.val (Luv.from_Xyz x).v.val
        else hueDeg (Luv.from_Xyz x).u.val (Luv.from_Xyz x).v.val + 360) + 360 * k)| ≤ 1e-12 := by
  simp only [Lchuv.from_Xyz]
  generalize Luv.from_Xyz x = luv at *
  have hd := deg_atan2_val_close M luv.v luv.u
  have hr := hueDeg_range luv.u.val luv.v.val
  unfold hueDeg at *
  generalize Complex.arg ⟨luv.u.val, luv.v.val⟩ * 180 / Real.pi = H at *
  generalize F64.get_degree_from_radian (Flt.atan2 luv.v luv.u) = D at *
  have h360 := add360_close M hd (abs_le.mpr ⟨by linarith, hr.2⟩)
  simp only [FltRF.lt_eq, decide_eq_true_eq, lit0_val]
  split_ifs with h1 h2 h2
  · exact ⟨0, by simp, by simpa using le_trans hd (by norm_num)⟩
  · refine ⟨-1, by simp, ?_⟩
    have e : H + 360 + 360 * ((-1 : ℤ) : ℝ) = H := by push_cast; ring
    rw [e]; exact le_trans hd (by norm_num)
  · refine ⟨1, by simp, ?_⟩
    simp only [FltRF.add_val, lit360_val]
    have e : H + 360 * ((1 : ℤ) : ℝ) = H + 360 := by push_cast; ring
    rw [e]; exact le_trans h360 (by norm_num)
  · refine ⟨0, by simp, ?_⟩
    simp only [FltRF.add_val, lit360_val]
    simpa using le_trans h360 (by norm_num)

/-- HCL: `Hue::from(Luv)`, wrap `if h < 0 then h + 360 else h` (the `h > 360` branch is dead in the rounded
model too); `Props.C14.hcl_from_luv` is the exact-real statement. -/
theorem hcl_hue_fp (M : FPModel) (p : Luv (RF M)) (hst : 1e-12 ≤ |hueDeg p.u.val p.v.val|) :
    |(Hcl.from_Luv p).h.val -
      (if hueDeg p.u.val p.v.val < 0 then hueDeg p.u.val p.v.val + 360 else hueDeg p.u.val p.v.val)| ≤ 1e-12 := by
  simp only [Hcl.from_Luv, F64.from_Luv]
  have hd := deg_atan2_val_close M p.v p.u
  have hr := hueDeg_range p.u.val p.v.val
  unfold hueDeg at *
  generalize Complex.arg ⟨p.u.val, p.v.val⟩ * 180 / Real.pi = H at *
  generalize F64.get_degree_from_radian (Flt.atan2 p.v p.u) = D at *
  have hs := (sign_stable hd hst).2.2
  have hd' := abs_le.mp hd
  have hdead : ¬ (360 < D.val) := by linarith
  simp only [FltRF.lt_eq, decide_eq_true_eq, lit0_val, lit360_val, hs, hdead, if_false]
  split_ifs with h1
  · simp only [FltRF.add_val, lit360_val]
    exact le_trans (add360_close M hd (abs_le.mpr ⟨by linarith, hr.2⟩)) (by norm_num)
  · exact le_trans hd (by norm_num)

/-- HCL: the computed hue lies in `[0, 360]`, for every input -/
theorem hcl_hue_range_fp (M : FPModel) (p : Luv (RF M)) :
    0 ≤ (Hcl.from_Luv p).h.val ∧ (Hcl.from_Luv p).h.val ≤ 360 := by
  simp only [Hcl.from_Luv, F64.from_Luv]
  have hd := abs_le.mp (deg_atan2_val_close M p.v p.u)
  have hr := hueDeg_range p.u.val p.v.val
  unfold hueDeg at *
  generalize Complex.arg ⟨p.u.val, p.v.val⟩ * 180 / Real.pi = H at *
  generalize F64.get_degree_from_radian (Flt.atan2 p.v p.u) = D at *
  have hdead : ¬ (360 < D.val) := by linarith
  simp only [FltRF.lt_eq, decide_eq_true_eq, lit0_val, lit360_val, hdead, if_false]
  split_ifs with h1
  · simp only [FltRF.add_val, lit360_val]
    exact add360_range M h1.le (by linarith)
  · exact ⟨not_lt.mp h1, by linarith⟩

/-- HCL, no side condition: within `1e-12` of the exact-real model's hue up to one turn -/
theorem hcl_hue_mod_fp (M : FPModel) (p : Luv (RF M)) :
    ∃ k : ℤ, (k = 0 ∨ k = 1 ∨ k = -1) ∧
    |(Hcl.from_Luv p).h.val -
      ((if hueDeg p.u.val p.v.val < 0 then hueDeg p.u.val p.v.val + 360 else hueDeg p.u.val p.v.val) + 360 * k)|
      ≤ 1e-12 := by
  simp only [Hcl.from_Luv, F64.from_Luv]
  have hd := deg_atan2_val_close M p.v p.u
  have hr := hueDeg_range p.u.val p.v.val
  unfold hueDeg at *
  generalize Complex.arg ⟨p.u.val, p.v.val⟩ * 180 / Real.pi = H at *
  generalize F64.get_degree_from_radian (Flt.atan2 p.v p.u) = D at *
  have hd' := abs_le.mp hd
  have hdead : ¬ (360 < D.val) := by linarith
  have h360 := add360_close M hd (abs_le.mpr ⟨by linarith, hr.2⟩)
  simp only [FltRF.lt_eq, decide_eq_true_eq, lit0_val, lit360_val, hdead, if_false]
  split_ifs with h1 h2 h2
  · refine ⟨0, by simp, ?_⟩
    simp only [FltRF.add_val, lit360_val]
    simpa using le_trans h360 (by norm_num)
  · refine ⟨1, by simp, ?_⟩
    simp only [FltRF.add_val, lit360_val]
    have e : H + 360 * ((1 : ℤ) : ℝ) = H + 360 := by push_cast; ring
    rw [e]; exact le_trans h360 (by norm_num)
  · refine ⟨-1, by simp, ?_⟩
    have e : H + 360 + 360 * ((-1 : ℤ) : ℝ) = H := by push_cast; ring
    rw [e]; exact le_trans hd (by norm_num)
  · exact ⟨0, by simp, by simpa using le_trans hd (by norm_num)⟩

/-- OkLCh: the hue is the libm `atan2` in radians, unwrapped: within `1e-15` of `atan2(b, a)` for every
input, and in `[-π - 1e-15, π + 1e-15]` -/
theorem oklch_hue_fp (M : FPModel) (o : OkLab (RF M)) :
    |(OkLch.from_OkLab o).h.val - hueRad o.a.val o.b.val| ≤ 1e-15 ∧
    -Real.pi - 1e-15 ≤ (OkLch.from_OkLab o).h.val ∧ (OkLch.from_OkLab o).h.val ≤ Real.pi + 1e-15 := by
  have h : |(OkLch.from_OkLab o).h.val - hueRad o.a.val o.b.val| ≤ 1e-15 := by
    simp only [OkLch.from_OkLab, FltRF.atan2_val, hueRad]
    exact atan2_close' M o.b.val o.a.val
  have h1 := Complex.neg_pi_lt_arg ⟨o.a.val, o.b.val⟩
  have h2 := Complex.arg_le_pi ⟨o.a.val, o.b.val⟩
  obtain ⟨k1, k2⟩ := abs_le.mp h
  unfold hueRad at *
  exact ⟨h, by linarith, by linarith⟩

/-! ## Reverse: polar → Cartesian -/

/-- `Lab::from(Lchlab)`, sharp form: relative to the chroma -/
theorem lchlab_reverse_sharp_fp (M : FPModel) (p : Lchlab (RF M)) (hc0 : 0 ≤ p.c.val)
    (hh0 : 0 ≤ p.h.val) (hh1 : p.h.val ≤ 360) :
    (Lab.from_Lchlab p).l = p.l ∧
    |(Lab.from_Lchlab p).a.val - p.c.val * Real.cos (p.h.val * Real.pi / 180)| ≤ 1.1e-14 * p.c.val + 1e-240 ∧
    |(Lab.from_Lchlab p).b.val - p.c.val * Real.sin (p.h.val * Real.pi / 180)| ≤ 1.1e-14 * p.c.val + 1e-240 := by
  have hr := rad_val_close M p.h hh0 hh1
  have he := eta_lt'
  refine ⟨rfl, ?_, ?_⟩
  · simp only [Lab.from_Lchlab, FltRF.mul_val, FltRF.cos_val]
    have := polar_mul_close M hc0 (cos_close M hr) (Real.abs_cos_le_one _) (by norm_num)
    linarith
  · simp only [Lab.from_Lchlab, FltRF.mul_val, FltRF.sin_val]
    have := polar_mul_close M hc0 (sin_close M hr) (Real.abs_sin_le_one _) (by norm_num)
    linarith

/-- `Lab::from(Lchlab)`: for chroma in `[0, 500]` and hue in `[0, 360]` the computed `a`, `b` are within
`1e-9·(1 + C)` of `C·cos h`, `C·sin h` (`h` in radians `= h°·π/180`); lightness copied exactly -/
theorem lchlab_reverse_fp (M : FPModel) (p : Lchlab (RF M)) (hc0 : 0 ≤ p.c.val) (_hc1 : p.c.val ≤ 500)
    (hh0 : 0 ≤ p.h.val) (hh1 : p.h.val ≤ 360) :
    (Lab.from_Lchlab p).l = p.l ∧
    |(Lab.from_Lchlab p).a.val - p.c.val * Real.cos (p.h.val * Real.pi / 180)| ≤ 1e-9 * (1 + p.c.val) ∧
    |(Lab.from_Lchlab p).b.val - p.c.val * Real.sin (p.h.val * Real.pi / 180)| ≤ 1e-9 * (1 + p.c.val) := by
  obtain ⟨h1, h2, h3⟩ := lchlab_reverse_sharp_fp M p hc0 hh0 hh1
  exact ⟨h1, by linarith, by linarith⟩

/-- `Luv::from(Lchuv)`, sharp form -/
theorem lchuv_reverse_sharp_fp (M : FPModel) (p : Lchuv (RF M)) (hc0 : 0 ≤ p.c.val)
    (hh0 : 0 ≤ p.h.val) (hh1 : p.h.val ≤ 360) :
    (Luv.from_Lchuv p).l = p.l ∧
    |(Luv.from_Lchuv p).u.val - p.c.val * Real.cos (p.h.val * Real.pi / 180)| ≤ 1.1e-14 * p.c.val + 1e-240 ∧
    |(Luv.from_Lchuv p).v.val - p.c.val * Real.sin (p.h.val * Real.pi / 180)| ≤ 1.1e-14 * p.c.val + 1e-240 := by
  have hr := rad_val_close M p.h hh0 hh1
  have he := eta_lt'
  refine ⟨rfl, ?_, ?_⟩
  · simp only [Luv.from_Lchuv, FltRF.mul_val, FltRF.cos_val]
    have := polar_mul_close M hc0 (cos_close M hr) (Real.abs_cos_le_one _) (by norm_num)
    linarith
  · simp only [Luv.from_Lchuv, FltRF.mul_val, FltRF.sin_val]
    have := polar_mul_close M hc0 (sin_close M hr) (Real.abs_sin_le_one _) (by norm_num)
    linarith

theorem lchuv_reverse_fp (M : FPModel) (p : Lchuv (RF M)) (hc0 : 0 ≤ p.c.val) (_hc1 : p.c.val ≤ 500)
    (hh0 : 0 ≤ p.h.val) (hh1 : p.h.val ≤ 360) :
    (Luv.from_Lchuv p).l = p.l ∧
    |(Luv.from_Lchuv p).u.val - p.c.val * Real.cos (p.h.val * Real.pi / 180)| ≤ 1e-9 * (1 + p.c.val) ∧
    |(Luv.from_Lchuv p).v.val - p.c.val * Real.sin (p.h.val * Real.pi / 180)| ≤ 1e-9 * (1 + p.c.val) := by
  obtain ⟨h1, h2, h3⟩ := lchuv_reverse_sharp_fp M p hc0 hh0 hh1
  exact ⟨h1, by linarith, by linarith⟩

/-- `Luv::from(Hcl)`, sharp form -/
theorem hcl_reverse_sharp_fp (M : FPModel) (p : Hcl (RF M)) (hc0 : 0 ≤ p.c.val)
    (hh0 : 0 ≤ p.h.val) (hh1 : p.h.val ≤ 360) :
    (Luv.from_Hcl p).l = p.l ∧
    |(Luv.from_Hcl p).u.val - p.c.val * Real.cos (p.h.val * Real.pi / 180)| ≤ 1.1e-14 * p.c.val + 1e-240 ∧
    |(Luv.from_Hcl p).v.val - p.c.val * Real.sin (p.h.val * Real.pi / 180)| ≤ 1.1e-14 * p.c.val + 1e-240 := by
  have hr := rad_val_close M p.h hh0 hh1
  have he := eta_lt'
  refine ⟨rfl, ?_, ?_⟩
  · simp only [Luv.from_Hcl, FltRF.mul_val, FltRF.cos_val]
    have := polar_mul_close M hc0 (cos_close M hr) (Real.abs_cos_le_one _) (by norm_num)
    linarith
  · simp only [Luv.from_Hcl, FltRF.mul_val, FltRF.sin_val]
    have := polar_mul_close M hc0 (sin_close M hr) (Real.abs_sin_le_one _) (by norm_num)
    linarith

theorem hcl_reverse_fp (M : FPModel) (p : Hcl (RF M)) (hc0 : 0 ≤ p.c.val) (_hc1 : p.c.val ≤ 500)
    (hh0 : 0 ≤ p.h.val) (hh1 : p.h.val ≤ 360) :
    (Luv.from_Hcl p).l = p.l ∧
    |(Luv.from_Hcl p).u.val - p.c.val * Real.cos (p.h.val * Real.pi / 180)| ≤ 1e-9 * (1 + p.c.val) ∧
    |(Luv.from_Hcl p).v.val - p.c.val * Real.sin (p.h.val * Real.pi / 180)| ≤ 1e-9 * (1 + p.c.val) := by
  obtain ⟨h1, h2, h3⟩ := hcl_reverse_sharp_fp M p hc0 hh0 hh1
  exact ⟨h1, by linarith, by linarith⟩

/-- `OkLab::from(OkLch)` (hue in radians, used as is: any real hue), sharp form -/
theorem oklch_reverse_sharp_fp (M : FPModel) (p : OkLch (RF M)) (hc0 : 0 ≤ p.c.val) :
    (OkLab.from_OkLch p).l = p.l ∧
    |(OkLab.from_OkLch p).a.val - p.c.val * Real.cos p.h.val| ≤ 1.1e-14 * p.c.val + 1e-240 ∧
    |(OkLab.from_OkLch p).b.val - p.c.val * Real.sin p.h.val| ≤ 1.1e-14 * p.c.val + 1e-240 := by
  have hr : |p.h.val - p.h.val| ≤ 0 := by simp
  have he := eta_lt'
  refine ⟨rfl, ?_, ?_⟩
  · simp only [OkLab.from_OkLch, FltRF.mul_val, FltRF.cos_val]
    have := polar_mul_close M hc0 (cos_close M hr) (Real.abs_cos_le_one _) (by norm_num)
    linarith
  · simp only [OkLab.from_OkLch, FltRF.mul_val, FltRF.sin_val]
    have := polar_mul_close M hc0 (sin_close M hr) (Real.abs_sin_le_one _) (by norm_num)
    linarith

theorem oklch_reverse_fp (M : FPModel) (p : OkLch (RF M)) (hc0 : 0 ≤ p.c.val) (_hc1 : p.c.val ≤ 500) :
    (OkLab.from_OkLch p).l = p.l ∧
    |(OkLab.from_OkLch p).a.val - p.c.val * Real.cos p.h.val| ≤ 1e-9 * (1 + p.c.val) ∧
    |(OkLab.from_OkLch p).b.val - p.c.val * Real.sin p.h.val| ≤ 1e-9 * (1 + p.c.val) := by
  obtain ⟨h1, h2, h3⟩ := oklch_reverse_sharp_fp M p hc0
  exact ⟨h1, by linarith, by linarith⟩

/-! ## The same, stated against the generated code read over ℝ (`Props/C14.lean`'s model)

For the conversions whose argument is the Cartesian value itself, the rounded evaluation is compared with the
exact-real evaluation of the SAME generated function at the same input. -/

/-- HCL from CIELUV: rounded model against exact-real model, all three fields -/
theorem hcl_forward_vs_real_fp (M : FPModel) (p : Luv (RF M)) (hst : 1e-12 ≤ |hueDeg p.u.val p.v.val|) :
    let q : Hcl ℝ := Hcl.from_Luv (⟨p.l.val, p.u.val, p.v.val⟩ : Luv ℝ)
    (Hcl.from_Luv p).l.val = q.l ∧
    |(Hcl.from_Luv p).c.val - q.c| ≤ 1e-9 * (1 + q.c) ∧
    |(Hcl.from_Luv p).h.val - q.h| ≤ 1e-12 := by
  intro q
  obtain ⟨h1, h2, h3⟩ := hcl_from_luv (⟨p.l.val, p.u.val, p.v.val⟩ : Luv ℝ)
  simp only [q, h1, h2, h3]
  exact ⟨rfl, (chroma_bound_weaken (Real.sqrt_nonneg _) (hcl_chroma_sharp_fp M p).2).2, hcl_hue_fp M p hst⟩

/-- OkLCh from OkLab: rounded model against exact-real model, all three fields, every input -/
theorem oklch_forward_vs_real_fp (M : FPModel) (o : OkLab (RF M)) :
    let q : OkLch ℝ := OkLch.from_OkLab (⟨o.l.val, o.a.val, o.b.val⟩ : OkLab ℝ)
    (OkLch.from_OkLab o).l.val = q.l ∧
    |(OkLch.from_OkLab o).c.val - q.c| ≤ 1e-9 * (1 + q.c) ∧
    |(OkLch.from_OkLab o).h.val - q.h| ≤ 1e-15 := by
  intro q
  obtain ⟨h1, h2, h3⟩ := oklch_from_oklab (⟨o.l.val, o.a.val, o.b.val⟩ : OkLab ℝ)
  simp only [q, h1, h2, h3]
  exact ⟨rfl, (chroma_bound_weaken (Real.sqrt_nonneg _) (oklch_chroma_sharp_fp M o).2).2, (oklch_hue_fp M o).1⟩

/-- `Lab::from(Lchlab)`: rounded model against exact-real model -/
theorem lchlab_reverse_vs_real_fp (M : FPModel) (p : Lchlab (RF M)) (hc0 : 0 ≤ p.c.val) (hc1 : p.c.val ≤ 500)
    (hh0 : 0 ≤ p.h.val) (hh1 : p.h.val ≤ 360) :
    let q : Lab ℝ := Lab.from_Lchlab (⟨p.l.val, p.c.val, p.h.val⟩ : Lchlab ℝ)
    (Lab.from_Lchlab p).l.val = q.l ∧
    |(Lab.from_Lchlab p).a.val - q.a| ≤ 1e-9 * (1 + p.c.val) ∧
    |(Lab.from_Lchlab p).b.val - q.b| ≤ 1e-9 * (1 + p.c.val) := by
  intro q
  obtain ⟨_, h2, h3⟩ := lchlab_reverse_fp M p hc0 hc1 hh0 hh1
  simp only [q, lab_from_lchlab_def]
  exact ⟨rfl, h2, h3⟩

theorem lchuv_reverse_vs_real_fp (M : FPModel) (p : Lchuv (RF M)) (hc0 : 0 ≤ p.c.val) (hc1 : p.c.val ≤ 500)
    (hh0 : 0 ≤ p.h.val) (hh1 : p.h.val ≤ 360) :
    let q : Luv ℝ := Luv.from_Lchuv (⟨p.l.val, p.c.val, p.h.val⟩ : Lchuv ℝ)
    (Luv.from_Lchuv p).l.val = q.l ∧
    |(Luv.from_Lchuv p).u.val - q.u| ≤ 1e-9 * (1 + p.c.val) ∧
    |(Luv.from_Lchuv p).v.val - q.v| ≤ 1e-9 * (1 + p.c.val) := by
  intro q
  obtain ⟨_, h2, h3⟩ := lchuv_reverse_fp M p hc0 hc1 hh0 hh1
  simp only [q, luv_from_lchuv_def]
  exact ⟨rfl, h2, h3⟩

/-- note the field order of `Hcl`: `h, c, l` -/
theorem hcl_reverse_vs_real_fp (M : FPModel) (p : Hcl (RF M)) (hc0 : 0 ≤ p.c.val) (hc1 : p.c.val ≤ 500)
    (hh0 : 0 ≤ p.h.val) (hh1 : p.h.val ≤ 360) :
    let q : Luv ℝ := Luv.from_Hcl (⟨p.h.val, p.c.val, p.l.val⟩ : Hcl ℝ)
    (Luv.from_Hcl p).l.val = q.l ∧
    |(Luv.from_Hcl p).u.val - q.u| ≤ 1e-9 * (1 + p.c.val) ∧
    |(Luv.from_Hcl p).v.val - q.v| ≤ 1e-9 * (1 + p.c.val) := by
  intro q
  obtain ⟨_, h2, h3⟩ := hcl_reverse_fp M p hc0 hc1 hh0 hh1
  simp only [q, luv_from_hcl_def]
  exact ⟨rfl, h2, h3⟩

theorem oklch_reverse_vs_real_fp (M : FPModel) (p : OkLch (RF M)) (hc0 : 0 ≤ p.c.val) (hc1 : p.c.val ≤ 500) :
    let q : OkLab ℝ := OkLab.from_OkLch (⟨p.l.val, p.c.val, p.h.val⟩ : OkLch ℝ)
    (OkLab.from_OkLch p).l.val = q.l ∧
    |(OkLab.from_OkLch p).a.val - q.a| ≤ 1e-9 * (1 + p.c.val) ∧
    |(OkLab.from_OkLch p).b.val - q.b| ≤ 1e-9 * (1 + p.c.val) := by
  intro q
  obtain ⟨_, h2, h3⟩ := oklch_reverse_fp M p hc0 hc1
  simp only [q, oklab_from_oklch_def]
  exact ⟨rfl, h2, h3⟩

/-! ## Examples: the hypotheses are satisfiable; instances at `FPModel.exact` and at concrete colours -/

example : chroma 3 4 = 5 := by
  unfold chroma
  rw [show (3 : ℝ) ^ 2 + 4 ^ 2 = 5 ^ 2 by norm_num]
  exact Real.sqrt_sq (by norm_num)

/-- the vector `(0, 1)` has hue `90°`: the side condition of the `*_hue_fp` theorems holds -/
example : hueDeg 0 1 = 90 ∧ (1e-12 : ℝ) ≤ |hueDeg 0 1| := by
  have h : hueDeg 0 1 = 90 := by
    unfold hueDeg
    rw [show (⟨0, 1⟩ : ℂ) = Complex.I from rfl, Complex.arg_I]
    have := Real.pi_pos
    field_simp; norm_num
  rw [h]; norm_num

/-- HCL of the CIELUV value `(50, 3, 4)` in the identity model: chroma within `1e-9·6` of `5` -/
example : |(Hcl.from_Luv (⟨⟨50⟩, ⟨3⟩, ⟨4⟩⟩ : Luv (RF FPModel.exact))).c.val - chroma 3 4| ≤ 1e-9 * (1 + chroma 3 4) :=
  (hcl_chroma_fp FPModel.exact ⟨⟨50⟩, ⟨3⟩, ⟨4⟩⟩ (by norm_num) (by norm_num)).2

/-- ... and for EVERY model, with the hue of `(0, 1)` -/
example (M : FPModel) : |(Hcl.from_Luv (⟨⟨50⟩, ⟨0⟩, ⟨1⟩⟩ : Luv (RF M))).h.val - 90| ≤ 1e-12 := by
  have h : hueDeg 0 1 = 90 := by
    unfold hueDeg
    rw [show (⟨0, 1⟩ : ℂ) = Complex.I from rfl, Complex.arg_I]
    have := Real.pi_pos
    field_simp; norm_num
  have := hcl_hue_fp M ⟨⟨50⟩, ⟨0⟩, ⟨1⟩⟩ (by simp only [h]; norm_num)
  simp only [h] at this
  rw [if_neg (by norm_num)] at this
  exact this

/-- reverse: `(L, C, h) = (50, 30, 90)` satisfies the hypotheses -/
example (M : FPModel) :
    |(Lab.from_Lchlab (⟨⟨50⟩, ⟨30⟩, ⟨90⟩⟩ : Lchlab (RF M))).a.val - 30 * Real.cos (90 * Real.pi / 180)| ≤ 1e-9 * (1 + 30) :=
  (lchlab_reverse_fp M ⟨⟨50⟩, ⟨30⟩, ⟨90⟩⟩ (by norm_num) (by norm_num) (by norm_num) (by norm_num)).2.1

example : |(OkLab.from_OkLch (⟨⟨0.5⟩, ⟨0.1⟩, ⟨2⟩⟩ : OkLch (RF FPModel.exact))).b.val - 0.1 * Real.sin 2| ≤ 1e-9 * (1 + 0.1) :=
  (oklch_reverse_fp FPModel.exact ⟨⟨0.5⟩, ⟨0.1⟩, ⟨2⟩⟩ (by norm_num) (by norm_num)).2.2

/-- The side condition of `hcl_hue_fp` is necessary in the class `FPModel`: in the model `FpPolar.atan2Low`
(exact arithmetic, `atan2` low by `η`, within the 1-ulp bound) the CIELUV value `(50, 1, 0)` — exact hue `0` —
gets the HCL hue `360 − 180η/π ≥ 359`.  (IEEE `atan2(+0, 1)` is exactly `+0`; `FPModel` does not record that.) -/
example : ∃ (M : FPModel) (p : Luv (RF M)),
    (if hueDeg p.u.val p.v.val < 0 then hueDeg p.u.val p.v.val + 360 else hueDeg p.u.val p.v.val) = 0 ∧
    359 ≤ (Hcl.from_Luv p).h.val := by
  refine ⟨atan2Low, ⟨⟨50⟩, ⟨1⟩, ⟨0⟩⟩, ?_, ?_⟩
  · have h : hueDeg 1 0 = 0 := (hueDeg_eq_zero_iff 1 0).mpr ⟨by norm_num, rfl⟩
    simp [h]
  · have harg : Complex.arg ⟨1, 0⟩ = 0 := Complex.arg_eq_zero_iff.mpr ⟨by norm_num, rfl⟩
    have hη := FP.eta_pos
    have hη' := eta_lt'
    have hpi := Real.pi_gt_three
    have hD : (F64.get_degree_from_radian (Flt.atan2 (⟨0⟩ : RF atan2Low) ⟨1⟩)).val = 180 * (-FP.eta) / Real.pi := by
      rw [deg_val, FltRF.atan2_val]
      simp [atan2Low, FPModel.exact, harg]
    have hneg : 180 * (-FP.eta) / Real.pi < 0 := by
      apply div_neg_of_neg_of_pos <;> linarith
    have hlow : -1 ≤ 180 * (-FP.eta) / Real.pi := by
      rw [le_div_iff₀ Real.pi_pos]; nlinarith
    simp only [Hcl.from_Luv, F64.from_Luv, FltRF.lt_eq, decide_eq_true_eq, lit0_val, lit360_val, hD]
    rw [if_neg (by linarith), if_pos hneg]
    simp only [FltRF.add_val, lit360_val, hD]
    show 359 ≤ 180 * (-FP.eta) / Real.pi + 360
    linarith

end Props.C14
