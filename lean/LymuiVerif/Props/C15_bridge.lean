import LymuiVerif.Gen.Model
import LymuiVerif.Props.C15
import LymuiVerif.Lemmas.HexBridge
/-!
# C15 (bridge) — the functions GENERATED from the MIR of `hex.rs` agree with the hand model, and the C15
theorems hold of the generated functions

Part 1: `Gen.Hex.strip`, `Gen.Hex.unshorten`, the closure `parse` of `Gen.Hex.get_u8_parts`,
`Gen.Hex.get_u8_parts`, `Gen.Rgb.try_from_Hex` and `Gen.Hex.from_Rgb` (all translated from rustc MIR, over the
`std` shims of `Core/StrShims.lean`) agree with `Gen.HexHand.*` (`Core/Hex.lean`).  For the fallible functions
"agree" means: both succeed with the same value or both fail; the error payloads are NOT compared (the
generated code renders the real message `"<part> is not a hexadecimal value"`, the hand model does not).

Part 2: every theorem of `Props/C15.lean` restated about the generated functions.  The specification
(`Props.C15.spelled`, `isHexDigit`, `digitVal`, `lowerHexDigit`, ...) is the one of `Props/C15.lean`.
The only change of statement: `format_canonical`/`format_length` need the channels to be bytes (`≤ 255`), because the
generated formatter writes `{:x}` without truncation (a channel `≥ 256`, impossible for a `u8`, would give
three digits), whereas the hand model writes two digits whatever the value.
-/
namespace Props.C15_bridge
open Gen Props.C15

/-! ## Part 1: generated = hand model -/

theorem strip_eq (h : Hex) : (Gen.Hex.strip h)._0 = HexHand.Hex.strip h._0 := Lemmas.HexBridge.strip_eq h

theorem unshorten_eq (h : Hex) : (Gen.Hex.unshorten h)._0 = HexHand.Hex.unshorten h._0 :=
  Lemmas.HexBridge.unshorten_eq h

/-- the closure `parse`: same value on success, failure together -/
theorem parse_part_eq (s : Str) :
    (match Gen.Hex.get_u8_parts.closure0 () s with | .ok v => some v | .error _ => none)
      = HexHand.Hex.parsePart s := by
  rw [← Lemmas.HexBridge.parse_part_eq s]
  cases Gen.Hex.get_u8_parts.closure0 () s <;> rfl

/-- `get_u8_parts`: same triple on success, failure together -/
theorem get_u8_parts_eq (h : Hex) :
    (Gen.Hex.get_u8_parts h).1.toOption = (HexHand.Hex.get_u8_parts h._0).toOption :=
  Lemmas.HexBridge.get_u8_parts_eq h

/-- the `self` that `get_u8_parts` hands back (it takes `self` by value and mutates it) is the stripped text -/
theorem get_u8_parts_self (h : Hex) : (Gen.Hex.get_u8_parts h).2 = Gen.Hex.strip h :=
  Lemmas.HexBridge.get_u8_parts_self h

/-- `Rgb::try_from(Hex)`: same colour on success, failure together -/
theorem try_from_eq (h : Hex) :
    (Gen.Rgb.try_from_Hex h).toOption = (HexHand.Rgb.try_from_Hex h).toOption :=
  Lemmas.HexBridge.try_from_eq h

theorem try_from_ok_iff (h : Hex) (c : Rgb) :
    Gen.Rgb.try_from_Hex h = .ok c ↔ HexHand.Rgb.try_from_Hex h = .ok c := Lemmas.HexBridge.try_from_ok_iff h c

theorem try_from_error_iff (h : Hex) :
    (∃ e, Gen.Rgb.try_from_Hex h = .error e) ↔ (∃ e, HexHand.Rgb.try_from_Hex h = .error e) :=
  Lemmas.HexBridge.try_from_error_iff h

/-- `Hex::from(Rgb)` on an 8-bit colour: the same text -/
theorem from_rgb_eq (c : Rgb) (hr : c.r ≤ 255) (hg : c.g ≤ 255) (hb : c.b ≤ 255) :
    Gen.Hex.from_Rgb c = HexHand.Hex.from_Rgb c := Lemmas.HexBridge.from_rgb_eq c hr hg hb

/-! ## Part 2: the C15 theorems, about the generated functions -/

/-! ### parsing: the characterisation on ALL strings -/

/-- **Totality**: on every string the generated parser returns `Ok` or `Err`, and which of the two is decided
by `spelled` -/
theorem parse_spec (s : Str) :
    (∃ r g b, Gen.Rgb.try_from_Hex ⟨s⟩ = .ok ⟨r, g, b⟩ ∧ spelled s = some (r, g, b)) ∨
    (∃ e, Gen.Rgb.try_from_Hex ⟨s⟩ = .error e ∧ spelled s = none) := by
  rcases Props.C15.parse_spec s with ⟨r, g, b, h1, h2⟩ | ⟨e, h1, h2⟩
  · exact .inl ⟨r, g, b, (try_from_ok_iff _ _).2 h1, h2⟩
  · obtain ⟨e', h'⟩ := (try_from_error_iff ⟨s⟩).2 ⟨e, h1⟩
    exact .inr ⟨e', h', h2⟩

/-- **parse_faithful + parse_complete**: parsing succeeds with colour `c` exactly when the text spells `c` -/
theorem parse_iff (s : Str) (c : Rgb) :
    Gen.Rgb.try_from_Hex ⟨s⟩ = .ok c ↔ spelled s = some (c.r, c.g, c.b) :=
  (try_from_ok_iff _ _).trans (Props.C15.parse_iff s c)

theorem parse_faithful (s : Str) (c : Rgb) (h : Gen.Rgb.try_from_Hex ⟨s⟩ = .ok c) :
    spelled s = some (c.r, c.g, c.b) := (parse_iff s c).1 h

theorem parse_complete (s : Str) (r g b : Nat) (h : spelled s = some (r, g, b)) :
    Gen.Rgb.try_from_Hex ⟨s⟩ = .ok ⟨r, g, b⟩ := (parse_iff s ⟨r, g, b⟩).2 h

/-- a text that does not spell a colour is rejected with an error, never mapped to a colour -/
theorem parse_rejects (s : Str) (h : spelled s = none) : ∃ e, Gen.Rgb.try_from_Hex ⟨s⟩ = .error e :=
  (try_from_error_iff _).2 (Props.C15.parse_rejects s h)

/-- `Ok` or `Err` on every input, decided by the text (see `parse_spec`) -/
theorem parse_total (s : Str) :
    (∃ c, Gen.Rgb.try_from_Hex ⟨s⟩ = .ok c) ∨ (∃ e, Gen.Rgb.try_from_Hex ⟨s⟩ = .error e) := by
  rcases parse_spec s with ⟨r, g, b, h1, _⟩ | ⟨e, h1, _⟩
  · exact .inl ⟨_, h1⟩
  · exact .inr ⟨e, h1⟩

/-! ### explicit readings -/

theorem parse_faithful_long (s : Str) (c : Rgb) (hlen : 4 < byteLength s)
    (h : Gen.Rgb.try_from_Hex ⟨s⟩ = .ok c) :
    ∃ d0 d1 d2 d3 d4 d5 rest, stripHash s = d0 :: d1 :: d2 :: d3 :: d4 :: d5 :: rest ∧
      isHexDigit d0 ∧ isHexDigit d1 ∧ isHexDigit d2 ∧ isHexDigit d3 ∧ isHexDigit d4 ∧ isHexDigit d5 ∧
      c = ⟨16 * digitVal d0 + digitVal d1, 16 * digitVal d2 + digitVal d3, 16 * digitVal d4 + digitVal d5⟩ :=
  Props.C15.parse_faithful_long s c hlen ((try_from_ok_iff _ _).1 h)

theorem parse_faithful_short (s : Str) (c : Rgb) (hlen : byteLength s ≤ 4)
    (h : Gen.Rgb.try_from_Hex ⟨s⟩ = .ok c) :
    ∃ d0 d1 d2 rest, stripHash s = d0 :: d1 :: d2 :: rest ∧
      isHexDigit d0 ∧ isHexDigit d1 ∧ isHexDigit d2 ∧
      c = ⟨16 * digitVal d0 + digitVal d0, 16 * digitVal d1 + digitVal d1, 16 * digitVal d2 + digitVal d2⟩ :=
  Props.C15.parse_faithful_short s c hlen ((try_from_ok_iff _ _).1 h)

/-- the result of a successful parse is an 8-bit colour -/
theorem parse_result_u8 (s : Str) (c : Rgb) (h : Gen.Rgb.try_from_Hex ⟨s⟩ = .ok c) :
    c.r ≤ 255 ∧ c.g ≤ 255 ∧ c.b ≤ 255 := Props.C15.parse_result_u8 s c ((try_from_ok_iff _ _).1 h)

/-! ### acceptance: three or six digits, either case, with or without '#' -/

theorem parse_accepts_six (d0 d1 d2 d3 d4 d5 : Nat) (rest : Str)
    (h0 : isHexDigit d0) (h1 : isHexDigit d1) (h2 : isHexDigit d2)
    (h3 : isHexDigit d3) (h4 : isHexDigit d4) (h5 : isHexDigit d5) :
    Gen.Rgb.try_from_Hex ⟨d0 :: d1 :: d2 :: d3 :: d4 :: d5 :: rest⟩ =
      .ok ⟨16 * digitVal d0 + digitVal d1, 16 * digitVal d2 + digitVal d3, 16 * digitVal d4 + digitVal d5⟩ :=
  (try_from_ok_iff _ _).2 (Props.C15.parse_accepts_six d0 d1 d2 d3 d4 d5 rest h0 h1 h2 h3 h4 h5)

theorem parse_accepts_hash_six (d0 d1 d2 d3 d4 d5 : Nat) (rest : Str)
    (h0 : isHexDigit d0) (h1 : isHexDigit d1) (h2 : isHexDigit d2)
    (h3 : isHexDigit d3) (h4 : isHexDigit d4) (h5 : isHexDigit d5) :
    Gen.Rgb.try_from_Hex ⟨35 :: d0 :: d1 :: d2 :: d3 :: d4 :: d5 :: rest⟩ =
      .ok ⟨16 * digitVal d0 + digitVal d1, 16 * digitVal d2 + digitVal d3, 16 * digitVal d4 + digitVal d5⟩ :=
  (try_from_ok_iff _ _).2 (Props.C15.parse_accepts_hash_six d0 d1 d2 d3 d4 d5 rest h0 h1 h2 h3 h4 h5)

theorem parse_accepts_three (d0 d1 d2 : Nat) (h0 : isHexDigit d0) (h1 : isHexDigit d1) (h2 : isHexDigit d2) :
    Gen.Rgb.try_from_Hex ⟨[d0, d1, d2]⟩ = .ok ⟨17 * digitVal d0, 17 * digitVal d1, 17 * digitVal d2⟩ :=
  (try_from_ok_iff _ _).2 (Props.C15.parse_accepts_three d0 d1 d2 h0 h1 h2)

theorem parse_accepts_hash_three (d0 d1 d2 : Nat) (h0 : isHexDigit d0) (h1 : isHexDigit d1) (h2 : isHexDigit d2) :
    Gen.Rgb.try_from_Hex ⟨[35, d0, d1, d2]⟩ = .ok ⟨17 * digitVal d0, 17 * digitVal d1, 17 * digitVal d2⟩ :=
  (try_from_ok_iff _ _).2 (Props.C15.parse_accepts_hash_three d0 d1 d2 h0 h1 h2)

/-! ### rejection -/

theorem parse_rejects_long (s : Str) (hlen : 4 < byteLength s) (i : Nat) (hi : i < 6) (ch : Nat)
    (hget : (stripHash s)[i]? = some ch) (hnd : ¬ isHexDigit ch) :
    ∃ e, Gen.Rgb.try_from_Hex ⟨s⟩ = .error e :=
  (try_from_error_iff _).2 (Props.C15.parse_rejects_long s hlen i hi ch hget hnd)

theorem parse_rejects_short (s : Str) (hlen : byteLength s ≤ 4) (i : Nat) (hi : i < 3) (ch : Nat)
    (hget : (stripHash s)[i]? = some ch) (hnd : ¬ isHexDigit ch) :
    ∃ e, Gen.Rgb.try_from_Hex ⟨s⟩ = .error e :=
  (try_from_error_iff _).2 (Props.C15.parse_rejects_short s hlen i hi ch hget hnd)

theorem parse_rejects_missing (s : Str)
    (h : (4 < byteLength s ∧ (stripHash s).length < 6) ∨ (byteLength s ≤ 4 ∧ (stripHash s).length < 3)) :
    ∃ e, Gen.Rgb.try_from_Hex ⟨s⟩ = .error e :=
  (try_from_error_iff _).2 (Props.C15.parse_rejects_missing s h)

/-! ### formatting -/

/-- **format_canonical**: '#' then exactly six characters, two per channel (high digit first), in R, G, B
order.  Needs 8-bit channels: the generated `{:x}` is not truncated to two digits. -/
theorem format_canonical (c : Rgb) (hr : c.r ≤ 255) (hg : c.g ≤ 255) (hb : c.b ≤ 255) :
    (Gen.Hex.from_Rgb c)._0 =
      [35, lowerHexDigit (c.r / 16), lowerHexDigit (c.r % 16),
           lowerHexDigit (c.g / 16), lowerHexDigit (c.g % 16),
           lowerHexDigit (c.b / 16), lowerHexDigit (c.b % 16)] := by
  rw [from_rgb_eq c hr hg hb]; exact Props.C15.format_canonical c

theorem format_all_lower (c : Rgb) (hr : c.r ≤ 255) (hg : c.g ≤ 255) (hb : c.b ≤ 255) :
    ∃ t, (Gen.Hex.from_Rgb c)._0 = 35 :: t ∧ t.length = 6 ∧ ∀ ch ∈ t, isLowerHexDigit ch := by
  rw [from_rgb_eq c hr hg hb]; exact Props.C15.format_all_lower c hr hg hb

theorem format_length (c : Rgb) (hr : c.r ≤ 255) (hg : c.g ≤ 255) (hb : c.b ≤ 255) :
    (Gen.Hex.from_Rgb c)._0.length = 7 := by
  rw [from_rgb_eq c hr hg hb]; rfl

/-- **format_parse_roundtrip**: parsing the formatted text returns the colour (generated formatter, generated
parser) -/
theorem format_parse_roundtrip (c : Rgb) (hr : c.r ≤ 255) (hg : c.g ≤ 255) (hb : c.b ≤ 255) :
    Gen.Rgb.try_from_Hex (Gen.Hex.from_Rgb c) = .ok c := by
  rw [from_rgb_eq c hr hg hb]
  exact (try_from_ok_iff _ _).2 (Props.C15.format_parse_roundtrip c hr hg hb)

/-! ## Examples: the generated functions run -/

-- "#66AA77", "66aa77", "#6A7", "6a7"
example : Gen.Rgb.try_from_Hex ⟨[35, 54, 54, 65, 65, 55, 55]⟩ = .ok ⟨102, 170, 119⟩ := by decide
example : Gen.Rgb.try_from_Hex ⟨[54, 54, 97, 97, 55, 55]⟩ = .ok ⟨102, 170, 119⟩ := by decide
example : Gen.Rgb.try_from_Hex ⟨[35, 54, 65, 55]⟩ = .ok ⟨102, 170, 119⟩ := by decide
example : Gen.Rgb.try_from_Hex ⟨[54, 97, 55]⟩ = .ok ⟨102, 170, 119⟩ := by decide
-- characters after the colour positions are ignored: "66AA77zz€", "6a7z"
example : Gen.Rgb.try_from_Hex ⟨[54, 54, 65, 65, 55, 55, 122, 122, 8364]⟩ = .ok ⟨102, 170, 119⟩ := by decide
example : Gen.Rgb.try_from_Hex ⟨[54, 97, 55, 122]⟩ = .ok ⟨102, 170, 119⟩ := by decide
-- formatting (17, 255, 99) gives "#11ff63"; (0, 10, 9) gives "#000a09" (one-digit channels are padded)
example : (Gen.Hex.from_Rgb ⟨17, 255, 99⟩)._0 = [35, 49, 49, 102, 102, 54, 51] := by decide
example : (Gen.Hex.from_Rgb ⟨0, 10, 9⟩)._0 = [35, 48, 48, 48, 97, 48, 57] := by decide
-- the byte hypothesis of `format_canonical` is needed: 256 is written "100" (not a `u8`)
example : (Gen.Hex.from_Rgb ⟨256, 0, 0⟩)._0 = [35, 49, 48, 48, 48, 48, 48, 48] := by decide
-- the error payloads differ between the two models (only `Ok`/`Err` and the `Ok` value are compared):
-- "+1+2+3": the generated code renders "+1 is not a hexadecimal value", the hand model an empty message
example : Gen.Rgb.try_from_Hex ⟨[43, 49, 43, 50, 43, 51]⟩ =
    .error (LError.Hex [43, 49, 32, 105, 115, 32, 110, 111, 116, 32, 97, 32, 104, 101, 120, 97, 100, 101, 99, 105, 109,
      97, 108, 32, 118, 97, 108, 117, 101]) := by decide
example : HexHand.Rgb.try_from_Hex ⟨[43, 49, 43, 50, 43, 51]⟩ = .error (LError.Hex []) := by decide
-- rejections: "#12345" (too short), "", "ééé", "12é456", "##123456", "1é"
example : ∃ e, Gen.Rgb.try_from_Hex ⟨[35, 49, 50, 51, 52, 53]⟩ = .error e :=
  parse_rejects_missing _ (.inl ⟨by decide, by decide⟩)
example : ∃ e, Gen.Rgb.try_from_Hex ⟨[]⟩ = .error e := parse_rejects_missing _ (.inr ⟨by decide, by decide⟩)
example : ∃ e, Gen.Rgb.try_from_Hex ⟨[233, 233, 233]⟩ = .error e :=
  parse_rejects_long _ (by decide) 0 (by decide) 233 rfl (not_hexDigit_of_multibyte _ (by decide))
example : ∃ e, Gen.Rgb.try_from_Hex ⟨[49, 50, 233, 52, 53, 54]⟩ = .error e :=
  parse_rejects_long _ (by decide) 2 (by decide) 233 rfl (not_hexDigit_of_multibyte _ (by decide))
example : ∃ e, Gen.Rgb.try_from_Hex ⟨[35, 35, 49, 50, 51, 52, 53, 54]⟩ = .error e :=
  parse_rejects_long _ (by decide) 0 (by decide) 35 rfl (by decide)
example : ∃ e, Gen.Rgb.try_from_Hex ⟨[49, 233]⟩ = .error e :=
  parse_rejects_short _ (by decide) 1 (by decide) 233 rfl (not_hexDigit_of_multibyte _ (by decide))
-- the hypotheses of the round trip are satisfiable
example : Gen.Rgb.try_from_Hex (Gen.Hex.from_Rgb ⟨17, 255, 99⟩) = .ok ⟨17, 255, 99⟩ :=
  format_parse_roundtrip _ (by decide) (by decide) (by decide)

end Props.C15_bridge
