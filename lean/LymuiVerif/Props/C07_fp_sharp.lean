import LymuiVerif.Lemmas.FpOkSharp
/-!
# C07 (OkLab) via XYZ in the rounded-arithmetic reading, at the property's tolerance `1e-9`

`Props/C07_fp.lean` proves `forward_xyz_fp` with `4.5e-8` and explains why: the error `4e-11` of the encoded sRGB value that
enters `max(·,0)^2.2` came from uniform magnitude bounds in the two matrix products (`FpXyz.xyz_fp_close` `2e-13`,
`FpXyz.rlin_fp_close` `3e-12`).  `Lemmas/FpOkSharp.lean` redoes that chain for the D65 profile with the actual magnitudes
(per-coefficient weights, values `≤ 1.09`): decoder `7.2e-15`, XYZ `8.5e-15`, reverse rows `4.8e-14`, encoded sRGB `6.4e-13`.
The existing `Lemmas.FpEnc.oklab_core` (`1100·e + 1e-13`) then gives `8.1e-10 < 1e-9`; no per-channel weighting of the
cube-root stage is needed.  Black is `Props.C07_fp.forward_xyz_black_fp` (`1e-70`).
-/
noncomputable section
namespace Props.C07_fp_sharp
open Gen Lemmas.FpOkSharp

/-- **OkLab via XYZ(D65), rounded model vs exact-real model, EVERY 8-bit colour**: each component within `8.1e-10`
(property tolerance `1e-9`) -/
theorem forward_xyz_sharp_fp (M : FPModel) (c : Rgb) (hr : c.r ≤ 255) (hg : c.g ≤ 255) (hb : c.b ≤ 255) :
    |(OkLab.from_Xyz (Xyz.from_rgb (α := RF M) c XyzKind.D65)).l.val - (OkLab.from_Xyz (Xyz.from_rgb (α := ℝ) c XyzKind.D65)).l| ≤ 8.1e-10 ∧
    |(OkLab.from_Xyz (Xyz.from_rgb (α := RF M) c XyzKind.D65)).a.val - (OkLab.from_Xyz (Xyz.from_rgb (α := ℝ) c XyzKind.D65)).a| ≤ 8.1e-10 ∧
    |(OkLab.from_Xyz (Xyz.from_rgb (α := RF M) c XyzKind.D65)).b.val - (OkLab.from_Xyz (Xyz.from_rgb (α := ℝ) c XyzKind.D65)).b| ≤ 8.1e-10 :=
  oklab_xyz_sharp M c hr hg hb

/-- the property's own tolerance -/
theorem forward_xyz_1e9_fp (M : FPModel) (c : Rgb) (hr : c.r ≤ 255) (hg : c.g ≤ 255) (hb : c.b ≤ 255) :
    |(OkLab.from_Xyz (Xyz.from_rgb (α := RF M) c XyzKind.D65)).l.val - (OkLab.from_Xyz (Xyz.from_rgb (α := ℝ) c XyzKind.D65)).l| ≤ 1e-9 ∧
    |(OkLab.from_Xyz (Xyz.from_rgb (α := RF M) c XyzKind.D65)).a.val - (OkLab.from_Xyz (Xyz.from_rgb (α := ℝ) c XyzKind.D65)).a| ≤ 1e-9 ∧
    |(OkLab.from_Xyz (Xyz.from_rgb (α := RF M) c XyzKind.D65)).b.val - (OkLab.from_Xyz (Xyz.from_rgb (α := ℝ) c XyzKind.D65)).b| ≤ 1e-9 := by
  obtain ⟨h1, h2, h3⟩ := forward_xyz_sharp_fp M c hr hg hb
  exact ⟨h1.trans (by norm_num), h2.trans (by norm_num), h3.trans (by norm_num)⟩

/-- the intermediate encoded sRGB triple (`Srgb.from_Xyz (Xyz.from_rgb c D65)`), rounded vs exact-real: `6.4e-13`
(`Lemmas.FpEnc.srgb_fwd_close`: `4e-11`) -/
theorem forward_srgb_tight_fp (M : FPModel) (c : Rgb) (hr : c.r ≤ 255) (hg : c.g ≤ 255) (hb : c.b ≤ 255) :
    |(Srgb.from_Xyz (Xyz.from_rgb (α := RF M) c .D65)).r.val - (Srgb.from_Xyz (Xyz.from_rgb (α := ℝ) c .D65)).r| ≤ 6.4e-13 ∧
    |(Srgb.from_Xyz (Xyz.from_rgb (α := RF M) c .D65)).g.val - (Srgb.from_Xyz (Xyz.from_rgb (α := ℝ) c .D65)).g| ≤ 6.4e-13 ∧
    |(Srgb.from_Xyz (Xyz.from_rgb (α := RF M) c .D65)).b.val - (Srgb.from_Xyz (Xyz.from_rgb (α := ℝ) c .D65)).b| ≤ 6.4e-13 :=
  srgb_fwd_tight M c hr hg hb

/-! ## examples -/
example : |(OkLab.from_Xyz (Xyz.from_rgb (α := RF FPModel.exact) ⟨1, 0, 255⟩ XyzKind.D65)).a.val
    - (OkLab.from_Xyz (Xyz.from_rgb (α := ℝ) ⟨1, 0, 255⟩ XyzKind.D65)).a| ≤ 8.1e-10 :=
  (forward_xyz_sharp_fp FPModel.exact ⟨1, 0, 255⟩ (by norm_num) (by norm_num) (by norm_num)).2.1
example (M : FPModel) : |(OkLab.from_Xyz (Xyz.from_rgb (α := RF M) ⟨255, 1, 1⟩ XyzKind.D65)).l.val
    - (OkLab.from_Xyz (Xyz.from_rgb (α := ℝ) ⟨255, 1, 1⟩ XyzKind.D65)).l| ≤ 1e-9 :=
  (forward_xyz_1e9_fp M ⟨255, 1, 1⟩ (by norm_num) (by norm_num) (by norm_num)).1

end Props.C07_fp_sharp
