import LymuiVerif.Lemmas.Cie
/-!
# C06 — CIELAB, CIELUV, Hunter Lab, xyY against the CIE formulae (D65 white 0.95047, 1, 1.08883)

Exact-real reading (`Flt ℝ`).  The specification uses the exact CIE constants `ε = 216/24389`,
`κ = 24389/27`; the library uses `0.008856`, `7.787`, `903.3`, so forward/reverse theorems for
CIELAB/CIELUV are error bounds, while xyY and Hunter Lab are exact identities.

Findings recorded here:
* `Xyz::from(Hlab)` returns **minus** the Z it should (`hlab_reverse_characterisation`,
  `hlab_reverse_refuted`); X and Y are right.
* `Xyz::from(Xyy)` returns black when the chromaticity `y` is 0 (luminance 0) whatever X, Z were
  (outside the property's hypothesis "non-zero luminance").
* CIELUV forward: the `1e-3` bound on `u` holds in gamut (`X ≤ 5Y + Z`, i.e. `u' ≤ 1`; true for every
  colour of the sRGB cone, `luv_gamut_of_srgb_cone`, hence for every 8-bit colour, `luv_forward_of_rgb`).  Remark only:
  it does not extend to the whole box `[0,1.1]³` (`luv_forward_box_refuted`: at `(1.1, 0.008856, 0)` the error of
  `u` is `> 1.4e-3`); the property's forward clause is about 8-bit colours, so this is not a violation.
* CIELUV reverse (history): an earlier version of `Xyz::from(Luv)` divided by `u + 13·L·u'n = 13·L·u'`, which
  vanishes with `X`; at `X = 0 < Y` it produced `Z = NaN` (real model: `Z = -5y`).  That was found here, confirmed
  on the crate and FIXED in the source (`up = u/(13L) + u'n`, `vp = v/(13L) + v'n`, `x = y·9up/(4vp)`,
  `z = y(12 - 3up - 20vp)/(4vp)`); `luv_reverse` below now holds for every XYZ of `[0,1.1]³` with `Y > 0`,
  `X = 0` included.  The only singular point is `vp = 0`, i.e. `Y = 0`, which the property excludes.
-/
namespace Props.C06
open Gen Lemmas.Cie

/-! ## Specification: the CIE formulae -/

/-- D65 reference white, Y normalised to 1 -/
noncomputable def Xn : ℝ := 95047 / 100000
noncomputable def Yn : ℝ := 1
noncomputable def Zn : ℝ := 108883 / 100000
/-- exact CIE constants -/
noncomputable def ε : ℝ := 216 / 24389
noncomputable def κ : ℝ := 24389 / 27

/-- CIE `f` -/
noncomputable def cieF (t : ℝ) : ℝ := if t > ε then t ^ ((1 : ℝ) / 3) else (κ * t + 16) / 116

/-- CIE lightness `L*` of a relative luminance `t = Y/Yn` -/
noncomputable def lstar (t : ℝ) : ℝ := if t > ε then 116 * t ^ ((1 : ℝ) / 3) - 16 else κ * t

/-- CIELAB -/
noncomputable def cielab (X Y Z : ℝ) : Lab ℝ :=
  { l := 116 * cieF (Y / Yn) - 16,
    a := 500 * (cieF (X / Xn) - cieF (Y / Yn)),
    b := 200 * (cieF (Y / Yn) - cieF (Z / Zn)) }

noncomputable def uPrime (X Y Z : ℝ) : ℝ := 4 * X / (X + 15 * Y + 3 * Z)
noncomputable def vPrime (X Y Z : ℝ) : ℝ := 9 * Y / (X + 15 * Y + 3 * Z)

/-- CIELUV (`u* = v* = 0` for black, where `u'`, `v'` are undefined) -/
noncomputable def cieluv (X Y Z : ℝ) : Luv ℝ :=
  if X + 15 * Y + 3 * Z = 0 then { l := lstar (Y / Yn), u := 0, v := 0 }
  else
    { l := lstar (Y / Yn),
      u := 13 * lstar (Y / Yn) * (uPrime X Y Z - uPrime Xn Yn Zn),
      v := 13 * lstar (Y / Yn) * (vPrime X Y Z - vPrime Xn Yn Zn) }

/-- Hunter coefficients (white on the 0..100 scale) -/
noncomputable def Ka : ℝ := 175 / 198.04 * (100 * Xn + 100 * Yn)
noncomputable def Kb : ℝ := 70 / 218.11 * (100 * Yn + 100 * Zn)

/-- Hunter Lab (for `Y > 0`) -/
noncomputable def hunter (X Y Z : ℝ) : Hlab ℝ :=
  { l := 100 * Real.sqrt (Y / Yn),
    a := Ka * ((X / Xn - Y / Yn) / Real.sqrt (Y / Yn)),
    b := Kb * ((Y / Yn - Z / Zn) / Real.sqrt (Y / Yn)) }

/-- xyY; black takes the chromaticity of the white point -/
noncomputable def xyY (X Y Z : ℝ) : Xyy ℝ :=
  if X + Y + Z = 0 then { x := 0.31271, y := 0.32902, _y := Y }
  else { x := X / (X + Y + Z), y := Y / (X + Y + Z), _y := Y }

theorem cieF_eq_fSpec (t : ℝ) : cieF t = fSpec t := by
  unfold cieF fSpec ε κ; simp only [gt_iff_lt]

/-- the two usual ways of writing `L*` agree -/
theorem lstar_eq (t : ℝ) : lstar t = 116 * cieF t - 16 := by
  unfold lstar cieF; split_ifs <;> ring

/-! ## xyY (exact) -/

/-- forward: `x = X/(X+Y+Z)`, `y = Y/(X+Y+Z)`, `Y`.  Hypothesis `X+Y+Z ≠ 0` excludes the division by zero
(the code only guards the case `X = Y = Z = 0`). -/
theorem xyy_forward (x : Xyz ℝ) (h : x.x + x.y + x.z ≠ 0) :
    Xyy.from_Xyz x = xyY x.x x.y x.z := by
  have hn : ¬ (x.x = 0 ∧ x.y = 0 ∧ x.z = 0) := by
    rintro ⟨h1, h2, h3⟩; apply h; rw [h1, h2, h3]; norm_num
  simp [Xyy.from_Xyz, Xyy.get_fields_from_xyz, Xyy.compute_xyy, Xyz.is_null, xyY, h, hn]

/-- black has the white-point chromaticity (0.31271, 0.32902) and `Y = 0` -/
theorem xyy_black : Xyy.from_Xyz (⟨0, 0, 0⟩ : Xyz ℝ) = xyY 0 0 0 ∧
    Xyy.from_Xyz (⟨0, 0, 0⟩ : Xyz ℝ) = ⟨0.31271, 0.32902, 0⟩ := by
  constructor
  · simp [Xyy.from_Xyz, Xyy.get_fields_from_xyz, Xyy.compute_xyy, Xyz.is_null, xyY, C.CHROMA_X, C.CHROMA_Y]
    norm_num
  · simp [Xyy.from_Xyz, Xyy.get_fields_from_xyz, Xyy.compute_xyy, Xyz.is_null, C.CHROMA_X, C.CHROMA_Y]
    norm_num

/-- reverse: the exact xyY coordinates of any XYZ with `X+Y+Z ≠ 0` and `Y ≠ 0` give back that XYZ -/
theorem xyy_reverse (X Y Z : ℝ) (hs : X + Y + Z ≠ 0) (hy : Y ≠ 0) :
    Xyz.from_Xyy (xyY X Y Z) = ⟨X, Y, Z⟩ := by
  have hy' : Y / (X + Y + Z) ≠ 0 := div_ne_zero hy hs
  simp only [xyY, if_neg hs, Xyz.from_Xyy, FltReal.beq_eq, FltReal.lit_eq, decide_eq_true_eq]
  norm_num
  rw [if_neg (by rintro (h | h); exact hy h; exact hs h)]
  congr 1 <;> field_simp
  ring

/-- round trip through the code's own forward conversion -/
theorem xyy_roundtrip (x : Xyz ℝ) (hs : x.x + x.y + x.z ≠ 0) (hy : x.y ≠ 0) :
    Xyz.from_Xyy (Xyy.from_Xyz x) = x := by
  rw [xyy_forward x hs, xyy_reverse _ _ _ hs hy]

/-- (outside the property) zero luminance: the reverse conversion forgets X and Z -/
theorem xyy_reverse_zero_luminance (X Z : ℝ) : Xyz.from_Xyy (xyY X 0 Z) = ⟨0, 0, 0⟩ := by
  unfold xyY; split_ifs <;> simp [Xyz.from_Xyy, Xyz.default]

/-! ## Hunter Lab (exact) -/

/-- forward, `Y > 0`: the code equals the Hunter formulae exactly -/
theorem hlab_forward (x : Xyz ℝ) (hy : 0 < x.y) : Hlab.from_Xyz x = hunter x.x x.y x.z := by
  rcases x with ⟨X, Y, Z⟩
  simp only at hy
  obtain ⟨s, hs, rfl⟩ : ∃ s : ℝ, 0 < s ∧ Y = s ^ 2 := ⟨√Y, Real.sqrt_pos.mpr hy, (Real.sq_sqrt hy.le).symm⟩
  have h1 : √(s ^ 2 / 100) = s / 10 := by
    rw [show s ^ 2 / 100 = (s / 10) ^ 2 by ring, Real.sqrt_sq (by positivity)]
  simp only [Hlab.from_Xyz, Hlab.get_ka_kb, C.XN, C.YN, C.ZN, FltReal.beq_eq, FltReal.lit_eq, FltReal.sqrt_eq,
    decide_eq_true_eq, Nat.cast_ofNat, div_one, Nat.cast_zero, Nat.cast_one, if_neg hy.ne', h1,
    hunter, Ka, Kb, Xn, Yn, Zn, Real.sqrt_sq hs.le]
  congr 1 <;> field_simp <;> ring

/-- black (and every `Y = 0`) is mapped to (0, 0, 0) by the code's guard (the formulae divide by `√Y`) -/
theorem hlab_black (X Z : ℝ) : Hlab.from_Xyz (⟨X, 0, Z⟩ : Xyz ℝ) = ⟨0, 0, 0⟩ := by
  simp [Hlab.from_Xyz]

/-- KNOWN FINDING.  reverse ∘ forward for `Y > 0`: X and Y come back, Z comes back NEGATED. -/
theorem hlab_reverse_characterisation (x : Xyz ℝ) (hy : 0 < x.y) :
    Xyz.from_Hlab (Hlab.from_Xyz x) = ⟨x.x, x.y, -x.z⟩ := by
  rcases x with ⟨X, Y, Z⟩
  simp only at hy
  obtain ⟨s, hs, rfl⟩ : ∃ s : ℝ, 0 < s ∧ Y = s ^ 2 := ⟨√Y, Real.sqrt_pos.mpr hy, (Real.sq_sqrt hy.le).symm⟩
  have h1 : √(s ^ 2 / 100) = s / 10 := by
    rw [show s ^ 2 / 100 = (s / 10) ^ 2 by ring, Real.sqrt_sq (by positivity)]
  have h2 : (1000 * (s / 10) / 100) ^ 2 * 100 / 100 = s ^ 2 := by ring
  simp only [Hlab.from_Xyz, Hlab.get_ka_kb, Xyz.from_Hlab, C.XN, C.YN, C.ZN, FltReal.beq_eq, FltReal.lit_eq,
    FltReal.sqrt_eq, FltReal.pow_eq, decide_eq_true_eq, Nat.cast_ofNat, div_one, Nat.cast_zero, Nat.cast_one,
    if_neg hy.ne', Real.rpow_two, h1, h2, Real.sqrt_sq hs.le]
  congr 1 <;> field_simp <;> ring

/-- the same with the exact Hunter coordinates as input -/
theorem hlab_reverse_of_spec (X Y Z : ℝ) (hy : 0 < Y) :
    Xyz.from_Hlab (hunter X Y Z) = ⟨X, Y, -Z⟩ := by
  have := hlab_reverse_characterisation ⟨X, Y, Z⟩ hy
  rwa [hlab_forward ⟨X, Y, Z⟩ hy] at this

/-- Refutation of the intended statement (reverse returns the XYZ within 1e-5): the sRGB blue primary
`(0.1804375, 0.072175, 0.9503041)` comes back with `Z = -0.9503041`. -/
theorem hlab_reverse_refuted :
    ∃ x : Xyz ℝ, 0 < x.y ∧ 0 ≤ x.x ∧ 0 ≤ x.z ∧ x.x ≤ 1.1 ∧ x.y ≤ 1.1 ∧ x.z ≤ 1.1 ∧
      (Xyz.from_Hlab (Hlab.from_Xyz x)).z < 0 ∧
      ¬ |(Xyz.from_Hlab (Hlab.from_Xyz x)).z - x.z| ≤ 1e-5 := by
  refine ⟨⟨0.1804375, 0.072175, 0.9503041⟩, by norm_num, by norm_num, by norm_num, by norm_num, by norm_num,
    by norm_num, ?_, ?_⟩
  · rw [hlab_reverse_characterisation _ (by norm_num)]; norm_num
  · rw [hlab_reverse_characterisation _ (by norm_num)]; norm_num [abs_le]

/-! ## CIELAB -/

/-- `Lab::compute_f` is within `3.3e-7` of the CIE `f`, for every `t ≥ 0`.  (Threshold 0.008856 vs
216/24389, slope 7.787 vs 841/108; same cube root above the threshold.) -/
theorem compute_f_close (t : ℝ) (ht : 0 ≤ t) : |Lab.compute_f t - cieF t| ≤ 33 / 10 ^ 8 := by
  have h : Lab.compute_f t = fCode t := by simp [Lab.compute_f, fCode]
  rw [h, cieF_eq_fSpec]; exact f_close ht

/-- forward: for every XYZ with non-negative components (in particular `[0, 1.1]³`) the code's CIELAB is
within `4e-5` (L), `3.3e-4` (a), `1.4e-4` (b) of the CIE values. -/
theorem lab_forward_tight (x : Xyz ℝ) (hx : 0 ≤ x.x) (hy : 0 ≤ x.y) (hz : 0 ≤ x.z) :
    |(Lab.from_Xyz x).l - (cielab x.x x.y x.z).l| ≤ 4 / 10 ^ 5 ∧
    |(Lab.from_Xyz x).a - (cielab x.x x.y x.z).a| ≤ 33 / 10 ^ 5 ∧
    |(Lab.from_Xyz x).b - (cielab x.x x.y x.z).b| ≤ 14 / 10 ^ 5 := by
  have h1 := compute_f_close (x.x / Xn) (div_nonneg hx (by unfold Xn; norm_num))
  have h2 := compute_f_close (x.y / Yn) (div_nonneg hy (by unfold Yn; norm_num))
  have h3 := compute_f_close (x.z / Zn) (div_nonneg hz (by unfold Zn; norm_num))
  have e : Lab.from_Xyz x = ⟨116 * Lab.compute_f (x.y / Yn) - 16,
      500 * (Lab.compute_f (x.x / Xn) - Lab.compute_f (x.y / Yn)),
      200 * (Lab.compute_f (x.y / Yn) - Lab.compute_f (x.z / Zn))⟩ := by
    simp [Lab.from_Xyz, C.D65, Xn, Yn, Zn]
  rw [e]
  simp only [cielab]
  rw [abs_le] at h1 h2 h3
  refine ⟨abs_le.mpr ⟨?_, ?_⟩, abs_le.mpr ⟨?_, ?_⟩, abs_le.mpr ⟨?_, ?_⟩⟩ <;> linarith [h1.1, h1.2, h2.1, h2.2, h3.1, h3.2]

/-- forward, as the property states it: within `1e-3` of a unit -/
theorem lab_forward (x : Xyz ℝ) (hx : 0 ≤ x.x) (hy : 0 ≤ x.y) (hz : 0 ≤ x.z) :
    |(Lab.from_Xyz x).l - (cielab x.x x.y x.z).l| ≤ 1e-3 ∧
    |(Lab.from_Xyz x).a - (cielab x.x x.y x.z).a| ≤ 1e-3 ∧
    |(Lab.from_Xyz x).b - (cielab x.x x.y x.z).b| ≤ 1e-3 := by
  obtain ⟨h1, h2, h3⟩ := lab_forward_tight x hx hy hz
  refine ⟨h1.trans (by norm_num), h2.trans (by norm_num), h3.trans (by norm_num)⟩

/-- black: L = a = b = 0 exactly -/
theorem lab_black : Lab.from_Xyz (⟨0, 0, 0⟩ : Xyz ℝ) = ⟨0, 0, 0⟩ := by
  simp [Lab.from_Xyz, Lab.compute_f, C.D65]
  norm_num

/-- the specification agrees: CIELAB of black is (0, 0, 0) -/
theorem cielab_black : cielab 0 0 0 = ⟨0, 0, 0⟩ := by
  simp [cielab, cieF, ε, κ]
  norm_num

/-- reverse: feeding the EXACT CIELAB coordinates of any XYZ with non-negative components to the code's
`Xyz::from(Lab)` returns that XYZ within `4.4e-8` per component (the property asks `1e-5`). -/
theorem lab_reverse_tight (X Y Z : ℝ) (hx : 0 ≤ X) (hy : 0 ≤ Y) (hz : 0 ≤ Z) :
    |(Xyz.from_Lab (cielab X Y Z)).x - X| ≤ 4 / 10 ^ 8 ∧
    |(Xyz.from_Lab (cielab X Y Z)).y - Y| ≤ 4 / 10 ^ 8 ∧
    |(Xyz.from_Lab (cielab X Y Z)).z - Z| ≤ 44 / 10 ^ 9 := by
  have hr : ∀ c : ℝ, Lab.reverse_compute_f c = revCode c := by
    intro c; simp [Lab.reverse_compute_f, revCode, C.EPSILON, C.KAPPA]
  have e : Xyz.from_Lab (cielab X Y Z) =
      ⟨Xn * revCode (fSpec (X / Xn)), Yn * yRevCode (116 * fSpec (Y / Yn) - 16), Zn * revCode (fSpec (Z / Zn))⟩ := by
    simp only [Xyz.from_Lab, cielab, hr, cieF_eq_fSpec, C.D65, C.EPSILON, C.KAPPA, FltReal.lit_eq, FltReal.lt_eq,
      FltReal.powi_eq, decide_eq_true_eq, Nat.cast_ofNat, div_one, Nat.cast_one, Xn, Yn, Zn, yRevCode]
    have e1 : (116 * fSpec Y - 16 + 16) / 116 = fSpec Y := by ring
    have e2 : ∀ A : ℝ, fSpec Y + 500 * (A - fSpec Y) / 500 = A := by intro A; ring
    have e3 : ∀ A : ℝ, fSpec Y - 200 * (fSpec Y - A) / 200 = A := by intro A; ring
    have ht : (1107 / 125000 * (9033 / 10) : ℝ) = 79996248 / 10000000 := by norm_num
    simp only [e1, e2, e3, ht, one_mul]
    split_ifs <;> rfl
  have h1 := rev_close (div_nonneg hx (by unfold Xn; norm_num) : 0 ≤ X / Xn)
  have h2 := (yRev_close (div_nonneg hy (by unfold Yn; norm_num) : 0 ≤ Y / Yn)).1
  have h3 := rev_close (div_nonneg hz (by unfold Zn; norm_num) : 0 ≤ Z / Zn)
  rw [e]
  simp only
  have kx : Xn * revCode (fSpec (X / Xn)) - X = Xn * (revCode (fSpec (X / Xn)) - X / Xn) := by
    unfold Xn; field_simp
  have ky : Yn * yRevCode (116 * fSpec (Y / Yn) - 16) - Y = Yn * (yRevCode (116 * fSpec (Y / Yn) - 16) - Y / Yn) := by
    unfold Yn; field_simp
  have kz : Zn * revCode (fSpec (Z / Zn)) - Z = Zn * (revCode (fSpec (Z / Zn)) - Z / Zn) := by
    unfold Zn; field_simp
  rw [kx, ky, kz, abs_mul, abs_mul, abs_mul]
  refine ⟨?_, ?_, ?_⟩
  · have : |Xn| = 95047 / 100000 := by unfold Xn; rw [abs_of_pos (by norm_num)]
    rw [this]; nlinarith [abs_nonneg (revCode (fSpec (X / Xn)) - X / Xn)]
  · have : |Yn| = 1 := by unfold Yn; simp
    rw [this]; linarith
  · have : |Zn| = 108883 / 100000 := by unfold Zn; rw [abs_of_pos (by norm_num)]
    rw [this]; nlinarith [abs_nonneg (revCode (fSpec (Z / Zn)) - Z / Zn)]

/-- reverse, as the property states it (`X ∈ [0,1.1]³`, non-zero luminance; neither bound is needed) -/
theorem lab_reverse (X Y Z : ℝ) (hx : 0 ≤ X) (hy : 0 < Y) (hz : 0 ≤ Z) :
    |(Xyz.from_Lab (cielab X Y Z)).x - X| ≤ 1e-5 ∧
    |(Xyz.from_Lab (cielab X Y Z)).y - Y| ≤ 1e-5 ∧
    |(Xyz.from_Lab (cielab X Y Z)).z - Z| ≤ 1e-5 := by
  obtain ⟨h1, h2, h3⟩ := lab_reverse_tight X Y Z hx hy.le hz
  refine ⟨h1.trans (by norm_num), h2.trans (by norm_num), h3.trans (by norm_num)⟩

/-! ## CIELUV -/

/-- `Luv::compute_compounds` is `(u', v')` unless `X = Y = Z = 0`, where it is `(0, 0)` -/
theorem luv_compounds (X Y Z : ℝ) (h : ¬ (X = 0 ∧ Y = 0 ∧ Z = 0)) :
    Luv.compute_compounds X Y Z = (uPrime X Y Z, vPrime X Y Z) := by
  simp only [Luv.compute_compounds, FltReal.beq_eq, FltReal.lit_eq, decide_eq_true_eq, Nat.cast_ofNat, div_one,
    Nat.cast_zero, Nat.cast_one, uPrime, vPrime]
  split_ifs with h1 h2 h3
  · exact absurd ⟨h1, h2, h3⟩ h
  all_goals rfl

theorem luv_compounds_black : Luv.compute_compounds (0 : ℝ) 0 0 = (0, 0) := by
  simp [Luv.compute_compounds]

/-- the reference white of the code is the specification's D65 white -/
theorem luv_compounds_white :
    Luv.compute_compounds (C.D65 : ℝ × ℝ × ℝ).1 (C.D65 : ℝ × ℝ × ℝ).2.1 (C.D65 : ℝ × ℝ × ℝ).2.2
      = (uPrime Xn Yn Zn, vPrime Xn Yn Zn) := by
  have : (C.D65 : ℝ × ℝ × ℝ) = (Xn, Yn, Zn) := by simp [C.D65, Xn, Yn, Zn]
  rw [this]
  apply luv_compounds
  unfold Xn; norm_num

/-- the code's CIELUV of a non-black XYZ: lightness with the library's constants, then
`u = 13 L (u' - u'n)`, `v = 13 L (v' - v'n)` -/
theorem luv_from_xyz_shape (x : Xyz ℝ) (h : ¬ (x.x = 0 ∧ x.y = 0 ∧ x.z = 0)) :
    Luv.from_Xyz x = ⟨lCodeLuv x.y, 13 * lCodeLuv x.y * (uPrime x.x x.y x.z - uPrime Xn Yn Zn),
      13 * lCodeLuv x.y * (vPrime x.x x.y x.z - vPrime Xn Yn Zn)⟩ := by
  simp only [Luv.from_Xyz, luv_compounds_white, luv_compounds _ _ _ h]
  simp only [C.D65, C.EPSILON, C.KAPPA, FltReal.lit_eq, FltReal.lt_eq, FltReal.pow_eq, decide_eq_true_eq,
    Nat.cast_ofNat, div_one, Nat.cast_one, lCodeLuv]
  split_ifs <;> rfl

/-- forward: lightness within `3.3e-5`; `u`, `v` within `13·3.3e-5·|u' - u'n|` resp. `|v' - v'n|`.
Hypotheses: `Y ≥ 0` and `X + 15Y + 3Z > 0` (not black, so no division by zero). -/
theorem luv_forward_tight (x : Xyz ℝ) (hy : 0 ≤ x.y) (hD : 0 < x.x + 15 * x.y + 3 * x.z) :
    |(Luv.from_Xyz x).l - (cieluv x.x x.y x.z).l| ≤ 33 / 10 ^ 6 ∧
    |(Luv.from_Xyz x).u - (cieluv x.x x.y x.z).u| ≤ 13 * (33 / 10 ^ 6) * |uPrime x.x x.y x.z - uPrime Xn Yn Zn| ∧
    |(Luv.from_Xyz x).v - (cieluv x.x x.y x.z).v| ≤ 13 * (33 / 10 ^ 6) * |vPrime x.x x.y x.z - vPrime Xn Yn Zn| := by
  have hne : ¬ (x.x = 0 ∧ x.y = 0 ∧ x.z = 0) := by
    rintro ⟨h1, h2, h3⟩; rw [h1, h2, h3] at hD; norm_num at hD
  have hL := lLuv_close hy
  rw [luv_from_xyz_shape x hne]
  simp only [cieluv, if_neg hD.ne', lstar_eq, cieF_eq_fSpec, Yn, div_one]
  refine ⟨hL, ?_, ?_⟩
  · rw [show ∀ A B D : ℝ, 13 * A * D - 13 * B * D = 13 * ((A - B) * D) by intros; ring, abs_mul, abs_mul,
      abs_of_pos (by norm_num : (0 : ℝ) < 13), mul_assoc]
    gcongr
  · rw [show ∀ A B D : ℝ, 13 * A * D - 13 * B * D = 13 * ((A - B) * D) by intros; ring, abs_mul, abs_mul,
      abs_of_pos (by norm_num : (0 : ℝ) < 13), mul_assoc]
    gcongr

/-- forward, as the property states it (within `1e-3` of a unit), for colours with `u' ≤ 1`, i.e.
`X ≤ 5Y + Z`.  Every colour of the sRGB cone satisfies this (`luv_gamut_of_srgb_cone`); without it the
bound on `u` fails (`luv_forward_box_refuted`). -/
theorem luv_forward (x : Xyz ℝ) (hx : 0 ≤ x.x) (hy : 0 ≤ x.y) (hz : 0 ≤ x.z)
    (hD : 0 < x.x + 15 * x.y + 3 * x.z) (hg : x.x ≤ 5 * x.y + x.z) :
    |(Luv.from_Xyz x).l - (cieluv x.x x.y x.z).l| ≤ 1e-3 ∧
    |(Luv.from_Xyz x).u - (cieluv x.x x.y x.z).u| ≤ 1e-3 ∧
    |(Luv.from_Xyz x).v - (cieluv x.x x.y x.z).v| ≤ 1e-3 := by
  obtain ⟨h1, h2, h3⟩ := luv_forward_tight x hy hD
  have hu0 : uPrime Xn Yn Zn = 380188 / 1921696 := by unfold uPrime Xn Yn Zn; norm_num
  have hv0 : vPrime Xn Yn Zn = 900000 / 1921696 := by unfold vPrime Xn Yn Zn; norm_num
  have hu1 : 0 ≤ uPrime x.x x.y x.z := by unfold uPrime; positivity
  have hu2 : uPrime x.x x.y x.z ≤ 1 := by unfold uPrime; rw [div_le_one hD]; linarith
  have hv1 : 0 ≤ vPrime x.x x.y x.z := by unfold vPrime; positivity
  have hv2 : vPrime x.x x.y x.z ≤ 3 / 5 := by unfold vPrime; rw [div_le_iff₀ hD]; linarith
  have du : |uPrime x.x x.y x.z - uPrime Xn Yn Zn| ≤ 1 := by rw [hu0, abs_le]; constructor <;> linarith
  have dv : |vPrime x.x x.y x.z - vPrime Xn Yn Zn| ≤ 1 := by rw [hv0, abs_le]; constructor <;> linarith
  refine ⟨h1.trans (by norm_num), h2.trans ?_, h3.trans ?_⟩ <;> nlinarith

/-- black: the guard of `compute_compounds` gives L = u = v = 0, as the specification -/
theorem luv_black : Luv.from_Xyz (⟨0, 0, 0⟩ : Xyz ℝ) = ⟨0, 0, 0⟩ ∧ cieluv 0 0 0 = ⟨0, 0, 0⟩ := by
  constructor
  · simp [Luv.from_Xyz, Luv.compute_compounds, C.D65, C.EPSILON, C.KAPPA]
    norm_num
  · simp [cieluv, lstar, ε, κ]
    norm_num

/-- REMARK (not a violation: the property's forward clause is about 8-bit colours, covered by
`luv_forward_of_rgb`).  The `1e-3` bound on `u` does not extend to the whole box `[0, 1.1]³`: outside the
gamut, at `(1.1, 0.008856, 0)` (`u' ≈ 3.57`), the code's `u` differs from the CIE value by more than `1.4e-3`. -/
theorem luv_forward_box_refuted :
    ∃ x : Xyz ℝ, 0 ≤ x.x ∧ x.x ≤ 1.1 ∧ 0 < x.y ∧ x.y ≤ 1.1 ∧ 0 ≤ x.z ∧ x.z ≤ 1.1 ∧
      ¬ |(Luv.from_Xyz x).u - (cieluv x.x x.y x.z).u| ≤ 1e-3 := by
  refine ⟨⟨1.1, 0.008856, 0⟩, by norm_num, by norm_num, by norm_num, by norm_num, by norm_num, by norm_num, ?_⟩
  rw [luv_from_xyz_shape _ (by norm_num)]
  simp only [cieluv, lstar, lCodeLuv, uPrime, Xn, Yn, Zn, ε, κ]
  norm_num [abs_le]

/-- reverse, exact form: feeding the EXACT CIELUV coordinates of `(X, Y, Z)` (`X, Z ≥ 0`, `Y > 0`) to the
code's `Xyz::from(Luv)` returns `(X, Y, Z)·(y/Y)`, `y` being the luminance the code recovers from `L*`.
`Y > 0` gives `L* > 0` and `v' > 0`, so none of the code's divisions (`13 L`, `4 vp`) is by zero; `X = 0` is fine. -/
theorem luv_reverse_exact (X Y Z : ℝ) (hx : 0 ≤ X) (hy : 0 < Y) (hz : 0 ≤ Z) :
    Xyz.from_Luv (cieluv X Y Z) =
      ⟨X * (yRevCode (lstar (Y / Yn)) / Y), yRevCode (lstar (Y / Yn)), Z * (yRevCode (lstar (Y / Yn)) / Y)⟩ := by
  have hD : X + 15 * Y + 3 * Z ≠ 0 := by positivity
  have hL : lstar (Y / Yn) ≠ 0 := by
    rw [lstar_eq, cieF_eq_fSpec]; unfold Yn; rw [div_one]; exact (lstar_pos hy).ne'
  have ht : (9033 / 10 * (1107 / 125000) : ℝ) = 79996248 / 10000000 := by norm_num
  simp only [cieluv, if_neg hD]
  simp only [Xyz.from_Luv, luv_compounds_white, C.EPSILON, C.KAPPA, FltReal.lit_eq, FltReal.lt_eq, FltReal.beq_eq,
    FltReal.powi_eq, decide_eq_true_eq, Nat.cast_ofNat, div_one, Nat.cast_one, Nat.cast_zero, if_neg hL, ite_self, ht]
  have key := luv_rev_algebra (X := X) (Z := Z) (y := yRevCode (lstar (Y / Yn))) (u0 := uPrime Xn Yn Zn)
    (v0 := vPrime Xn Yn Zn) hL hy.ne' hD
  unfold uPrime vPrime at key ⊢
  rw [← key.1, ← key.2]
  unfold yRevCode
  split_ifs <;> rfl

/-- reverse, as the property states it: for EVERY XYZ of `[0, 1.1]³` with `Y > 0` (`X = 0` and `Z = 0`
included) the exact CIELUV coordinates are mapped back within `1e-5` (in fact `4.7e-6`; `Y` within `4e-8`) -/
theorem luv_reverse (X Y Z : ℝ) (hx : 0 ≤ X) (hx1 : X ≤ 1.1) (hy : 0 < Y) (hz : 0 ≤ Z) (hz1 : Z ≤ 1.1) :
    |(Xyz.from_Luv (cieluv X Y Z)).x - X| ≤ 1e-5 ∧
    |(Xyz.from_Luv (cieluv X Y Z)).y - Y| ≤ 1e-5 ∧
    |(Xyz.from_Luv (cieluv X Y Z)).z - Z| ≤ 1e-5 := by
  rw [luv_reverse_exact X Y Z hx hy hz]
  simp only [lstar_eq, cieF_eq_fSpec, Yn, div_one]
  obtain ⟨h1, h2⟩ := yRev_close hy.le
  set y := yRevCode (116 * fSpec Y - 16) with hydef
  have kx : X * (y / Y) - X = X * ((y - Y) / Y) := by field_simp
  have kz : Z * (y / Y) - Z = Z * ((y - Y) / Y) := by field_simp
  have hq : |(y - Y) / Y| ≤ 42 / 10 ^ 7 := by
    rw [abs_div, abs_of_pos hy, div_le_iff₀ hy]; exact h2
  refine ⟨?_, h1.trans (by norm_num), ?_⟩
  · rw [kx, abs_mul, abs_of_nonneg hx]; nlinarith [abs_nonneg ((y - Y) / Y)]
  · rw [kz, abs_mul, abs_of_nonneg hz]; nlinarith [abs_nonneg ((y - Y) / Y)]

/-- the face `X = 0` of the box, where the earlier version of the code returned NaN, is now right:
`(0, 1/2, 1/2)` comes back within `1e-5` -/
theorem luv_reverse_X0_fixed :
    |(Xyz.from_Luv (cieluv 0 (1 / 2) (1 / 2))).x - 0| ≤ 1e-5 ∧
    |(Xyz.from_Luv (cieluv 0 (1 / 2) (1 / 2))).y - 1 / 2| ≤ 1e-5 ∧
    |(Xyz.from_Luv (cieluv 0 (1 / 2) (1 / 2))).z - 1 / 2| ≤ 1e-5 :=
  luv_reverse 0 (1 / 2) (1 / 2) (by norm_num) (by norm_num) (by norm_num) (by norm_num) (by norm_num)

/-! ## The XYZ of 8-bit colours (D65 sRGB matrix) -/

/-- the XYZ of every 8-bit colour has non-negative components and lies in the gamut `X ≤ 5Y + Z`
(`u' ≤ 1`; in fact `u' ≤ 1/2` on the sRGB cone) -/
theorem luv_gamut_of_srgb_cone (c : Rgb) :
    0 ≤ (Xyz.from_rgb c XyzKind.D65 : Xyz ℝ).x ∧ 0 ≤ (Xyz.from_rgb c XyzKind.D65 : Xyz ℝ).y ∧
    0 ≤ (Xyz.from_rgb c XyzKind.D65 : Xyz ℝ).z ∧
    (Xyz.from_rgb c XyzKind.D65 : Xyz ℝ).x ≤
      5 * (Xyz.from_rgb c XyzKind.D65 : Xyz ℝ).y + (Xyz.from_rgb c XyzKind.D65 : Xyz ℝ).z := by
  have hr := srgb_expanded_nonneg (v := (c.r : ℝ) / 255) (by positivity)
  have hg := srgb_expanded_nonneg (v := (c.g : ℝ) / 255) (by positivity)
  have hb := srgb_expanded_nonneg (v := (c.b : ℝ) / 255) (by positivity)
  simp only [Xyz.from_rgb, Xyz.compute_xyz_from_matrix, Srgb.as_f64, Srgb.from_Rgb, Rgb.as_f64, C.X65, C.Y65, C.Z65,
    FltReal.lit_eq, FltReal.ofNat_eq, Nat.cast_ofNat, div_one, Nat.cast_one]
  generalize (F64.compute_srgb_gamma_expanded ((c.r : ℝ) / 255) : ℝ) = r at hr
  generalize (F64.compute_srgb_gamma_expanded ((c.g : ℝ) / 255) : ℝ) = g at hg
  generalize (F64.compute_srgb_gamma_expanded ((c.b : ℝ) / 255) : ℝ) = b at hb
  refine ⟨by positivity, by positivity, by positivity, by linarith⟩

/-- C06 forward for CIELAB, for the XYZ of every 8-bit colour -/
theorem lab_forward_of_rgb (c : Rgb) :
    let x : Xyz ℝ := Xyz.from_rgb c XyzKind.D65
    |(Lab.from_Xyz x).l - (cielab x.x x.y x.z).l| ≤ 1e-3 ∧
    |(Lab.from_Xyz x).a - (cielab x.x x.y x.z).a| ≤ 1e-3 ∧
    |(Lab.from_Xyz x).b - (cielab x.x x.y x.z).b| ≤ 1e-3 := by
  obtain ⟨h1, h2, h3, _⟩ := luv_gamut_of_srgb_cone c
  exact lab_forward _ h1 h2 h3

/-- C06 forward for CIELUV, for the XYZ of every 8-bit colour (black included) -/
theorem luv_forward_of_rgb (c : Rgb) :
    let x : Xyz ℝ := Xyz.from_rgb c XyzKind.D65
    |(Luv.from_Xyz x).l - (cieluv x.x x.y x.z).l| ≤ 1e-3 ∧
    |(Luv.from_Xyz x).u - (cieluv x.x x.y x.z).u| ≤ 1e-3 ∧
    |(Luv.from_Xyz x).v - (cieluv x.x x.y x.z).v| ≤ 1e-3 := by
  intro x
  obtain ⟨h1, h2, h3, h4⟩ := luv_gamut_of_srgb_cone c
  rcases (by positivity : 0 ≤ x.x + 15 * x.y + 3 * x.z).lt_or_eq with hD | hD
  · exact luv_forward x h1 h2 h3 hD h4
  · have e1 : x.x = 0 := by linarith
    have e2 : x.y = 0 := by linarith
    have e3 : x.z = 0 := by linarith
    have ex : x = ⟨0, 0, 0⟩ := by
      rw [show x = ⟨x.x, x.y, x.z⟩ from rfl, e1, e2, e3]
    rw [ex, luv_black.1, luv_black.2]
    norm_num

/-- C06 forward for xyY and Hunter Lab, for the XYZ of every 8-bit colour other than black (exact) -/
theorem xyy_hlab_forward_of_rgb (c : Rgb) (h : 0 < (Xyz.from_rgb c XyzKind.D65 : Xyz ℝ).y) :
    let x : Xyz ℝ := Xyz.from_rgb c XyzKind.D65
    Xyy.from_Xyz x = xyY x.x x.y x.z ∧ Hlab.from_Xyz x = hunter x.x x.y x.z ∧
    Xyz.from_Xyy (Xyy.from_Xyz x) = x := by
  intro x
  obtain ⟨h1, h2, h3, _⟩ := luv_gamut_of_srgb_cone c
  have hs : x.x + x.y + x.z ≠ 0 := by
    have : 0 < x.x + x.y + x.z := by linarith
    exact this.ne'
  exact ⟨xyy_forward x hs, hlab_forward x h, xyy_roundtrip x hs h.ne'⟩

/-! ## Examples: the hypotheses are satisfiable by non-trivial inputs -/

-- a mid grey-ish XYZ satisfies every hypothesis of the forward and reverse theorems
example : ∃ x : Xyz ℝ, 0 ≤ x.x ∧ 0 < x.y ∧ 0 ≤ x.z ∧ x.x + x.y + x.z ≠ 0 ∧ 0 < x.x + 15 * x.y + 3 * x.z ∧
    x.x ≤ 5 * x.y + x.z ∧ x.x ≤ 1.1 ∧ x.z ≤ 1.1 :=
  ⟨⟨0.4, 0.2, 0.02⟩, by norm_num, by norm_num, by norm_num, by norm_num, by norm_num, by norm_num, by norm_num,
    by norm_num⟩

-- concrete instances
example : Xyy.from_Xyz (⟨0.4, 0.2, 0.2⟩ : Xyz ℝ) = ⟨0.5, 0.25, 0.2⟩ := by
  rw [xyy_forward _ (by norm_num)]; unfold xyY; norm_num
example : Xyz.from_Xyy (⟨0.5, 0.25, 0.2⟩ : Xyy ℝ) = ⟨0.4, 0.2, 0.2⟩ := by
  have := xyy_reverse 0.4 0.2 0.2 (by norm_num) (by norm_num)
  unfold xyY at this; norm_num at this; norm_num [this]
example : (Hlab.from_Xyz (⟨0.95047, 1, 1.08883⟩ : Xyz ℝ)) = ⟨100, 0, 0⟩ := by
  rw [hlab_forward _ (by norm_num)]; simp [hunter, Xn, Yn, Zn]; norm_num
-- white is a colour with positive luminance (hypothesis of `xyy_hlab_forward_of_rgb`)
example : 0 < (Xyz.from_rgb ⟨255, 255, 255⟩ XyzKind.D65 : Xyz ℝ).y := by
  simp [Xyz.from_rgb, Xyz.compute_xyz_from_matrix, Srgb.as_f64, Srgb.from_Rgb, Rgb.as_f64, C.Y65,
    F64.compute_srgb_gamma_expanded]
  norm_num
-- white has L* = 100 in the specification
example : (cielab Xn Yn Zn).l = 100 ∧ (cielab Xn Yn Zn).a = 0 ∧ (cielab Xn Yn Zn).b = 0 := by
  simp [cielab, cieF, Xn, Yn, Zn, ε]; norm_num

end Props.C06
