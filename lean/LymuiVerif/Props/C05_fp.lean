import LymuiVerif.Lemmas.FpXyz
import LymuiVerif.Props.C05
/-!
# C05 in the rounded-arithmetic reading: `Xyz.from_rgb` computed in ANY `FPModel`

`Props/C05.lean` proves, on exact reals, that `Xyz.from_rgb c k` is the profile's decoding curve
followed by the profile's generated matrix rows, and that the result is within `2e-7` of the
colourimetric specification.  Here: the SAME generated function evaluated in `RF M` — every
`+ - * /` and literal rounded by `M.rnd`, `powf` with the 1-ulp bound `M.pow_err`, comparisons exact —
stays within `1e-12` per component of the exact-real evaluation, for every model `M`, every profile
and every 8-bit colour.  The threshold comparison of the sRGB decoder takes the same branch in `RF M`
and in ℝ for every byte (gap between `10/255`, `0.04045` and `11/255`), the Adobe guard `v ≤ 0.0`
likewise (`0` is exact, `1/255` is far from `0`); both are proved in `Lemmas/FpXyz.lean`
(`srgb_dec_fp`, `argb_dec_fp`).
-/
namespace Props.C05
open Gen Matrix Spec.Colorimetry Lemmas.Matrix Lemmas.XyzDispatch Lemmas.FpXyz

/-- **C05 forward, rounded model**: for every model of floating-point arithmetic, every profile and
every 8-bit colour, each component of the computed XYZ is within `1e-12` (proved: `2e-13`) of the
exact-real model's value -/
theorem forward_fp (M : FPModel) (k : XyzKind) (c : Rgb) (hr : c.r ≤ 255) (hg : c.g ≤ 255)
    (hb : c.b ≤ 255) :
    |(Xyz.from_rgb (α := RF M) c k).x.val - (Xyz.from_rgb (α := ℝ) c k).x| ≤ 1e-12 ∧
    |(Xyz.from_rgb (α := RF M) c k).y.val - (Xyz.from_rgb (α := ℝ) c k).y| ≤ 1e-12 ∧
    |(Xyz.from_rgb (α := RF M) c k).z.val - (Xyz.from_rgb (α := ℝ) c k).z| ≤ 1e-12 := by
  obtain ⟨h1, h2, h3⟩ := xyz_fp_close M k c hr hg hb
  rw [from_rgb_eq_fp', from_rgb_eq]
  exact ⟨h1.trans (by norm_num), h2.trans (by norm_num), h3.trans (by norm_num)⟩

/-- **C05 forward, rounded model, against the colourimetric specification**: the computed XYZ is within
`3e-7` (hence within the property's `1e-6`) per component of the specified tristimulus
(`forward_close` on ℝ gives `2e-7`; rounding adds at most `1e-12`) -/
theorem forward_close_fp (M : FPModel) (k : XyzKind) (c : Rgb) (hr : c.r ≤ 255) (hg : c.g ≤ 255)
    (hb : c.b ≤ 255) :
    |(Xyz.from_rgb (α := RF M) c k).x.val - specXyz k c 0| ≤ 3e-7 ∧
    |(Xyz.from_rgb (α := RF M) c k).y.val - specXyz k c 1| ≤ 3e-7 ∧
    |(Xyz.from_rgb (α := RF M) c k).z.val - specXyz k c 2| ≤ 3e-7 := by
  obtain ⟨f1, f2, f3⟩ := forward_fp M k c hr hg hb
  obtain ⟨s1, s2, s3⟩ := forward_close k c hr hg hb
  refine ⟨?_, ?_, ?_⟩
  · have := abs_sub_le (Xyz.from_rgb (α := RF M) c k).x.val (Xyz.from_rgb (α := ℝ) c k).x (specXyz k c 0)
    linarith
  · have := abs_sub_le (Xyz.from_rgb (α := RF M) c k).y.val (Xyz.from_rgb (α := ℝ) c k).y (specXyz k c 1)
    linarith
  · have := abs_sub_le (Xyz.from_rgb (α := RF M) c k).z.val (Xyz.from_rgb (α := ℝ) c k).z (specXyz k c 2)
    linarith

/-- the property's own tolerance -/
theorem forward_close_1e6_fp (M : FPModel) (k : XyzKind) (c : Rgb) (hr : c.r ≤ 255) (hg : c.g ≤ 255)
    (hb : c.b ≤ 255) :
    |(Xyz.from_rgb (α := RF M) c k).x.val - specXyz k c 0| ≤ 1e-6 ∧
    |(Xyz.from_rgb (α := RF M) c k).y.val - specXyz k c 1| ≤ 1e-6 ∧
    |(Xyz.from_rgb (α := RF M) c k).z.val - specXyz k c 2| ≤ 1e-6 := by
  obtain ⟨h0, h1, h2⟩ := forward_close_fp M k c hr hg hb
  exact ⟨h0.trans (by norm_num), h1.trans (by norm_num), h2.trans (by norm_num)⟩

/-- **C05 reverse, rounded model** (definitional): in every model, `as_rgb x k` is ONE quantiser —
`round` (half away from zero) then the saturating `as u8` — applied to the three computed
pre-quantisation values `enc_k((x,y,z)·row_i(R_k)) · 255` of profile `k` (the wiring of rows, curve and
scale factor is `Lemmas.FpXyz.preF`, equal to the generated code by `rfl`) -/
theorem reverse_quant_fp (M : FPModel) (k : XyzKind) (x : Xyz (RF M)) :
    Xyz.as_rgb x k =
      ⟨Real.toU8 (Real.roundHA (preF M k (x.x, x.y, x.z)).1.val),
       Real.toU8 (Real.roundHA (preF M k (x.x, x.y, x.z)).2.1.val),
       Real.toU8 (Real.roundHA (preF M k (x.x, x.y, x.z)).2.2.val)⟩ :=
  as_rgb_eq_fp M k x

/-! ## black and white in the rounded model -/

/-- RGB black maps to XYZ (0,0,0) EXACTLY in every model -/
theorem black_to_zero_fp (M : FPModel) (k : XyzKind) :
    (Xyz.from_rgb (α := RF M) ⟨0, 0, 0⟩ k).x.val = 0 ∧ (Xyz.from_rgb (α := RF M) ⟨0, 0, 0⟩ k).y.val = 0 ∧
    (Xyz.from_rgb (α := RF M) ⟨0, 0, 0⟩ k).z.val = 0 := by
  rw [from_rgb_eq_fp']; exact xyz_black_fp M k

/-- XYZ (0,0,0) maps back to RGB black in every model -/
theorem zero_to_black_fp (M : FPModel) (k : XyzKind) (x : Xyz (RF M)) (hx : x.x.val = 0)
    (hy : x.y.val = 0) (hz : x.z.val = 0) : Xyz.as_rgb x k = ⟨0, 0, 0⟩ := by
  obtain ⟨p1, p2, p3⟩ := pre_zero_fp M k (x.x, x.y, x.z) hx hy hz
  rw [as_rgb_eq_fp, p1, p2, p3, Lemmas.Curves.quant_low 0 le_rfl]

/-- RGB white maps to the reference white of the profile up to `1e-6`, in every model -/
theorem white_to_reference_fp (M : FPModel) (k : XyzKind) :
    |(Xyz.from_rgb (α := RF M) ⟨255, 255, 255⟩ k).x.val - refWhite k 0| ≤ 1e-6 ∧
    |(Xyz.from_rgb (α := RF M) ⟨255, 255, 255⟩ k).y.val - refWhite k 1| ≤ 1e-6 ∧
    |(Xyz.from_rgb (α := RF M) ⟨255, 255, 255⟩ k).z.val - refWhite k 2| ≤ 1e-6 := by
  obtain ⟨f1, f2, f3⟩ := forward_fp M k ⟨255, 255, 255⟩ (by norm_num) (by norm_num) (by norm_num)
  have e : Xyz.from_rgb (α := ℝ) ⟨255, 255, 255⟩ k = toXyz (Lemmas.Matrix.mulVec (fwd k) (1, 1, 1)) := by
    rw [from_rgb_eq]; simp [toXyz, Lemmas.Matrix.mulVec, dot, lin, dec_one]
  rw [e] at f1 f2 f3
  have h0 := fwd_white_tight k 0
  have h1 := fwd_white_tight k 1
  have h2 := fwd_white_tight k 2
  have w : refWhite k 0 = (Lemmas.Matrix.white k).1 ∧ refWhite k 1 = (Lemmas.Matrix.white k).2.1 ∧
      refWhite k 2 = (Lemmas.Matrix.white k).2.2 := by
    cases k <;> simp [refWhite, whiteD50, whiteD65, Lemmas.Matrix.white]
  obtain ⟨w0, w1, w2⟩ := w
  rw [w0, w1, w2]
  simp only [V3.get] at h0 h1 h2
  simp only [toXyz] at f1 f2 f3
  refine ⟨?_, ?_, ?_⟩
  · have := abs_sub_le (Xyz.from_rgb (α := RF M) ⟨255, 255, 255⟩ k).x.val
      (Lemmas.Matrix.mulVec (fwd k) (1, 1, 1)).1 (Lemmas.Matrix.white k).1
    linarith
  · have := abs_sub_le (Xyz.from_rgb (α := RF M) ⟨255, 255, 255⟩ k).y.val
      (Lemmas.Matrix.mulVec (fwd k) (1, 1, 1)).2.1 (Lemmas.Matrix.white k).2.1
    linarith
  · have := abs_sub_le (Xyz.from_rgb (α := RF M) ⟨255, 255, 255⟩ k).z.val
      (Lemmas.Matrix.mulVec (fwd k) (1, 1, 1)).2.2 (Lemmas.Matrix.white k).2.2
    linarith

/-- conversely any computed XYZ within `1e-9` of the profile's reference white (e.g. its rounded
literal) maps back to RGB white (255,255,255), in every model -/
theorem reference_to_white_fp (M : FPModel) (k : XyzKind) (x : Xyz (RF M))
    (hx : |x.x.val - refWhite k 0| ≤ 1e-9) (hy : |x.y.val - refWhite k 1| ≤ 1e-9)
    (hz : |x.z.val - refWhite k 2| ≤ 1e-9) : Xyz.as_rgb x k = ⟨255, 255, 255⟩ := by
  have w : refWhite k 0 = (Lemmas.Matrix.white k).1 ∧ refWhite k 1 = (Lemmas.Matrix.white k).2.1 ∧
      refWhite k 2 = (Lemmas.Matrix.white k).2.2 := by
    cases k <;> simp [refWhite, whiteD50, whiteD65, Lemmas.Matrix.white]
  obtain ⟨w0, w1, w2⟩ := w
  rw [w0] at hx; rw [w1] at hy; rw [w2] at hz
  obtain ⟨p1, p2, p3⟩ := pre_white_fp M k (x.x, x.y, x.z) hx hy hz
  rw [as_rgb_eq_fp]
  rw [Lemmas.Curves.quant_eq 255 le_rfl _ (lt_of_le_of_lt (by push_cast; exact p1) (by norm_num)),
    Lemmas.Curves.quant_eq 255 le_rfl _ (lt_of_le_of_lt (by push_cast; exact p2) (by norm_num)),
    Lemmas.Curves.quant_eq 255 le_rfl _ (lt_of_le_of_lt (by push_cast; exact p3) (by norm_num))]

-- hypotheses satisfiable: the colour of the crate's own tests; the exact model is a model
example : |(Xyz.from_rgb (α := RF FPModel.exact) ⟨50, 10, 95⟩ .D50).y.val -
    (Xyz.from_rgb (α := ℝ) ⟨50, 10, 95⟩ .D50).y| ≤ 1e-12 :=
  (forward_fp FPModel.exact .D50 ⟨50, 10, 95⟩ (by norm_num) (by norm_num) (by norm_num)).2.1
example (M : FPModel) : |(Xyz.from_rgb (α := RF M) ⟨0, 11, 255⟩ .Adobe).z.val -
    specXyz .Adobe ⟨0, 11, 255⟩ 2| ≤ 1e-6 :=
  (forward_close_1e6_fp M .Adobe ⟨0, 11, 255⟩ (by norm_num) (by norm_num) (by norm_num)).2.2

example (M : FPModel) : Xyz.as_rgb (⟨Flt.ofNat 0, Flt.ofNat 0, Flt.ofNat 0⟩ : Xyz (RF M)) .D65 = ⟨0, 0, 0⟩ :=
  zero_to_black_fp M .D65 _ (by simp) (by simp) (by simp)
-- the D65 white as the rounded literals of any model
example (M : FPModel) : Xyz.as_rgb (⟨Flt.lit 0 95047 100000, Flt.lit 0 1 1, Flt.lit 0 108883 100000⟩ : Xyz (RF M)) .D65
    = ⟨255, 255, 255⟩ := by
  apply reference_to_white_fp M .D65
  · have h := FpErr.lit_close M 95047 100000 (B := 1) (by norm_num) (by norm_num)
    have e : ((95047:ℕ):ℝ)/((100000:ℕ):ℝ) = refWhite .D65 0 := by simp [refWhite, whiteD65]; norm_num
    rw [FltRF.lit_val]; rw [e] at h ⊢
    exact h.trans (by norm_num [FP.eps])
  · have h := FpErr.lit_close M 1 1 (B := 1) (by norm_num) (by norm_num)
    have e : ((1:ℕ):ℝ)/((1:ℕ):ℝ) = refWhite .D65 1 := by simp [refWhite, whiteD65]
    rw [FltRF.lit_val]; rw [e] at h ⊢
    exact h.trans (by norm_num [FP.eps])
  · have h := FpErr.lit_close M 108883 100000 (B := 2) (by norm_num) (by norm_num)
    have e : ((108883:ℕ):ℝ)/((100000:ℕ):ℝ) = refWhite .D65 2 := by simp [refWhite, whiteD65]; norm_num
    rw [FltRF.lit_val]; rw [e] at h ⊢
    exact h.trans (by norm_num [FP.eps])

end Props.C05
