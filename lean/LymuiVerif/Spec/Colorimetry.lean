import Mathlib.LinearAlgebra.Matrix.NonsingularInverse
import Mathlib.Analysis.SpecialFunctions.Pow.Real
import Mathlib.Tactic
/-!
# Colourimetric specification of an RGB working space (pure mathematics, no generated code)

* `rgbToXyz p W`: the RGB → XYZ matrix that follows from the chromaticities `p` of the primaries
  and the white point `W`:  `M = P · diag(P⁻¹ W)` where the columns of `P` are the XYZ of the
  primaries at Y = 1, i.e. `(x/y, 1, (1-x-y)/y)`.  `P⁻¹` is Mathlib's matrix inverse.
* `adapt Ws Wd`: linear Bradford chromatic adaptation from white `Ws` to white `Wd`.
* transfer functions: IEC 61966-2-1 (sRGB) and the pure gamma 563/256 = 2.19921875 of Adobe RGB (1998).
-/
namespace Spec.Colorimetry
open Matrix

abbrev Mat3 := Matrix (Fin 3) (Fin 3) ℝ
abbrev Vec3 := Fin 3 → ℝ

/-- CIE xy chromaticities of the red, green and blue primaries -/
structure Primaries where
  xr : ℝ
  yr : ℝ
  xg : ℝ
  yg : ℝ
  xb : ℝ
  yb : ℝ

/-- ITU-R BT.709 / sRGB primaries -/
noncomputable def srgbPrimaries : Primaries := ⟨0.64, 0.33, 0.30, 0.60, 0.15, 0.06⟩
/-- Adobe RGB (1998) primaries -/
noncomputable def adobePrimaries : Primaries := ⟨0.64, 0.33, 0.21, 0.71, 0.15, 0.06⟩

/-- D65 white, 2° observer, as used by the crate and by the property text -/
noncomputable def whiteD65 : Vec3 := ![0.95047, 1, 1.08883]
/-- D50 white -/
noncomputable def whiteD50 : Vec3 := ![0.96422, 1, 0.82521]

/-- XYZ of the primaries at unit luminance, as columns -/
noncomputable def primXYZ (p : Primaries) : Mat3 :=
  !![p.xr / p.yr, p.xg / p.yg, p.xb / p.yb;
     1, 1, 1;
     (1 - p.xr - p.yr) / p.yr, (1 - p.xg - p.yg) / p.yg, (1 - p.xb - p.yb) / p.yb]

/-- RGB → XYZ matrix of the working space with primaries `p` and white `W` -/
noncomputable def rgbToXyz (p : Primaries) (W : Vec3) : Mat3 :=
  primXYZ p * diagonal ((primXYZ p)⁻¹ *ᵥ W)

/-- Bradford cone-response matrix -/
noncomputable def bradford : Mat3 :=
  !![0.8951, 0.2664, -0.1614; -0.7502, 1.7135, 0.0367; 0.0389, -0.0685, 1.0296]

/-- linear Bradford adaptation from source white `Ws` to destination white `Wd` -/
noncomputable def adapt (Ws Wd : Vec3) : Mat3 :=
  bradford⁻¹ * diagonal (fun i => (bradford *ᵥ Wd) i / (bradford *ᵥ Ws) i) * bradford

/-- IEC 61966-2-1 decoding (non-linear → linear) -/
noncomputable def srgbDecode (v : ℝ) : ℝ :=
  if v ≤ 0.04045 then v / 12.92 else ((v + 0.055) / 1.055) ^ (2.4 : ℝ)

/-- IEC 61966-2-1 encoding (linear → non-linear) -/
noncomputable def srgbEncode (v : ℝ) : ℝ :=
  if v ≤ 0.0031308 then v * 12.92 else 1.055 * v ^ ((1 : ℝ) / 2.4) - 0.055

/-- Adobe RGB (1998) decoding: pure gamma 563/256 (argument ≥ 0) -/
noncomputable def adobeDecode (v : ℝ) : ℝ := v ^ ((563 : ℝ) / 256)

/-- Adobe RGB (1998) encoding: pure gamma 256/563, non-positive linear light clipped to 0 -/
noncomputable def adobeEncode (v : ℝ) : ℝ := if v ≤ 0 then 0 else v ^ ((1 : ℝ) / ((563 : ℝ) / 256))

end Spec.Colorimetry
