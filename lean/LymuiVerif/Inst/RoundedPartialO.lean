import LymuiVerif.Inst.RoundedPartial
/-!
# Definedness in the rounded model WITH OVERFLOW (property C04 "no infinity"): `PRFo M = Option ℝ`

`PRFo M` is `PRF M` (`Inst/RoundedPartial.lean`) plus overflow: every operation that PRODUCES a number
(`+ − × ÷`, literals, `pow`, `powi`, `cbrt`, `sqrt`, `atan2`, `sin`, `cos`, `pi`, `%`) returns `none` (= NaN / ±∞) when
the magnitude of its (rounded) result exceeds `FP.omega := 2^1023`, in addition to the `PRF` cases (division by a
computed zero, `powf` of a negative base, `sqrt` of a negative number, …).

`FP.omega = 2^1023` is a CONSERVATIVE stand-in for the largest finite binary64 `2^1024·(1 − 2^-53) ≈ 1.797e308`: a
result whose rounded magnitude is `≤ 2^1023` is certainly a finite binary64 (the unbounded-exponent rounding of
`FPModel` then coincides with the IEEE one), while results in `(2^1023, 2^1024)` — finite in IEEE — are declared `none`
here.  So a theorem "`= fin _`" on this carrier is slightly stronger than needed; nothing is lost on the paths of the
crate, whose true magnitudes stay below `1e5` (the crude bounds used in the proofs stay below `1e70`).

`neg`, `abs`, `max`, `min`, `round`, `floor` of a finite value cannot overflow and are as in `PRF`.  `ofNat`/`ofInt`
are exact as in `PRF` (the crate converts `u8`/`i64` values only; every `u64`/`i64` is far below `omega`).
`powi` checks its final result (and, for a negative exponent, also the intermediate product before the reciprocal);
for a non-negative exponent every intermediate square-and-multiply product of `__powidf2` is a factor of the final
result with cofactor of magnitude `≥ 1` whenever it can overflow, so the final check is the relevant one; the crate only
uses the exponents 2 and 3.
-/
open Classical

namespace FP
/-- overflow threshold of the model `PRFo`: `2^1023`, a conservative stand-in for the largest finite binary64
`2^1024·(1 − 2^-53)` -/
noncomputable def omega : ℝ := 2 ^ 1023
theorem omega_pos : 0 < omega := by unfold omega; positivity
/-- a convenient much smaller number -/
theorem big_le_omega : (10 : ℝ) ^ 250 ≤ omega := by
  unfold omega
  calc (10 : ℝ) ^ 250 ≤ (10 : ℝ) ^ 300 := pow_le_pow_right₀ (by norm_num) (by norm_num)
    _ = (10 ^ 3) ^ 100 := by rw [← pow_mul]
    _ ≤ (2 ^ 10) ^ 100 := by gcongr; norm_num
    _ = 2 ^ 1000 := by rw [← pow_mul]
    _ ≤ 2 ^ 1023 := pow_le_pow_right₀ (by norm_num) (by norm_num)
end FP

/-- a possibly non-finite floating-point number of the model `M`, overflow included -/
structure PRFo (M : FPModel) where
  val : Option ℝ

namespace PRFo
variable {M : FPModel}
@[ext] theorem ext' {a b : PRFo M} (h : a.val = b.val) : a = b := by cases a; cases b; simp_all
/-- a finite number -/
def fin (x : ℝ) : PRFo M := ⟨some x⟩
/-- a non-finite result -/
def nan : PRFo M := ⟨none⟩
def isFin (a : PRFo M) : Bool := a.val.isSome

/-- the overflow check: a produced number of magnitude above `FP.omega` is not finite -/
noncomputable def chk (x : ℝ) : PRFo M := if |x| ≤ FP.omega then ⟨some x⟩ else ⟨none⟩

noncomputable def bin (M : FPModel) (f : ℝ → ℝ → ℝ) : PRFo M → PRFo M → PRFo M
  | ⟨some a⟩, ⟨some b⟩ => chk (M.rnd (f a b))
  | _, _ => ⟨none⟩
noncomputable def div (M : FPModel) : PRFo M → PRFo M → PRFo M
  | ⟨some a⟩, ⟨some b⟩ => if b = 0 then ⟨none⟩ else chk (M.rnd (a / b))
  | _, _ => ⟨none⟩
noncomputable def cmp (p : ℝ → ℝ → Prop) : PRFo M → PRFo M → Bool
  | ⟨some a⟩, ⟨some b⟩ => decide (p a b)
  | _, _ => false
noncomputable def pow (M : FPModel) : PRFo M → PRFo M → PRFo M
  | ⟨some x⟩, ⟨some y⟩ =>
    if 0 < x then chk (M.pow x y)
    else if x = 0 then (if 0 < y then chk (M.pow 0 y) else ⟨none⟩)
    else ⟨none⟩
  | _, _ => ⟨none⟩
noncomputable def powi (M : FPModel) : PRFo M → ℤ → PRFo M
  | ⟨some x⟩, n =>
    if 0 ≤ n then chk (RF.powi M x n)
    else if RF.powiGo M 64 x 1 n.natAbs = 0 ∨ FP.omega < |RF.powiGo M 64 x 1 n.natAbs| then ⟨none⟩
    else chk (RF.powi M x n)
  | ⟨none⟩, _ => ⟨none⟩
noncomputable def sqrt (M : FPModel) : PRFo M → PRFo M
  | ⟨some x⟩ => if 0 ≤ x then chk (M.rnd (Real.sqrt x)) else ⟨none⟩
  | ⟨none⟩ => ⟨none⟩
/-- an operation that cannot overflow -/
noncomputable def map (f : ℝ → ℝ) : PRFo M → PRFo M
  | ⟨some a⟩ => ⟨some (f a)⟩
  | ⟨none⟩ => ⟨none⟩
/-- an operation that produces a number: checked -/
noncomputable def mapc (f : ℝ → ℝ) : PRFo M → PRFo M
  | ⟨some a⟩ => chk (f a)
  | ⟨none⟩ => ⟨none⟩
noncomputable def pmax : PRFo M → PRFo M → PRFo M
  | ⟨some a⟩, ⟨some b⟩ => ⟨some (max a b)⟩
  | ⟨some a⟩, ⟨none⟩ => ⟨some a⟩
  | ⟨none⟩, ⟨some b⟩ => ⟨some b⟩
  | ⟨none⟩, ⟨none⟩ => ⟨none⟩
noncomputable def pmin : PRFo M → PRFo M → PRFo M
  | ⟨some a⟩, ⟨some b⟩ => ⟨some (min a b)⟩
  | ⟨some a⟩, ⟨none⟩ => ⟨some a⟩
  | ⟨none⟩, ⟨some b⟩ => ⟨some b⟩
  | ⟨none⟩, ⟨none⟩ => ⟨none⟩
noncomputable def rem : PRFo M → PRFo M → PRFo M
  | ⟨some x⟩, ⟨some y⟩ => if y = 0 then ⟨none⟩ else chk (x - y * (Real.truncZ (x / y) : ℝ))
  | _, _ => ⟨none⟩
noncomputable def atan2 (M : FPModel) : PRFo M → PRFo M → PRFo M
  | ⟨some b⟩, ⟨some a⟩ => chk (M.atan2 b a)
  | _, _ => ⟨none⟩
end PRFo

noncomputable instance instFltPRFo (M : FPModel) : Flt (PRFo M) where
  add := PRFo.bin M (· + ·)
  sub := PRFo.bin M (· - ·)
  mul := PRFo.bin M (· * ·)
  div := PRFo.div M
  neg := PRFo.map (fun a => -a)
  ofNat n := ⟨some (n : ℝ)⟩
  ofInt i := ⟨some (i : ℝ)⟩
  lit _ num den := PRFo.chk (M.rnd ((num : ℝ) / (den : ℝ)))
  le := PRFo.cmp (· ≤ ·)
  lt := PRFo.cmp (· < ·)
  beq := PRFo.cmp (· = ·)
  rem := PRFo.rem
  pow := PRFo.pow M
  powi := PRFo.powi M
  cbrt := PRFo.mapc (fun a => M.rnd (Real.cbrt a))
  sqrt := PRFo.sqrt M
  abs := PRFo.map (fun a => |a|)
  round := PRFo.map Real.roundHA
  floor := PRFo.map (fun a => (⌊a⌋ : ℝ))
  max := PRFo.pmax
  min := PRFo.pmin
  atan2 := PRFo.atan2 M
  sin := PRFo.mapc M.sin
  cos := PRFo.mapc M.cos
  pi := PRFo.chk (M.rnd Real.pi)
  toU8 x := match x with | ⟨some a⟩ => Real.toU8 a | ⟨none⟩ => 0
  toI64 x := match x with | ⟨some a⟩ => Real.truncZ a | ⟨none⟩ => 0

/-- the finite number of `PRFo M` that carries the value of an `RF M` number -/
def RF.liftO {M : FPModel} (a : RF M) : PRFo M := ⟨some a.val⟩

namespace FltPRFo
variable {M : FPModel}
open PRFo
theorem chk_le {x : ℝ} (h : |x| ≤ FP.omega) : (chk x : PRFo M) = fin x := by simp [chk, h, fin]
theorem chk_gt {x : ℝ} (h : FP.omega < |x|) : (chk x : PRFo M) = nan := by simp [chk, not_le.mpr h, nan]
theorem add_fin (a b : ℝ) (h : |M.rnd (a + b)| ≤ FP.omega) : (fin a : PRFo M) + fin b = fin (M.rnd (a + b)) :=
  chk_le h
theorem sub_fin (a b : ℝ) (h : |M.rnd (a - b)| ≤ FP.omega) : (fin a : PRFo M) - fin b = fin (M.rnd (a - b)) :=
  chk_le h
theorem mul_fin (a b : ℝ) (h : |M.rnd (a * b)| ≤ FP.omega) : (fin a : PRFo M) * fin b = fin (M.rnd (a * b)) :=
  chk_le h
/-- the overflow case: a sum whose rounding exceeds `omega` is not finite -/
theorem add_overflow (a b : ℝ) (h : FP.omega < |M.rnd (a + b)|) : (fin a : PRFo M) + fin b = nan := chk_gt h
theorem mul_overflow (a b : ℝ) (h : FP.omega < |M.rnd (a * b)|) : (fin a : PRFo M) * fin b = nan := chk_gt h
@[simp] theorem neg_fin (a : ℝ) : -(fin a : PRFo M) = fin (-a) := rfl
theorem div_fin (a b : ℝ) (h : b ≠ 0) (ho : |M.rnd (a / b)| ≤ FP.omega) :
    (fin a : PRFo M) / fin b = fin (M.rnd (a / b)) := by
  show PRFo.div M ⟨some a⟩ ⟨some b⟩ = _; simp only [PRFo.div, h, if_false]; exact chk_le ho
@[simp] theorem div_zero (a : ℝ) : (fin a : PRFo M) / fin 0 = nan := by
  show PRFo.div M ⟨some a⟩ ⟨some 0⟩ = _; simp [PRFo.div, nan]
theorem div_overflow (a b : ℝ) (h : b ≠ 0) (ho : FP.omega < |M.rnd (a / b)|) : (fin a : PRFo M) / fin b = nan := by
  show PRFo.div M ⟨some a⟩ ⟨some b⟩ = _; simp only [PRFo.div, h, if_false]; exact chk_gt ho
@[simp] theorem ofNat_eq (n : ℕ) : (Flt.ofNat n : PRFo M) = fin (n : ℝ) := rfl
@[simp] theorem ofInt_eq (n : ℤ) : (Flt.ofInt n : PRFo M) = fin (n : ℝ) := rfl
theorem lit_eq (b : UInt64) (n d : ℕ) (h : |M.rnd ((n : ℝ) / (d : ℝ))| ≤ FP.omega) :
    (Flt.lit b n d : PRFo M) = fin (M.rnd ((n : ℝ) / (d : ℝ))) := chk_le h
@[simp] theorem le_fin (a b : ℝ) : Flt.le (fin a : PRFo M) (fin b) = decide (a ≤ b) := rfl
@[simp] theorem lt_fin (a b : ℝ) : Flt.lt (fin a : PRFo M) (fin b) = decide (a < b) := rfl
@[simp] theorem beq_fin (a b : ℝ) : Flt.beq (fin a : PRFo M) (fin b) = decide (a = b) := rfl
theorem pow_pos (x y : ℝ) (h : 0 < x) (ho : |M.pow x y| ≤ FP.omega) :
    Flt.pow (fin x : PRFo M) (fin y) = fin (M.pow x y) := by
  show PRFo.pow M ⟨some x⟩ ⟨some y⟩ = _; simp only [PRFo.pow, h, if_true]; exact chk_le ho
theorem pow_zero_pos (y : ℝ) (h : 0 < y) (ho : |M.pow 0 y| ≤ FP.omega) :
    Flt.pow (fin 0 : PRFo M) (fin y) = fin (M.pow 0 y) := by
  show PRFo.pow M ⟨some 0⟩ ⟨some y⟩ = _; simp only [PRFo.pow, lt_irrefl, if_false, h, if_true]; exact chk_le ho
theorem pow_nonneg (x y : ℝ) (hx : 0 ≤ x) (hy : 0 < y) (ho : |M.pow x y| ≤ FP.omega) :
    Flt.pow (fin x : PRFo M) (fin y) = fin (M.pow x y) := by
  rcases hx.lt_or_eq with h | h
  · exact pow_pos x y h ho
  · subst h; exact pow_zero_pos y hy ho
theorem pow_neg (x y : ℝ) (h : x < 0) : Flt.pow (fin x : PRFo M) (fin y) = nan := by
  show PRFo.pow M ⟨some x⟩ ⟨some y⟩ = _
  simp [PRFo.pow, not_lt.mpr h.le, h.ne, nan]
theorem powi_nonneg (x : ℝ) (n : ℤ) (h : 0 ≤ n) (ho : |RF.powi M x n| ≤ FP.omega) :
    Flt.powi (fin x : PRFo M) n = fin (RF.powi M x n) := by
  show PRFo.powi M ⟨some x⟩ n = _; simp only [PRFo.powi, h, if_true]; exact chk_le ho
theorem cbrt_fin (a : ℝ) (ho : |M.rnd (Real.cbrt a)| ≤ FP.omega) :
    Flt.cbrt (fin a : PRFo M) = fin (M.rnd (Real.cbrt a)) := chk_le ho
theorem sqrt_nonneg (a : ℝ) (h : 0 ≤ a) (ho : |M.rnd (Real.sqrt a)| ≤ FP.omega) :
    Flt.sqrt (fin a : PRFo M) = fin (M.rnd (Real.sqrt a)) := by
  show PRFo.sqrt M ⟨some a⟩ = _; simp only [PRFo.sqrt, h, if_true]; exact chk_le ho
theorem sqrt_neg (a : ℝ) (h : a < 0) : Flt.sqrt (fin a : PRFo M) = nan := by
  show PRFo.sqrt M ⟨some a⟩ = _; simp [PRFo.sqrt, not_le.mpr h, nan]
@[simp] theorem abs_fin (a : ℝ) : Flt.abs (fin a : PRFo M) = fin |a| := rfl
@[simp] theorem round_fin (a : ℝ) : Flt.round (fin a : PRFo M) = fin (Real.roundHA a) := rfl
@[simp] theorem floor_fin (a : ℝ) : Flt.floor (fin a : PRFo M) = fin (⌊a⌋ : ℝ) := rfl
@[simp] theorem max_fin (a b : ℝ) : Flt.max (fin a : PRFo M) (fin b) = fin (max a b) := rfl
@[simp] theorem min_fin (a b : ℝ) : Flt.min (fin a : PRFo M) (fin b) = fin (min a b) := rfl
theorem atan2_fin (b a : ℝ) (ho : |M.atan2 b a| ≤ FP.omega) :
    Flt.atan2 (fin b : PRFo M) (fin a) = fin (M.atan2 b a) := chk_le ho
theorem sin_fin (a : ℝ) (ho : |M.sin a| ≤ FP.omega) : Flt.sin (fin a : PRFo M) = fin (M.sin a) := chk_le ho
theorem cos_fin (a : ℝ) (ho : |M.cos a| ≤ FP.omega) : Flt.cos (fin a : PRFo M) = fin (M.cos a) := chk_le ho
theorem pi_eq (ho : |M.rnd Real.pi| ≤ FP.omega) : (Flt.pi : PRFo M) = fin (M.rnd Real.pi) := chk_le ho
@[simp] theorem toU8_fin (a : ℝ) : Flt.toU8 (fin a : PRFo M) = Real.toU8 a := rfl
@[simp] theorem toI64_fin (a : ℝ) : Flt.toI64 (fin a : PRFo M) = Real.truncZ a := rfl
theorem rem_fin (a b : ℝ) (h : b ≠ 0) (ho : |a - b * (Real.truncZ (a / b) : ℝ)| ≤ FP.omega) :
    Flt.rem (fin a : PRFo M) (fin b) = fin (a - b * (Real.truncZ (a / b) : ℝ)) := by
  show PRFo.rem ⟨some a⟩ ⟨some b⟩ = _; simp only [PRFo.rem, h, if_false]; exact chk_le ho
@[simp] theorem isFin_fin (a : ℝ) : (fin a : PRFo M).isFin = true := rfl
@[simp] theorem isFin_nan : (nan : PRFo M).isFin = false := rfl
@[simp] theorem liftO_eq (a : RF M) : RF.liftO a = fin a.val := rfl

/-! ## magnitude bounds that discharge the side conditions -/

theorem u_le : FP.u ≤ 0.01 := le_trans FP.u_lt.le (by norm_num)
theorem eta_le : FP.eta ≤ 1 := le_trans FP.eta_lt.le (by
  rw [div_le_one (by positivity)]; exact one_le_pow₀ (by norm_num))

/-- one rounding: `|rnd x| ≤ 1.01·B + 1` when `|x| ≤ B` -/
theorem abs_rnd_le (M : FPModel) {x B : ℝ} (h : |x| ≤ B) : |M.rnd x| ≤ 1.01 * B + 1 := by
  have e := M.rnd_err x
  have h0 := abs_nonneg x
  have t : |M.rnd x| ≤ |M.rnd x - x| + |x| := by
    have := abs_add_le (M.rnd x - x) x; simpa using this
  have u1 := u_le; have u2 := eta_le; have u3 := FP.u_pos
  nlinarith
/-- a libm function with the 1-ulp bound: `|f| ≤ 1.01·B + 1` when the exact value has `|v| ≤ B` -/
theorem abs_ulp_le {f v B : ℝ} (e : |f - v| ≤ 2 * FP.u * |v| + FP.eta) (h : |v| ≤ B) : |f| ≤ 1.01 * B + 1 := by
  have h0 := abs_nonneg v
  have t : |f| ≤ |f - v| + |v| := by
    have := abs_add_le (f - v) v; simpa using this
  have u1 : FP.u ≤ 0.005 := le_trans FP.u_lt.le (by norm_num)
  have u2 := eta_le; have u3 := FP.u_pos
  nlinarith
/-- `powf` of a non-negative base -/
theorem abs_pow_le (M : FPModel) {x y : ℝ} (hx : 0 ≤ x) : |M.pow x y| ≤ 1.01 * x ^ y + 1 :=
  abs_ulp_le (M.pow_err x y hx) (by rw [abs_of_nonneg (Real.rpow_nonneg hx y)])
theorem abs_sin_le (M : FPModel) (x : ℝ) : |M.sin x| ≤ 1.01 + 1 := by
  have := abs_ulp_le (M.sin_err x) (Real.abs_sin_le_one x); linarith
theorem abs_cos_le (M : FPModel) (x : ℝ) : |M.cos x| ≤ 1.01 + 1 := by
  have := abs_ulp_le (M.cos_err x) (Real.abs_cos_le_one x); linarith
theorem abs_atan2_le (M : FPModel) (y x : ℝ) : |M.atan2 y x| ≤ 1.01 * Real.pi + 1 :=
  abs_ulp_le (M.atan2_err y x) (Complex.abs_arg_le_pi _)
theorem abs_atan2_le' (M : FPModel) (y x : ℝ) : |M.atan2 y x| ≤ 6 := by
  have := abs_atan2_le M y x; have := Real.pi_le_four; linarith
theorem abs_pi_le (M : FPModel) : |M.rnd Real.pi| ≤ 6 := by
  have := abs_rnd_le M (x := Real.pi) (B := 4) (by rw [abs_of_pos Real.pi_pos]; exact Real.pi_le_four)
  linarith
end FltPRFo
