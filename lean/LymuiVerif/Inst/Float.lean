import LymuiVerif.Core.Flt
/-! `Float` instance: the executable reading of the model, compared bit-for-bit (up to the
stated ulp tolerance on libm calls) against the real crate by the correspondence harness. -/

def Float.rustMax (a b : Float) : Float :=
  if a.isNaN then b else if b.isNaN then a else if a < b then b else a
def Float.rustMin (a b : Float) : Float :=
  if a.isNaN then b else if b.isNaN then a else if b < a then b else a
def Float.trunc (a : Float) : Float := if a < 0 then Float.ceil a else Float.floor a
/-- compiler-rt's `__powidf2` (what `f64::powi` lowers to): square-and-multiply -/
def Float.powiGo (fuel : Nat) (a r : Float) (b : Nat) : Float :=
  match fuel with
  | 0 => r
  | fuel + 1 =>
    let r := if b % 2 == 1 then r * a else r
    let b := b / 2
    if b == 0 then r else Float.powiGo fuel (a * a) r b
def Float.rustPowi (a : Float) (n : Int) : Float :=
  let r := Float.powiGo 64 a 1.0 n.natAbs
  if n < 0 then 1.0 / r else r

/-! Rust's `f64::cbrt` is the correctly rounded CORE-MATH port (libm ≥ 0.2.12); C's `cbrt`
(what `Float.cbrt` calls) is not.  `cbrtCR` corrects the C result to the nearest double by exact
integer comparisons of the cubes of the rounding midpoints. -/
namespace CbrtCR
/-- positive finite double with bit pattern `b` as `m * 2^e` -/
def decode (b : Nat) : Nat × Int :=
  let ef := b / 2 ^ 52 % 2048
  let mf := b % 2 ^ 52
  if ef == 0 then (mf, (-1074 : Int)) else (2 ^ 52 + mf, ((ef : Nat) : Int) - 1075)
/-- is `((v(b) + v(b+1)) / 2)^3 ≤ x` where `x = X * 2^F`? (`b`, `b+1` bit patterns of positive doubles) -/
def midCubeLe (b : Nat) (X : Nat) (F : Int) : Bool :=
  let (m1, e1) := decode b
  let (m2, e2) := decode (b + 1)
  let em := min e1 e2
  let M := m1 * 2 ^ (e1 - em).toNat + m2 * 2 ^ (e2 - em).toNat
  let a : Int := 3 * (em - 1)
  if a ≥ F then M ^ 3 * 2 ^ (a - F).toNat ≤ X else M ^ 3 ≤ X * 2 ^ (F - a).toNat
def fix (x : Float) : Float :=
  let xb := x.toBits.toNat
  let (X, F) := decode xb
  let y0 := (Float.cbrt x).toBits.toNat
  -- move up while the midpoint above is still ≤ the true root, then down
  let up := (List.range 4).foldl (fun y _ => if midCubeLe y X F then y + 1 else y) y0
  let dn := (List.range 4).foldl (fun y _ => if y > 0 && !(midCubeLe (y - 1) X F) then y - 1 else y) up
  Float.ofBits (UInt64.ofNat dn)
end CbrtCR

def Float.cbrtCR (x : Float) : Float :=
  if x.isNaN || x.isInf || x == 0 then x
  else if x < 0 then -(CbrtCR.fix (-x)) else CbrtCR.fix x

instance : Flt Float where
  ofNat n := n.toFloat
  ofInt i := Float.ofInt i
  lit bits _ _ := Float.ofBits bits
  le a b := a ≤ b
  lt a b := a < b
  beq a b := a == b
  rem a b := a - b * Float.trunc (a / b)
  pow := Float.pow
  powi := Float.rustPowi
  cbrt := Float.cbrtCR
  sqrt := Float.sqrt
  abs := Float.abs
  round := Float.round
  floor := Float.floor
  max := Float.rustMax
  min := Float.rustMin
  atan2 := Float.atan2
  sin := Float.sin
  cos := Float.cos
  pi := Float.ofBits 0x400921FB54442D18
  toU8 x := x.toUInt8.toNat
  toI64 x := x.toInt64.toInt
