import LymuiVerif.Core.Flt
/-! `Float` instance: the executable reading of the model, compared bit-for-bit (up to the
stated ulp tolerance on libm calls) against the real crate by the correspondence harness. -/

def Float.rustMax (a b : Float) : Float :=
  if a.isNaN then b else if b.isNaN then a else if a < b then b else a
def Float.rustMin (a b : Float) : Float :=
  if a.isNaN then b else if b.isNaN then a else if b < a then b else a
def Float.trunc (a : Float) : Float := if a < 0 then Float.ceil a else Float.floor a
def Float.powiGo (x : Float) : Nat → Float
  | 0 => 1.0
  | n + 1 => x * Float.powiGo x n

instance : Flt Float where
  ofNat n := n.toFloat
  ofInt i := Float.ofInt i
  lit bits _ _ := Float.ofBits bits
  le a b := a ≤ b
  lt a b := a < b
  beq a b := a == b
  rem a b := a - b * Float.trunc (a / b)
  pow := Float.pow
  powi a n := Float.pow a (Float.ofInt n)
  cbrt := Float.cbrt
  sqrt := Float.sqrt
  abs := Float.abs
  round := Float.round
  floor := Float.floor
  max := Float.rustMax
  min := Float.rustMin
  atan2 := Float.atan2
  sin := Float.sin
  cos := Float.cos
  pi := Float.ofBits 0x400921FB54442D18
  toU8 x := x.toUInt8.toNat
  toI64 x := x.toInt64.toInt
