import LymuiVerif.Gen.Model
import Mathlib.Analysis.SpecialFunctions.Pow.Real
import Mathlib.Analysis.SpecialFunctions.Complex.Arg
import Mathlib.Analysis.SpecialFunctions.Trigonometric.Basic
import Mathlib.Tactic
/-!
# The exact-real reading of the model

`Flt ℝ`: every operation is the mathematical one, without rounding.  What this instance does NOT
capture (IEEE rounding, NaN/∞, signed zeros) is listed in DESIGN.md §3.2; theorems that depend on a
division by zero or on a power of a negative base are never stated on this instance without the
corresponding side condition (Mathlib totalises `x / 0 = 0` and `rpow`).
-/
open Classical

/-- `f64::round`: half away from zero -/
noncomputable def Real.roundHA (x : ℝ) : ℝ := if 0 ≤ x then (⌊x + 1 / 2⌋ : ℝ) else -(⌊-x + 1 / 2⌋ : ℝ)
/-- truncation toward zero -/
noncomputable def Real.truncZ (x : ℝ) : ℤ := if 0 ≤ x then ⌊x⌋ else ⌈x⌉
/-- Rust `as u8` on a real: truncate toward zero, saturate at 0 and 255 -/
noncomputable def Real.toU8 (x : ℝ) : ℕ := if x ≤ 0 then 0 else if 255 ≤ x then 255 else ⌊x⌋₊
/-- Rust `cbrt` (odd extension of the real cube root) -/
noncomputable def Real.cbrt (x : ℝ) : ℝ := if 0 ≤ x then x ^ ((1 : ℝ) / 3) else -((-x) ^ ((1 : ℝ) / 3))

noncomputable instance instFltReal : Flt ℝ where
  ofNat n := (n : ℝ)
  ofInt i := (i : ℝ)
  lit _ num den := (num : ℝ) / (den : ℝ)
  le a b := decide (a ≤ b)
  lt a b := decide (a < b)
  beq a b := decide (a = b)
  rem a b := a - b * (Real.truncZ (a / b) : ℝ)
  pow x y := x ^ y
  powi x n := x ^ n
  cbrt := Real.cbrt
  sqrt := Real.sqrt
  abs x := |x|
  round := Real.roundHA
  floor x := (⌊x⌋ : ℝ)
  max a b := max a b
  min a b := min a b
  atan2 y x := Complex.arg (⟨x, y⟩ : ℂ)
  sin := Real.sin
  cos := Real.cos
  pi := Real.pi
  toU8 := Real.toU8
  toI64 x := Real.truncZ x

namespace FltReal
@[simp] theorem ofNat_eq (n : ℕ) : (Flt.ofNat n : ℝ) = (n : ℝ) := rfl
@[simp] theorem ofInt_eq (n : ℤ) : (Flt.ofInt n : ℝ) = (n : ℝ) := rfl
@[simp] theorem lit_eq (b : UInt64) (n d : ℕ) : (Flt.lit b n d : ℝ) = (n : ℝ) / (d : ℝ) := rfl
@[simp] theorem le_eq (a b : ℝ) : Flt.le a b = decide (a ≤ b) := rfl
@[simp] theorem lt_eq (a b : ℝ) : Flt.lt a b = decide (a < b) := rfl
@[simp] theorem beq_eq (a b : ℝ) : Flt.beq a b = decide (a = b) := rfl
@[simp] theorem rem_eq (a b : ℝ) : Flt.rem a b = a - b * (Real.truncZ (a / b) : ℝ) := rfl
@[simp] theorem pow_eq (a b : ℝ) : Flt.pow a b = a ^ b := rfl
@[simp] theorem powi_eq (a : ℝ) (n : ℤ) : Flt.powi a n = a ^ n := rfl
@[simp] theorem cbrt_eq (a : ℝ) : Flt.cbrt a = Real.cbrt a := rfl
@[simp] theorem sqrt_eq (a : ℝ) : Flt.sqrt a = Real.sqrt a := rfl
@[simp] theorem abs_eq (a : ℝ) : Flt.abs a = |a| := rfl
@[simp] theorem round_eq (a : ℝ) : Flt.round a = Real.roundHA a := rfl
@[simp] theorem floor_eq (a : ℝ) : Flt.floor a = (⌊a⌋ : ℝ) := rfl
@[simp] theorem max_eq (a b : ℝ) : Flt.max a b = max a b := rfl
@[simp] theorem min_eq (a b : ℝ) : Flt.min a b = min a b := rfl
@[simp] theorem atan2_eq (y x : ℝ) : Flt.atan2 y x = Complex.arg (⟨x, y⟩ : ℂ) := rfl
@[simp] theorem sin_eq (a : ℝ) : Flt.sin a = Real.sin a := rfl
@[simp] theorem cos_eq (a : ℝ) : Flt.cos a = Real.cos a := rfl
@[simp] theorem pi_eq : (Flt.pi : ℝ) = Real.pi := rfl
@[simp] theorem toU8_eq (a : ℝ) : Flt.toU8 a = Real.toU8 a := rfl
@[simp] theorem toI64_eq (a : ℝ) : Flt.toI64 a = Real.truncZ a := rfl
end FltReal
