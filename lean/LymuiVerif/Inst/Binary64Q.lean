import LymuiVerif.Inst.Binary64
import LymuiVerif.Core.RneQ
/-!
# Bridge: the executable rational rounding `rneQ` IS the real rounding `B64.rne`

`rneQ` (`Core/RneQ.lean`, integer arithmetic only, compiled and compared bit for bit with the hardware `Float`
operations by `StdModel.checkRne`) and `B64.rne` (`Inst/Binary64.lean`, the definition the `FPModel` theorems are
proved about) agree on every rational: `rneQ_eq`.
-/

namespace RneQ

theorem pow2_cast (s : ℤ) : ((pow2 s : ℚ) : ℝ) = (2 : ℝ) ^ s := by
  unfold pow2
  split_ifs with h
  · obtain ⟨n, rfl⟩ := Int.eq_ofNat_of_zero_le h
    simp
  · obtain ⟨n, hn⟩ := Int.eq_ofNat_of_zero_le (show 0 ≤ -s by omega)
    have hs : s = -(n : ℤ) := by omega
    subst hs
    simp

/-- `2^e = 2^e.toNat / 2^(-e).toNat` -/
theorem zpow_eq_div (e : ℤ) : (2 : ℝ) ^ e = (2 : ℝ) ^ e.toNat / (2 : ℝ) ^ (-e).toNat := by
  rcases le_or_gt 0 e with h | h
  · obtain ⟨n, rfl⟩ := Int.eq_ofNat_of_zero_le h
    simp
  · obtain ⟨n, hn⟩ := Int.eq_ofNat_of_zero_le (show 0 ≤ -e by omega)
    have hs : e = -(n : ℤ) := by omega
    subst hs
    simp

theorem ilog2_spec (a d : ℕ) (ha : 0 < a) (hd : 0 < d) :
    (2 : ℝ) ^ ilog2 a d ≤ (a : ℝ) / d ∧ (a : ℝ) / d < (2 : ℝ) ^ (ilog2 a d + 1) := by
  have hdR : (0 : ℝ) < d := by exact_mod_cast hd
  have ha1 : (2 : ℝ) ^ a.log2 ≤ a := by exact_mod_cast Nat.log2_self_le ha.ne'
  have ha2 : (a : ℝ) < 2 ^ (a.log2 + 1) := by exact_mod_cast Nat.lt_log2_self
  have hd1 : (2 : ℝ) ^ d.log2 ≤ d := by exact_mod_cast Nat.log2_self_le hd.ne'
  have hd2 : (d : ℝ) < 2 ^ (d.log2 + 1) := by exact_mod_cast Nat.lt_log2_self
  set e0 : ℤ := (a.log2 : ℤ) - (d.log2 : ℤ) with he0
  -- the integer test is the real comparison `2^e0 ≤ a/d`
  have htest : d * 2 ^ e0.toNat ≤ a * 2 ^ (-e0).toNat ↔ (2 : ℝ) ^ e0 ≤ (a : ℝ) / d := by
    rw [le_div_iff₀ hdR, zpow_eq_div e0, div_mul_eq_mul_div, div_le_iff₀ (by positivity)]
    rw [← Nat.cast_le (α := ℝ)]; push_cast
    constructor <;> intro h <;> linarith
  have hup : (a : ℝ) / d < (2 : ℝ) ^ (e0 + 1) := by
    rw [div_lt_iff₀ hdR]
    calc (a : ℝ) < 2 ^ (a.log2 + 1) := ha2
      _ = (2 : ℝ) ^ (e0 + 1) * 2 ^ d.log2 := by
        rw [← zpow_natCast, ← zpow_natCast, ← zpow_add₀ (by norm_num)]; congr 1; push_cast; omega
      _ ≤ (2 : ℝ) ^ (e0 + 1) * d := by gcongr
  have hlow : (2 : ℝ) ^ (e0 - 1) < (a : ℝ) / d := by
    rw [lt_div_iff₀ hdR]
    calc (2 : ℝ) ^ (e0 - 1) * d < (2 : ℝ) ^ (e0 - 1) * 2 ^ (d.log2 + 1) := by gcongr
      _ = 2 ^ a.log2 := by
        rw [← zpow_natCast, ← zpow_natCast, ← zpow_add₀ (by norm_num)]; congr 1; push_cast; omega
      _ ≤ a := ha1
  unfold ilog2
  simp only [← he0]
  split_ifs with h
  · exact ⟨htest.mp h, hup⟩
  · refine ⟨hlow.le, ?_⟩
    rw [sub_add_cancel]
    exact lt_of_not_ge (fun hc => h (htest.mpr hc))

theorem rheDiv_spec (num den : ℕ) (hden : 0 < den) :
    ((rheDiv num den : ℕ) : ℤ) = B64.rhe ((num : ℝ) / (den : ℝ)) := by
  symm
  have hdR : (0 : ℝ) < den := by exact_mod_cast hden
  have hdm : (num : ℝ) = (den : ℝ) * ((num / den : ℕ) : ℝ) + ((num % den : ℕ) : ℝ) := by
    exact_mod_cast (Nat.div_add_mod num den).symm
  set fl := num / den with hfl
  set r := num % den with hr
  set t : ℝ := (r : ℝ) / den with ht
  have hsplit : (num : ℝ) / den = (fl : ℝ) + t := by
    rw [ht, hdm]; field_simp
  have ht0 : 0 ≤ t := by positivity
  have hlt : 2 * r < den ↔ t < 1 / 2 := by
    rw [ht, div_lt_iff₀ hdR, ← Nat.cast_lt (α := ℝ)]; push_cast
    constructor <;> intro h <;> linarith
  have hgt : den < 2 * r ↔ 1 / 2 < t := by
    rw [ht, lt_div_iff₀ hdR, ← Nat.cast_lt (α := ℝ)]; push_cast
    constructor <;> intro h <;> linarith
  rw [hsplit]
  unfold rheDiv
  simp only [← hfl, ← hr]
  split_ifs with h1 h2 h3
  · apply B64.rhe_eq_of; left
    have := hlt.mp h1
    push_cast; rw [abs_lt]; constructor <;> linarith
  · apply B64.rhe_eq_of; left
    have := hgt.mp h2
    have : t < 1 := by
      rw [ht, div_lt_one hdR]; exact_mod_cast Nat.mod_lt num hden
    push_cast; rw [abs_lt]; constructor <;> linarith
  · have h12 : t = 1 / 2 := le_antisymm (not_lt.mp (fun h => h2 (hgt.mpr h))) (not_lt.mp (fun h => h1 (hlt.mpr h)))
    apply B64.rhe_eq_of; right
    refine ⟨by push_cast; rw [h12]; norm_num, ?_⟩
    rw [Int.even_coe_nat]; exact Nat.even_iff.mpr h3
  · have h12 : t = 1 / 2 := le_antisymm (not_lt.mp (fun h => h2 (hgt.mpr h))) (not_lt.mp (fun h => h1 (hlt.mpr h)))
    apply B64.rhe_eq_of; right
    refine ⟨by push_cast; rw [h12]; norm_num, ?_⟩
    rw [Int.even_coe_nat, Nat.even_add_one, Nat.even_iff]; exact h3

theorem abs_cast (x : ℚ) : |(x : ℝ)| = (x.num.natAbs : ℝ) / (x.den : ℝ) := by
  have hd : (0 : ℝ) < x.den := by exact_mod_cast x.den_pos
  rw [Rat.cast_def x, abs_div, abs_of_pos hd]
  congr 1
  rw [← Int.cast_abs, Int.abs_eq_natAbs]; simp

theorem natAbs_pos {x : ℚ} (hx : x ≠ 0) : 0 < x.num.natAbs :=
  Int.natAbs_pos.mpr (Rat.num_ne_zero.mpr hx)

theorem expo_eq {x : ℚ} (hx : x ≠ 0) : expo x = B64.expo (x : ℝ) := by
  have h := ilog2_spec x.num.natAbs x.den (natAbs_pos hx) x.den_pos
  rw [← abs_cast] at h
  have hlog := B64.log_eq_of h.1 h.2
  unfold expo B64.expo
  rw [hlog]
  simp only []
  split_ifs with hlt
  · rw [max_eq_right (by omega)]
  · rw [max_eq_left (by omega)]

theorem mant_eq {x : ℚ} (hx : x ≠ 0) : ((mant x : ℕ) : ℤ) = B64.mant (x : ℝ) := by
  unfold mant
  simp only []
  rw [rheDiv_spec _ _ (Nat.mul_pos x.den_pos (Nat.pow_pos (by norm_num)))]
  unfold B64.mant B64.ulp
  rw [← expo_eq hx, abs_cast, zpow_eq_div (expo x - 52)]
  congr 1
  have hd : (0 : ℝ) < x.den := by exact_mod_cast x.den_pos
  push_cast
  field_simp

end RneQ

/-- **the executable rational rounding is the real binary64 rounding** -/
theorem rneQ_eq (x : ℚ) : ((rneQ x : ℚ) : ℝ) = B64.rne (x : ℝ) := by
  unfold rneQ
  split_ifs with h0 hneg
  · have : x = 0 := Rat.num_eq_zero.mp h0  -- zero
    subst this; simp [B64.rne_zero]
  · -- negative
    have hx : x ≠ 0 := fun h => h0 (Rat.num_eq_zero.mpr h)
    have hxR : (x : ℝ) < 0 := by exact_mod_cast Rat.num_neg.mp hneg
    rw [B64.rne_eq, sign_neg hxR]
    simp only []
    push_cast
    rw [RneQ.pow2_cast, RneQ.expo_eq hx]
    have := RneQ.mant_eq hx
    have hm : ((RneQ.mant x : ℕ) : ℝ) = ((B64.mant (x : ℝ) : ℤ) : ℝ) := by exact_mod_cast this
    rw [hm]; unfold B64.ulp; simp
  · -- positive
    have hx : x ≠ 0 := fun h => h0 (Rat.num_eq_zero.mpr h)
    have hxR : (0 : ℝ) < (x : ℝ) := by
      have : 0 < x.num := by omega
      exact_mod_cast Rat.num_pos.mp this
    rw [B64.rne_of_pos hxR]
    simp only []
    push_cast
    rw [RneQ.pow2_cast, RneQ.expo_eq hx]
    have := RneQ.mant_eq hx
    have hm : ((RneQ.mant x : ℕ) : ℝ) = ((B64.mant (x : ℝ) : ℤ) : ℝ) := by exact_mod_cast this
    rw [hm]; rfl

/-- the rounding of the binary64 model on a rational argument is computed by `rneQ` -/
theorem FPModel.binary64_rnd_ratCast (L : LibM) (x : ℚ) :
    (FPModel.binary64 L).rnd (x : ℝ) = ((rneQ x : ℚ) : ℝ) := (rneQ_eq x).symm

/-- e.g. one rounded addition / multiplication / division of the model `RF (FPModel.binary64 L)` on rational operands
is what `StdModel.checkRne` compares with the hardware -/
theorem FPModel.binary64_add_ratCast (L : LibM) (a b : ℚ) :
    (FPModel.binary64 L).rnd ((a : ℝ) + (b : ℝ)) = ((rneQ (a + b) : ℚ) : ℝ) := by
  rw [← FPModel.binary64_rnd_ratCast]; push_cast; rfl
theorem FPModel.binary64_sub_ratCast (L : LibM) (a b : ℚ) :
    (FPModel.binary64 L).rnd ((a : ℝ) - (b : ℝ)) = ((rneQ (a - b) : ℚ) : ℝ) := by
  rw [← FPModel.binary64_rnd_ratCast]; push_cast; rfl
theorem FPModel.binary64_mul_ratCast (L : LibM) (a b : ℚ) :
    (FPModel.binary64 L).rnd ((a : ℝ) * (b : ℝ)) = ((rneQ (a * b) : ℚ) : ℝ) := by
  rw [← FPModel.binary64_rnd_ratCast]; push_cast; rfl
theorem FPModel.binary64_div_ratCast (L : LibM) (a b : ℚ) :
    (FPModel.binary64 L).rnd ((a : ℝ) / (b : ℝ)) = ((rneQ (a / b) : ℚ) : ℝ) := by
  rw [← FPModel.binary64_rnd_ratCast]; push_cast; rfl

