import LymuiVerif.Inst.Real
/-!
# The definedness reading of the model (property C04): `PR = Option ℝ`

`some x` is a finite `f64` whose value is (up to rounding) `x`; `none` is a non-finite result
(NaN or ±∞).  An operation yields `none` exactly where IEEE arithmetic leaves the finite numbers
for exact-real inputs: division by zero, a power of a negative base (conservatively also for integer
exponents), `0` to a negative power, the square root of a negative number; `none` propagates through
arithmetic.  Comparisons involving `none` are `false` (exact for NaN; an infinity can only arise
from `x / 0` with `x ≠ 0`, see DESIGN §13.C04).  `as u8` of `none` is `0` (Rust's cast of NaN;
the one infinity that reaches a cast is discussed in DESIGN).  Overflow to ±∞ and underflow to 0 of
finite real results are NOT modelled (magnitudes here stay below 1e5).
-/
open Classical

abbrev PR := Option ℝ

namespace PR
noncomputable def bin (f : ℝ → ℝ → ℝ) : PR → PR → PR
  | some a, some b => some (f a b)
  | _, _ => none
noncomputable def div : PR → PR → PR
  | some a, some b => if b = 0 then none else some (a / b)
  | _, _ => none
noncomputable def cmp (p : ℝ → ℝ → Prop) : PR → PR → Bool
  | some a, some b => decide (p a b)
  | _, _ => false
noncomputable def pow : PR → PR → PR
  | some x, some y => if 0 < x then some (x ^ y) else if x = 0 then (if 0 < y then some 0 else if y = 0 then some 1 else none) else none
  | _, _ => none
noncomputable def powi : PR → ℤ → PR
  | some x, n => if 0 ≤ n then some (x ^ n) else if x = 0 then none else some (x ^ n)
  | none, _ => none
noncomputable def sqrt : PR → PR
  | some x => if 0 ≤ x then some (Real.sqrt x) else none
  | none => none
/-- `f64::max`/`min` ignore a NaN operand -/
noncomputable def pmax : PR → PR → PR
  | some a, some b => some (max a b)
  | some a, none => some a
  | none, some b => some b
  | none, none => none
noncomputable def pmin : PR → PR → PR
  | some a, some b => some (min a b)
  | some a, none => some a
  | none, some b => some b
  | none, none => none
end PR

noncomputable instance instFltPR : Flt PR where
  add := PR.bin (· + ·)
  sub := PR.bin (· - ·)
  mul := PR.bin (· * ·)
  div := PR.div
  neg x := x.map (fun a => -a)
  ofNat n := some (n : ℝ)
  ofInt i := some (i : ℝ)
  lit _ num den := some ((num : ℝ) / (den : ℝ))
  le := PR.cmp (· ≤ ·)
  lt := PR.cmp (· < ·)
  beq := PR.cmp (· = ·)
  rem a b := match a, b with
    | some x, some y => if y = 0 then none else some (x - y * (Real.truncZ (x / y) : ℝ))
    | _, _ => none
  pow := PR.pow
  powi := PR.powi
  cbrt x := x.map Real.cbrt
  sqrt := PR.sqrt
  abs x := x.map (fun a => |a|)
  round x := x.map Real.roundHA
  floor x := x.map (fun a => (⌊a⌋ : ℝ))
  max := PR.pmax
  min := PR.pmin
  atan2 y x := match y, x with
    | some b, some a => some (Complex.arg (⟨a, b⟩ : ℂ))
    | _, _ => none
  sin x := x.map Real.sin
  cos x := x.map Real.cos
  pi := some Real.pi
  toU8 x := match x with | some a => Real.toU8 a | none => 0
  toI64 x := match x with | some a => Real.truncZ a | none => 0

namespace FltPR
@[simp] theorem add_some (a b : ℝ) : (some a : PR) + some b = some (a + b) := rfl
@[simp] theorem sub_some (a b : ℝ) : (some a : PR) - some b = some (a - b) := rfl
@[simp] theorem mul_some (a b : ℝ) : (some a : PR) * some b = some (a * b) := rfl
@[simp] theorem neg_some (a : ℝ) : -(some a : PR) = some (-a) := rfl
theorem div_some (a b : ℝ) (h : b ≠ 0) : (some a : PR) / some b = some (a / b) := by
  show PR.div (some a) (some b) = _; simp [PR.div, h]
@[simp] theorem div_zero (a : ℝ) : (some a : PR) / some 0 = none := by
  show PR.div (some a) (some 0) = _; simp [PR.div]
@[simp] theorem ofNat_eq (n : ℕ) : (Flt.ofNat n : PR) = some (n : ℝ) := rfl
@[simp] theorem ofInt_eq (n : ℤ) : (Flt.ofInt n : PR) = some (n : ℝ) := rfl
@[simp] theorem lit_eq (b : UInt64) (n d : ℕ) : (Flt.lit b n d : PR) = some ((n : ℝ) / (d : ℝ)) := rfl
@[simp] theorem le_some (a b : ℝ) : Flt.le (some a : PR) (some b) = decide (a ≤ b) := rfl
@[simp] theorem lt_some (a b : ℝ) : Flt.lt (some a : PR) (some b) = decide (a < b) := rfl
@[simp] theorem beq_some (a b : ℝ) : Flt.beq (some a : PR) (some b) = decide (a = b) := rfl
theorem pow_pos (x y : ℝ) (h : 0 < x) : Flt.pow (some x : PR) (some y) = some (x ^ y) := by
  show PR.pow _ _ = _; simp [PR.pow, h]
theorem pow_zero_pos (y : ℝ) (h : 0 < y) : Flt.pow (some 0 : PR) (some y) = some 0 := by
  show PR.pow _ _ = _; simp [PR.pow, h]
theorem pow_nonneg (x y : ℝ) (hx : 0 ≤ x) (hy : 0 < y) : Flt.pow (some x : PR) (some y) = some (x ^ y) := by
  rcases hx.lt_or_eq with h | h
  · exact pow_pos x y h
  · subst h; rw [pow_zero_pos y hy, Real.zero_rpow hy.ne']
theorem powi_nonneg (x : ℝ) (n : ℤ) (h : 0 ≤ n) : Flt.powi (some x : PR) n = some (x ^ n) := by
  show PR.powi _ _ = _; simp [PR.powi, h]
@[simp] theorem cbrt_some (a : ℝ) : Flt.cbrt (some a : PR) = some (Real.cbrt a) := rfl
theorem sqrt_nonneg (a : ℝ) (h : 0 ≤ a) : Flt.sqrt (some a : PR) = some (Real.sqrt a) := by
  show PR.sqrt _ = _; simp [PR.sqrt, h]
@[simp] theorem abs_some (a : ℝ) : Flt.abs (some a : PR) = some |a| := rfl
@[simp] theorem round_some (a : ℝ) : Flt.round (some a : PR) = some (Real.roundHA a) := rfl
@[simp] theorem floor_some (a : ℝ) : Flt.floor (some a : PR) = some (⌊a⌋ : ℝ) := rfl
@[simp] theorem max_some (a b : ℝ) : Flt.max (some a : PR) (some b) = some (max a b) := rfl
@[simp] theorem min_some (a b : ℝ) : Flt.min (some a : PR) (some b) = some (min a b) := rfl
@[simp] theorem atan2_some (b a : ℝ) : Flt.atan2 (some b : PR) (some a) = some (Complex.arg (⟨a, b⟩ : ℂ)) := rfl
@[simp] theorem sin_some (a : ℝ) : Flt.sin (some a : PR) = some (Real.sin a) := rfl
@[simp] theorem cos_some (a : ℝ) : Flt.cos (some a : PR) = some (Real.cos a) := rfl
@[simp] theorem pi_eq : (Flt.pi : PR) = some Real.pi := rfl
@[simp] theorem toU8_some (a : ℝ) : Flt.toU8 (some a : PR) = Real.toU8 a := rfl
@[simp] theorem toU8_none : Flt.toU8 (none : PR) = 0 := rfl
theorem rem_some (a b : ℝ) (h : b ≠ 0) : Flt.rem (some a : PR) (some b) = some (a - b * (Real.truncZ (a / b) : ℝ)) := by
  show (match (some a : PR), (some b : PR) with | some x, some y => if y = 0 then none else some (x - y * (Real.truncZ (x / y) : ℝ)) | _, _ => none) = _
  simp [h]
end FltPR
