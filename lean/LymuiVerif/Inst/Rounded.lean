import LymuiVerif.Inst.Real
/-!
# The rounded-arithmetic reading of the model

`Flt (RF M)`: every arithmetic operation is the exact real operation followed by a rounding
`M.rnd`, where `M : FPModel` is ANY rounding operator that satisfies the *standard model of
floating-point arithmetic with gradual underflow* (Higham, Accuracy and Stability of Numerical
Algorithms, §2.2): relative error at most `u = 2^-53` plus an absolute error `η = 2^-1075`,
monotone, odd, exact on integers up to `2^53`.  IEEE-754 binary64 round-to-nearest-even is such
an operator as long as no operation overflows: `Inst/Binary64.lean` DEFINES that rounding on ℝ
(`B64.rne`: 53-bit significand, ties to even, gradual underflow, no overflow) and PROVES the four
`rnd_*` fields for it (`FPModel.binary64`); `Inst/Binary64Q.lean` proves that the executable rational
version `rneQ` (`Core/RneQ.lean`) computes the same function, and `./check` compares `rneQ` with the
hardware `+ − × ÷` bit for bit on random operands (ties and subnormals included) on every run.
What remains assumed: that the hardware implements IEEE-754 correct rounding on the inputs that
are not sampled, absence of overflow (the theorems carry explicit magnitude bounds, all far below
`1.8e308`), and the libm bounds below.  The identity is another model (`FPModel.exact`), so the
exact-real reading is an instance of this one.

The library functions that are not correctly rounded on the platform (`powf`, `atan2`, `sin`,
`cos`) are fields with the error bound that glibc documents (1 ulp, i.e. `2u` relative);
`sqrt` (IEEE) and `cbrt` (Rust's CORE-MATH port) are correctly rounded, i.e. `rnd` of the exact
value.  Comparisons, `abs`, `neg`, `max`, `min`, `round`, `floor`, `%` (fmod) and the
integer conversions are exact operations in IEEE-754 and are modelled as exact.

A theorem stated for every `M : FPModel` therefore holds for the f64 evaluation of the same
generated model, up to overflow and the four libm bounds above.
-/
open Classical

namespace FP
/-- unit roundoff of binary64 -/
noncomputable def u : ℝ := 1 / 2 ^ 53
/-- half the smallest subnormal of binary64 -/
noncomputable def eta : ℝ := 1 / 2 ^ 1075
theorem u_pos : 0 < u := by unfold u; positivity
theorem eta_pos : 0 < eta := by unfold eta; positivity
theorem u_lt : u < 1.2e-16 := by unfold u; norm_num
theorem eta_lt : eta < 1 / 10 ^ 240 := by
  unfold eta; apply one_div_lt_one_div_of_lt (by positivity)
  calc (10 : ℝ) ^ 240 = (10 ^ 3) ^ 80 := by rw [← pow_mul]
    _ < (2 ^ 10) ^ 80 := by gcongr; norm_num
    _ = 2 ^ 800 := by rw [← pow_mul]
    _ ≤ 2 ^ 1075 := pow_le_pow_right₀ (by norm_num) (by norm_num)
end FP

/-- A rounding operator and library functions satisfying the standard model. -/
structure FPModel where
  rnd : ℝ → ℝ
  rnd_err : ∀ x, |rnd x - x| ≤ FP.u * |x| + FP.eta
  rnd_mono : Monotone rnd
  rnd_neg : ∀ x, rnd (-x) = -rnd x
  rnd_int : ∀ n : ℤ, |(n : ℝ)| ≤ 2 ^ 53 → rnd n = n
  /-- `powf` of the platform libm, for a non-negative base -/
  pow : ℝ → ℝ → ℝ
  pow_err : ∀ x y, 0 ≤ x → |pow x y - x ^ y| ≤ 2 * FP.u * |x ^ y| + FP.eta
  /-- a power of a non-negative base is never negative (every libm returns `+0` or a positive number; without this field the
  error bound alone would allow `pow 0 y = -2^-1075`, whose square root is NaN — see DESIGN.md section 16) -/
  pow_nonneg : ∀ x y, 0 ≤ x → 0 ≤ pow x y
  atan2 : ℝ → ℝ → ℝ
  atan2_err : ∀ y x, |atan2 y x - Complex.arg (⟨x, y⟩ : ℂ)| ≤ 2 * FP.u * |Complex.arg (⟨x, y⟩ : ℂ)| + FP.eta
  sin : ℝ → ℝ
  sin_err : ∀ x, |sin x - Real.sin x| ≤ 2 * FP.u * |Real.sin x| + FP.eta
  cos : ℝ → ℝ
  cos_err : ∀ x, |cos x - Real.cos x| ≤ 2 * FP.u * |Real.cos x| + FP.eta

/-- the exact-real arithmetic is a model (so `FPModel` is inhabited and nothing below is vacuous) -/
noncomputable def FPModel.exact : FPModel where
  rnd := id
  rnd_err x := by simp; exact add_nonneg (mul_nonneg FP.u_pos.le (abs_nonneg _)) FP.eta_pos.le
  rnd_mono := monotone_id
  rnd_neg _ := rfl
  rnd_int _ _ := rfl
  pow x y := x ^ y
  pow_err x y _ := by simp; exact add_nonneg (mul_nonneg (by have := FP.u_pos; positivity) (abs_nonneg _)) FP.eta_pos.le
  pow_nonneg x y hx := Real.rpow_nonneg hx y
  atan2 y x := Complex.arg (⟨x, y⟩ : ℂ)
  atan2_err y x := by simp; exact add_nonneg (mul_nonneg (by have := FP.u_pos; positivity) (abs_nonneg _)) FP.eta_pos.le
  sin := Real.sin
  sin_err x := by simp; exact add_nonneg (mul_nonneg (by have := FP.u_pos; positivity) (abs_nonneg _)) FP.eta_pos.le
  cos := Real.cos
  cos_err x := by simp; exact add_nonneg (mul_nonneg (by have := FP.u_pos; positivity) (abs_nonneg _)) FP.eta_pos.le

/-- a floating-point number of the model `M`: a real (the carrier does not restrict to representable
values; every operation result is in the range of `M.rnd`) -/
structure RF (M : FPModel) where
  val : ℝ

namespace RF
variable {M : FPModel}
@[ext] theorem ext' {a b : RF M} (h : a.val = b.val) : a = b := by cases a; cases b; simp_all

/-- compiler-rt's `__powidf2`: square-and-multiply, every product rounded -/
noncomputable def powiGo (M : FPModel) (fuel : Nat) (a r : ℝ) (b : Nat) : ℝ :=
  match fuel with
  | 0 => r
  | fuel + 1 =>
    let r := if b % 2 = 1 then M.rnd (r * a) else r
    let b := b / 2
    if b = 0 then r else powiGo M fuel (M.rnd (a * a)) r b
noncomputable def powi (M : FPModel) (a : ℝ) (n : Int) : ℝ :=
  let r := powiGo M 64 a 1 n.natAbs
  if n < 0 then M.rnd (1 / r) else r
end RF

noncomputable instance instFltRF (M : FPModel) : Flt (RF M) where
  add a b := ⟨M.rnd (a.val + b.val)⟩
  sub a b := ⟨M.rnd (a.val - b.val)⟩
  mul a b := ⟨M.rnd (a.val * b.val)⟩
  div a b := ⟨M.rnd (a.val / b.val)⟩
  neg a := ⟨-a.val⟩
  ofNat n := ⟨(n : ℝ)⟩
  ofInt i := ⟨(i : ℝ)⟩
  lit _ num den := ⟨M.rnd ((num : ℝ) / (den : ℝ))⟩
  le a b := decide (a.val ≤ b.val)
  lt a b := decide (a.val < b.val)
  beq a b := decide (a.val = b.val)
  rem a b := ⟨a.val - b.val * (Real.truncZ (a.val / b.val) : ℝ)⟩
  pow x y := ⟨M.pow x.val y.val⟩
  powi x n := ⟨RF.powi M x.val n⟩
  cbrt x := ⟨M.rnd (Real.cbrt x.val)⟩
  sqrt x := ⟨M.rnd (Real.sqrt x.val)⟩
  abs x := ⟨|x.val|⟩
  round x := ⟨Real.roundHA x.val⟩
  floor x := ⟨(⌊x.val⌋ : ℝ)⟩
  max a b := ⟨max a.val b.val⟩
  min a b := ⟨min a.val b.val⟩
  atan2 y x := ⟨M.atan2 y.val x.val⟩
  sin x := ⟨M.sin x.val⟩
  cos x := ⟨M.cos x.val⟩
  pi := ⟨M.rnd Real.pi⟩
  toU8 x := Real.toU8 x.val
  toI64 x := Real.truncZ x.val

namespace FltRF
variable {M : FPModel}
@[simp] theorem add_val (a b : RF M) : (a + b).val = M.rnd (a.val + b.val) := rfl
@[simp] theorem sub_val (a b : RF M) : (a - b).val = M.rnd (a.val - b.val) := rfl
@[simp] theorem mul_val (a b : RF M) : (a * b).val = M.rnd (a.val * b.val) := rfl
@[simp] theorem div_val (a b : RF M) : (a / b).val = M.rnd (a.val / b.val) := rfl
@[simp] theorem neg_val (a : RF M) : (-a).val = -a.val := rfl
@[simp] theorem ofNat_val (n : ℕ) : (Flt.ofNat n : RF M).val = (n : ℝ) := rfl
@[simp] theorem ofInt_val (n : ℤ) : (Flt.ofInt n : RF M).val = (n : ℝ) := rfl
@[simp] theorem lit_val (b : UInt64) (n d : ℕ) : (Flt.lit b n d : RF M).val = M.rnd ((n : ℝ) / (d : ℝ)) := rfl
@[simp] theorem le_eq (a b : RF M) : Flt.le a b = decide (a.val ≤ b.val) := rfl
@[simp] theorem lt_eq (a b : RF M) : Flt.lt a b = decide (a.val < b.val) := rfl
@[simp] theorem beq_eq (a b : RF M) : Flt.beq a b = decide (a.val = b.val) := rfl
@[simp] theorem rem_val (a b : RF M) : (Flt.rem a b).val = a.val - b.val * (Real.truncZ (a.val / b.val) : ℝ) := rfl
@[simp] theorem pow_val (a b : RF M) : (Flt.pow a b).val = M.pow a.val b.val := rfl
@[simp] theorem powi_val (a : RF M) (n : ℤ) : (Flt.powi a n).val = RF.powi M a.val n := rfl
@[simp] theorem cbrt_val (a : RF M) : (Flt.cbrt a).val = M.rnd (Real.cbrt a.val) := rfl
@[simp] theorem sqrt_val (a : RF M) : (Flt.sqrt a).val = M.rnd (Real.sqrt a.val) := rfl
@[simp] theorem abs_val (a : RF M) : (Flt.abs a).val = |a.val| := rfl
@[simp] theorem round_val (a : RF M) : (Flt.round a).val = Real.roundHA a.val := rfl
@[simp] theorem floor_val (a : RF M) : (Flt.floor a).val = (⌊a.val⌋ : ℝ) := rfl
@[simp] theorem max_val (a b : RF M) : (Flt.max a b).val = max a.val b.val := rfl
@[simp] theorem min_val (a b : RF M) : (Flt.min a b).val = min a.val b.val := rfl
@[simp] theorem atan2_val (y x : RF M) : (Flt.atan2 y x).val = M.atan2 y.val x.val := rfl
@[simp] theorem sin_val (a : RF M) : (Flt.sin a).val = M.sin a.val := rfl
@[simp] theorem cos_val (a : RF M) : (Flt.cos a).val = M.cos a.val := rfl
@[simp] theorem pi_val : (Flt.pi : RF M).val = M.rnd Real.pi := rfl
@[simp] theorem toU8_eq (a : RF M) : Flt.toU8 a = Real.toU8 a.val := rfl
@[simp] theorem toI64_eq (a : RF M) : Flt.toI64 a = Real.truncZ a.val := rfl
end FltRF
