import LymuiVerif.Inst.Rounded
import LymuiVerif.Inst.Partial
/-!
# Definedness in the rounded model (property C04 in floating point): `PRF M = Option ℝ`

The combination of `Inst/Partial.lean` (`none` = NaN/±∞) and `Inst/Rounded.lean` (every arithmetic result is rounded by an
arbitrary `M : FPModel`).  `some x` is a finite f64 with value `x`; an operation yields `none` exactly where IEEE arithmetic
leaves the finite numbers for finite inputs: division by (a computed) zero, `powf` of a negative base (conservatively for every
exponent) or of zero to a non-positive exponent, `sqrt` of a negative number, `powi` with a negative exponent of zero, `%` by zero;
`none` propagates; comparisons with `none` are false; `max`/`min` ignore a `none` operand (as `f64::max` ignores NaN);
`as u8` of `none` is 0.  Overflow of finite results is not modelled (magnitudes on the proved paths stay below 1e5).

Why this matters: whether a matrix residue that is `0` over ℝ comes out as `-1e-17` in f64 and then reaches `powf` is a question
about ROUNDED arithmetic; the exact-real `PR` reading cannot see it.  A theorem `∀ M, … = some _` on this instance says that no
rounding operator of the standard model can produce such a residue on that path.
-/
open Classical

/-- a possibly non-finite floating-point number of the model `M` -/
structure PRF (M : FPModel) where
  val : Option ℝ

namespace PRF
variable {M : FPModel}
@[ext] theorem ext' {a b : PRF M} (h : a.val = b.val) : a = b := by cases a; cases b; simp_all
/-- a finite number -/
def fin (x : ℝ) : PRF M := ⟨some x⟩
/-- a non-finite result -/
def nan : PRF M := ⟨none⟩
def isFin (a : PRF M) : Bool := a.val.isSome

noncomputable def bin (M : FPModel) (f : ℝ → ℝ → ℝ) : PRF M → PRF M → PRF M
  | ⟨some a⟩, ⟨some b⟩ => ⟨some (M.rnd (f a b))⟩
  | _, _ => ⟨none⟩
noncomputable def div (M : FPModel) : PRF M → PRF M → PRF M
  | ⟨some a⟩, ⟨some b⟩ => if b = 0 then ⟨none⟩ else ⟨some (M.rnd (a / b))⟩
  | _, _ => ⟨none⟩
noncomputable def cmp (p : ℝ → ℝ → Prop) : PRF M → PRF M → Bool
  | ⟨some a⟩, ⟨some b⟩ => decide (p a b)
  | _, _ => false
noncomputable def pow (M : FPModel) : PRF M → PRF M → PRF M
  | ⟨some x⟩, ⟨some y⟩ =>
    if 0 < x then ⟨some (M.pow x y)⟩
    else if x = 0 then (if 0 < y then ⟨some (M.pow 0 y)⟩ else ⟨none⟩)
    else ⟨none⟩
  | _, _ => ⟨none⟩
noncomputable def powi (M : FPModel) : PRF M → ℤ → PRF M
  | ⟨some x⟩, n => if 0 ≤ n then ⟨some (RF.powi M x n)⟩ else if RF.powiGo M 64 x 1 n.natAbs = 0 then ⟨none⟩ else ⟨some (RF.powi M x n)⟩
  | ⟨none⟩, _ => ⟨none⟩
noncomputable def sqrt (M : FPModel) : PRF M → PRF M
  | ⟨some x⟩ => if 0 ≤ x then ⟨some (M.rnd (Real.sqrt x))⟩ else ⟨none⟩
  | ⟨none⟩ => ⟨none⟩
noncomputable def map (f : ℝ → ℝ) : PRF M → PRF M
  | ⟨some a⟩ => ⟨some (f a)⟩
  | ⟨none⟩ => ⟨none⟩
noncomputable def pmax : PRF M → PRF M → PRF M
  | ⟨some a⟩, ⟨some b⟩ => ⟨some (max a b)⟩
  | ⟨some a⟩, ⟨none⟩ => ⟨some a⟩
  | ⟨none⟩, ⟨some b⟩ => ⟨some b⟩
  | ⟨none⟩, ⟨none⟩ => ⟨none⟩
noncomputable def pmin : PRF M → PRF M → PRF M
  | ⟨some a⟩, ⟨some b⟩ => ⟨some (min a b)⟩
  | ⟨some a⟩, ⟨none⟩ => ⟨some a⟩
  | ⟨none⟩, ⟨some b⟩ => ⟨some b⟩
  | ⟨none⟩, ⟨none⟩ => ⟨none⟩
end PRF

noncomputable instance instFltPRF (M : FPModel) : Flt (PRF M) where
  add := PRF.bin M (· + ·)
  sub := PRF.bin M (· - ·)
  mul := PRF.bin M (· * ·)
  div := PRF.div M
  neg := PRF.map (fun a => -a)
  ofNat n := ⟨some (n : ℝ)⟩
  ofInt i := ⟨some (i : ℝ)⟩
  lit _ num den := ⟨some (M.rnd ((num : ℝ) / (den : ℝ)))⟩
  le := PRF.cmp (· ≤ ·)
  lt := PRF.cmp (· < ·)
  beq := PRF.cmp (· = ·)
  rem a b := match a, b with
    | ⟨some x⟩, ⟨some y⟩ => if y = 0 then ⟨none⟩ else ⟨some (x - y * (Real.truncZ (x / y) : ℝ))⟩
    | _, _ => ⟨none⟩
  pow := PRF.pow M
  powi := PRF.powi M
  cbrt := PRF.map (fun a => M.rnd (Real.cbrt a))
  sqrt := PRF.sqrt M
  abs := PRF.map (fun a => |a|)
  round := PRF.map Real.roundHA
  floor := PRF.map (fun a => (⌊a⌋ : ℝ))
  max := PRF.pmax
  min := PRF.pmin
  atan2 y x := match y, x with
    | ⟨some b⟩, ⟨some a⟩ => ⟨some (M.atan2 b a)⟩
    | _, _ => ⟨none⟩
  sin := PRF.map M.sin
  cos := PRF.map M.cos
  pi := ⟨some (M.rnd Real.pi)⟩
  toU8 x := match x with | ⟨some a⟩ => Real.toU8 a | ⟨none⟩ => 0
  toI64 x := match x with | ⟨some a⟩ => Real.truncZ a | ⟨none⟩ => 0

/-- the finite number of `PRF M` that carries the value of an `RF M` number -/
def RF.lift {M : FPModel} (a : RF M) : PRF M := ⟨some a.val⟩

namespace FltPRF
variable {M : FPModel}
open PRF
@[simp] theorem add_fin (a b : ℝ) : (fin a : PRF M) + fin b = fin (M.rnd (a + b)) := rfl
@[simp] theorem sub_fin (a b : ℝ) : (fin a : PRF M) - fin b = fin (M.rnd (a - b)) := rfl
@[simp] theorem mul_fin (a b : ℝ) : (fin a : PRF M) * fin b = fin (M.rnd (a * b)) := rfl
@[simp] theorem neg_fin (a : ℝ) : -(fin a : PRF M) = fin (-a) := rfl
theorem div_fin (a b : ℝ) (h : b ≠ 0) : (fin a : PRF M) / fin b = fin (M.rnd (a / b)) := by
  show PRF.div M ⟨some a⟩ ⟨some b⟩ = _; simp [PRF.div, h, fin]
@[simp] theorem div_zero (a : ℝ) : (fin a : PRF M) / fin 0 = nan := by
  show PRF.div M ⟨some a⟩ ⟨some 0⟩ = _; simp [PRF.div, nan]
@[simp] theorem ofNat_eq (n : ℕ) : (Flt.ofNat n : PRF M) = fin (n : ℝ) := rfl
@[simp] theorem ofInt_eq (n : ℤ) : (Flt.ofInt n : PRF M) = fin (n : ℝ) := rfl
@[simp] theorem lit_eq (b : UInt64) (n d : ℕ) : (Flt.lit b n d : PRF M) = fin (M.rnd ((n : ℝ) / (d : ℝ))) := rfl
@[simp] theorem le_fin (a b : ℝ) : Flt.le (fin a : PRF M) (fin b) = decide (a ≤ b) := rfl
@[simp] theorem lt_fin (a b : ℝ) : Flt.lt (fin a : PRF M) (fin b) = decide (a < b) := rfl
@[simp] theorem beq_fin (a b : ℝ) : Flt.beq (fin a : PRF M) (fin b) = decide (a = b) := rfl
theorem pow_pos (x y : ℝ) (h : 0 < x) : Flt.pow (fin x : PRF M) (fin y) = fin (M.pow x y) := by
  show PRF.pow M ⟨some x⟩ ⟨some y⟩ = _; simp [PRF.pow, h, fin]
theorem pow_zero_pos (y : ℝ) (h : 0 < y) : Flt.pow (fin 0 : PRF M) (fin y) = fin (M.pow 0 y) := by
  show PRF.pow M ⟨some 0⟩ ⟨some y⟩ = _; simp [PRF.pow, h, fin]
theorem pow_nonneg (x y : ℝ) (hx : 0 ≤ x) (hy : 0 < y) : Flt.pow (fin x : PRF M) (fin y) = fin (M.pow x y) := by
  rcases hx.lt_or_eq with h | h
  · exact pow_pos x y h
  · subst h; exact pow_zero_pos y hy
theorem pow_neg (x y : ℝ) (h : x < 0) : Flt.pow (fin x : PRF M) (fin y) = nan := by
  show PRF.pow M ⟨some x⟩ ⟨some y⟩ = _
  simp [PRF.pow, not_lt.mpr h.le, h.ne, nan]
theorem powi_nonneg (x : ℝ) (n : ℤ) (h : 0 ≤ n) : Flt.powi (fin x : PRF M) n = fin (RF.powi M x n) := by
  show PRF.powi M ⟨some x⟩ n = _; simp [PRF.powi, h, fin]
@[simp] theorem cbrt_fin (a : ℝ) : Flt.cbrt (fin a : PRF M) = fin (M.rnd (Real.cbrt a)) := rfl
theorem sqrt_nonneg (a : ℝ) (h : 0 ≤ a) : Flt.sqrt (fin a : PRF M) = fin (M.rnd (Real.sqrt a)) := by
  show PRF.sqrt M ⟨some a⟩ = _; simp [PRF.sqrt, h, fin]
theorem sqrt_neg (a : ℝ) (h : a < 0) : Flt.sqrt (fin a : PRF M) = nan := by
  show PRF.sqrt M ⟨some a⟩ = _; simp [PRF.sqrt, not_le.mpr h, nan]
@[simp] theorem abs_fin (a : ℝ) : Flt.abs (fin a : PRF M) = fin |a| := rfl
@[simp] theorem round_fin (a : ℝ) : Flt.round (fin a : PRF M) = fin (Real.roundHA a) := rfl
@[simp] theorem floor_fin (a : ℝ) : Flt.floor (fin a : PRF M) = fin (⌊a⌋ : ℝ) := rfl
@[simp] theorem max_fin (a b : ℝ) : Flt.max (fin a : PRF M) (fin b) = fin (max a b) := rfl
@[simp] theorem min_fin (a b : ℝ) : Flt.min (fin a : PRF M) (fin b) = fin (min a b) := rfl
@[simp] theorem atan2_fin (b a : ℝ) : Flt.atan2 (fin b : PRF M) (fin a) = fin (M.atan2 b a) := rfl
@[simp] theorem sin_fin (a : ℝ) : Flt.sin (fin a : PRF M) = fin (M.sin a) := rfl
@[simp] theorem cos_fin (a : ℝ) : Flt.cos (fin a : PRF M) = fin (M.cos a) := rfl
@[simp] theorem pi_eq : (Flt.pi : PRF M) = fin (M.rnd Real.pi) := rfl
@[simp] theorem toU8_fin (a : ℝ) : Flt.toU8 (fin a : PRF M) = Real.toU8 a := rfl
@[simp] theorem toI64_fin (a : ℝ) : Flt.toI64 (fin a : PRF M) = Real.truncZ a := rfl
theorem rem_fin (a b : ℝ) (h : b ≠ 0) :
    Flt.rem (fin a : PRF M) (fin b) = fin (a - b * (Real.truncZ (a / b) : ℝ)) := by
  show (match (⟨some a⟩ : PRF M), (⟨some b⟩ : PRF M) with
    | ⟨some x⟩, ⟨some y⟩ => if y = 0 then (⟨none⟩ : PRF M) else ⟨some (x - y * (Real.truncZ (x / y) : ℝ))⟩
    | _, _ => ⟨none⟩) = _
  simp [h, fin]
@[simp] theorem isFin_fin (a : ℝ) : (fin a : PRF M).isFin = true := rfl
@[simp] theorem isFin_nan : (nan : PRF M).isFin = false := rfl
@[simp] theorem lift_eq (a : RF M) : RF.lift a = fin a.val := rfl
end FltPRF
