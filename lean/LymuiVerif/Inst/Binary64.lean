import LymuiVerif.Inst.Rounded
import Mathlib.Data.Int.Log
/-!
# IEEE-754 binary64 round-to-nearest-even as a formal definition, and the proof that it is an `FPModel`

`B64.rne : ℝ → ℝ` rounds a real to the binary64 grid: 53 significant bits, smallest exponent `-1022`
(gradual underflow: below `2^-1022` the grid spacing stays `2^-1074`), ties to the even significand.  The grid is
UNBOUNDED ABOVE: overflow is not modelled (the theorems that use `FPModel` carry magnitude bounds far below `2^1023`;
the executable twin `rneQ` of `Core/RneQ.lean` is compared bit for bit with the hardware on results below `2^1023`).

The four theorems `rne_err`, `rne_mono`, `rne_neg`, `rne_int` are exactly the four `rnd_*` fields of `FPModel`, hence
`FPModel.binary64 L` for any libm `L : LibM`, and every theorem `∀ M : FPModel, …` of this project applies to it.
-/

namespace B64

/-- round half to even, `ℝ → ℤ` -/
noncomputable def rhe (m : ℝ) : ℤ :=
  if Int.fract m < 1 / 2 then ⌊m⌋
  else if 1 / 2 < Int.fract m then ⌊m⌋ + 1
  else if Even ⌊m⌋ then ⌊m⌋ else ⌊m⌋ + 1

/-- binade exponent used for rounding `x`: `max ⌊log₂ |x|⌋ (-1022)` -/
noncomputable def expo (x : ℝ) : ℤ := max (Int.log 2 |x|) (-1022)

/-- grid spacing around `x`: `2^(expo x - 52)` -/
noncomputable def ulp (x : ℝ) : ℝ := (2 : ℝ) ^ (expo x - 52)

/-- the rounded significand of `x` (an integer in `[2^52, 2^53]` in the normal range, `≤ 2^52` below) -/
noncomputable def mant (x : ℝ) : ℤ := rhe (|x| / ulp x)

/-- binary64 round-to-nearest-even of a real (no overflow, gradual underflow) -/
noncomputable def rne (x : ℝ) : ℝ :=
  if x = 0 then 0 else (SignType.sign x : ℝ) * (mant x : ℝ) * ulp x

/-! ## round half even -/

theorem rhe_intCast (k : ℤ) : rhe (k : ℝ) = k := by
  simp [rhe]

theorem floor_le_rhe (m : ℝ) : ⌊m⌋ ≤ rhe m := by
  unfold rhe; split_ifs <;> omega

theorem rhe_le_floor_add_one (m : ℝ) : rhe m ≤ ⌊m⌋ + 1 := by
  unfold rhe; split_ifs <;> omega

theorem abs_rhe_sub_le (m : ℝ) : |(rhe m : ℝ) - m| ≤ 1 / 2 := by
  have h := Int.floor_add_fract m
  have h0 := Int.fract_nonneg m
  have h1 := Int.fract_lt_one m
  rw [abs_le]
  unfold rhe
  split_ifs <;> push_cast <;> constructor <;> linarith

theorem rhe_mono : Monotone rhe := by
  intro a b hab
  have hf : ⌊a⌋ ≤ ⌊b⌋ := Int.floor_mono hab
  rcases lt_or_eq_of_le hf with hlt | heq
  · calc rhe a ≤ ⌊a⌋ + 1 := rhe_le_floor_add_one a
      _ ≤ ⌊b⌋ := hlt
      _ ≤ rhe b := floor_le_rhe b
  · have hfr : Int.fract a ≤ Int.fract b := by
      have ha := Int.floor_add_fract a
      have hb := Int.floor_add_fract b
      have : ((⌊a⌋ : ℤ) : ℝ) = ((⌊b⌋ : ℤ) : ℝ) := by rw [heq]
      linarith
    unfold rhe
    rw [heq]
    split_ifs <;> first | omega | (exfalso; linarith)

/-- `rhe m` is THE nearest integer, the even one at a tie -/
theorem rhe_eq_of (n : ℤ) (m : ℝ) (h : |(n : ℝ) - m| < 1 / 2 ∨ (|(n : ℝ) - m| = 1 / 2 ∧ Even n)) :
    rhe m = n := by
  rcases h with h | ⟨h, hev⟩
  · rw [abs_lt] at h
    rcases le_or_gt (n : ℝ) m with hle | hgt
    · have hfl : ⌊m⌋ = n := by rw [Int.floor_eq_iff]; constructor <;> linarith
      have hfr : Int.fract m = m - n := by rw [Int.fract, hfl]
      unfold rhe; rw [hfr, hfl, if_pos (by linarith)]
    · have hfl : ⌊m⌋ = n - 1 := by rw [Int.floor_eq_iff]; push_cast; constructor <;> linarith
      have hfr : Int.fract m = m - n + 1 := by rw [Int.fract, hfl]; push_cast; ring
      unfold rhe; rw [hfr, hfl, if_neg (by linarith), if_pos (by linarith)]; ring
  · rcases le_or_gt (n : ℝ) m with hle | hgt
    · rw [abs_of_nonpos (by linarith)] at h
      have hfl : ⌊m⌋ = n := by rw [Int.floor_eq_iff]; constructor <;> linarith
      have hfr : Int.fract m = 1 / 2 := by rw [Int.fract, hfl]; linarith
      unfold rhe; rw [hfr, hfl, if_neg (lt_irrefl _), if_neg (lt_irrefl _), if_pos hev]
    · rw [abs_of_pos (by linarith)] at h
      have hfl : ⌊m⌋ = n - 1 := by rw [Int.floor_eq_iff]; push_cast; constructor <;> linarith
      have hfr : Int.fract m = 1 / 2 := by rw [Int.fract, hfl]; push_cast; linarith
      have hodd : ¬ Even (n - 1) := by
        rw [Int.not_even_iff_odd]; exact hev.sub_odd odd_one
      unfold rhe; rw [hfr, hfl, if_neg (lt_irrefl _), if_neg (lt_irrefl _), if_neg hodd]; ring

theorem rhe_nonneg {m : ℝ} (hm : 0 ≤ m) : 0 ≤ rhe m := by
  have := rhe_mono hm; rwa [show (0 : ℝ) = ((0 : ℤ) : ℝ) by simp, rhe_intCast] at this

/-! ## exponent and spacing -/

theorem expo_abs (x : ℝ) : expo |x| = expo x := by simp [expo]
theorem expo_neg (x : ℝ) : expo (-x) = expo x := by simp [expo]
theorem ulp_abs (x : ℝ) : ulp |x| = ulp x := by simp [ulp, expo_abs]
theorem ulp_neg (x : ℝ) : ulp (-x) = ulp x := by simp [ulp, expo_neg]
theorem ulp_pos (x : ℝ) : 0 < ulp x := by unfold ulp; positivity
theorem mant_neg (x : ℝ) : mant (-x) = mant x := by simp [mant, ulp_neg]
theorem mant_abs (x : ℝ) : mant |x| = mant x := by simp [mant, ulp_abs]

theorem mant_nonneg (x : ℝ) : 0 ≤ mant x :=
  rhe_nonneg (div_nonneg (abs_nonneg x) (ulp_pos x).le)

theorem le_expo (x : ℝ) : -1022 ≤ expo x := le_max_right _ _
theorem log_le_expo (x : ℝ) : Int.log 2 |x| ≤ expo x := le_max_left _ _

/-- `|x| < 2^(expo x + 1)` -/
theorem abs_lt_zpow_expo (x : ℝ) : |x| < (2 : ℝ) ^ (expo x + 1) :=
  lt_of_lt_of_le (by exact_mod_cast Int.lt_zpow_succ_log_self (b := 2) (by norm_num) |x|)
    (zpow_le_zpow_right₀ (by norm_num) (add_le_add_left (log_le_expo x) 1))

/-- in the normal range `2^(expo x) ≤ |x|` -/
theorem zpow_expo_le_abs {x : ℝ} (hx : x ≠ 0) (h : -1022 ≤ Int.log 2 |x|) : (2 : ℝ) ^ expo x ≤ |x| := by
  have : expo x = Int.log 2 |x| := max_eq_left h
  rw [this]; exact_mod_cast Int.zpow_log_le_self (by norm_num) (abs_pos.mpr hx)

/-- the binade of `x` is determined by `2^e ≤ |x| < 2^(e+1)` -/
theorem log_eq_of {x : ℝ} {e : ℤ} (h1 : (2 : ℝ) ^ e ≤ |x|) (h2 : |x| < (2 : ℝ) ^ (e + 1)) :
    Int.log 2 |x| = e := by
  have hpos : 0 < |x| := lt_of_lt_of_le (by positivity) h1
  apply le_antisymm
  · have := (Int.lt_zpow_iff_log_lt (b := 2) (by norm_num) hpos (x := e + 1)).mp (by exact_mod_cast h2)
    omega
  · exact (Int.zpow_le_iff_le_log (b := 2) (by norm_num) hpos).mp (by exact_mod_cast h1)

theorem expo_mono_abs {x y : ℝ} (hx : x ≠ 0) (h : |x| ≤ |y|) : expo x ≤ expo y :=
  max_le_max (Int.log_mono_right (abs_pos.mpr hx) h) le_rfl

/-! ## the rounding -/

theorem rne_zero : rne 0 = 0 := by simp [rne]

theorem rne_eq (x : ℝ) : rne x = (SignType.sign x : ℝ) * ((mant x : ℝ) * ulp x) := by
  unfold rne; split_ifs with h
  · simp [h]
  · ring

theorem rne_of_pos {x : ℝ} (hx : 0 < x) : rne x = (mant x : ℝ) * ulp x := by
  rw [rne_eq, sign_pos hx]; simp

theorem rne_neg (x : ℝ) : rne (-x) = -rne x := by
  rw [rne_eq, rne_eq, mant_neg, ulp_neg, Left.sign_neg]; simp

theorem rne_nonneg {x : ℝ} (hx : 0 ≤ x) : 0 ≤ rne x := by
  rcases hx.eq_or_lt with rfl | hx
  · simp [rne_zero]
  · rw [rne_of_pos hx]
    exact mul_nonneg (by exact_mod_cast mant_nonneg x) (ulp_pos x).le

/-- the error of one rounding is at most half the grid spacing -/
theorem abs_rne_sub_le_half_ulp (x : ℝ) : |rne x - x| ≤ ulp x / 2 := by
  have key : ∀ y : ℝ, 0 < y → |rne y - y| ≤ ulp y / 2 := by
    intro y hy
    have hq := ulp_pos y
    rw [rne_of_pos hy]
    have h := abs_rhe_sub_le (|y| / ulp y)
    rw [abs_of_pos hy] at h
    have : (mant y : ℝ) * ulp y - y = ((rhe (y / ulp y) : ℝ) - y / ulp y) * ulp y := by
      unfold mant; rw [abs_of_pos hy]; field_simp
    rw [this, abs_mul, abs_of_pos hq]
    calc _ ≤ 1 / 2 * ulp y := by gcongr
      _ = ulp y / 2 := by ring
  rcases lt_trichotomy x 0 with hx | rfl | hx
  · have := key (-x) (by linarith)
    rw [rne_neg, ulp_neg] at this
    rwa [show rne x - x = -(-rne x - -x) by ring, abs_neg]
  · simp [rne_zero]; exact (half_pos (ulp_pos 0)).le
  · exact key x hx

/-- **standard model**: relative error `2^-53` plus absolute error `2^-1075` -/
theorem rne_err (x : ℝ) : |rne x - x| ≤ FP.u * |x| + FP.eta := by
  rcases eq_or_ne x 0 with rfl | hx
  · simp [rne_zero, FP.eta_pos.le]
  refine (abs_rne_sub_le_half_ulp x).trans ?_
  have hu : FP.u = (2 : ℝ) ^ (-53 : ℤ) := by
    unfold FP.u; rw [zpow_neg, one_div]; norm_cast
  have he : FP.eta = (2 : ℝ) ^ (-1075 : ℤ) := by
    unfold FP.eta; rw [zpow_neg, one_div]; norm_cast
  have hhalf : ulp x / 2 = (2 : ℝ) ^ (expo x - 53) := by
    unfold ulp
    rw [show expo x - 53 = (expo x - 52) - 1 by ring, zpow_sub_one₀ (by norm_num)]; ring
  rw [hhalf]
  rcases le_or_gt (-1022) (Int.log 2 |x|) with hn | hs
  · -- normal range
    have h2 := zpow_expo_le_abs hx hn
    have : (2 : ℝ) ^ (expo x - 53) = FP.u * (2 : ℝ) ^ expo x := by
      rw [hu, ← zpow_add₀ (by norm_num)]; congr 1; ring
    rw [this]
    have := FP.u_pos; have := FP.eta_pos
    nlinarith [mul_le_mul_of_nonneg_left h2 FP.u_pos.le]
  · -- subnormal range
    have : expo x = -1022 := max_eq_right hs.le
    rw [this, he]
    have := mul_nonneg FP.u_pos.le (abs_nonneg x)
    norm_num; linarith

/-! ## monotonicity -/

/-- a positive number never rounds above the top of its binade -/
theorem rne_le_zpow_expo_succ {x : ℝ} (hx : 0 < x) : rne x ≤ (2 : ℝ) ^ (expo x + 1) := by
  rw [rne_of_pos hx]
  have hq := ulp_pos x
  have hm : |x| / ulp x ≤ ((2 ^ 53 : ℤ) : ℝ) := by
    rw [div_le_iff₀ hq]
    have : (((2 : ℤ) ^ 53 : ℤ) : ℝ) * ulp x = (2 : ℝ) ^ (expo x + 1) := by
      unfold ulp
      rw [show expo x + 1 = 53 + (expo x - 52) by ring, zpow_add₀ (by norm_num)]; norm_num
    rw [this]; exact (abs_lt_zpow_expo x).le
  have h1 : mant x ≤ 2 ^ 53 := by
    have := rhe_mono hm; rwa [rhe_intCast] at this
  have h2 : (mant x : ℝ) ≤ 2 ^ 53 := by exact_mod_cast h1
  calc (mant x : ℝ) * ulp x ≤ 2 ^ 53 * ulp x := by gcongr
    _ = (2 : ℝ) ^ (expo x + 1) := by
      unfold ulp
      rw [show expo x + 1 = 53 + (expo x - 52) by ring, zpow_add₀ (by norm_num)]; norm_num

/-- a positive number of the normal range never rounds below the bottom of its binade -/
theorem zpow_expo_le_rne {x : ℝ} (hx : 0 < x) (hn : -1022 ≤ Int.log 2 |x|) : (2 : ℝ) ^ expo x ≤ rne x := by
  rw [rne_of_pos hx]
  have hq := ulp_pos x
  have hm : ((2 ^ 52 : ℤ) : ℝ) ≤ |x| / ulp x := by
    rw [le_div_iff₀ hq]
    have : (((2 : ℤ) ^ 52 : ℤ) : ℝ) * ulp x = (2 : ℝ) ^ expo x := by
      unfold ulp
      rw [show expo x = 52 + (expo x - 52) by ring, zpow_add₀ (by norm_num)]
      norm_num
    rw [this]; exact zpow_expo_le_abs hx.ne' hn
  have h1 : 2 ^ 52 ≤ mant x := by
    have := rhe_mono hm; rwa [rhe_intCast] at this
  have h2 : (2 : ℝ) ^ 52 ≤ (mant x : ℝ) := by exact_mod_cast h1
  calc (2 : ℝ) ^ expo x = 2 ^ 52 * ulp x := by
        unfold ulp
        rw [show expo x = 52 + (expo x - 52) by ring, zpow_add₀ (by norm_num)]
        norm_num
    _ ≤ (mant x : ℝ) * ulp x := by gcongr

theorem rne_mono_pos {x y : ℝ} (hx : 0 < x) (hxy : x ≤ y) : rne x ≤ rne y := by
  have hy : 0 < y := lt_of_lt_of_le hx hxy
  have he : expo x ≤ expo y :=
    expo_mono_abs hx.ne' (by rwa [abs_of_pos hx, abs_of_pos hy])
  rcases he.eq_or_lt with heq | hlt
  · -- same binade: same spacing, `rhe` is monotone
    have hq : ulp x = ulp y := by unfold ulp; rw [heq]
    rw [rne_of_pos hx, rne_of_pos hy, ← hq]
    have : mant x ≤ mant y := by
      unfold mant; rw [← hq, abs_of_pos hx, abs_of_pos hy]
      exact rhe_mono (div_le_div_of_nonneg_right hxy (ulp_pos x).le)
    have : (mant x : ℝ) ≤ (mant y : ℝ) := by exact_mod_cast this
    exact mul_le_mul_of_nonneg_right this (ulp_pos x).le
  · -- `y` is in a higher binade, which is therefore normal
    have hn : -1022 ≤ Int.log 2 |y| := by
      by_contra hc
      have : expo y = -1022 := max_eq_right (by omega)
      have := le_expo x
      omega
    calc rne x ≤ (2 : ℝ) ^ (expo x + 1) := rne_le_zpow_expo_succ hx
      _ ≤ (2 : ℝ) ^ expo y := zpow_le_zpow_right₀ (by norm_num) (by omega)
      _ ≤ rne y := zpow_expo_le_rne hy hn

/-- **monotone** -/
theorem rne_mono : Monotone rne := by
  intro x y hxy
  rcases lt_trichotomy x 0 with hx | rfl | hx
  · rcases lt_or_ge y 0 with hy | hy
    · have := rne_mono_pos (x := -y) (y := -x) (by linarith) (by linarith)
      rw [rne_neg, rne_neg] at this; linarith
    · have h1 := rne_nonneg (x := -x) (by linarith)
      rw [rne_neg] at h1
      have h2 := rne_nonneg hy
      linarith
  · rw [rne_zero]; exact rne_nonneg hxy
  · exact rne_mono_pos hx hxy

/-! ## grid points are fixed -/

/-- a multiple `k·2^j` of a power of two not finer than the grid spacing is representable -/
theorem rne_of_grid (x : ℝ) (k j : ℤ) (hx : x = (k : ℝ) * (2 : ℝ) ^ j) (hj : expo x - 52 ≤ j) : rne x = x := by
  have key : ∀ y : ℝ, 0 < y → ∀ k : ℤ, y = (k : ℝ) * (2 : ℝ) ^ j → expo y - 52 ≤ j → rne y = y := by
    intro y hy k hk hj
    rw [rne_of_pos hy]
    have hq := ulp_pos y
    obtain ⟨d, hd⟩ : ∃ d : ℕ, j = (expo y - 52) + d := ⟨(j - (expo y - 52)).toNat, by omega⟩
    have hm : |y| / ulp y = ((k * 2 ^ d : ℤ) : ℝ) := by
      have hu : ulp y = (2 : ℝ) ^ (expo y - 52) := rfl
      rw [abs_of_pos hy, div_eq_iff hq.ne', hu]
      conv_lhs => rw [hk, hd]
      rw [zpow_add₀ (by norm_num), zpow_natCast]; push_cast; ring
    unfold mant
    rw [hm, rhe_intCast, ← hm, abs_of_pos hy]; field_simp
  rcases lt_trichotomy x 0 with hneg | rfl | hpos
  · have := key (-x) (by linarith) (-k) (by rw [hx]; push_cast; ring) (by rwa [expo_neg])
    rw [rne_neg] at this; linarith
  · exact rne_zero
  · exact key x hpos k hx hj

/-- rounding is idempotent -/
theorem rne_rne (x : ℝ) : rne (rne x) = rne x := by
  have key : ∀ y : ℝ, 0 < y → rne (rne y) = rne y := by
    intro y hy
    rcases (rne_nonneg hy.le).eq_or_lt with h0 | hpos
    · rw [← h0, rne_zero]
    rcases (rne_le_zpow_expo_succ hy).eq_or_lt with htop | hlt
    · -- rounded up to the next power of two
      rw [htop]
      have hlog : Int.log 2 |(2 : ℝ) ^ (expo y + 1)| = expo y + 1 := by
        rw [abs_of_pos (by positivity)]
        exact_mod_cast Int.log_zpow (R := ℝ) (b := 2) (by norm_num) (expo y + 1)
      refine rne_of_grid _ 1 (expo y + 1) (by simp) ?_
      unfold expo at hlog ⊢
      rw [hlog]
      have := le_expo y
      unfold expo at this
      omega
    · -- stayed in the binade (or below it, in the subnormal range)
      have hlog : Int.log 2 |rne y| < expo y + 1 := by
        rw [← Int.lt_zpow_iff_log_lt (by norm_num) (abs_pos.mpr hpos.ne')]
        rw [abs_of_pos hpos]; exact_mod_cast hlt
      have he : expo (rne y) ≤ expo y := by
        show max (Int.log 2 |rne y|) (-1022) ≤ expo y
        exact max_le (by omega) (le_expo y)
      exact rne_of_grid _ (mant y) (expo y - 52) (by rw [rne_of_pos hy]; rfl) (by omega)
  rcases lt_trichotomy x 0 with hx | rfl | hx
  · have := key (-x) (by linarith)
    rw [rne_neg, rne_neg] at this; linarith
  · rw [rne_zero, rne_zero]
  · exact key x hx

/-- **exact on integers of magnitude at most `2^53`** -/
theorem rne_int (n : ℤ) (hn : |(n : ℝ)| ≤ 2 ^ 53) : rne (n : ℝ) = n := by
  rcases eq_or_ne n 0 with rfl | h0
  · simp [rne_zero]
  have hpos : (0 : ℝ) < |(n : ℝ)| := by simpa using h0
  rcases hn.eq_or_lt with heq | hlt
  · -- |n| = 2^53 = ±1 · 2^53, binade 53, spacing 2
    have hlog : Int.log 2 |(n : ℝ)| = 53 := by
      rw [heq]; exact_mod_cast Int.log_zpow (R := ℝ) (b := 2) (by norm_num) 53
    have he : expo (n : ℝ) = 53 := by unfold expo; rw [hlog]; rfl
    rcases abs_eq (by positivity : (0 : ℝ) ≤ 2 ^ 53) |>.mp heq with h | h
    · exact rne_of_grid _ 1 53 (by rw [h]; norm_num) (by rw [he]; norm_num)
    · exact rne_of_grid _ (-1) 53 (by rw [h]; norm_num) (by rw [he]; norm_num)
  · -- |n| < 2^53: binade at most 52, spacing at most 1
    have hlog : Int.log 2 |(n : ℝ)| < 53 := by
      rw [← Int.lt_zpow_iff_log_lt (by norm_num) hpos]; exact_mod_cast hlt
    have he : expo (n : ℝ) ≤ 52 := by unfold expo; exact max_le (by omega) (by norm_num)
    exact rne_of_grid _ n 0 (by simp) (by omega)

end B64

/-- the platform libm functions that are not correctly rounded, with their documented 1-ulp bounds
(the same fields as in `FPModel`) -/
structure LibM where
  pow : ℝ → ℝ → ℝ
  pow_err : ∀ x y, 0 ≤ x → |pow x y - x ^ y| ≤ 2 * FP.u * |x ^ y| + FP.eta
  pow_nonneg : ∀ x y, 0 ≤ x → 0 ≤ pow x y
  atan2 : ℝ → ℝ → ℝ
  atan2_err : ∀ y x, |atan2 y x - Complex.arg (⟨x, y⟩ : ℂ)| ≤ 2 * FP.u * |Complex.arg (⟨x, y⟩ : ℂ)| + FP.eta
  sin : ℝ → ℝ
  sin_err : ∀ x, |sin x - Real.sin x| ≤ 2 * FP.u * |Real.sin x| + FP.eta
  cos : ℝ → ℝ
  cos_err : ∀ x, |cos x - Real.cos x| ≤ 2 * FP.u * |Real.cos x| + FP.eta

/-- the exact functions are a libm -/
noncomputable def LibM.exact : LibM where
  pow x y := x ^ y
  pow_err := FPModel.exact.pow_err
  pow_nonneg := FPModel.exact.pow_nonneg
  atan2 y x := Complex.arg (⟨x, y⟩ : ℂ)
  atan2_err := FPModel.exact.atan2_err
  sin := Real.sin
  sin_err := FPModel.exact.sin_err
  cos := Real.cos
  cos_err := FPModel.exact.cos_err

/-- **binary64 round-to-nearest-even satisfies the standard model of floating-point arithmetic**: every theorem
`∀ M : FPModel, …` applies to `B64.rne` (with any libm satisfying the 1-ulp bounds) -/
noncomputable def FPModel.binary64 (L : LibM) : FPModel where
  rnd := B64.rne
  rnd_err := B64.rne_err
  rnd_mono := B64.rne_mono
  rnd_neg := B64.rne_neg
  rnd_int := B64.rne_int
  pow := L.pow
  pow_err := L.pow_err
  pow_nonneg := L.pow_nonneg
  atan2 := L.atan2
  atan2_err := L.atan2_err
  sin := L.sin
  sin_err := L.sin_err
  cos := L.cos
  cos_err := L.cos_err

/-- binary64 rounding with exact library functions: an inhabitant of `FPModel` whose rounding is NOT the identity -/
noncomputable def FPModel.binary64Exact : FPModel := FPModel.binary64 LibM.exact

@[simp] theorem FPModel.binary64_rnd (L : LibM) : (FPModel.binary64 L).rnd = B64.rne := rfl

/-- the rounding of this model is not trivial: `2^53 + 1` is not representable and rounds (tie, to even) to `2^53` -/
theorem FPModel.binary64Exact_rnd_ne_id : FPModel.binary64Exact.rnd (2 ^ 53 + 1) = 2 ^ 53 := by
  show B64.rne (2 ^ 53 + 1) = 2 ^ 53
  have hx : (0 : ℝ) < 2 ^ 53 + 1 := by positivity
  have hlog : Int.log 2 |(2 ^ 53 + 1 : ℝ)| = 53 := by
    apply B64.log_eq_of <;> rw [abs_of_pos hx] <;> norm_num
  have he : B64.expo (2 ^ 53 + 1 : ℝ) = 53 := by unfold B64.expo; rw [hlog]; rfl
  have hu : B64.ulp (2 ^ 53 + 1 : ℝ) = 2 := by unfold B64.ulp; rw [he]; norm_num
  have hm : B64.mant (2 ^ 53 + 1 : ℝ) = 2 ^ 52 := by
    unfold B64.mant; rw [hu, abs_of_pos hx]
    apply B64.rhe_eq_of; right
    refine ⟨by norm_num, ?_⟩
    exact (Int.even_pow' (by norm_num)).mpr even_two
  rw [B64.rne_of_pos hx, hm, hu]; norm_num

