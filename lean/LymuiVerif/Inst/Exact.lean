import LymuiVerif.Core.Flt
/-!
# High-precision rational reading of the model (`Flt Rat`), executable

Used only to MEASURE the distance between the `f64` results of the real crate and the exact-real
results the theorems speak about (DESIGN §3.2 "float gap").  `+ − × ÷`, comparisons, rounding and
casts are exact on `Rat`; `x^(p/q)`, `cbrt`, `sqrt` are computed to a relative precision of 1e‑40 by
integer root extraction (so every result is within ~1e‑38 of the exact real value on the
well-conditioned paths measured).  `atan2`, `sin`, `cos` are not implemented (functions using them
are not measured); a power with a non-positive base where the real model needs care returns 0.
Not used by any theorem; not part of the trusted base of the proofs.
-/
namespace Exact

/-- floor of the k-th root of n -/
def irootGo (k n : Nat) : Nat → Nat → Nat → Nat
  | 0, lo, _ => lo
  | fuel + 1, lo, hi =>
    if hi ≤ lo + 1 then lo else
    let mid := (lo + hi) / 2
    if mid ^ k ≤ n then irootGo k n fuel mid hi else irootGo k n fuel lo mid

def iroot (k n : Nat) : Nat :=
  if k == 0 then 1 else
  let hi := 2 ^ (n.log2 / k + 1)
  irootGo k n (n.log2 + 2) 0 hi

def digits : Nat := 40
def scale : Nat := 10 ^ digits

/-- a rational within 1e-40 relative of `x^(p/q)` for `x > 0` -/
def powPos (x : Rat) (p q : Nat) : Rat :=
  -- normalise x into [1, 10^?) is unnecessary: scale by S^q
  let a := x.num.natAbs
  let b := x.den
  -- r = iroot_q (a^p * S^q / b^p) / S ; for small x the quotient keeps `digits` significant digits only
  -- relative to 1, so rescale by 10^e where e ~ decimal exponent of the result
  let lg : Int := ((a.log2 : Int) - (b.log2 : Int)) * (p : Int) / ((q : Int) * 3)   -- rough decimal exponent of x^(p/q)
  let sh : Int := (digits : Int) - lg
  let shN := sh.toNat
  let num := a ^ p * 10 ^ (shN * q)
  let r := iroot q (num / b ^ p)
  (r : Rat) / (10 ^ shN : Nat)

def powRat (x e : Rat) : Rat :=
  if x ≤ 0 then 0
  else if e == 0 then 1
  else
    let p := e.num.natAbs
    let q := e.den
    if 2000 < q ∨ 4000 < p then 0   -- ST 2084 exponents: not measured
    else
      let r := powPos x p q
      if e < 0 then 1 / r else r

def roundHA (x : Rat) : Rat := if 0 ≤ x then ((x + 1/2).floor : Int) else -(((-x) + 1/2).floor : Int)
def truncZ (x : Rat) : Int := if 0 ≤ x then x.floor else -((-x).floor)
def toU8 (x : Rat) : Nat := if x ≤ 0 then 0 else if 255 ≤ x then 255 else x.floor.toNat

def pi : Rat := (31415926535897932384626433832795028841971 : Rat) / (10 ^ 40 : Nat)
end Exact

instance : Flt Rat where
  ofNat n := (n : Rat)
  ofInt i := (i : Rat)
  lit _ num den := (num : Rat) / (den : Rat)
  le a b := decide (a ≤ b)
  lt a b := decide (a < b)
  beq a b := a == b
  rem a b := a - b * (Exact.truncZ (a / b) : Rat)
  pow := Exact.powRat
  powi x n := if 0 ≤ n then x ^ n.toNat else 1 / x ^ (-n).toNat
  cbrt x := if 0 ≤ x then Exact.powRat x (1/3) else -(Exact.powRat (-x) (1/3))
  sqrt x := Exact.powRat x (1/2)
  abs x := if 0 ≤ x then x else -x
  round := Exact.roundHA
  floor x := (x.floor : Rat)
  max a b := if a < b then b else a
  min a b := if b < a then b else a
  atan2 _ _ := 0
  sin _ := 0
  cos _ := 0
  pi := Exact.pi
  toU8 := Exact.toU8
  toI64 x := Exact.truncZ x
