import LymuiVerif.Core.Flt
import LymuiVerif.Gen.Types
import LymuiVerif.Core.Hex
import LymuiVerif.Gen.Model
import LymuiVerif.Inst.Float
