import LymuiVerif.Gen.Dispatch
import LymuiVerif.Core.StdModelCheck
import LymuiVerif.Core.RneQ
/-! Driver: one request per line (`name tok tok ...`), one reply per line. -/
open Gen

def step (line : String) : String :=
  match (line.trimAscii.toString.splitOn " ").filter (· ≠ "") with
  | [] => "bad-op"
  | ["@S", seed, n] =>
    match seed.toNat?, n.toNat? with
    | some sd, some k => StdModel.run sd k
    | _, _ => "bad-op"
  | ["@R", seed, n] =>
    match seed.toNat?, n.toNat? with
    | some sd, some k => StdModel.checkRne sd k
    | _, _ => "bad-op"
  | "@Q" :: name :: toks =>
    match dispatchQ name toks with
    | some (out, []) => " ".intercalate out
    | _ => "bad-op"
  | name :: toks =>
    match dispatch name toks with
    | some (out, []) => " ".intercalate out
    | _ => "bad-op"

partial def loop (h : IO.FS.Stream) (out : IO.FS.Stream) : IO Unit := do
  let line ← h.getLine
  if line.isEmpty then return ()
  out.putStrLn (step line)
  loop h out

def main : IO Unit := do
  let out ← IO.getStdout
  loop (← IO.getStdin) out
  out.flush
