//! Token protocol shared with the Lean driver (see lean/LymuiVerif/Core/Wire.lean).
pub struct Toks<'a> {
    pub it: std::str::SplitWhitespace<'a>,
}
impl<'a> Toks<'a> {
    pub fn new(s: &'a str) -> Self { Toks { it: s.split_whitespace() } }
    pub fn next(&mut self) -> &'a str { self.it.next().expect("missing token") }
}
pub trait Wire: Sized {
    fn rd(t: &mut Toks) -> Self;
    fn wr(&self, o: &mut Vec<String>);
    fn toks(&self) -> Vec<String> { let mut o = Vec::new(); self.wr(&mut o); o }
}
impl Wire for f64 {
    fn rd(t: &mut Toks) -> Self {
        let s = t.next();
        f64::from_bits(u64::from_str_radix(&s[1..], 16).expect("bad float token"))
    }
    fn wr(&self, o: &mut Vec<String>) { o.push(format!("x{:016X}", self.to_bits())); }
}
macro_rules! int_wire { ($($t:ty),*) => { $(impl Wire for $t {
    fn rd(t: &mut Toks) -> Self { t.next().parse().expect("bad int token") }
    fn wr(&self, o: &mut Vec<String>) { o.push(self.to_string()); }
})* } }
int_wire!(u8, usize, i64, u32);
impl Wire for bool {
    fn rd(t: &mut Toks) -> Self { t.next() == "1" }
    fn wr(&self, o: &mut Vec<String>) { o.push(if *self { "1" } else { "0" }.to_string()); }
}
impl Wire for () {
    fn rd(_t: &mut Toks) -> Self {}
    fn wr(&self, _o: &mut Vec<String>) {}
}
impl Wire for String {
    fn rd(t: &mut Toks) -> Self {
        let n = usize::rd(t);
        (0..n).map(|_| char::from_u32(u32::rd(t)).expect("bad char")).collect()
    }
    fn wr(&self, o: &mut Vec<String>) {
        o.push(self.chars().count().to_string());
        for c in self.chars() { o.push((c as u32).to_string()); }
    }
}
impl<T: Wire> Wire for Vec<T> {
    fn rd(t: &mut Toks) -> Self { let n = usize::rd(t); (0..n).map(|_| T::rd(t)).collect() }
    fn wr(&self, o: &mut Vec<String>) { o.push(self.len().to_string()); for x in self { x.wr(o); } }
}
impl<T: Wire> Wire for Option<T> {
    fn rd(t: &mut Toks) -> Self { if usize::rd(t) == 0 { None } else { Some(T::rd(t)) } }
    fn wr(&self, o: &mut Vec<String>) { match self { None => o.push("0".into()), Some(x) => { o.push("1".into()); x.wr(o); } } }
}
impl<A: Wire, B: Wire> Wire for (A, B) {
    fn rd(t: &mut Toks) -> Self { let a = A::rd(t); let b = B::rd(t); (a, b) }
    fn wr(&self, o: &mut Vec<String>) { self.0.wr(o); self.1.wr(o); }
}
impl<A: Wire, B: Wire, C: Wire> Wire for (A, B, C) {
    fn rd(t: &mut Toks) -> Self { let a = A::rd(t); let b = B::rd(t); let c = C::rd(t); (a, b, c) }
    fn wr(&self, o: &mut Vec<String>) { self.0.wr(o); self.1.wr(o); self.2.wr(o); }
}
impl<T: Wire, E: Wire> Wire for Result<T, E> {
    fn rd(_t: &mut Toks) -> Self { panic!("no reader") }
    fn wr(&self, o: &mut Vec<String>) { match self { Ok(x) => { o.push("ok".into()); x.wr(o); } Err(e) => { o.push("err".into()); e.wr(o); } } }
}
