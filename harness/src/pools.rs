//! Seeded, structured input generation for the correspondence check and the oracles.
use crate::wire::Wire;
use lymui::prelude::*;
use lymui::rgb::FromRgb;
use lymui::xyz::Kind;

#[derive(Clone)]
pub struct Rng(pub u64);
impl Rng {
    pub fn new(seed: u64) -> Self { Rng(seed ^ 0x9E3779B97F4A7C15) }
    pub fn next(&mut self) -> u64 {
        self.0 = self.0.wrapping_add(0x9E3779B97F4A7C15);
        let mut z = self.0;
        z = (z ^ (z >> 30)).wrapping_mul(0xBF58476D1CE4E5B9);
        z = (z ^ (z >> 27)).wrapping_mul(0x94D049BB133111EB);
        z ^ (z >> 31)
    }
    pub fn below(&mut self, n: u64) -> u64 { self.next() % n }
    pub fn unit(&mut self) -> f64 { (self.next() >> 11) as f64 / (1u64 << 53) as f64 }
    pub fn range(&mut self, lo: f64, hi: f64) -> f64 { lo + (hi - lo) * self.unit() }
}

/// when set, struct arguments are always forward images of 8-bit colours (no random boxes): the domain on which the
/// exact-real model is meaningful without side conditions (used by the float-gap measurement)
pub static VALID_ONLY: std::sync::atomic::AtomicBool = std::sync::atomic::AtomicBool::new(false);
fn boxed(rng: &mut Rng) -> bool { let b = rng.below(3) == 0; b && !VALID_ONLY.load(std::sync::atomic::Ordering::Relaxed) }

pub const LATTICE: usize = 17 * 17 * 17;
pub fn lattice_level(i: usize) -> u8 { if i == 16 { 255 } else { (i * 16) as u8 } }

/// colour schedule: 17^3 lattice, 256 greys, near-grey and extreme colours, then seeded random
pub fn rgb_at(i: usize, rng: &mut Rng) -> Rgb {
    if i < LATTICE {
        return Rgb::new(lattice_level(i / 289), lattice_level(i / 17 % 17), lattice_level(i % 17));
    }
    let j = i - LATTICE;
    if j < 256 { return Rgb::new(j as u8, j as u8, j as u8); }
    let j = j - 256;
    const EDGE: [u8; 8] = [0, 1, 2, 127, 128, 253, 254, 255];
    if j < 512 { return Rgb::new(EDGE[j / 64], EDGE[j / 8 % 8], EDGE[j % 8]); }
    Rgb::new(rng.below(256) as u8, rng.below(256) as u8, rng.below(256) as u8)
}

fn special_f64(rng: &mut Rng) -> f64 {
    const S: [f64; 12] = [0.0, -0.0, 1.0, -1.0, 0.5, 100.0, 255.0, 360.0, 1e-9, -1e-9, 1e6, 0.008856];
    S[rng.below(12) as usize]
}

fn xyz_of(rng: &mut Rng, i: usize) -> Xyz {
    if VALID_ONLY.load(std::sync::atomic::Ordering::Relaxed) { return Xyz::from_rgb(rgb_at(i, rng), Kind::D65); }
    match rng.below(10) {
        0 => Xyz { x: rng.range(0.0, 1.1), y: rng.range(0.0, 1.1), z: rng.range(0.0, 1.1) },
        1 => Xyz { x: rng.range(-0.05, 0.05), y: rng.range(-0.05, 0.05), z: rng.range(-0.05, 0.05) },
        2 => Xyz::from_rgb(rgb_at(i, rng), Kind::Adobe),
        3 => Xyz::from_rgb(rgb_at(i, rng), Kind::D50),
        _ => Xyz::from_rgb(rgb_at(i, rng), Kind::D65),
    }
}

fn triple(rng: &mut Rng, lo: [f64; 3], hi: [f64; 3]) -> (f64, f64, f64) {
    if rng.below(20) == 0 { return (special_f64(rng), special_f64(rng), special_f64(rng)); }
    (rng.range(lo[0], hi[0]), rng.range(lo[1], hi[1]), rng.range(lo[2], hi[2]))
}

macro_rules! from_xyz_or_box {
    ($ty:ident, $rng:expr, $i:expr, $lo:expr, $hi:expr, $a:ident, $b:ident, $c:ident) => {{
        if boxed($rng) {
            let (p, q, r) = triple($rng, $lo, $hi);
            $ty { $a: p, $b: q, $c: r }.toks()
        } else {
            $ty::from(xyz_of($rng, $i)).toks()
        }
    }};
}
macro_rules! from_rgb_or_box {
    ($ty:ident, $rng:expr, $i:expr, $lo:expr, $hi:expr, $a:ident, $b:ident, $c:ident) => {{
        if boxed($rng) {
            let (p, q, r) = triple($rng, $lo, $hi);
            $ty { $a: p, $b: q, $c: r }.toks()
        } else {
            $ty::from(rgb_at($i, $rng)).toks()
        }
    }};
}

/// tokens for one argument of Rust type `ty` (reference stripped) of function `fname`, case number `i`
pub fn gen_arg(ty: &str, fname: &str, i: usize, n: usize, rng: &mut Rng) -> Vec<String> {
    match ty {
        "Rgb" => rgb_at(i, rng).toks(),
        "u8" => ((if i < 256 { i as u64 } else { rng.below(256) }) as u8).toks(),
        "xyz::Kind" | "Kind" => vec![rng.below(3).to_string()],
        "Option<xyz::Kind>" => { let k = rng.below(4); if k == 3 { vec!["0".into()] } else { vec!["1".into(), k.to_string()] } }
        "grayscale::Kind" => vec![(i % 5).to_string()],
        "AnsiKind" => vec![(i % 2).to_string()],
        "Ansi" => vec![(i % 256).to_string()],
        "f64" => {
            let v = if fname.ends_with(".compute") {
                // generator factor: never 0 / tiny (the unfixed loop does not terminate there; see C18 oracle)
                match i % 8 {
                    0 => 1.0 / (1 + rng.below(64)) as f64,
                    1 => rng.range(1.0 / 256.0, 1.0),
                    2 => -rng.range(0.001, 2.0),
                    3 => rng.range(1.0000001, 3.0),
                    4 => f64::NAN,
                    5 => [f64::INFINITY, f64::NEG_INFINITY, 1.0, 0.5, 0.25][rng.below(5) as usize],
                    6 => 1.0 / (1 + rng.below(256)) as f64,
                    _ => rng.range(0.01, 1.0),
                }
            } else if fname.contains("radian") || fname.contains("degree") {
                rng.range(-720.0, 720.0)
            } else if fname.contains("pq_") {
                // full sweep of [0, 1.2] for pq_eotf and [0, 12000] for the inverse, plus a few negatives
                let t = i as f64 / n.max(1) as f64;
                if fname.contains("inverse") { if i % 50 == 49 { -t } else { t * 12000.0 } } else if i % 50 == 49 { -t } else { t * 1.2 }
            } else {
                // transfer curves: dense sweep of [-0.1, 1.2] hitting both sides of every breakpoint
                let t = i as f64 / n.max(1) as f64;
                match i % 16 {
                    15 => [0.0031308, 0.04045, 0.018, 0.0181, 0.081, 0.0, 1.0][rng.below(7) as usize] + (rng.below(5) as f64 - 2.0) * 1e-12,
                    _ => -0.1 + 1.3 * t,
                }
            };
            v.toks()
        }
        "Vec<f64>" => {
            let len = (i % 7) as usize;
            let v: Vec<f64> = (0..len).map(|_| if rng.below(10) == 0 { special_f64(rng) } else { rng.range(-10.0, 370.0) }).collect();
            v.toks()
        }
        "Vec<u8>" => {
            let len = (i % 7) as usize;
            let v: Vec<u8> = (0..len).map(|_| rng.below(256) as u8).collect();
            v.toks()
        }
        "Hex" => {
            const POOL: [char; 30] = ['0', '1', '7', '9', 'a', 'c', 'f', 'A', 'C', 'F', 'g', 'G', 'z', '#', '+', '-', ' ', '.', 'x', '\u{e9}', '\u{20ac}', '\u{1F600}', '\u{0}', '\u{7f}', '\u{df}', 'e', 'E', 'b', '5', '3'];
            let c = rgb_at(i, rng);
            let s: String = match i % 8 {
                0 => format!("#{:02x}{:02x}{:02x}", c.r, c.g, c.b),
                1 => format!("{:02X}{:02X}{:02X}", c.r, c.g, c.b),
                2 => format!("#{:x}{:x}{:x}", c.r / 17, c.g / 17, c.b / 17),
                3 => format!("{:X}{:x}{:X}", c.r / 17, c.g / 17, c.b / 17),
                4 | 5 => { let len = rng.below(9) as usize; (0..len).map(|_| POOL[rng.below(30) as usize]).collect() }
                _ => {
                    let mut v: Vec<char> = format!("#{:02x}{:02x}{:02x}", c.r, c.g, c.b).chars().collect();
                    for _ in 0..1 + rng.below(2) {
                        let p = rng.below(v.len() as u64 + 1) as usize;
                        match rng.below(3) { 0 => { if p < v.len() { v[p] = POOL[rng.below(30) as usize]; } } 1 => { if p < v.len() { v.remove(p); } } _ => v.insert(p.min(v.len()), POOL[rng.below(30) as usize]) }
                    }
                    v.into_iter().collect()
                }
            };
            lymui::hex::Hex(s).toks()
        }
        "Xyz" => xyz_of(rng, i).toks(),
        "Cymk" => {
            if boxed(rng) {
                Cymk { c: rng.range(-0.1, 1.1), m: rng.range(-0.1, 1.1), y: rng.range(-0.1, 1.1), k: if rng.below(8) == 0 { 1.0 } else { rng.range(-0.1, 1.1) } }.toks()
            } else { Cymk::from(rgb_at(i, rng)).toks() }
        }
        "Hsl" => {
            if boxed(rng) {
                // quarter-degree hues, whole percentages, plus the edges 360 / 0 / 100
                let h = if rng.below(20) == 0 { 360.0 } else { rng.below(1440) as f64 / 4.0 };
                Hsl { h, s: rng.below(101) as f64, l: rng.below(101) as f64 }.toks()
            } else { from_rgb_or_box!(Hsl, rng, i, [-10.0, -5.0, -5.0], [370.0, 105.0, 105.0], h, s, l) }
        }
        "Hsv" => {
            if boxed(rng) {
                let h = if rng.below(20) == 0 { 360.0 } else { rng.below(1440) as f64 / 4.0 };
                Hsv { h, s: rng.below(101) as f64, v: rng.below(101) as f64 }.toks()
            } else { from_rgb_or_box!(Hsv, rng, i, [-10.0, -5.0, -5.0], [370.0, 105.0, 105.0], h, s, v) }
        }
        "Hwb" => {
            if boxed(rng) {
                let w = rng.below(101); let b = rng.below(101 - w);
                Hwb { h: rng.below(1440) as f64 / 4.0, w: w as f64, b: b as f64 }.toks()
            } else { from_rgb_or_box!(Hwb, rng, i, [-10.0, -5.0, -5.0], [370.0, 105.0, 105.0], h, w, b) }
        }
        "Yuv" => from_rgb_or_box!(Yuv, rng, i, [-0.1, -0.5, -0.7], [1.1, 0.5, 0.7], y, u, v),
        "Ycbcr" => {
            if rng.below(2) == 0 && !VALID_ONLY.load(std::sync::atomic::Ordering::Relaxed) { Ycbcr { y: rng.below(256) as u8, cb: rng.below(256) as u8, cr: rng.below(256) as u8 }.toks() }
            else { Ycbcr::from(rgb_at(i, rng)).toks() }
        }
        "Srgb" => from_xyz_or_box!(Srgb, rng, i, [-0.1, -0.1, -0.1], [1.1, 1.1, 1.1], r, g, b),
        "Argb" => from_xyz_or_box!(Argb, rng, i, [-0.1, -0.1, -0.1], [1.1, 1.1, 1.1], r, g, b),
        "Rec709" => from_xyz_or_box!(Rec709, rng, i, [-0.1, -0.1, -0.1], [1.1, 1.1, 1.1], r, g, b),
        "Rec2020" => from_xyz_or_box!(Rec2020, rng, i, [-0.1, -0.1, -0.1], [1.1, 1.1, 1.1], r, g, b),
        "Rec2100" => from_xyz_or_box!(Rec2100, rng, i, [-10.0, -10.0, -10.0], [11000.0, 11000.0, 11000.0], r, g, b),
        "Lab" => from_xyz_or_box!(Lab, rng, i, [-5.0, -130.0, -130.0], [105.0, 130.0, 130.0], l, a, b),
        "Hlab" => from_xyz_or_box!(Hlab, rng, i, [-5.0, -130.0, -130.0], [105.0, 130.0, 130.0], l, a, b),
        "Luv" => from_xyz_or_box!(Luv, rng, i, [-5.0, -140.0, -140.0], [105.0, 180.0, 140.0], l, u, v),
        "Lchlab" => from_xyz_or_box!(Lchlab, rng, i, [-5.0, -5.0, -370.0], [105.0, 140.0, 370.0], l, c, h),
        "Lchuv" => from_xyz_or_box!(Lchuv, rng, i, [-5.0, -5.0, -370.0], [105.0, 180.0, 370.0], l, c, h),
        "Hcl" => from_xyz_or_box!(Hcl, rng, i, [-370.0, -5.0, -5.0], [370.0, 180.0, 105.0], h, c, l),
        "OkLab" => from_xyz_or_box!(OkLab, rng, i, [-0.1, -0.5, -0.5], [1.1, 0.5, 0.5], l, a, b),
        "OkLch" => from_xyz_or_box!(OkLch, rng, i, [-0.1, -0.1, -4.0], [1.1, 0.5, 4.0], l, c, h),
        "Xyy" => from_xyz_or_box!(Xyy, rng, i, [-0.1, -0.1, -0.1], [1.0, 1.0, 1.1], x, y, _y),
        _ => panic!("no generator for type {ty} (function {fname})"),
    }
}
