//! Reference formulas, written from the standards and independent of the crate under test.
pub type M3 = [[f64; 3]; 3];
pub const D65: [f64; 3] = [0.95047, 1.0, 1.08883];
pub const D50: [f64; 3] = [0.96422, 1.0, 0.82521];

pub fn mul(m: &M3, v: [f64; 3]) -> [f64; 3] {
    [m[0][0] * v[0] + m[0][1] * v[1] + m[0][2] * v[2], m[1][0] * v[0] + m[1][1] * v[1] + m[1][2] * v[2], m[2][0] * v[0] + m[2][1] * v[1] + m[2][2] * v[2]]
}
pub fn mm(a: &M3, b: &M3) -> M3 {
    let mut r = [[0.0; 3]; 3];
    for i in 0..3 { for j in 0..3 { for k in 0..3 { r[i][j] += a[i][k] * b[k][j]; } } }
    r
}
pub fn inv(m: &M3) -> M3 {
    let d = m[0][0] * (m[1][1] * m[2][2] - m[1][2] * m[2][1]) - m[0][1] * (m[1][0] * m[2][2] - m[1][2] * m[2][0]) + m[0][2] * (m[1][0] * m[2][1] - m[1][1] * m[2][0]);
    let mut r = [[0.0; 3]; 3];
    for i in 0..3 { for j in 0..3 {
        let (a, b) = ((j + 1) % 3, (j + 2) % 3); let (p, q) = ((i + 1) % 3, (i + 2) % 3);
        r[i][j] = (m[a][p] * m[b][q] - m[a][q] * m[b][p]) / d;
    } }
    r
}
/// RGB->XYZ matrix from chromaticities of the primaries and the white point XYZ
pub fn rgb_to_xyz(prim: [(f64, f64); 3], w: [f64; 3]) -> M3 {
    let mut p = [[0.0; 3]; 3];
    for (j, (x, y)) in prim.iter().enumerate() { p[0][j] = x / y; p[1][j] = 1.0; p[2][j] = (1.0 - x - y) / y; }
    let s = mul(&inv(&p), w);
    let mut m = [[0.0; 3]; 3];
    for i in 0..3 { for j in 0..3 { m[i][j] = p[i][j] * s[j]; } }
    m
}
pub fn bradford(src: [f64; 3], dst: [f64; 3]) -> M3 {
    let b: M3 = [[0.8951, 0.2664, -0.1614], [-0.7502, 1.7135, 0.0367], [0.0389, -0.0685, 1.0296]];
    let s = mul(&b, src); let d = mul(&b, dst);
    let diag: M3 = [[d[0] / s[0], 0.0, 0.0], [0.0, d[1] / s[1], 0.0], [0.0, 0.0, d[2] / s[2]]];
    mm(&inv(&b), &mm(&diag, &b))
}
pub const SRGB_PRIM: [(f64, f64); 3] = [(0.64, 0.33), (0.30, 0.60), (0.15, 0.06)];
pub const ADOBE_PRIM: [(f64, f64); 3] = [(0.64, 0.33), (0.21, 0.71), (0.15, 0.06)];
pub const BT2020_PRIM: [(f64, f64); 3] = [(0.708, 0.292), (0.170, 0.797), (0.131, 0.046)];
pub fn m_srgb_d65() -> M3 { rgb_to_xyz(SRGB_PRIM, D65) }
pub fn m_srgb_d50() -> M3 { mm(&bradford(D65, D50), &m_srgb_d65()) }
pub fn m_adobe() -> M3 { rgb_to_xyz(ADOBE_PRIM, D65) }
pub fn m_bt2020() -> M3 { rgb_to_xyz(BT2020_PRIM, [0.3127 / 0.3290, 1.0, (1.0 - 0.3127 - 0.3290) / 0.3290]) }

pub fn srgb_dec(v: f64) -> f64 { if v <= 0.04045 { v / 12.92 } else { ((v + 0.055) / 1.055).powf(2.4) } }
pub fn srgb_enc(l: f64) -> f64 { if l <= 0.0031308 { 12.92 * l } else { 1.055 * l.powf(1.0 / 2.4) - 0.055 } }
pub const ADOBE_GAMMA: f64 = 563.0 / 256.0;
pub fn adobe_dec(v: f64) -> f64 { if v <= 0.0 { 0.0 } else { v.powf(ADOBE_GAMMA) } }
pub fn adobe_enc(l: f64) -> f64 { if l <= 0.0 { 0.0 } else { l.powf(1.0 / ADOBE_GAMMA) } }
pub fn bt709_oetf(l: f64) -> f64 { if l < 0.018 { 4.5 * l } else { 1.099 * l.powf(0.45) - 0.099 } }
pub fn bt709_inv(v: f64) -> f64 { if v < 0.081 { v / 4.5 } else { ((v + 0.099) / 1.099).powf(1.0 / 0.45) } }
// BT.2020 table 4: alpha = 1.0993, beta = 0.0181 for 12-bit systems (the values the crate cites)
pub const BT2020_A: f64 = 1.0993; pub const BT2020_B: f64 = 0.0181;
pub fn bt2020_oetf(l: f64) -> f64 { if l < BT2020_B { 4.5 * l } else { BT2020_A * l.powf(0.45) - (BT2020_A - 1.0) } }
pub fn bt2020_inv(v: f64) -> f64 { if v < 4.5 * BT2020_B { v / 4.5 } else { ((v + (BT2020_A - 1.0)) / BT2020_A).powf(1.0 / 0.45) } }
pub const PQ_M1: f64 = 2610.0 / 16384.0; pub const PQ_M2: f64 = 2523.0 / 4096.0 * 128.0;
pub const PQ_C1: f64 = 3424.0 / 4096.0; pub const PQ_C2: f64 = 2413.0 / 4096.0 * 32.0; pub const PQ_C3: f64 = 2392.0 / 4096.0 * 32.0;
/// ST 2084 EOTF: non-linear signal E' in [0,1] -> luminance in cd/m^2
pub fn pq_eotf(e: f64) -> f64 {
    let p = e.powf(1.0 / PQ_M2);
    10000.0 * ((p - PQ_C1).max(0.0) / (PQ_C2 - PQ_C3 * p)).powf(1.0 / PQ_M1)
}
/// ST 2084 inverse EOTF: luminance -> signal
pub fn pq_inv(l: f64) -> f64 {
    let y = (l / 10000.0).powf(PQ_M1);
    ((PQ_C1 + PQ_C2 * y) / (1.0 + PQ_C3 * y)).powf(PQ_M2)
}
pub const CIE_E: f64 = 216.0 / 24389.0; pub const CIE_K: f64 = 24389.0 / 27.0;
pub fn lab_f(t: f64) -> f64 { if t > CIE_E { t.cbrt() } else { (CIE_K * t + 16.0) / 116.0 } }
pub fn cielab(x: [f64; 3]) -> [f64; 3] {
    let (fx, fy, fz) = (lab_f(x[0] / D65[0]), lab_f(x[1] / D65[1]), lab_f(x[2] / D65[2]));
    [116.0 * fy - 16.0, 500.0 * (fx - fy), 200.0 * (fy - fz)]
}
pub fn cieluv(x: [f64; 3]) -> [f64; 3] {
    let yr = x[1] / D65[1];
    let l = if yr > CIE_E { 116.0 * yr.cbrt() - 16.0 } else { CIE_K * yr };
    let d = x[0] + 15.0 * x[1] + 3.0 * x[2];
    if d == 0.0 { return [0.0, 0.0, 0.0]; }
    let dn = D65[0] + 15.0 * D65[1] + 3.0 * D65[2];
    [l, 13.0 * l * (4.0 * x[0] / d - 4.0 * D65[0] / dn), 13.0 * l * (9.0 * x[1] / d - 9.0 * D65[1] / dn)]
}
/// Hunter Lab relative to D65 (components of x in 0..1)
pub fn hunter(x: [f64; 3]) -> [f64; 3] {
    let ka = 175.0 / 198.04 * (100.0 + 95.047); let kb = 70.0 / 218.11 * (100.0 + 108.883);
    let yr = x[1] / D65[1];
    if yr == 0.0 { return [0.0, 0.0, 0.0]; }
    [100.0 * yr.sqrt(), ka * (x[0] / D65[0] - yr) / yr.sqrt(), kb * (yr - x[2] / D65[2]) / yr.sqrt()]
}
pub fn xyy(x: [f64; 3]) -> [f64; 3] {
    let s = x[0] + x[1] + x[2];
    if s == 0.0 { return [0.31271, 0.32902, 0.0]; }
    [x[0] / s, x[1] / s, x[1]]
}
pub const OK_M1: M3 = [[0.4122214708, 0.5363325363, 0.0514459929], [0.2119034982, 0.6806995451, 0.1073969566], [0.0883024619, 0.2817188376, 0.6299787005]];
pub const OK_M2: M3 = [[0.2104542553, 0.7936177850, -0.0040720468], [1.9779984951, -2.4285922050, 0.4505937099], [0.0259040371, 0.7827717662, -0.8086757660]];
pub fn oklab_from_linear(lin: [f64; 3]) -> [f64; 3] {
    let l = mul(&OK_M1, lin);
    mul(&OK_M2, [l[0].cbrt(), l[1].cbrt(), l[2].cbrt()])
}
pub fn linear_from_oklab(lab: [f64; 3]) -> [f64; 3] {
    let l = mul(&inv(&OK_M2), lab);
    mul(&inv(&OK_M1), [l[0].powi(3), l[1].powi(3), l[2].powi(3)])
}
/// largest componentwise difference; NaN-safe: any NaN makes the distance infinite (f64::max would silently drop it)
pub fn maxabs3(a: [f64; 3], b: [f64; 3]) -> f64 {
    let d = [(a[0] - b[0]).abs(), (a[1] - b[1]).abs(), (a[2] - b[2]).abs()];
    if d.iter().any(|x| x.is_nan()) { return f64::INFINITY; }
    d[0].max(d[1]).max(d[2])
}
/// does the 8-bit value `got` equal round-to-nearest of `v` clamped to 0..255 (either neighbour within `slack` of a tie)?
pub fn q_round_ok(got: u8, v: f64, slack: f64) -> bool {
    if v.is_nan() { return got == 0; }
    let lo = (v - slack).round().clamp(0.0, 255.0); let hi = (v + slack).round().clamp(0.0, 255.0);
    (got as f64) >= lo && (got as f64) <= hi
}
pub fn q_trunc_ok(got: u8, v: f64, slack: f64) -> bool {
    if v.is_nan() { return got == 0; }
    let lo = (v - slack).trunc().clamp(0.0, 255.0); let hi = (v + slack).trunc().clamp(0.0, 255.0);
    (got as f64) >= lo && (got as f64) <= hi
}
/// exact hexcone hue: returns (numerator, denominator) of the angle in degrees in [0, 360)
pub fn hue_exact(r: i64, g: i64, b: i64) -> (i64, i64) {
    let mx = r.max(g).max(b); let mn = r.min(g).min(b);
    if mx == mn { return (0, 1); }
    let d = mx - mn;
    let num = if mx == r { 60 * (g - b) } else if mx == g { 60 * (b - r) + 120 * d } else { 60 * (r - g) + 240 * d };
    let num = if num < 0 { num + 360 * d } else { num };
    (num, d)
}
