use super::{c, for_colours, Report};
use crate::pools::{rgb_at, Rng};
use lymui::generator::{shade::Shade, tint::Tint, GeneratorOps};
use lymui::prelude::*;
use lymui::rgb::FromRgb;
use lymui::util::{AsVec, FromVec};
use lymui::xyz::Kind;
use lymui::{create_color_from_vec, from_rgb_compatible_to_rgb_subtype, from_rgb_compatible_to_xyz_subtype, from_xyz_compatible_type_to_rgb_subtype, from_xyz_to_xyz_subtype};

fn hexval(ch: char) -> Option<u32> { ch.to_digit(16).filter(|_| ch.is_ascii()) }

/// what the text spells, if its colour positions are hexadecimal digits: (long form, short form)
fn spelled(s: &str) -> (Option<(u8, u8, u8)>, Option<(u8, u8, u8)>) {
    let t: Vec<char> = s.strip_prefix('#').unwrap_or(s).chars().collect();
    let d = |i: usize| t.get(i).and_then(|c| hexval(*c));
    let long = (|| Some(((d(0)? * 16 + d(1)?) as u8, (d(2)? * 16 + d(3)?) as u8, (d(4)? * 16 + d(5)?) as u8)))();
    let short = (|| Some(((d(0)? * 17) as u8, (d(1)? * 17) as u8, (d(2)? * 17) as u8)))();
    (long, if t.len() < 6 { short } else { None })
}

fn check_text(s: &str, rep: &mut Report) {
    let r = std::panic::catch_unwind(|| Rgb::try_from(Hex(s.to_string())));
    let r = match r { Ok(r) => r, Err(_) => { rep.check("C15.parse.nopanic", false, || format!("parsing {:?} panicked", s)); return; } };
    let t: Vec<char> = s.strip_prefix('#').unwrap_or(s).chars().collect();
    let all_hex = t.iter().all(|c| hexval(*c).is_some());
    let (long, short) = spelled(s);
    if all_hex && (t.len() == 3 || t.len() == 6) {
        let want = if t.len() == 6 { long } else { short };
        rep.check("C15.parse.accepts", matches!((&r, want), (Ok(c), Some(w)) if (c.r, c.g, c.b) == w), || format!("{:?} should parse to {:?} but gave {:?}", s, want, r.as_ref().map(|c| (c.r, c.g, c.b)).map_err(|_| "error")));
    }
    match &r {
        Ok(cc) => {
            let got = (cc.r, cc.g, cc.b);
            rep.check("C15.parse.faithful", long == Some(got) || short == Some(got), || format!("{:?} parsed to rgb{:?} but spells long={:?} short={:?}", s, got, long, short));
        }
        Err(_) => rep.ok("C15.parse.faithful"),
    }
}

pub fn c15(tier: &str, seed: u64, known: &[String]) -> Report {
    std::panic::set_hook(Box::new(|_| {}));
    let mut rep = for_colours(tier, seed, known, |rgb, rep| {
        let h = Hex::from(rgb);
        let want = format!("#{:02x}{:02x}{:02x}", rgb.r, rgb.g, rgb.b);
        rep.check("C15.format", h.0 == want, || format!("{} formats as {:?}", c(rgb), h.0));
        let txt = h.0.clone();
        let back = Rgb::try_from(h);
        rep.check("C15.reparse", matches!(&back, Ok(b) if b.r == rgb.r && b.g == rgb.g && b.b == rgb.b), || format!("{} -> {:?} -> {:?}", c(rgb), txt, back.as_ref().map(|b| (b.r, b.g, b.b)).map_err(|_| "error")));
        // either case, with and without '#', and the short form when it exists
        for s in [want.to_uppercase(), want[1..].to_string(), want[1..].to_uppercase()] {
            let b = Rgb::try_from(Hex(s.clone()));
            rep.check("C15.parse.accepts", matches!(&b, Ok(b) if b.r == rgb.r && b.g == rgb.g && b.b == rgb.b), || format!("{:?} should parse to {}", s, c(rgb)));
        }
        if rgb.r % 17 == 0 && rgb.g % 17 == 0 && rgb.b % 17 == 0 {
            let short = format!("#{:x}{:x}{:x}", rgb.r / 17, rgb.g / 17, rgb.b / 17);
            for s in [short.clone(), short[1..].to_string(), short.to_uppercase()] {
                let b = Rgb::try_from(Hex(s.clone()));
                rep.check("C15.parse.accepts", matches!(&b, Ok(b) if b.r == rgb.r && b.g == rgb.g && b.b == rgb.b), || format!("{:?} should parse to {}", s, c(rgb)));
            }
        }
    });
    // strings enumerated by shape
    let alpha: Vec<char> = vec!['7', 'c', 'C', 'g', '+', '-', ' ', '#', 'é', '0'];
    let maxlen = if tier == "thorough" { 7 } else { 5 };
    for len in 0..=maxlen {
        let total = 10usize.pow(len as u32);
        for i in 0..total {
            let mut k = i; let mut s = String::new();
            for _ in 0..len { s.push(alpha[k % 10]); k /= 10; }
            check_text(&s, &mut rep);
        }
    }
    // seeded random strings and mutations of valid colours
    let mut rng = Rng::new(seed ^ 0xC15);
    let pool: Vec<char> = "0123456789abcdefABCDEFgGxXzZ#+- _.\u{e9}\u{20ac}\u{1F600}\u{0}".chars().collect();
    for i in 0..(if tier == "thorough" { 2_000_000 } else { 200_000 }) {
        let s: String = if i % 2 == 0 {
            let len = rng.below(10) as usize;
            (0..len).map(|_| pool[rng.below(pool.len() as u64) as usize]).collect()
        } else {
            let rgb = rgb_at(20_000_000, &mut rng);
            let mut v: Vec<char> = format!("#{:02x}{:02x}{:02x}", rgb.r, rgb.g, rgb.b).chars().collect();
            for _ in 0..1 + rng.below(2) {
                let p = rng.below(v.len() as u64 + 1) as usize;
                match rng.below(3) { 0 => { if p < v.len() { v[p] = pool[rng.below(pool.len() as u64) as usize]; } } 1 => { if p < v.len() { v.remove(p); } } _ => v.insert(p.min(v.len()), pool[rng.below(pool.len() as u64) as usize]) }
            }
            v.into_iter().collect()
        };
        check_text(&s, &mut rep);
    }
    // characters that Unicode case folding, digit classification or normalisation could turn into hexadecimal digits:
    // ligatures (upper-case to "FF", "FI", ...), full-width forms, non-ASCII decimal digits, long s, dotless i, Kelvin sign,
    // mathematical letters, combining marks; all short texts over them and every single-position substitution in a colour
    let odd: Vec<char> = "\u{fb00}\u{fb01}\u{fb02}\u{fb03}\u{fb04}\u{ff10}\u{ff19}\u{ff21}\u{ff26}\u{ff41}\u{ff46}\u{663}\u{969}\u{17f}\u{131}\u{212a}\u{df}\u{1d41a}\u{1d7d7}\u{301}\u{2460}af0".chars().collect();
    let n = odd.len();
    for len in 1..=(if tier == "thorough" { 4 } else { 3 }) {
        for i in 0..n.pow(len as u32) {
            let mut k = i; let mut s = String::new();
            for _ in 0..len { s.push(odd[k % n]); k /= n; }
            check_text(&s, &mut rep);
            check_text(&format!("#{s}"), &mut rep);
        }
    }
    // every code point below U+0300 (all ASCII incl. control characters, Latin-1, Latin Extended) in every position
    let low: Vec<char> = (0u32..0x300).filter_map(char::from_u32).collect();
    for base in ["#a1b2c3", "a1b2c3", "#fff", "f0a"] {
        let v: Vec<char> = base.chars().collect();
        for p in 0..v.len() { for ch in &low { let mut w = v.clone(); w[p] = *ch; check_text(&w.iter().collect::<String>(), &mut rep); } }
    }
    for base in ["#a1b2c3", "a1b2c3", "#fff", "f0a", "#000000"] {
        let v: Vec<char> = base.chars().collect();
        for p in 0..=v.len() { for ch in &odd {
            let mut w = v.clone(); if p < w.len() { w[p] = *ch; } else { w.push(*ch); }
            check_text(&w.iter().collect::<String>(), &mut rep);
            let mut w = v.clone(); w.insert(p, *ch);
            check_text(&w.iter().collect::<String>(), &mut rep);
        } }
    }
    rep
}

pub fn xterm(n: u8) -> (u8, u8, u8) {
    const SYS: [(u8, u8, u8); 16] = [(0, 0, 0), (128, 0, 0), (0, 128, 0), (128, 128, 0), (0, 0, 128), (128, 0, 128), (0, 128, 128), (192, 192, 192),
        (128, 128, 128), (255, 0, 0), (0, 255, 0), (255, 255, 0), (0, 0, 255), (255, 0, 255), (0, 255, 255), (255, 255, 255)];
    if n < 16 { return SYS[n as usize]; }
    if n >= 232 { let v = 8 + 10 * (n - 232); return (v, v, v); }
    let m = n - 16; let lv = |d: u8| if d == 0 { 0 } else { 55 + 40 * d };
    (lv(m / 36), lv(m / 6 % 6), lv(m % 6))
}

pub fn c16(_tier: &str, _seed: u64, known: &[String]) -> Report {
    std::panic::set_hook(Box::new(|_| {}));
    let mut rep = Report::new(known);
    for n in 0..=255u8 {
        let r = std::panic::catch_unwind(|| Rgb::try_from(Ansi(n)));
        let want = xterm(n);
        match r {
            Ok(Ok(cc)) => rep.check("C16.decode", (cc.r, cc.g, cc.b) == want, || format!("ansi {} -> rgb({},{},{}) want {:?}", n, cc.r, cc.g, cc.b, want)),
            Ok(Err(_)) => rep.check("C16.decode", false, || format!("ansi {} -> error, want {:?}", n, want)),
            Err(_) => rep.check("C16.decode", false, || format!("ansi {} -> panic, want {:?}", n, want)),
        }
    }
    // every ordered pair of codes decoded one after the other: the result for a code must not depend on what was decoded before
    for a in 0..=255u8 { for n in 0..=255u8 {
        let r = std::panic::catch_unwind(|| { let _ = Rgb::try_from(Ansi(a)); Rgb::try_from(Ansi(n)) });
        let want = xterm(n);
        let ok = matches!(&r, Ok(Ok(cc)) if (cc.r, cc.g, cc.b) == want);
        rep.check("C16.decode", ok, || format!("ansi {} decoded right after ansi {} -> {:?} want {:?}", n, a, r.as_ref().map(|x| x.as_ref().map(|cc| (cc.r, cc.g, cc.b)).map_err(|_| "error")).map_err(|_| "panic"), want));
    } }
    rep
}

fn rha(num: i64, den: i64) -> i64 { (2 * num + den) / (2 * den) } // round half away, non-negative

pub fn c17(tier: &str, seed: u64, known: &[String]) -> Report {
    std::panic::set_hook(Box::new(|_| {}));
    let mut rep = for_colours(tier, seed, known, |rgb, rep| {
        let (r, g, b) = (rgb.r as i64, rgb.g as i64, rgb.b as i64);
        let got = match std::panic::catch_unwind(|| Ansi::from_rgb(rgb, AnsiKind::C256).0) { Ok(v) => v as i64, Err(_) => { rep.check("C17.c256.formula", false, || format!("{} panicked", c(rgb))); return; } };
        let want: Vec<i64> = if r == g && g == b {
            let ramp = 232 + rha(24 * (r - 8).max(0), 247);
            if r < 8 { vec![16] } else if r > 248 { vec![231] } else if r == 8 { vec![16, ramp] } else if r == 248 { vec![231, ramp] } else { vec![ramp] }
        } else { vec![16 + 36 * rha(5 * r, 255) + 6 * rha(5 * g, 255) + rha(5 * b, 255)] };
        rep.check("C17.c256.formula", want.contains(&got), || format!("{} -> ansi256 {} want {:?}", c(rgb), got, want));
        rep.check("C17.c256.not_system", got >= 16, || format!("{} -> ansi256 {}", c(rgb), got));
        if let Ok(Ok(d)) = std::panic::catch_unwind(|| Rgb::try_from(Ansi(got as u8))) {
            let lim = if r == g && g == b { 11 } else { 69 };
            rep.check("C17.c256.decode_bound", (d.r as i64 - r).abs() <= lim && (d.g as i64 - g).abs() <= lim && (d.b as i64 - b).abs() <= lim, || format!("{} -> ansi256 {} -> rgb({},{},{})", c(rgb), got, d.r, d.g, d.b));
            if r == g && g == b { rep.check("C17.c256.grey_neutral", d.r == d.g && d.g == d.b, || format!("grey {} -> ansi256 {} -> rgb({},{},{})", r, got, d.r, d.g, d.b)); }
        } else { rep.check("C17.c256.decode_bound", false, || format!("{} -> ansi256 {} does not decode", c(rgb), got)); }
        let got16 = match std::panic::catch_unwind(|| Ansi::from_rgb(rgb, AnsiKind::C16).0) { Ok(v) => v as i64, Err(_) => { rep.check("C17.c16.formula", false, || format!("{} panicked", c(rgb))); return; } };
        let mx = r.max(g).max(b);
        // brightest channel in percent: below 25% -> 30; at or above 75% -> bright variant
        let want16 = if 4 * mx < 255 { 30 } else { 30 + (r >= 128) as i64 + 2 * (g >= 128) as i64 + 4 * (b >= 128) as i64 + if 4 * mx >= 3 * 255 { 60 } else { 0 } };
        rep.check("C17.c16.formula", got16 == want16, || format!("{} -> ansi16 {} want {}", c(rgb), got16, want16));
    });
    // grey ramp brightness is monotone
    let _ = (tier, seed);
    let mut prev = 0i64;
    for vv in 0..=255u8 {
        let code = Ansi::from_rgb(Rgb::new(vv, vv, vv), AnsiKind::C256).0;
        if let Ok(Ok(d)) = std::panic::catch_unwind(|| Rgb::try_from(Ansi(code))) {
            rep.check("C17.c256.grey_monotone", d.r as i64 >= prev, || format!("grey {} -> code {} -> level {} after {}", vv, code, d.r, prev));
            prev = prev.max(d.r as i64);
        }
    }
    rep
}

/// run one generator call in a child process under an address-space limit and a time budget
/// (an unfixed crate loops forever and allocates without bound on factor 0)
pub fn guarded_generator(kind: &str, rgb: Rgb, factor: f64) -> Result<String, String> {
    let exe = std::env::current_exe().unwrap();
    let cmd = format!("ulimit -v 2000000; exec {} gen1 {} {} {} {} {:016x}", exe.display(), kind, rgb.r, rgb.g, rgb.b, factor.to_bits());
    let mut ch = std::process::Command::new("sh").arg("-c").arg(cmd).stdout(std::process::Stdio::piped()).stderr(std::process::Stdio::null()).spawn().map_err(|e| e.to_string())?;
    let start = std::time::Instant::now();
    loop {
        match ch.try_wait() {
            Ok(Some(st)) => {
                let mut out = String::new();
                use std::io::Read;
                let _ = ch.stdout.take().unwrap().read_to_string(&mut out);
                return if st.success() { Ok(out.trim().to_string()) } else { Err(format!("child failed ({}): out of memory or crash", st)) };
            }
            Ok(None) => {
                if start.elapsed().as_millis() > 3000 { let _ = ch.kill(); let _ = ch.wait(); return Err("no result within 3 s (does not terminate promptly)".to_string()); }
                std::thread::sleep(std::time::Duration::from_millis(5));
            }
            Err(e) => return Err(e.to_string()),
        }
    }
}

/// child side of `guarded_generator`: prints `err` or `ok n r g b r g b ...`
pub fn gen1(args: &[String]) -> i32 {
    let rgb = Rgb::new(args[1].parse().unwrap(), args[2].parse().unwrap(), args[3].parse().unwrap());
    let f = f64::from_bits(u64::from_str_radix(&args[4], 16).unwrap());
    let list = if args[0] == "shade" { Shade::compute(rgb, f).map(|s| s.0) } else { Tint::compute(rgb, f).map(|s| s.0) };
    match list {
        Err(_) => println!("err"),
        Ok(v) => { let mut s = format!("ok {}", v.len()); for q in v.iter().take(2000) { s.push_str(&format!(" {} {} {}", q.r, q.g, q.b)); } println!("{}", s); }
    }
    0
}

pub fn c18(tier: &str, seed: u64, known: &[String]) -> Report {
    let mut rep = Report::new(known);
    let mut rng = Rng::new(seed ^ 0xC18);
    let colours: Vec<Rgb> = {
        let mut v = vec![Rgb::new(0, 0, 0), Rgb::new(255, 255, 255), Rgb::new(255, 0, 0), Rgb::new(1, 2, 3), Rgb::new(254, 128, 7), Rgb::new(51, 102, 153), Rgb::new(200, 100, 50)];
        let n = if tier == "thorough" { 120 } else { 12 };
        for _ in 0..n { v.push(rgb_at(20_000_000, &mut rng)); }
        v
    };
    // invalid factors: must be rejected promptly.  Each call runs in a guarded child process.
    let invalid: Vec<f64> = vec![0.0, -0.0, -1.0, -1e-300, -0.5, 1.0000000000000002, 1.5, 2.0, 1e300, f64::NAN, f64::INFINITY, f64::NEG_INFINITY, -f64::MIN_POSITIVE, -5e-324];
    for (ci, rgb) in colours.iter().enumerate() {
        if ci >= 3 && tier != "thorough" { break; }
        for &f in &invalid {
            for kind in ["shade", "tint"] {
                let r = guarded_generator(kind, *rgb, f);
                rep.check(&format!("C18.{kind}.rejects"), r.as_deref() == Ok("err"), || format!("{kind}({}, {:e}) -> {:?}", c(*rgb), f, r));
            }
        }
    }
    // valid factors
    let mut factors: Vec<f64> = (1..=256).map(|n| 1.0 / n as f64).collect();
    factors.extend([0.05, 0.1, 0.15, 0.2, 0.3, 0.35, 0.7, 0.9, 0.99, 1.0 / 256.0, 0.004, 0.33, 0.66, 1.0]);
    for _ in 0..(if tier == "thorough" { 3000 } else { 300 }) { factors.push(rng.range(1.0 / 256.0, 1.0)); }
    for rgb in &colours {
        for &f in &factors {
            for kind in ["shade", "tint"] {
                // a call with another factor that has the same number of steps (and one with another colour) goes first: the lists
                // must depend on the arguments of the call only, not on earlier calls
                {
                    let nsteps = (1.0 / f).floor();
                    let decoy = ((1.0 / (nsteps + 0.5)).min(1.0)).max(1.0 / 256.0);
                    let other = Rgb::new(rgb.g, rgb.b, rgb.r ^ 0x55);
                    if kind == "shade" { let _ = Shade::compute(other, decoy); let _ = Shade::compute(*rgb, decoy); } else { let _ = Tint::compute(other, decoy); let _ = Tint::compute(*rgb, decoy); }
                }
                let list = if kind == "shade" { Shade::compute(*rgb, f).map(|s| s.0) } else { Tint::compute(*rgb, f).map(|s| s.0) };
                let list = match list { Ok(l) => l, Err(_) => { rep.check(&format!("C18.{kind}.accepts"), false, || format!("{kind}({}, {}) rejected", c(*rgb), f)); continue; } };
                rep.ok(&format!("C18.{kind}.accepts"));
                let n = (1.0 / f).floor() as usize + 1;
                rep.check(&format!("C18.{kind}.length"), list.len() == n, || format!("{kind}({}, {}) has {} entries, want floor(1/f)+1 = {}", c(*rgb), f, list.len(), n));
                if list.is_empty() { continue; }
                rep.check(&format!("C18.{kind}.first"), list[0].r == rgb.r && list[0].g == rgb.g && list[0].b == rgb.b, || format!("{kind}({}, {}) starts with rgb({},{},{})", c(*rgb), f, list[0].r, list[0].g, list[0].b));
                let mut okr = true; let mut okt = true; let mut mono = true; let mut bad = String::new();
                for (i, q) in list.iter().enumerate() {
                    let t = i as f64 * f;
                    let pre = |ch: u8| if kind == "shade" { ch as f64 * (1.0 - t) } else { ch as f64 + (255.0 - ch as f64) * t };
                    let p = [pre(rgb.r), pre(rgb.g), pre(rgb.b)];
                    use super::refs::{q_round_ok, q_trunc_ok};
                    let r_ok = q_round_ok(q.r, p[0], 1e-6) && q_round_ok(q.g, p[1], 1e-6) && q_round_ok(q.b, p[2], 1e-6);
                    let t_ok = q_trunc_ok(q.r, p[0], 1e-6) && q_trunc_ok(q.g, p[1], 1e-6) && q_trunc_ok(q.b, p[2], 1e-6);
                    if (!r_ok || !t_ok) && bad.is_empty() { bad = format!("entry {} is rgb({},{},{}) for exact ({:.6},{:.6},{:.6})", i, q.r, q.g, q.b, p[0], p[1], p[2]); }
                    okr &= r_ok; okt &= t_ok;
                    if i > 0 {
                        let p0 = &list[i - 1];
                        mono &= if kind == "shade" { q.r <= p0.r && q.g <= p0.g && q.b <= p0.b } else { q.r >= p0.r && q.g >= p0.g && q.b >= p0.b };
                    }
                }
                rep.check(&format!("C18.{kind}.entries"), okr || okt, || format!("{kind}({}, {}): {}", c(*rgb), f, bad));
                rep.check(&format!("C18.{kind}.monotone"), mono, || format!("{kind}({}, {}) is not monotone", c(*rgb), f));
                if (1.0 / f).fract() == 0.0 && list.len() == n {
                    let l = list[list.len() - 1]; let w = if kind == "shade" { 0 } else { 255 };
                    rep.check(&format!("C18.{kind}.last"), l.r == w && l.g == w && l.b == w, || format!("{kind}({}, {}) ends with rgb({},{},{})", c(*rgb), f, l.r, l.g, l.b));
                }
            }
        }
    }
    rep
}

macro_rules! same { ($a:expr, $b:expr) => {{ let (x, y) = ($a.as_vec(), $b.as_vec()); x.len() == y.len() && x.iter().zip(y.iter()).all(|(p, q)| p.to_bits() == q.to_bits() || (p.is_nan() && q.is_nan())) }}; }

macro_rules! helper_rx { ($rep:expr, $src:expr, $k:expr, $($e:ident),+) => {{ $(
    { let got: $e = from_rgb_compatible_to_xyz_subtype($src, $k); let want = $e::from(Xyz::from_rgb(Rgb::from($src), $k.unwrap_or(Kind::D65)));
      $rep.check("C19.helper.rgb_to_xyz_subtype", same!(got, want), || format!("{} -> {} with {:?}: {:?} vs {:?}", stringify!($src), stringify!($e), $k.map(|_| "Some"), got.as_vec(), want.as_vec())); }
)+ }}; }
macro_rules! helper_xr { ($rep:expr, $src:expr, $k:expr, $($e:ident),+) => {{ $(
    { let got: $e = from_xyz_compatible_type_to_rgb_subtype($src, $k); let want = $e::from(Xyz::from($src).as_rgb($k.unwrap_or(Kind::D65)));
      $rep.check("C19.helper.xyz_to_rgb_subtype", same!(got, want), || format!("{} -> {}: {:?} vs {:?}", stringify!($src), stringify!($e), got.as_vec(), want.as_vec())); }
)+ }}; }
macro_rules! vec_rt { ($rep:expr, $rng:expr, $ty:ident, $n:expr) => {{
    let v: Vec<f64> = (0..$n).map(|_| $rng.range(-5.0, 365.0)).collect();
    let x = $ty::from_vec(v.clone());
    $rep.check(concat!("C19.vec.", stringify!($ty), ".roundtrip"), x.as_vec().iter().zip(v.iter()).all(|(a, b)| a.to_bits() == b.to_bits()) && x.as_vec().len() == $n, || format!("{}::from_vec({:?}).as_vec() = {:?}", stringify!($ty), v, x.as_vec()));
    let y: $ty = create_color_from_vec(v.clone());
    $rep.check(concat!("C19.vec.", stringify!($ty), ".create"), same!(x, y), || format!("create_color_from_vec differs from from_vec for {}", stringify!($ty)));
    for len in 0..=6usize { if len == $n { continue; }
        let w: Vec<f64> = (0..len).map(|_| $rng.range(-5.0, 365.0)).collect();
        let r = std::panic::catch_unwind(|| { let _ = $ty::from_vec(w.clone()); });
        $rep.check(concat!("C19.vec.", stringify!($ty), ".total"), r.is_ok(), || format!("{}::from_vec of length {} panicked", stringify!($ty), len));
    }
}}; }

pub fn c19(tier: &str, seed: u64, known: &[String]) -> Report {
    std::panic::set_hook(Box::new(|_| {}));
    let mut rep = Report::new(known);
    let mut rng = Rng::new(seed ^ 0xC19);
    let n = if tier == "thorough" { 20_000 } else { 1500 };
    for i in 0..n {
        let rgb = rgb_at(i * 3, &mut rng);
        // the profiles in an order in which every ordered pair of {None, D65, D50, Adobe} is adjacent once (a helper that keeps
        // state between calls, e.g. a cache keyed too coarsely, shows up only for particular consecutive calls)
        for k in [None, Some(Kind::D65), Some(Kind::D50), Some(Kind::Adobe), None, Some(Kind::D50), None, Some(Kind::Adobe), Some(Kind::D65), None, Some(Kind::D65), Some(Kind::Adobe), Some(Kind::D50), Some(Kind::D65)] {
            helper_rx!(rep, rgb, k, Lab, Luv, Xyy, Srgb, Argb, Hlab, Lchlab, Lchuv, Hcl, OkLab, OkLch, Rec709, Rec2020, Rec2100, Xyz);
            helper_rx!(rep, Cymk::from(rgb), k, Lab, Srgb, Xyz);
            helper_rx!(rep, Hsl::from(rgb), k, Luv, OkLab);
            helper_rx!(rep, Hsv::from(rgb), k, Xyy, Hcl);
            helper_rx!(rep, Hwb::from(rgb), k, Lchlab);
            helper_rx!(rep, Yuv::from(rgb), k, Rec709);
            helper_rx!(rep, Ycbcr::from(rgb), k, Rec2020);
            let x = Xyz::from_rgb(rgb, Kind::D65);
            helper_xr!(rep, Lab::from(x), k, Hsl, Cymk, Yuv, Hsv, Hwb, Rgb);
            helper_xr!(rep, Luv::from(x), k, Hsl, Rgb);
            helper_xr!(rep, Xyy::from(x), k, Cymk);
            helper_xr!(rep, Srgb::from(x), k, Hsv);
            helper_xr!(rep, Lchuv::from(x), k, Hwb);
            helper_xr!(rep, Hcl::from(x), k, Yuv);
            helper_xr!(rep, x, k, Rgb, Hsl);
            { let got: Hex = from_xyz_compatible_type_to_rgb_subtype(Luv::from(x), k); let want = Hex::from(Xyz::from(Luv::from(x)).as_rgb(k.unwrap_or(Kind::D65)));
              rep.check("C19.helper.xyz_to_rgb_subtype", got.0 == want.0, || format!("Luv -> Hex: {} vs {}", got.0, want.0)); }
            { let got: Ycbcr = from_xyz_compatible_type_to_rgb_subtype(Lab::from(x), k); let want = Ycbcr::from(Xyz::from(Lab::from(x)).as_rgb(k.unwrap_or(Kind::D65)));
              rep.check("C19.helper.xyz_to_rgb_subtype", same!(got, want), || "Lab -> Ycbcr".to_string()); }
        }
        { let got: Hsl = from_rgb_compatible_to_rgb_subtype(Cymk::from(rgb)); let want = Hsl::from(Rgb::from(Cymk::from(rgb))); rep.check("C19.helper.rgb_to_rgb_subtype", same!(got, want), || format!("{} cmyk -> hsl", c(rgb))); }
        { let got: Cymk = from_rgb_compatible_to_rgb_subtype(Hsv::from(rgb)); let want = Cymk::from(Rgb::from(Hsv::from(rgb))); rep.check("C19.helper.rgb_to_rgb_subtype", same!(got, want), || format!("{} hsv -> cmyk", c(rgb))); }
        { let got: Yuv = from_rgb_compatible_to_rgb_subtype(rgb); let want = Yuv::from(rgb); rep.check("C19.helper.rgb_to_rgb_subtype", same!(got, want), || format!("{} rgb -> yuv", c(rgb))); }
        { let got: Hex = from_rgb_compatible_to_rgb_subtype(Ycbcr::from(rgb)); let want = Hex::from(Rgb::from(Ycbcr::from(rgb))); rep.check("C19.helper.rgb_to_rgb_subtype", got.0 == want.0, || format!("{} ycbcr -> hex", c(rgb))); }
        let x = Xyz::from_rgb(rgb, Kind::D65);
        { let got: Luv = from_xyz_to_xyz_subtype(Lab::from(x)); let want = Luv::from(Xyz::from(Lab::from(x))); rep.check("C19.helper.xyz_to_xyz_subtype", same!(got, want), || format!("{} lab -> luv", c(rgb))); }
        { let got: OkLch = from_xyz_to_xyz_subtype(Srgb::from(x)); let want = OkLch::from(Xyz::from(Srgb::from(x))); rep.check("C19.helper.xyz_to_xyz_subtype", same!(got, want), || format!("{} srgb -> oklch", c(rgb))); }
        { let got: Xyy = from_xyz_to_xyz_subtype(Hcl::from(x)); let want = Xyy::from(Xyz::from(Hcl::from(x))); rep.check("C19.helper.xyz_to_xyz_subtype", same!(got, want), || format!("{} hcl -> xyy", c(rgb))); }
        // vectors
        vec_rt!(rep, rng, Hsl, 3); vec_rt!(rep, rng, Hsv, 3); vec_rt!(rep, rng, Hwb, 3); vec_rt!(rep, rng, Yuv, 3); vec_rt!(rep, rng, Xyz, 3); vec_rt!(rep, rng, Xyy, 3);
        vec_rt!(rep, rng, Hcl, 3); vec_rt!(rep, rng, Lab, 3); vec_rt!(rep, rng, Luv, 3); vec_rt!(rep, rng, Hlab, 3); vec_rt!(rep, rng, Lchlab, 3); vec_rt!(rep, rng, Lchuv, 3);
        vec_rt!(rep, rng, OkLab, 3); vec_rt!(rep, rng, OkLch, 3); vec_rt!(rep, rng, Srgb, 3); vec_rt!(rep, rng, Argb, 3); vec_rt!(rep, rng, Rec709, 3); vec_rt!(rep, rng, Rec2020, 3);
        vec_rt!(rep, rng, Rec2100, 3); vec_rt!(rep, rng, Cymk, 4);
        // documented component order
        let s = Cymk { c: 0.1, m: 0.2, y: 0.3, k: 0.4 }; rep.check("C19.vec.order.cmyk", s.as_vec() == vec![0.1, 0.3, 0.2, 0.4], || format!("Cymk as_vec {:?} (documented [c, y, m, k])", s.as_vec()));
        let s = Hsl { h: 1.0, s: 2.0, l: 3.0 }; rep.check("C19.vec.order.hsl", s.as_vec() == vec![1.0, 2.0, 3.0], || format!("Hsl as_vec {:?}", s.as_vec()));
        let s = Xyy { x: 1.0, y: 2.0, _y: 3.0 }; rep.check("C19.vec.order.xyy", s.as_vec() == vec![1.0, 2.0, 3.0], || format!("Xyy as_vec {:?}", s.as_vec()));
        let s = Hcl { h: 1.0, c: 2.0, l: 3.0 }; rep.check("C19.vec.order.hcl", s.as_vec() == vec![1.0, 2.0, 3.0], || format!("Hcl as_vec {:?}", s.as_vec()));
        let s = Cymk::from_vec(vec![0.1, 0.3, 0.2, 0.4]); rep.check("C19.vec.order.cmyk_from", s.c == 0.1 && s.y == 0.3 && s.m == 0.2 && s.k == 0.4, || format!("Cymk from_vec {:?}", s));
        // 8-bit types
        let bytes: Vec<u8> = rgb.as_vec().iter().map(|v| *v as u8).collect();
        let back = Rgb::from_vec(bytes.clone()); rep.check("C19.vec.Rgb.roundtrip", back.r == rgb.r && back.g == rgb.g && back.b == rgb.b, || format!("{} -> {:?} -> rgb({},{},{})", c(rgb), bytes, back.r, back.g, back.b));
        let y = Ycbcr::from(rgb); let bytes: Vec<u8> = y.as_vec().iter().map(|v| *v as u8).collect();
        let back = Ycbcr::from_vec(bytes.clone()); rep.check("C19.vec.Ycbcr.roundtrip", back.y == y.y && back.cb == y.cb && back.cr == y.cr, || format!("ycbcr {:?} -> ({},{},{})", bytes, back.y, back.cb, back.cr));
        let cr: Rgb = create_color_from_vec(vec![rgb.r, rgb.g, rgb.b]); rep.check("C19.vec.Rgb.create", cr.r == rgb.r && cr.g == rgb.g && cr.b == rgb.b, || format!("create_color_from_vec for {}", c(rgb)));
        for len in 0..=6usize {
            let w: Vec<u8> = (0..len).map(|_| rng.below(256) as u8).collect();
            let r = std::panic::catch_unwind(|| { let _ = Rgb::from_vec(w.clone()); let _ = Ycbcr::from_vec(w.clone()); });
            rep.check("C19.vec.bytes.total", r.is_ok(), || format!("from_vec of {} bytes panicked", len));
        }
        // scale: any magnitude (already-scaled values too), and applied twice
        let m = [2.0, 300.0, 1e6][i % 3];
        let a = [rng.range(-m, m), rng.range(-m, m), rng.range(-m, m)];
        let mut xs = Xyz { x: a[0], y: a[1], z: a[2] }; xs.scale();
        rep.check("C19.scale", xs.x == a[0] * 100.0 && xs.y == a[1] * 100.0 && xs.z == a[2] * 100.0, || format!("scale {:?} -> ({},{},{})", a, xs.x, xs.y, xs.z));
        let once = [xs.x, xs.y, xs.z]; xs.scale();
        rep.check("C19.scale", xs.x == once[0] * 100.0 && xs.y == once[1] * 100.0 && xs.z == once[2] * 100.0, || format!("scale twice {:?} -> ({},{},{})", a, xs.x, xs.y, xs.z));
        // helpers on out-of-gamut / arbitrary sources (the XYZ in the middle may be negative or large)
        for k in [None, Some(Kind::D65), Some(Kind::Adobe)] {
            let lab = Lab { l: rng.range(0.0, 100.0), a: rng.range(-128.0, 128.0), b: rng.range(-128.0, 128.0) };
            helper_xr!(rep, lab, k, Hsl, Cymk, Rgb);
            let luv = Luv { l: rng.range(1.0, 100.0), u: rng.range(-130.0, 180.0), v: rng.range(-130.0, 110.0) };
            helper_xr!(rep, luv, k, Hsv, Rgb);
            let sr = Srgb { r: rng.range(-0.3, 1.3), g: rng.range(-0.3, 1.3), b: rng.range(-0.3, 1.3) };
            helper_xr!(rep, sr, k, Hwb, Yuv);
        }
        {
            let lab = Lab { l: rng.range(0.0, 100.0), a: rng.range(-128.0, 128.0), b: rng.range(-128.0, 128.0) };
            { let got: Luv = from_xyz_to_xyz_subtype(lab); let want = Luv::from(Xyz::from(lab)); rep.check("C19.helper.xyz_to_xyz_subtype", same!(got, want), || format!("Lab({},{},{}) -> Luv: {:?} vs {:?}", lab.l, lab.a, lab.b, got.as_vec(), want.as_vec())); }
            { let got: Rec2020 = from_xyz_to_xyz_subtype(lab); let want = Rec2020::from(Xyz::from(lab)); rep.check("C19.helper.xyz_to_xyz_subtype", same!(got, want), || format!("Lab({},{},{}) -> Rec2020: {:?} vs {:?}", lab.l, lab.a, lab.b, got.as_vec(), want.as_vec())); }
            let sr = Srgb { r: rng.range(-0.3, 1.3), g: rng.range(-0.3, 1.3), b: rng.range(-0.3, 1.3) };
            { let got: Xyy = from_xyz_to_xyz_subtype(sr); let want = Xyy::from(Xyz::from(sr)); rep.check("C19.helper.xyz_to_xyz_subtype", same!(got, want), || format!("Srgb({},{},{}) -> Xyy: {:?} vs {:?}", sr.r, sr.g, sr.b, got.as_vec(), want.as_vec())); }
            let xz = Xyz { x: rng.range(-0.5, 1.5), y: rng.range(-0.5, 1.5), z: rng.range(-0.5, 1.5) };
            { let got: Lab = from_xyz_to_xyz_subtype(xz); let want = Lab::from(xz); rep.check("C19.helper.xyz_to_xyz_subtype", same!(got, want), || format!("Xyz({},{},{}) -> Lab: {:?} vs {:?}", xz.x, xz.y, xz.z, got.as_vec(), want.as_vec())); }
        }
    }
    // structured XYZ sources: a dyadic lattice with zeros, equal and exactly cancelling components (x + y + z == 0 with
    // non-zero parts), where a shortcut keyed on a sum, a product or an equality test would differ from the two-step path
    let lv = [-1.0, -0.5, -0.25, 0.0, 0.25, 0.5, 1.0];
    for i in 0..343usize {
        let xz = Xyz { x: lv[i / 49], y: lv[i / 7 % 7], z: lv[i % 7] };
        for k in [None, Some(Kind::D65), Some(Kind::D50), Some(Kind::Adobe)] {
            { let got: Rgb = from_xyz_compatible_type_to_rgb_subtype(xz, k); let want = xz.as_rgb(k.unwrap_or(Kind::D65));
              rep.check("C19.helper.xyz_to_rgb_subtype", same!(got, want), || format!("Xyz({},{},{}) -> Rgb: {:?} vs {:?}", xz.x, xz.y, xz.z, got.as_vec(), want.as_vec())); }
            { let got: Hsv = from_xyz_compatible_type_to_rgb_subtype(xz, k); let want = Hsv::from(xz.as_rgb(k.unwrap_or(Kind::D65)));
              rep.check("C19.helper.xyz_to_rgb_subtype", same!(got, want), || format!("Xyz({},{},{}) -> Hsv: {:?} vs {:?}", xz.x, xz.y, xz.z, got.as_vec(), want.as_vec())); }
        }
        { let got: Xyy = from_xyz_to_xyz_subtype(xz); let want = Xyy::from(xz); rep.check("C19.helper.xyz_to_xyz_subtype", same!(got, want), || format!("Xyz({},{},{}) -> Xyy: {:?} vs {:?}", xz.x, xz.y, xz.z, got.as_vec(), want.as_vec())); }
        { let got: OkLab = from_xyz_to_xyz_subtype(xz); let want = OkLab::from(xz); rep.check("C19.helper.xyz_to_xyz_subtype", same!(got, want), || format!("Xyz({},{},{}) -> OkLab: {:?} vs {:?}", xz.x, xz.y, xz.z, got.as_vec(), want.as_vec())); }
    }
    rep
}
