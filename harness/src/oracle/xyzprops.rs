use super::refs::*;
use super::{c, for_colours, Report};
use crate::pools::Rng;
use lymui::prelude::*;
use lymui::rgb::FromRgb;
use lymui::xyz::Kind;

fn v(x: Xyz) -> [f64; 3] { [x.x, x.y, x.z] }
fn fin3(a: [f64; 3]) -> bool { a.iter().all(|t| t.is_finite()) }

pub fn c01(tier: &str, seed: u64, known: &[String]) -> Report {
    for_colours(tier, seed, known, |rgb, rep| {
        for (k, name) in [(Kind::D65, "C01.d65"), (Kind::D50, "C01.d50"), (Kind::Adobe, "C01.adobe")] {
            let back = Xyz::from_rgb(rgb, k).as_rgb(k);
            rep.check(name, back.r == rgb.r && back.g == rgb.g && back.b == rgb.b, || format!("{} -> xyz -> rgb({},{},{})", c(rgb), back.r, back.g, back.b));
        }
    })
}

macro_rules! roundtrip {
    ($rep:expr, $rgb:expr, $x:expr, $ty:ident, $name:expr) => {{
        let s = $ty::from($x);
        let back = Xyz::from(s);
        let d = maxabs3(v(back), v($x));
        $rep.check(concat!("C02.", $name, ".roundtrip"), d <= 5e-4, || format!("{} xyz=({:e},{:e},{:e}) -> {} -> ({:e},{:e},{:e}) diff {:e}", c($rgb), $x.x, $x.y, $x.z, $name, back.x, back.y, back.z, d));
        let q = back.as_rgb(Kind::D65);
        $rep.check(concat!("C02.", $name, ".requant"), q.r == $rgb.r && q.g == $rgb.g && q.b == $rgb.b, || format!("{} -> xyz -> {} -> xyz -> rgb({},{},{})", c($rgb), $name, q.r, q.g, q.b));
    }};
}

pub fn c02(tier: &str, seed: u64, known: &[String]) -> Report {
    for_colours(tier, seed, known, |rgb, rep| {
        let x = Xyz::from_rgb(rgb, Kind::D65);
        roundtrip!(rep, rgb, x, Srgb, "srgb");
        roundtrip!(rep, rgb, x, Argb, "argb");
        roundtrip!(rep, rgb, x, Lab, "lab");
        roundtrip!(rep, rgb, x, Lchlab, "lchlab");
        roundtrip!(rep, rgb, x, Luv, "luv");
        roundtrip!(rep, rgb, x, Lchuv, "lchuv");
        roundtrip!(rep, rgb, x, Hcl, "hcl");
        roundtrip!(rep, rgb, x, Xyy, "xyy");
        roundtrip!(rep, rgb, x, OkLab, "oklab");
        roundtrip!(rep, rgb, x, OkLch, "oklch");
        roundtrip!(rep, rgb, x, Rec709, "rec709");
        roundtrip!(rep, rgb, x, Rec2020, "rec2020");
        // Hunter Lab: known finding = the reverse conversion returns -Z (x and y correct)
        {
            let back = Xyz::from(Hlab::from(x));
            let d = maxabs3(v(back), v(x));
            let sig = (back.x - x.x).abs() <= 5e-4 && (back.y - x.y).abs() <= 5e-4 && (back.z + x.z).abs() <= 5e-4;
            rep.check_known("C02.hlab.roundtrip", d <= 5e-4, sig, || format!("{} xyz=({:e},{:e},{:e}) -> hlab -> ({:e},{:e},{:e})", c(rgb), x.x, x.y, x.z, back.x, back.y, back.z));
            let q = back.as_rgb(Kind::D65);
            rep.check_known("C02.hlab.requant", q.r == rgb.r && q.g == rgb.g && q.b == rgb.b, sig, || format!("{} -> hlab -> xyz -> rgb({},{},{})", c(rgb), q.r, q.g, q.b));
        }
        // Rec.2100: known finding = forward PQ curve is not ST 2084 (pinned by a test), so the pair cannot invert
        {
            let r = Rec2100::from(x);
            let back = Xyz::from(r);
            let d = maxabs3(v(back), v(x));
            // signature: exactly what the pinned forward formula followed by the ST 2084 inverse gives
            let m = m_bt2020(); let l2 = mul(&inv(&m), v(x));
            let buggy = |e: f64| { let p = e.powf(1.0 / PQ_M2); if p == 0.0 || p.is_nan() { if p.is_nan() { f64::NAN } else { 0.0 } } else { 10000.0 * ((p - PQ_C1).max(0.0) / ((PQ_C2 - PQ_C3) * p)).powf(1.0 / PQ_M1) } };
            let e = mul(&m, [pq_inv(buggy(l2[0])), pq_inv(buggy(l2[1])), pq_inv(buggy(l2[2]))]);
            let sig = fin3(v(back)) && maxabs3(v(back), e) <= 1e-3 || (!fin3(e) && !fin3(v(back)));
            rep.check_known("C02.rec2100.roundtrip", d <= 5e-4, sig, || format!("{} xyz=({:e},{:e},{:e}) -> rec2100 ({:e},{:e},{:e}) -> ({:e},{:e},{:e})", c(rgb), x.x, x.y, x.z, r.r, r.g, r.b, back.x, back.y, back.z));
            let q = back.as_rgb(Kind::D65);
            rep.check_known("C02.rec2100.requant", q.r == rgb.r && q.g == rgb.g && q.b == rgb.b, sig, || format!("{} -> rec2100 -> xyz -> rgb({},{},{})", c(rgb), q.r, q.g, q.b));
        }
        // Adobe RGB additionally from the Adobe-profile XYZ
        let xa = Xyz::from_rgb(rgb, Kind::Adobe);
        let back = Xyz::from(Argb::from(xa));
        let d = maxabs3(v(back), v(xa));
        rep.check("C02.argb_adobe.roundtrip", d <= 5e-4, || format!("{} adobe xyz -> argb -> xyz diff {:e}", c(rgb), d));
        let q = back.as_rgb(Kind::Adobe);
        rep.check("C02.argb_adobe.requant", q.r == rgb.r && q.g == rgb.g && q.b == rgb.b, || format!("{} -> adobe xyz -> argb -> xyz -> rgb({},{},{})", c(rgb), q.r, q.g, q.b));
    })
}

pub fn c05(tier: &str, seed: u64, known: &[String]) -> Report {
    let (m65, m50, ma) = (m_srgb_d65(), m_srgb_d50(), m_adobe());
    let mut rep = for_colours(tier, seed, known, |rgb, rep| {
        let ch = [rgb.r as f64 / 255.0, rgb.g as f64 / 255.0, rgb.b as f64 / 255.0];
        let lin_s = [srgb_dec(ch[0]), srgb_dec(ch[1]), srgb_dec(ch[2])];
        let lin_a = [adobe_dec(ch[0]), adobe_dec(ch[1]), adobe_dec(ch[2])];
        for (k, m, lin, name) in [(Kind::D65, &m65, lin_s, "C05.d65.forward"), (Kind::D50, &m50, lin_s, "C05.d50.forward"), (Kind::Adobe, &ma, lin_a, "C05.adobe.forward")] {
            let got = v(Xyz::from_rgb(rgb, k)); let want = mul(m, lin);
            let d = maxabs3(got, want);
            rep.check(name, d <= 1e-6, || format!("{} got ({:e},{:e},{:e}) want ({:e},{:e},{:e})", c(rgb), got[0], got[1], got[2], want[0], want[1], want[2]));
        }
        let s = Srgb::from(rgb); let a = Argb::from(rgb);
        rep.check("C05.srgb_from_rgb", maxabs3([s.r, s.g, s.b], lin_s) <= 1e-12, || format!("{} Srgb::from gives ({:e},{:e},{:e})", c(rgb), s.r, s.g, s.b));
        rep.check("C05.argb_from_rgb", maxabs3([a.r, a.g, a.b], lin_a) <= 1e-12, || format!("{} Argb::from gives ({:e},{:e},{:e})", c(rgb), a.r, a.g, a.b));
    });
    // white / black / scale
    for (k, w, name) in [(Kind::D65, D65, "C05.d65.white"), (Kind::D50, D50, "C05.d50.white"), (Kind::Adobe, D65, "C05.adobe.white")] {
        let x = v(Xyz::from_rgb(Rgb::new(255, 255, 255), k));
        rep.check(name, maxabs3(x, w) <= 1e-6, || format!("white -> ({:e},{:e},{:e})", x[0], x[1], x[2]));
        let b = v(Xyz::from_rgb(Rgb::new(0, 0, 0), k));
        rep.check("C05.black", b == [0.0, 0.0, 0.0], || format!("black -> ({:e},{:e},{:e})", b[0], b[1], b[2]));
        let wq = Xyz { x: w[0], y: w[1], z: w[2] }.as_rgb(k);
        rep.check("C05.white_back", wq.r == 255 && wq.g == 255 && wq.b == 255, || format!("reference white -> rgb({},{},{})", wq.r, wq.g, wq.b));
        let bq = Xyz { x: 0.0, y: 0.0, z: 0.0 }.as_rgb(k);
        rep.check("C05.black_back", bq.r == 0 && bq.g == 0 && bq.b == 0, || format!("black xyz -> rgb({},{},{})", bq.r, bq.g, bq.b));
    }
    // reverse: lattice + random xyz inside and slightly outside each gamut
    let mut rng = Rng::new(seed ^ 0xC05);
    let n = if tier == "thorough" { 2_000_000 } else { 60_000 };
    let invs = [(Kind::D65, inv(&m65), true, "C05.d65.reverse"), (Kind::D50, inv(&m50), true, "C05.d50.reverse"), (Kind::Adobe, inv(&ma), false, "C05.adobe.reverse")];
    for i in 0..n {
        let x = if i < 9261 { [(i / 441) as f64 * 0.055 - 0.05, (i / 21 % 21) as f64 * 0.055 - 0.05, (i % 21) as f64 * 0.06 - 0.05] }
                else { [rng.range(-0.05, 1.0), rng.range(-0.05, 1.05), rng.range(-0.05, 1.15)] };
        for (k, mi, srgb_curve, name) in invs.iter() {
            let lin = mul(mi, x);
            let enc: Vec<f64> = lin.iter().map(|&l| 255.0 * if *srgb_curve { srgb_enc(l) } else { adobe_enc(l) }).collect();
            let got = Xyz { x: x[0], y: x[1], z: x[2] }.as_rgb(*k);
            let ok = q_round_ok(got.r, enc[0], 2e-3) && q_round_ok(got.g, enc[1], 2e-3) && q_round_ok(got.b, enc[2], 2e-3);
            rep.check(name, ok, || format!("xyz ({:e},{:e},{:e}) -> rgb({},{},{}) but 255*enc = ({:.4},{:.4},{:.4})", x[0], x[1], x[2], got.r, got.g, got.b, enc[0], enc[1], enc[2]));
        }
    }
    // scale
    for i in 0..3000 {
        let m = [2.0, 300.0, 1e6][i % 3];
        let a = [rng.range(-m, m), rng.range(-m, m), rng.range(-m, m)];
        let mut x = Xyz { x: a[0], y: a[1], z: a[2] }; x.scale();
        rep.check("C05.scale", x.x == a[0] * 100.0 && x.y == a[1] * 100.0 && x.z == a[2] * 100.0, || format!("scale({:e},{:e},{:e}) -> ({:e},{:e},{:e})", a[0], a[1], a[2], x.x, x.y, x.z));
        let once = [x.x, x.y, x.z]; x.scale();
        rep.check("C05.scale", x.x == once[0] * 100.0 && x.y == once[1] * 100.0 && x.z == once[2] * 100.0, || format!("scale twice ({:e},{:e},{:e}) -> ({:e},{:e},{:e})", a[0], a[1], a[2], x.x, x.y, x.z));
    }
    rep
}

fn c06_reverse(rep: &mut Report, x: [f64; 3], src: &str) {
    if x[1] <= 0.0 { return; }
    let l = cielab(x);
    let b = v(Xyz::from(Lab { l: l[0], a: l[1], b: l[2] }));
    rep.check("C06.lab.reverse", maxabs3(b, x) <= 1e-5, || format!("{} xyz ({:e},{:e},{:e}) lab ({:e},{:e},{:e}) -> ({:e},{:e},{:e})", src, x[0], x[1], x[2], l[0], l[1], l[2], b[0], b[1], b[2]));
    let l = cieluv(x);
    let b = v(Xyz::from(Luv { l: l[0], u: l[1], v: l[2] }));
    // CIELUV stores v' as an offset from the white's v'n = 0.468: when v' = 9Y/(X+15Y+3Z) is below 1e-9 the f64 coordinates no
    // longer determine the XYZ within 1e-5 (the offset cancels), so such inputs say nothing about the code
    if 9.0 * x[1] / (x[0] + 15.0 * x[1] + 3.0 * x[2]) >= 1e-9 {
    rep.check("C06.luv.reverse", maxabs3(b, x) <= 1e-5, || format!("{} xyz ({:e},{:e},{:e}) luv ({:e},{:e},{:e}) -> ({:e},{:e},{:e})", src, x[0], x[1], x[2], l[0], l[1], l[2], b[0], b[1], b[2]));
    }
    let l = hunter(x);
    let b = v(Xyz::from(Hlab { l: l[0], a: l[1], b: l[2] }));
    let sig = (b[0] - x[0]).abs() <= 1e-5 && (b[1] - x[1]).abs() <= 1e-5 && (b[2] + x[2]).abs() <= 1e-5;
    rep.check_known("C06.hlab.reverse", maxabs3(b, x) <= 1e-5, sig, || format!("{} xyz ({:e},{:e},{:e}) hlab ({:e},{:e},{:e}) -> ({:e},{:e},{:e})", src, x[0], x[1], x[2], l[0], l[1], l[2], b[0], b[1], b[2]));
    let l = xyy(x);
    let b = v(Xyz::from(Xyy { x: l[0], y: l[1], _y: l[2] }));
    rep.check("C06.xyy.reverse", maxabs3(b, x) <= 1e-5, || format!("{} xyz ({:e},{:e},{:e}) xyY ({:e},{:e},{:e}) -> ({:e},{:e},{:e})", src, x[0], x[1], x[2], l[0], l[1], l[2], b[0], b[1], b[2]));
}

pub fn c06(tier: &str, seed: u64, known: &[String]) -> Report {
    let mut rep = for_colours(tier, seed, known, |rgb, rep| {
        let xs = Xyz::from_rgb(rgb, Kind::D65); let x = v(xs);
        let l = Lab::from(xs); let want = cielab(x);
        rep.check("C06.lab.forward", maxabs3([l.l, l.a, l.b], want) <= 1e-3, || format!("{} lab ({:e},{:e},{:e}) want ({:e},{:e},{:e})", c(rgb), l.l, l.a, l.b, want[0], want[1], want[2]));
        let l = Luv::from(xs); let want = cieluv(x);
        rep.check("C06.luv.forward", maxabs3([l.l, l.u, l.v], want) <= 1e-3, || format!("{} luv ({:e},{:e},{:e}) want ({:e},{:e},{:e})", c(rgb), l.l, l.u, l.v, want[0], want[1], want[2]));
        let l = Hlab::from(xs); let want = hunter(x);
        rep.check("C06.hlab.forward", maxabs3([l.l, l.a, l.b], want) <= 1e-3, || format!("{} hlab ({:e},{:e},{:e}) want ({:e},{:e},{:e})", c(rgb), l.l, l.a, l.b, want[0], want[1], want[2]));
        let l = Xyy::from(xs); let want = xyy(x);
        rep.check("C06.xyy.forward", maxabs3([l.x, l.y, l._y], want) <= 1e-9, || format!("{} xyY ({:e},{:e},{:e}) want ({:e},{:e},{:e})", c(rgb), l.x, l.y, l._y, want[0], want[1], want[2]));
        c06_reverse(rep, x, &c(rgb));
    });
    let mut rng = Rng::new(seed ^ 0xC06);
    let side = if tier == "thorough" { 45 } else { 23 };
    for i in 0..side * side * side {
        let f = 1.1 / (side - 1) as f64;
        c06_reverse(&mut rep, [(i / (side * side)) as f64 * f, ((i / side % side) as f64 * f).max(1e-4), (i % side) as f64 * f], "lattice");
    }
    for _ in 0..(if tier == "thorough" { 1_000_000 } else { 50_000 }) {
        c06_reverse(&mut rep, [rng.range(0.0, 1.1), rng.range(1e-6, 1.1), rng.range(0.0, 1.1)], "random");
    }
    // edges of "any XYZ in [0,1.1]^3 with non-zero luminance": tiny luminance against large X, Z; zero X or Z; the corners
    let ys = [1e-300, 1e-16, 1e-12, 1e-8, 1e-4, 0.5, 1.1]; let xs = [0.0, 1e-8, 0.5, 1.0, 1.1];
    for y in ys { for x in xs { for z in xs { c06_reverse(&mut rep, [x, y, z], "edge"); } } }
    // the same clause entered from the coordinate side: coordinates with zero or equal components (u = 0 with v != 0, a = 0, ...)
    // are the exact coordinates of some XYZ; it is obtained with the CIE inverse formulae and accepted when it lies in the box
    // and the CIE forward formulae reproduce the coordinates
    let cs = [-100.0, -40.0, -5.0, 0.0, 5.0, 40.0, 100.0]; let ls = [0.5, 2.0, 8.0, 9.0, 30.0, 50.0, 75.0, 100.0];
    for l in ls { for p in cs { for q in cs {
        let fi = |t: f64| if t * t * t > CIE_E { t * t * t } else { (116.0 * t - 16.0) / CIE_K };
        let fy = (l + 16.0) / 116.0;
        let x = [D65[0] * fi(fy + p / 500.0), D65[1] * (if l > CIE_K * CIE_E { fy * fy * fy } else { l / CIE_K }), D65[2] * fi(fy - q / 200.0)];
        let inbox = |x: [f64; 3]| x.iter().all(|t| (0.0..=1.1).contains(t)) && x[1] > 0.0;
        if inbox(x) && maxabs3(cielab(x), [l, p, q]) <= 1e-9 {
            let b = v(Xyz::from(Lab { l, a: p, b: q }));
            rep.check("C06.lab.reverse", maxabs3(b, x) <= 1e-5, || format!("coordinates lab ({:e},{:e},{:e}) of xyz ({:e},{:e},{:e}) -> ({:e},{:e},{:e})", l, p, q, x[0], x[1], x[2], b[0], b[1], b[2]));
        }
        let (un, vn) = (4.0 * D65[0] / (D65[0] + 15.0 * D65[1] + 3.0 * D65[2]), 9.0 * D65[1] / (D65[0] + 15.0 * D65[1] + 3.0 * D65[2]));
        let (up, vp) = (p / (13.0 * l) + un, q / (13.0 * l) + vn);
        if vp > 1e-3 {
            let y = if l > CIE_K * CIE_E { fy * fy * fy } else { l / CIE_K };
            let x = [y * 9.0 * up / (4.0 * vp), y, y * (12.0 - 3.0 * up - 20.0 * vp) / (4.0 * vp)];
            if inbox(x) && maxabs3(cieluv(x), [l, p, q]) <= 1e-9 {
                let b = v(Xyz::from(Luv { l, u: p, v: q }));
                rep.check("C06.luv.reverse", maxabs3(b, x) <= 1e-5, || format!("coordinates luv ({:e},{:e},{:e}) of xyz ({:e},{:e},{:e}) -> ({:e},{:e},{:e})", l, p, q, x[0], x[1], x[2], b[0], b[1], b[2]));
            }
        }
    } } }
    rep
}

pub fn c07(tier: &str, seed: u64, known: &[String]) -> Report {
    let mut rep = for_colours(tier, seed, known, |rgb, rep| {
        let ch = [rgb.r as f64 / 255.0, rgb.g as f64 / 255.0, rgb.b as f64 / 255.0];
        let lin = [srgb_dec(ch[0]), srgb_dec(ch[1]), srgb_dec(ch[2])];
        let want = oklab_from_linear(lin);
        let xs = Xyz::from_rgb(rgb, Kind::D65);
        let got = OkLab::from(xs);
        // known finding: linearisation by a pure 2.2 power instead of the sRGB curve (pinned by expect_to_compute_oklab)
        let alt = oklab_from_linear([ch[0].powf(2.2), ch[1].powf(2.2), ch[2].powf(2.2)]);
        let sig = maxabs3([got.l, got.a, got.b], alt) <= 1e-5;
        rep.check_known("C07.oklab.forward", maxabs3([got.l, got.a, got.b], want) <= 1e-5, sig, || format!("{} oklab ({:e},{:e},{:e}) want ({:e},{:e},{:e})", c(rgb), got.l, got.a, got.b, want[0], want[1], want[2]));
        let lch = OkLch::from(xs);
        let (cc, hh) = ((got.a * got.a + got.b * got.b).sqrt(), got.b.atan2(got.a));
        let okp = lch.l == got.l && (lch.c - cc).abs() <= 1e-12 * (1.0 + cc) && ((lch.h - hh).abs() <= 1e-12 || (got.l.is_nan() && lch.l.is_nan()));
        rep.check("C07.oklch.polar", okp || (got.l.is_nan() && lch.l.is_nan()), || format!("{} oklab ({:e},{:e},{:e}) oklch ({:e},{:e},{:e})", c(rgb), got.l, got.a, got.b, lch.l, lch.c, lch.h));
        // reverse on forward images: OkLab -> Srgb is the inverse transform followed by the matching non-linearity
        if got.l.is_finite() {
            let s = Srgb::from(got);
            let lin_back = linear_from_oklab([got.l, got.a, got.b]);
            let want_s = [lin_back[0].max(0.0).powf(1.0 / 2.2), lin_back[1].max(0.0).powf(1.0 / 2.2), lin_back[2].max(0.0).powf(1.0 / 2.2)];
            let lb = [lin_back[0].max(0.0), lin_back[1].max(0.0), lin_back[2].max(0.0)];
            let d = maxabs3([s.r.powf(2.2), s.g.powf(2.2), s.b.powf(2.2)], lb);
            let _ = want_s;
            rep.check("C07.oklab.reverse", d <= 2e-6, || format!("{} oklab -> srgb ({:e},{:e},{:e}) want ({:e},{:e},{:e})", c(rgb), s.r, s.g, s.b, want_s[0], want_s[1], want_s[2]));
            let back = OkLab::from(OkLch::from(got));
            rep.check("C07.oklch.reverse", maxabs3([back.l, back.a, back.b], [got.l, got.a, got.b]) <= 1e-9, || format!("{} oklab -> oklch -> oklab ({:e},{:e},{:e})", c(rgb), back.l, back.a, back.b));
        }
    });
    // structured in-gamut values for the reverse direction: exact greys (a = b = 0 exactly, which no forward image has) and
    // near-black colours.  Compared in linear light (2e-6) AND in encoded sRGB (5e-4: five times what the 1e-9 residues of the
    // published inverse matrices cause at a zero channel), so that a flush of small linear values to zero is seen
    for l in [0.0, 0.002, 0.0095, 0.02, 0.05, 0.1, 0.25, 0.5, 0.75, 0.9, 1.0] {
        let lin = linear_from_oklab([l, 0.0, 0.0]);
        let s = Srgb::from(OkLab { l, a: 0.0, b: 0.0 });
        let enc = [lin[0].max(0.0).powf(1.0 / 2.2), lin[1].max(0.0).powf(1.0 / 2.2), lin[2].max(0.0).powf(1.0 / 2.2)];
        rep.check("C07.oklab.reverse_random", maxabs3([s.r.powf(2.2), s.g.powf(2.2), s.b.powf(2.2)], [lin[0].max(0.0), lin[1].max(0.0), lin[2].max(0.0)]) <= 2e-6 && maxabs3([s.r, s.g, s.b], enc) <= 5e-4,
            || format!("grey oklab ({:e},0,0) -> srgb ({:e},{:e},{:e}) want ({:e},{:e},{:e})", l, s.r, s.g, s.b, enc[0], enc[1], enc[2]));
        let s2 = Srgb::from(OkLab::from(OkLch { l, c: 0.0, h: 1.0 }));
        rep.check("C07.oklch.reverse_random", maxabs3([s2.r, s2.g, s2.b], enc) <= 5e-4, || format!("grey oklch ({:e},0,1) -> srgb ({:e},{:e},{:e}) want ({:e},{:e},{:e})", l, s2.r, s2.g, s2.b, enc[0], enc[1], enc[2]));
    }
    {
        let mut rng2 = Rng::new(seed ^ 0xC0707);
        for i in 0..(if tier == "thorough" { 200_000 } else { 20_000 }) {
            let scale = [1e-2, 1e-3, 1e-4, 1e-5, 1e-6, 1e-7][i % 6];
            let lin = [rng2.unit() * scale, rng2.unit() * scale, rng2.unit() * scale];
            let lab = oklab_from_linear(lin);
            let s = Srgb::from(OkLab { l: lab[0], a: lab[1], b: lab[2] });
            let enc = [lin[0].powf(1.0 / 2.2), lin[1].powf(1.0 / 2.2), lin[2].powf(1.0 / 2.2)];
            rep.check("C07.oklab.reverse_random", maxabs3([s.r.powf(2.2), s.g.powf(2.2), s.b.powf(2.2)], lin) <= 2e-6 && maxabs3([s.r, s.g, s.b], enc) <= 5e-4,
                || format!("dark oklab ({:e},{:e},{:e}) -> srgb ({:e},{:e},{:e}) want ({:e},{:e},{:e})", lab[0], lab[1], lab[2], s.r, s.g, s.b, enc[0], enc[1], enc[2]));
        }
    }
    // direct Srgb lattice + random in-gamut OkLab triples for the reverse direction
    let mut rng = Rng::new(seed ^ 0xC07);
    for _ in 0..(if tier == "thorough" { 500_000 } else { 30_000 }) {
        let lin = [rng.unit(), rng.unit(), rng.unit()];
        let lab = oklab_from_linear(lin);
        let s = Srgb::from(OkLab { l: lab[0], a: lab[1], b: lab[2] });
        let want = [lin[0].powf(1.0 / 2.2), lin[1].powf(1.0 / 2.2), lin[2].powf(1.0 / 2.2)];
        // compared in linear light: x^(1/2.2) is ill-conditioned at the gamut boundary (a 1e-9 residue of the inverse matrices moves it by 1e-4)
        let back = [s.r.powf(2.2), s.g.powf(2.2), s.b.powf(2.2)];
        rep.check("C07.oklab.reverse_random", maxabs3(back, lin) <= 2e-6, || format!("oklab ({:e},{:e},{:e}) -> srgb ({:e},{:e},{:e}) want ({:e},{:e},{:e})", lab[0], lab[1], lab[2], s.r, s.g, s.b, want[0], want[1], want[2]));
        // an in-gamut OkLch value may spell its hue anywhere on the circle (h, h + 2pi, h - 2pi, in [0, 2pi) ...): the
        // reverse conversion must be the inverse transform for every representative, not only for atan2's range
        let (cc, hh) = ((lab[1] * lab[1] + lab[2] * lab[2]).sqrt(), lab[2].atan2(lab[1]));
        for k in [-1.0, 0.0, 1.0] {
            let h = hh + k * 2.0 * std::f64::consts::PI;
            let ok = OkLab::from(OkLch { l: lab[0], c: cc, h });
            rep.check("C07.oklch.reverse_random", maxabs3([ok.l, ok.a, ok.b], lab) <= 1e-9, || format!("oklch ({:e},{:e},{:e}) -> oklab ({:e},{:e},{:e}) want ({:e},{:e},{:e})", lab[0], cc, h, ok.l, ok.a, ok.b, lab[0], lab[1], lab[2]));
            let x = Xyz::from(OkLch { l: lab[0], c: cc, h }); let x0 = Xyz::from(OkLab { l: lab[0], a: lab[1], b: lab[2] });
            rep.check("C07.oklch.reverse_random", maxabs3([x.x, x.y, x.z], [x0.x, x0.y, x0.z]) <= 1e-9, || format!("oklch ({:e},{:e},{:e}) -> xyz ({:e},{:e},{:e}) but its oklab -> xyz ({:e},{:e},{:e})", lab[0], cc, h, x.x, x.y, x.z, x0.x, x0.y, x0.z));
        }
    }
    rep
}

pub fn c08(tier: &str, seed: u64, known: &[String]) -> Report {
    let m2020i = inv(&m_bt2020());
    let mut rep = for_colours(tier, seed, known, |rgb, rep| {
        let ch = [rgb.r as f64 / 255.0, rgb.g as f64 / 255.0, rgb.b as f64 / 255.0];
        let x = Xyz::from_rgb(rgb, Kind::D65);
        let s = Srgb::from(x);
        rep.check("C08.srgb.forward", maxabs3([s.r, s.g, s.b], ch) <= 5e-6, || format!("{} srgb ({:e},{:e},{:e})", c(rgb), s.r, s.g, s.b));
        let a = Argb::from(Xyz::from_rgb(rgb, Kind::Adobe));
        rep.check("C08.argb.forward", maxabs3([a.r, a.g, a.b], ch) <= 2e-3, || format!("{} argb ({:e},{:e},{:e}) want ({:e},{:e},{:e})", c(rgb), a.r, a.g, a.b, ch[0], ch[1], ch[2]));
        let lin = [srgb_dec(ch[0]), srgb_dec(ch[1]), srgb_dec(ch[2])];
        let r = Rec709::from(x); let want = [bt709_oetf(lin[0]), bt709_oetf(lin[1]), bt709_oetf(lin[2])];
        rep.check("C08.rec709.forward", maxabs3([r.r, r.g, r.b], want) <= 2e-6, || format!("{} rec709 ({:e},{:e},{:e}) want ({:e},{:e},{:e})", c(rgb), r.r, r.g, r.b, want[0], want[1], want[2]));
        let l2 = mul(&m2020i, [x.x, x.y, x.z]);
        let r = Rec2020::from(x); let want = [bt2020_oetf(l2[0]), bt2020_oetf(l2[1]), bt2020_oetf(l2[2])];
        rep.check("C08.rec2020.forward", maxabs3([r.r, r.g, r.b], want) <= 2e-6, || format!("{} rec2020 ({:e},{:e},{:e}) want ({:e},{:e},{:e})", c(rgb), r.r, r.g, r.b, want[0], want[1], want[2]));
        // Rec.2100: PQ curve of the BT.2020 linear components (signal 1.0 = 10 000 cd/m2).  Known finding: the crate divides by
        // (c2-c3)*E^(1/m2) instead of c2-c3*E^(1/m2); pinned by expect_to_convert_xyz_to_rec2100.
        let r = Rec2100::from(x);
        let want = [pq_eotf(l2[0].max(0.0)), pq_eotf(l2[1].max(0.0)), pq_eotf(l2[2].max(0.0))];
        let buggy = |e: f64| { let p = e.powf(1.0 / PQ_M2); if p == 0.0 { 0.0 } else { 10000.0 * ((p - PQ_C1).max(0.0) / ((PQ_C2 - PQ_C3) * p)).powf(1.0 / PQ_M1) } };
        let alt = [buggy(l2[0]), buggy(l2[1]), buggy(l2[2])];
        let rel = |a: [f64; 3], b: [f64; 3]| (0..3).all(|i| (a[i] - b[i]).abs() <= 1e-3 * (1.0 + b[i].abs()) || (a[i].is_nan() && b[i].is_nan()));
        // the reverse conversions on the forward images (part of the property's quantifier): inverse curve, then matrix.
        // Forward images can lie a hair outside [0,1] (the crate's matrices are not exact inverses): the inverse curve still applies
        {
            let (m65, ma, m2020) = (m_srgb_d65(), m_adobe(), m_bt2020());
            let img = |name: &str, got: [f64; 3], want: [f64; 3], e: [f64; 3], rep: &mut Report| {
                rep.check(name, maxabs3(got, want) <= 5e-6, || format!("{} forward image ({:e},{:e},{:e}) -> xyz ({:e},{:e},{:e}) want ({:e},{:e},{:e})", c(rgb), e[0], e[1], e[2], got[0], got[1], got[2], want[0], want[1], want[2]));
            };
            let e = [s.r, s.g, s.b];
            img("C08.srgb.reverse", v(Xyz::from(Srgb { r: e[0], g: e[1], b: e[2] })), mul(&m65, [srgb_dec(e[0]), srgb_dec(e[1]), srgb_dec(e[2])]), e, rep);
            let e = [a.r, a.g, a.b];
            img("C08.argb.reverse", v(Xyz::from(Argb { r: e[0], g: e[1], b: e[2] })), mul(&ma, [adobe_dec(e[0]), adobe_dec(e[1]), adobe_dec(e[2])]), e, rep);
            let r7 = Rec709::from(x); let e = [r7.r, r7.g, r7.b];
            img("C08.rec709.reverse", v(Xyz::from(Rec709 { r: e[0], g: e[1], b: e[2] })), mul(&m65, [bt709_inv(e[0]), bt709_inv(e[1]), bt709_inv(e[2])]), e, rep);
            let r2 = Rec2020::from(x); let e = [r2.r, r2.g, r2.b];
            img("C08.rec2020.reverse", v(Xyz::from(Rec2020 { r: e[0], g: e[1], b: e[2] })), mul(&m2020, [bt2020_inv(e[0]), bt2020_inv(e[1]), bt2020_inv(e[2])]), e, rep);
        }
        rep.check_known("C08.rec2100.forward", rel([r.r, r.g, r.b], want), rel([r.r, r.g, r.b], alt), || format!("{} rec2100 ({:e},{:e},{:e}) want ST2084 ({:e},{:e},{:e})", c(rgb), r.r, r.g, r.b, want[0], want[1], want[2]));
    });
    // reverse: per-channel sweeps across each curve (both branches, both sides of each breakpoint)
    let levels = if tier == "thorough" { 65536 } else { 4096 };
    let (m65, ma, m2020) = (m_srgb_d65(), m_adobe(), m_bt2020());
    let _ = seed;
    let mut rng = Rng::new(seed ^ 0xC08);
    // ch 0..2: one channel swept, the others fixed; ch 3: the grey axis (three bitwise-equal channels); ch 4: seeded random triples
    for ch in 0..5 {
        for i in 0..=levels {
            let t = i as f64 / levels as f64;
            let mut e = [0.25, 0.5, 0.75];
            if ch < 3 { e[ch] = t; } else if ch == 3 { e = [t, t, t]; } else { e = [rng.unit(), rng.unit(), rng.unit()]; }
            let chk = |rep: &mut Report, name: &str, got: [f64; 3], want: [f64; 3]| {
                rep.check(name, maxabs3(got, want) <= 5e-6, || format!("encoded ({:e},{:e},{:e}) -> xyz ({:e},{:e},{:e}) want ({:e},{:e},{:e})", e[0], e[1], e[2], got[0], got[1], got[2], want[0], want[1], want[2]));
            };
            chk(&mut rep, "C08.srgb.reverse", v(Xyz::from(Srgb { r: e[0], g: e[1], b: e[2] })), mul(&m65, [srgb_dec(e[0]), srgb_dec(e[1]), srgb_dec(e[2])]));
            chk(&mut rep, "C08.argb.reverse", v(Xyz::from(Argb { r: e[0], g: e[1], b: e[2] })), mul(&ma, [adobe_dec(e[0]), adobe_dec(e[1]), adobe_dec(e[2])]));
            chk(&mut rep, "C08.rec709.reverse", v(Xyz::from(Rec709 { r: e[0], g: e[1], b: e[2] })), mul(&m65, [bt709_inv(e[0]), bt709_inv(e[1]), bt709_inv(e[2])]));
            chk(&mut rep, "C08.rec2020.reverse", v(Xyz::from(Rec2020 { r: e[0], g: e[1], b: e[2] })), mul(&m2020, [bt2020_inv(e[0]), bt2020_inv(e[1]), bt2020_inv(e[2])]));
            // PQ: luminance 0..10000 -> signal -> XYZ
            let mut l = [2500.0, 5000.0, 7500.0];
            if ch < 3 { l[ch] = 10000.0 * t; } else if ch == 3 { l = [10000.0 * t; 3]; } else { l = [10000.0 * rng.unit(), 10000.0 * rng.unit(), 10000.0 * rng.unit()]; }
            let got = v(Xyz::from(Rec2100 { r: l[0], g: l[1], b: l[2] }));
            let want = mul(&m2020, [pq_inv(l[0]), pq_inv(l[1]), pq_inv(l[2])]);
            rep.check("C08.rec2100.reverse", maxabs3(got, want) <= 5e-6, || format!("luminance ({:e},{:e},{:e}) -> xyz ({:e},{:e},{:e}) want ({:e},{:e},{:e})", l[0], l[1], l[2], got[0], got[1], got[2], want[0], want[1], want[2]));
        }
    }
    rep
}

fn wrap360(h: f64) -> f64 { let mut h = h % 360.0; if h < 0.0 { h += 360.0; } h }
fn ang_close(a: f64, b: f64, tol: f64) -> bool { let d = (wrap360(a) - wrap360(b)).abs(); d <= tol || (360.0 - d) <= tol }

pub fn c14(tier: &str, seed: u64, known: &[String]) -> Report {
    let mut rep = for_colours(tier, seed, known, |rgb, rep| {
        let x = Xyz::from_rgb(rgb, Kind::D65);
        let lab = Lab::from(x); let lch = Lchlab::from(x);
        let cc = (lab.a * lab.a + lab.b * lab.b).sqrt(); let hh = lab.b.atan2(lab.a).to_degrees();
        rep.check("C14.lchlab.forward", lch.l == lab.l && (lch.c - cc).abs() <= 1e-9 * (1.0 + cc) && (cc < 1e-9 || ang_close(lch.h, hh, 1e-7)) && (0.0..=360.0).contains(&lch.h),
            || format!("{} lab ({:e},{:e},{:e}) lch ({:e},{:e},{:e})", c(rgb), lab.l, lab.a, lab.b, lch.l, lch.c, lch.h));
        let luv = Luv::from(x); let lchuv = Lchuv::from(x); let hcl = Hcl::from(x);
        let cc = (luv.u * luv.u + luv.v * luv.v).sqrt(); let hh = luv.v.atan2(luv.u).to_degrees();
        rep.check("C14.lchuv.forward", lchuv.l == luv.l && (lchuv.c - cc).abs() <= 1e-9 * (1.0 + cc) && (cc < 1e-9 || ang_close(lchuv.h, hh, 1e-7)),
            || format!("{} luv ({:e},{:e},{:e}) lchuv ({:e},{:e},{:e})", c(rgb), luv.l, luv.u, luv.v, lchuv.l, lchuv.c, lchuv.h));
        rep.check("C14.hcl.forward", hcl.l == luv.l && (hcl.c - cc).abs() <= 1e-9 * (1.0 + cc) && (cc < 1e-9 || ang_close(hcl.h, hh, 1e-7)),
            || format!("{} luv ({:e},{:e},{:e}) hcl ({:e},{:e},{:e})", c(rgb), luv.l, luv.u, luv.v, hcl.h, hcl.c, hcl.l));
        rep.check("C14.hcl_lchuv.agree", hcl.l == lchuv.l && (hcl.c - lchuv.c).abs() <= 1e-9 * (1.0 + cc) && (cc < 1e-9 || ang_close(hcl.h, lchuv.h, 1e-7)),
            || format!("{} lchuv ({:e},{:e},{:e}) hcl ({:e},{:e},{:e})", c(rgb), lchuv.l, lchuv.c, lchuv.h, hcl.l, hcl.c, hcl.h));
        let ok = OkLab::from(x); let okch = OkLch::from(x);
        if ok.l.is_finite() {
            let cc = (ok.a * ok.a + ok.b * ok.b).sqrt(); let hh = ok.b.atan2(ok.a);
            rep.check("C14.oklch.forward", okch.l == ok.l && (okch.c - cc).abs() <= 1e-9 * (1.0 + cc) && (okch.h - hh).abs() <= 1e-9,
                || format!("{} oklab ({:e},{:e},{:e}) oklch ({:e},{:e},{:e})", c(rgb), ok.l, ok.a, ok.b, okch.l, okch.c, okch.h));
        }
        let hsv = Hsv::from(rgb); let hwb = Hwb::from(rgb);
        rep.check("C14.hwb.forward", hwb.h == hsv.h && (hwb.w - (100.0 - hsv.s) * hsv.v / 100.0).abs() <= 1e-9 && (hwb.b - (100.0 - hsv.v)).abs() <= 1e-9,
            || format!("{} hsv ({},{},{}) hwb ({},{},{})", c(rgb), hsv.h, hsv.s, hsv.v, hwb.h, hwb.w, hwb.b));
        // reverse on the forward images
        let back = Lab::from(lch);
        rep.check("C14.lchlab.reverse", back.l == lab.l && (back.a - lab.a).abs() <= 1e-9 * (1.0 + cc.max(lch.c)) && (back.b - lab.b).abs() <= 1e-9 * (1.0 + lch.c), || format!("{} lab ({:e},{:e},{:e}) -> lch -> ({:e},{:e},{:e})", c(rgb), lab.l, lab.a, lab.b, back.l, back.a, back.b));
        let back = Luv::from(lchuv);
        rep.check("C14.lchuv.reverse", back.l == luv.l && (back.u - luv.u).abs() <= 1e-9 * (1.0 + lchuv.c) && (back.v - luv.v).abs() <= 1e-9 * (1.0 + lchuv.c), || format!("{} luv ({:e},{:e},{:e}) -> lchuv -> ({:e},{:e},{:e})", c(rgb), luv.l, luv.u, luv.v, back.l, back.u, back.v));
        let back = Luv::from(hcl);
        rep.check("C14.hcl.reverse", back.l == luv.l && (back.u - luv.u).abs() <= 1e-9 * (1.0 + hcl.c) && (back.v - luv.v).abs() <= 1e-9 * (1.0 + hcl.c), || format!("{} luv ({:e},{:e},{:e}) -> hcl -> ({:e},{:e},{:e})", c(rgb), luv.l, luv.u, luv.v, back.l, back.u, back.v));
    });
    let mut rng = Rng::new(seed ^ 0xC14);
    for _ in 0..(if tier == "thorough" { 1_000_000 } else { 50_000 }) {
        let (l, cc, h) = (rng.range(0.0, 100.0), rng.range(0.0, 200.0), rng.range(-720.0, 720.0));
        let (wa, wb) = (cc * h.to_radians().cos(), cc * h.to_radians().sin());
        let tol = 1e-9 * (1.0 + cc);
        let b = Lab::from(Lchlab { l, c: cc, h });
        rep.check("C14.lchlab.reverse_random", b.l == l && (b.a - wa).abs() <= tol && (b.b - wb).abs() <= tol, || format!("lch ({:e},{:e},{:e}) -> lab ({:e},{:e},{:e})", l, cc, h, b.l, b.a, b.b));
        let b = Luv::from(Lchuv { l, c: cc, h });
        rep.check("C14.lchuv.reverse_random", b.l == l && (b.u - wa).abs() <= tol && (b.v - wb).abs() <= tol, || format!("lch ({:e},{:e},{:e}) -> luv ({:e},{:e},{:e})", l, cc, h, b.l, b.u, b.v));
        let b = Luv::from(Hcl { h, c: cc, l });
        rep.check("C14.hcl.reverse_random", b.l == l && (b.u - wa).abs() <= tol && (b.v - wb).abs() <= tol, || format!("hcl ({:e},{:e},{:e}) -> luv ({:e},{:e},{:e})", h, cc, l, b.l, b.u, b.v));
        let hr = h.to_radians(); let c1 = cc / 400.0;
        let b = OkLab::from(OkLch { l: l / 100.0, c: c1, h: hr });
        rep.check("C14.oklch.reverse_random", b.l == l / 100.0 && (b.a - c1 * hr.cos()).abs() <= 1e-9 && (b.b - c1 * hr.sin()).abs() <= 1e-9, || format!("oklch ({:e},{:e},{:e}) -> oklab ({:e},{:e},{:e})", l / 100.0, c1, hr, b.l, b.a, b.b));
    }
    // structured triples: "for every lightness, chroma >= 0 and hue" includes lightness 0 and below, chroma 0, hues on and beyond
    // the wrap points and negative hues
    for l in [-10.0, 0.0, 1e-9, 50.0, 100.0, 150.0] { for cc in [0.0, 1e-6, 0.1, 40.0, 200.0] { for h in [-720.0, -359.5, -180.0, -30.0, -0.0, 0.0, 1e-7, 90.0, 180.0, 270.0, 359.5, 360.0, 400.0, 1080.0] {
        let (wa, wb) = (cc * f64::to_radians(h).cos(), cc * f64::to_radians(h).sin());
        let tol = 1e-9 * (1.0 + cc);
        let b = Lab::from(Lchlab { l, c: cc, h });
        rep.check("C14.lchlab.reverse_random", b.l == l && (b.a - wa).abs() <= tol && (b.b - wb).abs() <= tol, || format!("lch ({:e},{:e},{:e}) -> lab ({:e},{:e},{:e})", l, cc, h, b.l, b.a, b.b));
        let b = Luv::from(Lchuv { l, c: cc, h });
        rep.check("C14.lchuv.reverse_random", b.l == l && (b.u - wa).abs() <= tol && (b.v - wb).abs() <= tol, || format!("lch ({:e},{:e},{:e}) -> luv ({:e},{:e},{:e})", l, cc, h, b.l, b.u, b.v));
        let b = Luv::from(Hcl { h, c: cc, l });
        rep.check("C14.hcl.reverse_random", b.l == l && (b.u - wa).abs() <= tol && (b.v - wb).abs() <= tol, || format!("hcl ({:e},{:e},{:e}) -> luv ({:e},{:e},{:e})", h, cc, l, b.l, b.u, b.v));
        let hr = f64::to_radians(h); let c1 = cc / 400.0;
        let b = OkLab::from(OkLch { l: l / 100.0, c: c1, h: hr });
        rep.check("C14.oklch.reverse_random", b.l == l / 100.0 && (b.a - c1 * hr.cos()).abs() <= 1e-9 && (b.b - c1 * hr.sin()).abs() <= 1e-9, || format!("oklch ({:e},{:e},{:e}) -> oklab ({:e},{:e},{:e})", l / 100.0, c1, hr, b.l, b.a, b.b));
    } } }
    rep
}
