//! Property oracles on the REAL crate: used to search for a concrete failing input (and run on every
//! check as a safety net).  They are not the deciding method; the Lean theorems are.
pub mod refs;
pub mod xyzprops;
pub mod rgbprops;
pub mod textprops;

use crate::pools::{rgb_at, Rng};
use lymui::rgb::Rgb;
use std::collections::BTreeMap;

#[derive(Default, Clone)]
pub struct Clause { pub checked: u64, pub failed: u64, pub known: u64, pub samples: Vec<String>, pub known_samples: Vec<String> }

#[derive(Default, Clone)]
pub struct Report { pub clauses: BTreeMap<String, Clause>, pub known_enabled: Vec<String> }

impl Report {
    pub fn new(known: &[String]) -> Self { Report { clauses: BTreeMap::new(), known_enabled: known.to_vec() } }
    pub fn ok(&mut self, clause: &str) { self.clauses.entry(clause.to_string()).or_default().checked += 1; }
    /// record the outcome of one check of `clause`
    pub fn check(&mut self, clause: &str, holds: bool, describe: impl FnOnce() -> String) {
        let c = self.clauses.entry(clause.to_string()).or_default();
        c.checked += 1;
        if !holds {
            c.failed += 1;
            if c.samples.len() < 5 { c.samples.push(describe()); }
        }
    }
    /// like `check`, but a failure that matches the recorded signature of a known finding (and the finding is
    /// listed in known_findings.json, hence passed on the command line) is counted as known instead
    pub fn check_known(&mut self, clause: &str, holds: bool, matches_signature: bool, describe: impl FnOnce() -> String) {
        let enabled = self.known_enabled.iter().any(|k| k == clause);
        let c = self.clauses.entry(clause.to_string()).or_default();
        c.checked += 1;
        if !holds {
            if enabled && matches_signature {
                c.known += 1;
                if c.known_samples.len() < 2 { c.known_samples.push(describe()); }
            } else {
                c.failed += 1;
                if c.samples.len() < 5 { c.samples.push(describe()); }
            }
        }
    }
    pub fn merge(&mut self, o: Report) {
        for (k, v) in o.clauses {
            let c = self.clauses.entry(k).or_default();
            c.checked += v.checked; c.failed += v.failed; c.known += v.known;
            for s in v.samples { if c.samples.len() < 5 { c.samples.push(s); } }
            for s in v.known_samples { if c.known_samples.len() < 2 { c.known_samples.push(s); } }
        }
    }
    pub fn to_json(&self, property: &str, tier: &str, seed: u64) -> String {
        let mut s = format!("{{\"property\":\"{}\",\"tier\":\"{}\",\"seed\":{},\"clauses\":{{", property, tier, seed);
        let mut first = true;
        for (k, c) in &self.clauses {
            if !first { s.push(','); } first = false;
            s.push_str(&format!("{}:{{\"checked\":{},\"failed\":{},\"known\":{},\"samples\":[{}],\"known_samples\":[{}]}}",
                crate::json_str(k), c.checked, c.failed, c.known,
                c.samples.iter().map(|x| crate::json_str(x)).collect::<Vec<_>>().join(","),
                c.known_samples.iter().map(|x| crate::json_str(x)).collect::<Vec<_>>().join(",")));
        }
        s.push_str("}}");
        s
    }
}

/// run `f` over the colour domain of the tier in parallel: thorough = the whole 2^24 cube,
/// quick = 17^3 lattice + greys + edge colours + seeded random colours
pub fn for_colours(tier: &str, seed: u64, known: &[String], f: impl Fn(Rgb, &mut Report) + Sync) -> Report {
    let threads = std::thread::available_parallelism().map(|n| n.get()).unwrap_or(8).min(16);
    let mut total = Report::new(known);
    std::thread::scope(|sc| {
        let mut hs = Vec::new();
        for t in 0..threads {
            let f = &f;
            let known = known.to_vec();
            hs.push(sc.spawn(move || {
                let mut rep = Report::new(&known);
                if tier == "thorough" {
                    let mut r = t;
                    while r < 256 {
                        for g in 0..256u32 { for b in 0..256u32 { f(Rgb::new(r as u8, g as u8, b as u8), &mut rep); } }
                        r += threads;
                    }
                } else {
                    let n = crate::pools::LATTICE + 256 + 512 + 20_000;
                    let mut rng = Rng::new(seed.wrapping_mul(7919).wrapping_add(t as u64));
                    let mut i = t;
                    while i < n { f(rgb_at(i, &mut rng), &mut rep); i += threads; }
                }
                rep
            }));
        }
        for h in hs { total.merge(h.join().unwrap()); }
    });
    total
}

pub fn c(rgb: Rgb) -> String { format!("rgb({},{},{})", rgb.r, rgb.g, rgb.b) }

pub fn run(id: &str, tier: &str, seed: u64, known: &[String]) -> Option<Report> {
    Some(match id {
        "C01" => xyzprops::c01(tier, seed, known),
        "C02" => xyzprops::c02(tier, seed, known),
        "C05" => xyzprops::c05(tier, seed, known),
        "C06" => xyzprops::c06(tier, seed, known),
        "C07" => xyzprops::c07(tier, seed, known),
        "C08" => xyzprops::c08(tier, seed, known),
        "C03" => rgbprops::c03(tier, seed, known),
        "C04" => rgbprops::c04(tier, seed, known),
        "C09" => rgbprops::c09(tier, seed, known),
        "C10" => rgbprops::c10(tier, seed, known),
        "C11" => rgbprops::c11(tier, seed, known),
        "C12" => rgbprops::c12(tier, seed, known),
        "C13" => rgbprops::c13(tier, seed, known),
        "C14" => xyzprops::c14(tier, seed, known),
        "C15" => textprops::c15(tier, seed, known),
        "C16" => textprops::c16(tier, seed, known),
        "C17" => textprops::c17(tier, seed, known),
        "C18" => textprops::c18(tier, seed, known),
        "C19" => textprops::c19(tier, seed, known),
        _ => return None,
    })
}
