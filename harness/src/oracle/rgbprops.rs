use super::refs::*;
use super::{c, for_colours, Report};
use crate::pools::Rng;
use lymui::grayscale::Kind as GKind;
use lymui::prelude::*;
use lymui::rgb::FromRgb;
use lymui::util::FromVec;
use lymui::xyz::Kind;

fn within(a: Rgb, b: Rgb, n: i32) -> bool {
    (a.r as i32 - b.r as i32).abs() <= n && (a.g as i32 - b.g as i32).abs() <= n && (a.b as i32 - b.b as i32).abs() <= n
}
fn rs(a: Rgb) -> String { format!("rgb({},{},{})", a.r, a.g, a.b) }

pub fn c03(tier: &str, seed: u64, known: &[String]) -> Report {
    for_colours(tier, seed, known, |rgb, rep| {
        let h = Hex::from(rgb);
        let txt = h.0.clone();
        match Rgb::try_from(h) {
            Ok(b) => rep.check("C03.hex", within(b, rgb, 0), || format!("{} -> {} -> {}", c(rgb), txt, rs(b))),
            Err(_) => rep.check("C03.hex", false, || format!("{} -> {} -> error", c(rgb), txt)),
        }
        let b = Rgb::from(Cymk::from(rgb)); rep.check("C03.cmyk", within(b, rgb, 0), || format!("{} -> cmyk -> {}", c(rgb), rs(b)));
        let b = Rgb::from(Yuv::from(rgb)); rep.check("C03.yuv", within(b, rgb, 1), || format!("{} -> yuv -> {}", c(rgb), rs(b)));
        let b = Rgb::from(Hsl::from(rgb)); rep.check("C03.hsl", within(b, rgb, 2), || format!("{} -> hsl -> {}", c(rgb), rs(b)));
        let b = Rgb::from(Hsv::from(rgb)); rep.check("C03.hsv", within(b, rgb, 3), || format!("{} -> hsv -> {}", c(rgb), rs(b)));
        let b = Rgb::from(Hwb::from(rgb)); rep.check("C03.hwb", within(b, rgb, 3), || format!("{} -> hwb -> {}", c(rgb), rs(b)));
        let b = Rgb::from(Ycbcr::from(rgb)); rep.check("C03.ycbcr", within(b, rgb, 4), || format!("{} -> ycbcr -> {}", c(rgb), rs(b)));
    })
}

fn fin(xs: &[f64]) -> bool { xs.iter().all(|x| x.is_finite()) }

macro_rules! via_xyz {
    ($rep:expr, $rgb:expr, $x:expr, $ty:ident, $name:expr, $($f:ident),+) => {{
        let s = $ty::from($x);
        $rep.check(concat!("C04.finite.", $name, ".forward"), fin(&[$(s.$f),+]), || format!("{} -> xyz -> {} = {:?}", c($rgb), $name, s));
        let b = Xyz::from(s);
        $rep.check(concat!("C04.finite.", $name, ".back"), fin(&[b.x, b.y, b.z]), || format!("{} -> xyz -> {} -> xyz = {:?}", c($rgb), $name, b));
        let _ = b.as_rgb(Kind::D65);
    }};
}

pub fn c04(tier: &str, seed: u64, known: &[String]) -> Report {
    std::panic::set_hook(Box::new(|_| {}));
    let mut rep = for_colours(tier, seed, known, |rgb, rep| {
        let r = std::panic::catch_unwind(|| {
            let mut rep = Report::new(&[]);
            let s = Cymk::from(rgb); rep.check("C04.finite.cmyk", fin(&[s.c, s.m, s.y, s.k]), || format!("{} -> {:?}", c(rgb), s)); let _ = Rgb::from(s);
            let s = Hsl::from(rgb); rep.check("C04.finite.hsl", fin(&[s.h, s.s, s.l]), || format!("{} -> {:?}", c(rgb), s)); let _ = Rgb::from(s);
            let s = Hsv::from(rgb); rep.check("C04.finite.hsv", fin(&[s.h, s.s, s.v]), || format!("{} -> {:?}", c(rgb), s)); let _ = Rgb::from(s);
            let s = Hwb::from(rgb); rep.check("C04.finite.hwb", fin(&[s.h, s.w, s.b]), || format!("{} -> {:?}", c(rgb), s)); let _ = Rgb::from(s);
            let s = Hue::from(rgb); rep.check("C04.finite.hue", s.is_finite(), || format!("{} -> hue {}", c(rgb), s));
            let s = Yuv::from(rgb); rep.check("C04.finite.yuv", fin(&[s.y, s.u, s.v]), || format!("{} -> {:?}", c(rgb), s)); let _ = Rgb::from(s);
            let s = Ycbcr::from(rgb); let _ = Rgb::from(s);
            let s = Srgb::from(rgb); rep.check("C04.finite.srgb_direct", fin(&[s.r, s.g, s.b]), || format!("{} -> {:?}", c(rgb), s));
            let s = Argb::from(rgb); rep.check("C04.finite.argb_direct", fin(&[s.r, s.g, s.b]), || format!("{} -> {:?}", c(rgb), s));
            let _ = Rgb::try_from(Hex::from(rgb));
            let a = Ansi::from_rgb(rgb, AnsiKind::C256); let _ = Rgb::try_from(a);
            let _ = Ansi::from_rgb(rgb, AnsiKind::C16);
            for k in [GKind::Lightness, GKind::Average, GKind::Luminosity, GKind::BT709, GKind::BT2100] { let _ = GrayScale::from_rgb(rgb, k); }
            for k in [Kind::D65, Kind::D50, Kind::Adobe] {
                let x = Xyz::from_rgb(rgb, k);
                rep.check("C04.finite.xyz", fin(&[x.x, x.y, x.z]), || format!("{} -> {:?}", c(rgb), x));
                let _ = x.as_rgb(k);
            }
            let x = Xyz::from_rgb(rgb, Kind::D65);
            via_xyz!(rep, rgb, x, Srgb, "srgb", r, g, b);
            via_xyz!(rep, rgb, x, Argb, "argb", r, g, b);
            via_xyz!(rep, rgb, x, Lab, "lab", l, a, b);
            via_xyz!(rep, rgb, x, Lchlab, "lchlab", l, c, h);
            via_xyz!(rep, rgb, x, Hlab, "hlab", l, a, b);
            via_xyz!(rep, rgb, x, Luv, "luv", l, u, v);
            via_xyz!(rep, rgb, x, Lchuv, "lchuv", l, c, h);
            via_xyz!(rep, rgb, x, Hcl, "hcl", h, c, l);
            via_xyz!(rep, rgb, x, Xyy, "xyy", x, y, _y);
            via_xyz!(rep, rgb, x, OkLab, "oklab", l, a, b);
            via_xyz!(rep, rgb, x, OkLch, "oklch", l, c, h);
            via_xyz!(rep, rgb, x, Rec709, "rec709", r, g, b);
            via_xyz!(rep, rgb, x, Rec2020, "rec2020", r, g, b);
            via_xyz!(rep, rgb, x, Rec2100, "rec2100", r, g, b);
            rep
        });
        match r {
            Ok(inner) => { rep.ok("C04.nopanic.colour"); rep.merge(inner); }
            Err(_) => rep.check("C04.nopanic.colour", false, || format!("panic while converting {}", c(rgb))),
        }
    });
    for n in 0..=255u8 {
        let r = std::panic::catch_unwind(|| Rgb::try_from(Ansi(n)));
        rep.check("C04.ansi.total", matches!(r, Ok(Ok(_))), || format!("Rgb::try_from(Ansi({})) {}", n, if r.is_err() { "panicked" } else { "returned an error" }));
    }
    // hex text: every string of length <= 4 over a 24-symbol alphabet incl. multi-byte characters, plus random longer ones
    let alpha: Vec<char> = "09afAFgGzZ#+- \t.xé€😀\u{0}\u{7f}ßÿ".chars().collect();
    assert_eq!(alpha.len(), 24);
    let try_hex = |s: String, rep: &mut Report| {
        let s2 = s.clone();
        let r = std::panic::catch_unwind(move || { let _ = Rgb::try_from(Hex(s2)); });
        rep.check("C04.hex.nopanic", r.is_ok(), || format!("parsing {:?} panicked", s));
    };
    let maxlen = if tier == "thorough" { 4 } else { 3 };
    for len in 0..=maxlen {
        let total = 24usize.pow(len as u32);
        for i in 0..total {
            let mut k = i; let mut s = String::new();
            for _ in 0..len { s.push(alpha[k % 24]); k /= 24; }
            try_hex(s, &mut rep);
        }
    }
    let mut rng = Rng::new(seed ^ 0xC04);
    for _ in 0..(if tier == "thorough" { 300_000 } else { 30_000 }) {
        let len = 4 + rng.below(8) as usize;
        let s: String = (0..len).map(|_| if rng.below(4) == 0 { char::from_u32(rng.below(0x2000) as u32 + 1).unwrap_or('x') } else { alpha[rng.below(24) as usize] }).collect();
        try_hex(s, &mut rep);
    }
    // vectors of any length
    for len in 0..=6usize {
        for _ in 0..200 {
            let vf: Vec<f64> = (0..len).map(|_| rng.range(-1.0, 400.0)).collect();
            let vu: Vec<u8> = (0..len).map(|_| rng.below(256) as u8).collect();
            let r = std::panic::catch_unwind(|| {
                let _ = Rgb::from_vec(vu.clone()); let _ = Ycbcr::from_vec(vu.clone());
                let _ = Cymk::from_vec(vf.clone()); let _ = Hsl::from_vec(vf.clone()); let _ = Hsv::from_vec(vf.clone()); let _ = Hwb::from_vec(vf.clone());
                let _ = Yuv::from_vec(vf.clone()); let _ = Xyz::from_vec(vf.clone()); let _ = Xyy::from_vec(vf.clone()); let _ = Hcl::from_vec(vf.clone());
                let _ = Lab::from_vec(vf.clone()); let _ = Luv::from_vec(vf.clone()); let _ = Hlab::from_vec(vf.clone()); let _ = Lchlab::from_vec(vf.clone());
                let _ = Lchuv::from_vec(vf.clone()); let _ = OkLab::from_vec(vf.clone()); let _ = OkLch::from_vec(vf.clone()); let _ = Srgb::from_vec(vf.clone());
                let _ = Argb::from_vec(vf.clone()); let _ = Rec709::from_vec(vf.clone()); let _ = Rec2020::from_vec(vf.clone()); let _ = Rec2100::from_vec(vf.clone());
            });
            rep.check("C04.from_vec.total", r.is_ok(), || format!("from_vec panicked on length {}", len));
        }
    }
    rep
}

/// pick, for a conversion quantised to 8 bits, the single rule (round / truncate) that explains the outputs
fn settle_rule(rep: &mut Report, clause: &str) {
    let r = rep.clauses.remove(&format!("{clause}#round")); let t = rep.clauses.remove(&format!("{clause}#trunc"));
    if let (Some(r), Some(t)) = (r, t) {
        let best = if r.failed <= t.failed { r } else { t };
        rep.clauses.insert(clause.to_string(), best);
    }
}
fn observe(rep: &mut Report, clause: &str, got: Rgb, pre: [f64; 3], slack: f64, describe: impl Fn() -> String) {
    let okr = q_round_ok(got.r, pre[0], slack) && q_round_ok(got.g, pre[1], slack) && q_round_ok(got.b, pre[2], slack);
    let okt = q_trunc_ok(got.r, pre[0], slack) && q_trunc_ok(got.g, pre[1], slack) && q_trunc_ok(got.b, pre[2], slack);
    rep.check(&format!("{clause}#round"), okr, || format!("{} (round-to-nearest expects {:.6},{:.6},{:.6})", describe(), pre[0], pre[1], pre[2]));
    rep.check(&format!("{clause}#trunc"), okt, || format!("{} (truncation expects {:.6},{:.6},{:.6})", describe(), pre[0], pre[1], pre[2]));
}

fn hsl_ref(h: f64, s: f64, l: f64) -> [f64; 3] {
    let (s, l) = (s / 100.0, l / 100.0);
    let cc = (1.0 - (2.0 * l - 1.0).abs()) * s; let hp = h / 60.0;
    let x = cc * (1.0 - (hp % 2.0 - 1.0).abs()); let m = l - cc / 2.0;
    let (r, g, b) = match hp as i64 { 0 => (cc, x, 0.0), 1 => (x, cc, 0.0), 2 => (0.0, cc, x), 3 => (0.0, x, cc), 4 => (x, 0.0, cc), _ => (cc, 0.0, x) };
    [(r + m) * 255.0, (g + m) * 255.0, (b + m) * 255.0]
}
fn hsv_ref(h: f64, s: f64, v: f64) -> [f64; 3] {
    let (s, v) = (s / 100.0, v / 100.0);
    let cc = v * s; let hp = h / 60.0;
    let x = cc * (1.0 - (hp % 2.0 - 1.0).abs()); let m = v - cc;
    let (r, g, b) = match hp as i64 { 0 => (cc, x, 0.0), 1 => (x, cc, 0.0), 2 => (0.0, cc, x), 3 => (0.0, x, cc), 4 => (x, 0.0, cc), _ => (cc, 0.0, x) };
    [(r + m) * 255.0, (g + m) * 255.0, (b + m) * 255.0]
}
fn hwb_ref(h: f64, w: f64, b: f64) -> [f64; 3] {
    let (w1, b1) = (w / 100.0, b / 100.0);
    let v = 1.0 - b1;
    if v <= 0.0 { return [0.0, 0.0, 0.0]; }
    let s = 1.0 - w1 / v;
    hsv_ref(h, s * 100.0, v * 100.0)
}

pub fn c09(tier: &str, seed: u64, known: &[String]) -> Report {
    let mut rep = for_colours(tier, seed, known, |rgb, rep| {
        let (r, g, b) = (rgb.r as i64, rgb.g as i64, rgb.b as i64);
        let (num, den) = hue_exact(r, g, b);
        // round half away; at an exact tie either neighbour is accepted; 360 wraps to 0
        let lo = (2 * num + den) / (2 * den); let tie = (2 * num + den) % (2 * den) == 0;
        let want = [lo % 360, if tie { (lo - 1).rem_euclid(360) } else { lo % 360 }];
        let hue = Hue::from(rgb);
        rep.check("C09.hue", hue.fract() == 0.0 && (0.0..360.0).contains(&hue) && want.contains(&(hue as i64)), || format!("{} hue {} want {} (angle {}/{})", c(rgb), hue, want[0], num, den));
        let (mx, mn) = (r.max(g).max(b) as f64 / 255.0, r.min(g).min(b) as f64 / 255.0);
        let l = (mx + mn) / 2.0; let d = mx - mn;
        let s_hsl = if d == 0.0 { 0.0 } else { d / (1.0 - (2.0 * l - 1.0).abs()) };
        let hsl = Hsl::from(rgb);
        rep.check("C09.hsl.forward", hsl.h == hue && (hsl.s - 100.0 * s_hsl).abs() <= 1e-9 && (hsl.l - 100.0 * l).abs() <= 1e-9, || format!("{} hsl ({},{},{}) want s {} l {}", c(rgb), hsl.h, hsl.s, hsl.l, 100.0 * s_hsl, 100.0 * l));
        let hsv = Hsv::from(rgb);
        let s_hsv = if mx == 0.0 { 0.0 } else { d / mx };
        rep.check("C09.hsv.forward", hsv.h == hue && (hsv.s - 100.0 * s_hsv).abs() <= 1e-9 && (hsv.v - 100.0 * mx).abs() <= 1e-9, || format!("{} hsv ({},{},{}) want s {} v {}", c(rgb), hsv.h, hsv.s, hsv.v, 100.0 * s_hsv, 100.0 * mx));
        let hwb = Hwb::from(rgb);
        rep.check("C09.hwb.forward", hwb.h == hue && (hwb.w - 100.0 * mn).abs() <= 1e-9 && (hwb.b - 100.0 * (1.0 - mx)).abs() <= 1e-9, || format!("{} hwb ({},{},{}) want w {} b {}", c(rgb), hwb.h, hwb.w, hwb.b, 100.0 * mn, 100.0 * (1.0 - mx)));
    });
    let mut rng = Rng::new(seed ^ 0xC09);
    let slack = 1e-6;
    let mut one = |h: f64, p: f64, q: f64, rep: &mut Report| {
        let got = Rgb::from(Hsl { h, s: p, l: q });
        observe(rep, "C09.hsl.reverse", got, hsl_ref(h, p, q), slack, || format!("hsl({},{},{}) -> {}", h, p, q, rs(got)));
        let got = Rgb::from(Hsv { h, s: p, v: q });
        observe(rep, "C09.hsv.reverse", got, hsv_ref(h, p, q), slack, || format!("hsv({},{},{}) -> {}", h, p, q, rs(got)));
        if p + q <= 100.0 {
            let got = Rgb::from(Hwb { h, w: p, b: q });
            observe(rep, "C09.hwb.reverse", got, hwb_ref(h, p, q), slack, || format!("hwb({},{},{}) -> {}", h, p, q, rs(got)));
        }
    };
    if tier == "thorough" {
        for hq in 0..1440 { for p in 0..=100 { for q in 0..=100 { one(hq as f64 / 4.0, p as f64, q as f64, &mut rep); } } }
    } else {
        for hq in (0..1440).step_by(7) { for p in (0..=100).step_by(5) { for q in (0..=100).step_by(5) { one(hq as f64 / 4.0, p as f64, q as f64, &mut rep); } } }
        for _ in 0..100_000 { one(rng.below(1440) as f64 / 4.0, rng.below(101) as f64, rng.below(101) as f64, &mut rep); }
    }
    for _ in 0..(if tier == "thorough" { 1_000_000 } else { 100_000 }) { one(rng.range(0.0, 359.999), rng.range(0.0, 100.0), rng.range(0.0, 100.0), &mut rep); }
    for k in ["C09.hsl.reverse", "C09.hsv.reverse", "C09.hwb.reverse"] { settle_rule(&mut rep, k); }
    rep
}

fn observe1(rep: &mut Report, clause: &str, got: u8, pre: f64, describe: impl Fn() -> String) {
    rep.check(&format!("{clause}#round"), q_round_ok(got, pre, 1e-6), || format!("{} (round-to-nearest of {:.7})", describe(), pre));
    rep.check(&format!("{clause}#trunc"), q_trunc_ok(got, pre, 1e-6), || format!("{} (truncation of {:.7})", describe(), pre));
}

pub fn c10(tier: &str, seed: u64, known: &[String]) -> Report {
    let mut rep = for_colours(tier, seed, known, |rgb, rep| {
        let (r, g, b) = (rgb.r as f64, rgb.g as f64, rgb.b as f64);
        let mx = r.max(g).max(b);
        let k = 1.0 - mx / 255.0;
        let want = if mx == 0.0 { [0.0, 0.0, 0.0, 1.0] } else { [(mx - r) / mx, (mx - g) / mx, (mx - b) / mx, k] };
        let s = Cymk::from(rgb);
        rep.check("C10.cmyk.forward", (s.c - want[0]).abs() <= 1e-9 && (s.m - want[1]).abs() <= 1e-9 && (s.y - want[2]).abs() <= 1e-9 && (s.k - want[3]).abs() <= 1e-9, || format!("{} cmyk ({},{},{},{}) want {:?}", c(rgb), s.c, s.m, s.y, s.k, want));
        let (r1, g1, b1) = (r / 255.0, g / 255.0, b / 255.0);
        let y = 0.299 * r1 + 0.587 * g1 + 0.114 * b1;
        let s = Yuv::from(rgb);
        rep.check("C10.yuv.forward", (s.y - y).abs() <= 1e-9 && (s.u - 0.492 * (b1 - y)).abs() <= 1e-9 && (s.v - 0.877 * (r1 - y)).abs() <= 1e-9, || format!("{} yuv ({},{},{})", c(rgb), s.y, s.u, s.v));
        let s = Ycbcr::from(rgb);
        let pre = [16.0 + 0.257 * r + 0.504 * g + 0.098 * b, 128.0 - 0.148 * r - 0.291 * g + 0.439 * b, 128.0 + 0.439 * r - 0.368 * g - 0.071 * b];
        observe(rep, "C10.ycbcr.forward", Rgb::new(s.y, s.cb, s.cr), pre, 1e-6, || format!("{} ycbcr ({},{},{})", c(rgb), s.y, s.cb, s.cr));
        let (mn, mxx) = (r.min(g).min(b), mx);
        for (kind, name, pre) in [(GKind::Lightness, "C10.gray.lightness", (mn + mxx) / 2.0), (GKind::Average, "C10.gray.average", (r + g + b) / 3.0),
            (GKind::Luminosity, "C10.gray.luminosity", 0.21 * r + 0.72 * g + 0.07 * b), (GKind::BT709, "C10.gray.bt709", 0.2126 * r + 0.7152 * g + 0.0722 * b),
            (GKind::BT2100, "C10.gray.bt2100", 0.2627 * r + 0.6780 * g + 0.0593 * b)] {
            let got = GrayScale::from_rgb(rgb, kind).0;
            observe1(rep, name, got, pre, || format!("{} {} -> {}", c(rgb), name, got));
        }
        // reverse on the YUV image of the colour
        let s = Yuv::from(rgb);
        let pre = [255.0 * (s.y + 1.13983 * s.v), 255.0 * (s.y - 0.39465 * s.u - 0.58060 * s.v), 255.0 * (s.y + 2.03211 * s.u)];
        let got = Rgb::from(s);
        observe(rep, "C10.yuv.reverse", got, pre, 1e-6, || format!("yuv({},{},{}) -> {}", s.y, s.u, s.v, rs(got)));
    });
    // reverse YCbCr: all byte triples (thorough) or a lattice + random
    let ycc = |y: u8, cb: u8, cr: u8, rep: &mut Report| {
        let (yf, cbf, crf) = (1.164 * (y as f64 - 16.0), cb as f64 - 128.0, cr as f64 - 128.0);
        let pre = [yf + 1.596 * crf, yf - 0.813 * crf - 0.391 * cbf, yf + 2.018 * cbf];
        let got = Rgb::from(Ycbcr { y, cb, cr });
        observe(rep, "C10.ycbcr.reverse", got, pre, 1e-6, || format!("ycbcr({},{},{}) -> {}", y, cb, cr, rs(got)));
    };
    let mut rng = Rng::new(seed ^ 0xC10);
    if tier == "thorough" {
        let part = for_colours("thorough", seed, known, |t, rep| ycc(t.r, t.g, t.b, rep));
        rep.merge(part);
    } else {
        for i in 0..4913usize { ycc(crate::pools::lattice_level(i / 289), crate::pools::lattice_level(i / 17 % 17), crate::pools::lattice_level(i % 17), &mut rep); }
        for _ in 0..100_000 { ycc(rng.below(256) as u8, rng.below(256) as u8, rng.below(256) as u8, &mut rep); }
    }
    // reverse CMYK: 21^4 lattice + random
    let cm = |cc: f64, m: f64, y: f64, k: f64, rep: &mut Report| {
        let pre = [255.0 * (1.0 - cc) * (1.0 - k), 255.0 * (1.0 - m) * (1.0 - k), 255.0 * (1.0 - y) * (1.0 - k)];
        let got = Rgb::from(Cymk { c: cc, m, y, k });
        observe(rep, "C10.cmyk.reverse", got, pre, 1e-6, || format!("cmyk({},{},{},{}) -> {}", cc, m, y, k, rs(got)));
    };
    for i in 0..21usize.pow(4) { cm((i / 9261) as f64 / 20.0, (i / 441 % 21) as f64 / 20.0, (i / 21 % 21) as f64 / 20.0, (i % 21) as f64 / 20.0, &mut rep); }
    for _ in 0..(if tier == "thorough" { 1_000_000 } else { 50_000 }) { cm(rng.unit(), rng.unit(), rng.unit(), rng.unit(), &mut rep); }
    for k in ["C10.ycbcr.forward", "C10.gray.lightness", "C10.gray.average", "C10.gray.luminosity", "C10.gray.bt709", "C10.gray.bt2100", "C10.yuv.reverse", "C10.ycbcr.reverse", "C10.cmyk.reverse"] { settle_rule(&mut rep, k); }
    rep
}

pub fn c11(_tier: &str, _seed: u64, known: &[String]) -> Report {
    let mut rep = Report::new(known);
    for vv in 0..=255u8 {
        let rgb = Rgb::new(vv, vv, vv); let d = || format!("grey {}", vv);
        let s = Hsl::from(rgb); rep.check("C11.hsl", s.h == 0.0 && s.s == 0.0, || format!("{} hsl ({},{},{})", d(), s.h, s.s, s.l));
        let s = Hsv::from(rgb); rep.check("C11.hsv", s.h == 0.0 && s.s == 0.0, || format!("{} hsv ({},{},{})", d(), s.h, s.s, s.v));
        let s = Hwb::from(rgb); rep.check("C11.hwb", (s.w + s.b - 100.0).abs() <= 1e-9, || format!("{} hwb ({},{},{})", d(), s.h, s.w, s.b));
        let s = Cymk::from(rgb); rep.check("C11.cmyk", s.c == 0.0 && s.m == 0.0 && s.y == 0.0, || format!("{} cmyk ({},{},{},{})", d(), s.c, s.m, s.y, s.k));
        let s = Yuv::from(rgb); rep.check("C11.yuv", s.u.abs() <= 1e-12 && s.v.abs() <= 1e-12, || format!("{} yuv ({},{},{})", d(), s.y, s.u, s.v));
        let s = Ycbcr::from(rgb); rep.check("C11.ycbcr", s.cb == 128 && s.cr == 128, || format!("{} ycbcr ({},{},{})", d(), s.y, s.cb, s.cr));
        let x = Xyz::from_rgb(rgb, Kind::D65);
        let s = Lab::from(x); rep.check("C11.lab", s.a.abs() < 1e-3 && s.b.abs() < 1e-3, || format!("{} lab ({},{},{})", d(), s.l, s.a, s.b));
        let s = Lchlab::from(x); rep.check("C11.lchlab", s.c.abs() < 1e-3, || format!("{} lchlab ({},{},{})", d(), s.l, s.c, s.h));
        let s = Luv::from(x); rep.check("C11.luv", s.u.abs() < 1e-3 && s.v.abs() < 1e-3, || format!("{} luv ({},{},{})", d(), s.l, s.u, s.v));
        let s = Lchuv::from(x); rep.check("C11.lchuv", s.c.abs() < 1e-3, || format!("{} lchuv ({},{},{})", d(), s.l, s.c, s.h));
        let s = Hcl::from(x); rep.check("C11.hcl", s.c.abs() < 1e-3, || format!("{} hcl ({},{},{})", d(), s.h, s.c, s.l));
        let s = Hlab::from(x); rep.check("C11.hlab", s.a.abs() < 1e-3 && s.b.abs() < 1e-3, || format!("{} hlab ({},{},{})", d(), s.l, s.a, s.b));
        let s = OkLab::from(x); rep.check("C11.oklab", s.a.abs() < 1e-6 && s.b.abs() < 1e-6, || format!("{} oklab ({},{},{})", d(), s.l, s.a, s.b));
        let s = OkLch::from(x); rep.check("C11.oklch", s.c.abs() < 1e-6, || format!("{} oklch ({},{},{})", d(), s.l, s.c, s.h));
        let s = Xyy::from(x); rep.check("C11.xyy", (s.x - 0.31271).abs() <= 1e-4 && (s.y - 0.32902).abs() <= 1e-4, || format!("{} xyY ({},{},{})", d(), s.x, s.y, s._y));
        let eq3 = |a: f64, b: f64, cc: f64| { let m = a.abs().max(b.abs()).max(cc.abs()); (a - b).abs() <= 2e-3 * m && (a - cc).abs() <= 2e-3 * m && (b - cc).abs() <= 2e-3 * m };
        let s = Srgb::from(x); rep.check("C11.srgb", eq3(s.r, s.g, s.b), || format!("{} srgb ({},{},{})", d(), s.r, s.g, s.b));
        let s = Argb::from(Xyz::from_rgb(rgb, Kind::Adobe)); rep.check("C11.argb", eq3(s.r, s.g, s.b), || format!("{} argb ({},{},{})", d(), s.r, s.g, s.b));
        let s = Rec709::from(x); rep.check("C11.rec709", eq3(s.r, s.g, s.b), || format!("{} rec709 ({},{},{})", d(), s.r, s.g, s.b));
        let s = Rec2020::from(x); rep.check("C11.rec2020", eq3(s.r, s.g, s.b), || format!("{} rec2020 ({},{},{})", d(), s.r, s.g, s.b));
        let s = Rec2100::from(x); rep.check("C11.rec2100", eq3(s.r, s.g, s.b), || format!("{} rec2100 ({},{},{})", d(), s.r, s.g, s.b));
    }
    let (w, k) = (Rgb::new(255, 255, 255), Rgb::new(0, 0, 0));
    let (xw, xk) = (Xyz::from_rgb(w, Kind::D65), Xyz::from_rgb(k, Kind::D65));
    rep.check("C11.white.lab", (Lab::from(xw).l - 100.0).abs() <= 1e-3, || format!("white L* {}", Lab::from(xw).l));
    rep.check("C11.white.luv", (Luv::from(xw).l - 100.0).abs() <= 1e-3, || format!("white L*uv {}", Luv::from(xw).l));
    rep.check("C11.white.hlab", (Hlab::from(xw).l - 100.0).abs() <= 1e-3, || format!("white Hunter L {}", Hlab::from(xw).l));
    rep.check("C11.white.oklab", (OkLab::from(xw).l - 1.0).abs() <= 1e-5, || format!("white OkLab L {}", OkLab::from(xw).l));
    rep.check("C11.white.hsv", Hsv::from(w).v == 100.0 && Hsl::from(w).l == 100.0 && Cymk::from(w).k == 0.0, || "white HSV/HSL/K".to_string());
    rep.check("C11.black.lab", Lab::from(xk).l.abs() <= 1e-9 && Luv::from(xk).l.abs() <= 1e-9 && Hlab::from(xk).l.abs() <= 1e-9 && OkLab::from(xk).l.abs() <= 1e-9, || format!("black lightness {} {} {} {}", Lab::from(xk).l, Luv::from(xk).l, Hlab::from(xk).l, OkLab::from(xk).l));
    rep.check("C11.black.k", Cymk::from(k).k == 1.0 && Hsv::from(k).v == 0.0 && Hsl::from(k).l == 0.0, || "black K/V/L".to_string());
    rep
}

pub fn c12(tier: &str, seed: u64, known: &[String]) -> Report {
    for_colours(tier, seed, known, |rgb, rep| {
        let f = |q: Rgb| -> ([f64; 13], [f64; 11]) {
            let x65 = Xyz::from_rgb(q, Kind::D65); let x50 = Xyz::from_rgb(q, Kind::D50); let xa = Xyz::from_rgb(q, Kind::Adobe);
            let strict = [x65.x, x65.y, x65.z, x50.x, x50.y, x50.z, xa.x, xa.y, xa.z, Lab::from(x65).l, Luv::from(x65).l, Hlab::from(x65).l, OkLab::from(x65).l];
            let weak = [Yuv::from(q).y, Ycbcr::from(q).y as f64, Hsv::from(q).v, Hsl::from(q).l, -Cymk::from(q).k,
                GrayScale::from_rgb(q, GKind::Lightness).0 as f64, GrayScale::from_rgb(q, GKind::Average).0 as f64, GrayScale::from_rgb(q, GKind::Luminosity).0 as f64,
                GrayScale::from_rgb(q, GKind::BT709).0 as f64, GrayScale::from_rgb(q, GKind::BT2100).0 as f64, 0.0];
            (strict, weak)
        };
        const SN: [&str; 13] = ["x.d65", "y.d65", "z.d65", "x.d50", "y.d50", "z.d50", "x.adobe", "y.adobe", "z.adobe", "lab.l", "luv.l", "hlab.l", "oklab.l"];
        const WN: [&str; 10] = ["yuv.y", "ycbcr.y", "hsv.v", "hsl.l", "cmyk.k", "gray.lightness", "gray.average", "gray.luminosity", "gray.bt709", "gray.bt2100"];
        let base = f(rgb);
        for ch in 0..3 {
            let mut q = rgb;
            match ch { 0 => { if q.r == 255 { continue; } q.r += 1; } 1 => { if q.g == 255 { continue; } q.g += 1; } _ => { if q.b == 255 { continue; } q.b += 1; } }
            let up = f(q);
            for i in 0..13 { rep.check(&format!("C12.strict.{}", SN[i]), up.0[i] > base.0[i], || format!("{} -> {} : {} {:e} -> {:e}", c(rgb), c(q), SN[i], base.0[i], up.0[i])); }
            for i in 0..10 { rep.check(&format!("C12.weak.{}", WN[i]), up.1[i] >= base.1[i], || format!("{} -> {} : {} {:e} -> {:e}", c(rgb), c(q), WN[i], base.1[i], up.1[i])); }
        }
    })
}

pub fn c13(tier: &str, seed: u64, known: &[String]) -> Report {
    let whites = [(Kind::D65, Xyz::from_rgb(Rgb::new(255, 255, 255), Kind::D65)), (Kind::D50, Xyz::from_rgb(Rgb::new(255, 255, 255), Kind::D50)), (Kind::Adobe, Xyz::from_rgb(Rgb::new(255, 255, 255), Kind::Adobe))];
    for_colours(tier, seed, known, |rgb, rep| {
        // exact: Props.C13_rgbmodels.{hsl,hsv,hwb}_range_fp prove [0,100] without slack for every rounding that satisfies the
        // standard model, so an excess of one ulp is a violation; only the SUM w + b keeps the 1e-9 reading (DESIGN appendix D)
        let pct = |v: f64| (0.0..=100.0).contains(&v);
        let hue_ok = |h: f64| h.fract() == 0.0 && (0.0..360.0).contains(&h);
        let s = Hsl::from(rgb); rep.check("C13.hsl", hue_ok(s.h) && pct(s.s) && pct(s.l), || format!("{} hsl ({},{},{})", c(rgb), s.h, s.s, s.l));
        let s = Hsv::from(rgb); rep.check("C13.hsv", hue_ok(s.h) && pct(s.s) && pct(s.v), || format!("{} hsv ({},{},{})", c(rgb), s.h, s.s, s.v));
        let s = Hwb::from(rgb); rep.check("C13.hwb", hue_ok(s.h) && pct(s.w) && pct(s.b) && s.w + s.b <= 100.0 + 1e-9, || format!("{} hwb ({},{},{})", c(rgb), s.h, s.w, s.b));
        let u = |v: f64| (-1e-12..=1.0 + 1e-12).contains(&v);
        let s = Cymk::from(rgb); rep.check("C13.cmyk", u(s.c) && u(s.m) && u(s.y) && u(s.k), || format!("{} cmyk ({},{},{},{})", c(rgb), s.c, s.m, s.y, s.k));
        let s = Yuv::from(rgb); rep.check("C13.yuv", u(s.y) && s.u.abs() <= 0.436 + 1e-9 && s.v.abs() <= 0.615 + 1e-9, || format!("{} yuv ({},{},{})", c(rgb), s.y, s.u, s.v));
        let s = Ycbcr::from(rgb); rep.check("C13.ycbcr", (16..=235).contains(&s.y) && (16..=240).contains(&s.cb) && (16..=240).contains(&s.cr), || format!("{} ycbcr ({},{},{})", c(rgb), s.y, s.cb, s.cr));
        for (k, w) in whites.iter() {
            let x = Xyz::from_rgb(rgb, *k);
            rep.check("C13.xyz", x.x >= 0.0 && x.y >= 0.0 && x.z >= 0.0 && x.x <= w.x + 1e-12 && x.y <= w.y + 1e-12 && x.z <= w.z + 1e-12, || format!("{} xyz ({},{},{})", c(rgb), x.x, x.y, x.z));
        }
        let x = Xyz::from_rgb(rgb, Kind::D65);
        let l100 = |l: f64| (-1e-5..=100.0 + 1e-5).contains(&l);
        let s = Lab::from(x); rep.check("C13.lab.l", l100(s.l), || format!("{} lab L {}", c(rgb), s.l));
        let s = Luv::from(x); rep.check("C13.luv.l", l100(s.l), || format!("{} luv L {}", c(rgb), s.l));
        let s = Hlab::from(x); rep.check("C13.hlab.l", l100(s.l), || format!("{} hlab L {}", c(rgb), s.l));
        let s = OkLab::from(x); rep.check("C13.oklab.l", (-1e-5..=1.0 + 1e-5).contains(&s.l), || format!("{} oklab L {}", c(rgb), s.l));
        let s = Lchlab::from(x); rep.check("C13.lchlab", s.c >= 0.0 && (0.0..=360.0).contains(&s.h), || format!("{} lchlab ({},{},{})", c(rgb), s.l, s.c, s.h));
        let s = Lchuv::from(x); rep.check("C13.lchuv", s.c >= 0.0 && (0.0..=360.0).contains(&s.h), || format!("{} lchuv ({},{},{})", c(rgb), s.l, s.c, s.h));
        let s = Hcl::from(x); rep.check("C13.hcl", s.c >= 0.0 && (0.0..=360.0).contains(&s.h), || format!("{} hcl ({},{},{})", c(rgb), s.h, s.c, s.l));
        let s = OkLch::from(x); rep.check("C13.oklch", s.c >= 0.0 && (-std::f64::consts::PI..=std::f64::consts::PI).contains(&s.h), || format!("{} oklch ({},{},{})", c(rgb), s.l, s.c, s.h));
        let e = |v: f64| (-1e-3..=1.0 + 1e-3).contains(&v);
        let s = Srgb::from(x); rep.check("C13.srgb", e(s.r) && e(s.g) && e(s.b), || format!("{} srgb ({},{},{})", c(rgb), s.r, s.g, s.b));
        let s = Argb::from(Xyz::from_rgb(rgb, Kind::Adobe)); rep.check("C13.argb", e(s.r) && e(s.g) && e(s.b), || format!("{} argb ({},{},{})", c(rgb), s.r, s.g, s.b));
        let s = Rec709::from(x); rep.check("C13.rec709", e(s.r) && e(s.g) && e(s.b), || format!("{} rec709 ({},{},{})", c(rgb), s.r, s.g, s.b));
        let s = Rec2020::from(x); rep.check("C13.rec2020", e(s.r) && e(s.g) && e(s.b), || format!("{} rec2020 ({},{},{})", c(rgb), s.r, s.g, s.b));
        let a = Ansi::from_rgb(rgb, AnsiKind::C256).0; rep.check("C13.ansi256", a >= 16, || format!("{} ansi256 {}", c(rgb), a));
        let a = Ansi::from_rgb(rgb, AnsiKind::C16).0; rep.check("C13.ansi16", (30..=37).contains(&a) || (90..=97).contains(&a), || format!("{} ansi16 {}", c(rgb), a));
        let (mn, mx) = (rgb.r.min(rgb.g).min(rgb.b) as i32, rgb.r.max(rgb.g).max(rgb.b) as i32);
        for k in [GKind::Lightness, GKind::Average, GKind::Luminosity, GKind::BT709, GKind::BT2100] {
            let g = GrayScale::from_rgb(rgb, k).0 as i32;
            rep.check("C13.gray", g >= mn - 1 && g <= mx, || format!("{} gray {} outside [{}-1,{}]", c(rgb), g, mn, mx));
        }
    })
}
