mod gen_dispatch;
mod oracle;
mod pools;
mod wire;

use pools::Rng;
use std::io::{BufRead, BufReader, Write};
use std::process::{Command, Stdio};
use wire::Toks;

fn arg<'a>(args: &'a [String], key: &str) -> Option<&'a str> {
    args.iter().position(|a| a == key).and_then(|i| args.get(i + 1)).map(|s| s.as_str())
}

/// run one function of the real crate on a request line; a panic becomes the token `panic`
fn run_real(name: &str, input: &str) -> String {
    let res = std::panic::catch_unwind(|| {
        let mut t = Toks::new(input);
        let mut o = Vec::new();
        let known = gen_dispatch::dispatch(name, &mut t, &mut o);
        if known { o.join(" ") } else { "bad-op".to_string() }
    });
    res.unwrap_or_else(|_| "panic".to_string())
}

fn tok_close(a: &str, b: &str, worst: &mut f64) -> bool {
    if a == b { return true; }
    if a.starts_with('x') && b.starts_with('x') && a.len() == 17 && b.len() == 17 {
        let fa = f64::from_bits(u64::from_str_radix(&a[1..], 16).unwrap_or(0));
        let fb = f64::from_bits(u64::from_str_radix(&b[1..], 16).unwrap_or(1));
        if fa.is_nan() && fb.is_nan() { return true; }
        if fa.is_nan() || fb.is_nan() { return false; }
        if fa.is_infinite() || fb.is_infinite() { return fa == fb; }
        let d = (fa - fb).abs() / (1.0 + fa.abs().max(fb.abs()));
        if d > *worst { *worst = d; }
        return d <= 1e-13;
    }
    false
}

fn lines_close(a: &str, b: &str, worst: &mut f64) -> bool {
    let ta: Vec<&str> = a.split_whitespace().collect();
    let tb: Vec<&str> = b.split_whitespace().collect();
    ta.len() == tb.len() && ta.iter().zip(tb.iter()).all(|(x, y)| tok_close(x, y, worst))
}

pub fn json_str(s: &str) -> String {
    let mut o = String::from("\"");
    for c in s.chars() {
        match c { '"' => o.push_str("\\\""), '\\' => o.push_str("\\\\"), '\n' => o.push_str("\\n"), c if (c as u32) < 32 => o.push_str(&format!("\\u{:04x}", c as u32)), c => o.push(c) }
    }
    o.push('"'); o
}

/// correspondence: generated model (Lean, at Float) against the real crate on the same inputs
fn corr(args: &[String]) -> i32 {
    let driver = arg(args, "--driver").expect("--driver");
    let n: usize = arg(args, "--n").unwrap_or("2000").parse().unwrap();
    let seed: u64 = arg(args, "--seed").unwrap_or("1").parse().unwrap();
    let only: Option<Vec<&str>> = arg(args, "--fns").map(|s| s.split(',').collect());
    let out_path = arg(args, "--json");
    std::panic::set_hook(Box::new(|_| {}));
    let mut reqs: Vec<(usize, String)> = Vec::new();
    let mut per_fn: Vec<(String, usize, usize, f64, Vec<String>, usize)> = Vec::new();
    for (fi, (name, params, _mon)) in gen_dispatch::FUNCS.iter().enumerate() {
        if let Some(o) = &only { if !o.iter().any(|p| name == p || (p.ends_with('*') && name.starts_with(&p[..p.len() - 1]))) { continue; } }
        let mut rng = Rng::new(seed.wrapping_mul(1_000_003).wrapping_add(fi as u64));
        let cases = if params.is_empty() { 1 } else if params.len() == 1 && params[0] == "Ansi" { 256 } else { n };
        for i in 0..cases {
            let mut toks: Vec<String> = vec![name.to_string()];
            for p in params.iter() { toks.extend(pools::gen_arg(p, name, i, cases, &mut rng)); }
            reqs.push((per_fn.len(), toks.join(" ")));
        }
        per_fn.push((name.to_string(), cases, 0, 0.0, Vec::new(), 0));
    }
    let mut child = Command::new(driver).stdin(Stdio::piped()).stdout(Stdio::piped()).spawn().expect("spawn driver");
    let mut stdin = child.stdin.take().unwrap();
    let lines: Vec<String> = reqs.iter().map(|(_, l)| l.clone()).collect();
    let writer = std::thread::spawn(move || { for l in lines { let _ = writeln!(stdin, "{}", l); } });
    let rdr = BufReader::new(child.stdout.take().unwrap());
    let mut model_out: Vec<String> = Vec::with_capacity(reqs.len());
    for l in rdr.lines() { model_out.push(l.unwrap()); }
    let _ = writer.join();
    let _ = child.wait();
    let mut mismatches = 0usize;
    if model_out.len() != reqs.len() {
        eprintln!("driver returned {} lines for {} requests", model_out.len(), reqs.len());
        mismatches += 1;
    }
    for ((fi, req), m) in reqs.iter().zip(model_out.iter()) {
        let (name, input) = req.split_once(' ').unwrap_or((req.as_str(), ""));
        let real = run_real(name, input);
        let e = &mut per_fn[*fi];
        if real == "panic" || real.starts_with("err") || real.starts_with("ok err") { e.5 += 1; }
        let mut worst = e.3;
        if !lines_close(&real, m, &mut worst) {
            e.2 += 1; mismatches += 1;
            if e.4.len() < 3 { e.4.push(format!("{{\"request\":{},\"impl\":{},\"model\":{}}}", json_str(req), json_str(&real), json_str(m))); }
        }
        e.3 = worst;
    }
    let mut js = String::from("{\"functions\":[");
    for (k, (name, cases, bad, worst, samples, errs)) in per_fn.iter().enumerate() {
        if k > 0 { js.push(','); }
        js.push_str(&format!("{{\"name\":{},\"cases\":{},\"mismatches\":{},\"error_or_panic_results\":{},\"max_rel_float_gap\":{:e},\"samples\":[{}]}}", json_str(name), cases, bad, errs, worst, samples.join(",")));
    }
    js.push_str(&format!("],\"requests\":{},\"mismatches\":{},\"seed\":{},\"sample_request\":{}}}", reqs.len(), mismatches, seed, json_str(reqs.first().map(|r| r.1.as_str()).unwrap_or(""))));
    if let Some(p) = out_path { std::fs::write(p, &js).unwrap(); } else { println!("{}", js); }
    if mismatches > 0 { 1 } else { 0 }
}

/// float gap: the real crate's f64 results against the exact-rational reading of the generated model (`@Q` requests),
/// on forward images of 8-bit colours.  Reports per function the largest |f64 - exact| and every discrete (integer) output
/// on which the f64 code and the exact-real model decide differently.
fn gap(args: &[String]) -> i32 {
    let driver = arg(args, "--driver").expect("--driver");
    let n: usize = arg(args, "--n").unwrap_or("400").parse().unwrap();
    let seed: u64 = arg(args, "--seed").unwrap_or("1").parse().unwrap();
    let only: Option<Vec<&str>> = arg(args, "--fns").map(|s| s.split(',').collect());
    pools::VALID_ONLY.store(true, std::sync::atomic::Ordering::Relaxed);
    std::panic::set_hook(Box::new(|_| {}));
    let skip = |name: &str| -> bool {
        ["Lchlab.", "Lchuv.", "Hcl.", "OkLch.", "Rec2100.", "F64.from_Luv", "Lab.from_Lchlab", "Luv.from_Lchuv", "Luv.from_Hcl", "OkLab.from_OkLch", "Xyz.from_Lchlab", "Xyz.from_Lchuv",
         "Xyz.from_Hcl", "Xyz.from_OkLch", "Xyz.from_Rec2100", "F64.pq_", "Hex.", "Rgb.try_from_", "Rgb.from_vec", "Ycbcr.from_vec", "Rgb.new", "Rgb.default", "Ansi.finalize"].iter().any(|p| name.starts_with(p))
            || name.ends_with(".as_vec") || name.ends_with(".from_vec") || name.ends_with(".default")
    };
    let mut reqs: Vec<(usize, String)> = Vec::new();
    let mut names: Vec<String> = Vec::new();
    for (fi, (name, params, _)) in gen_dispatch::FUNCS.iter().enumerate() {
        if skip(name) { continue; }
        if let Some(o) = &only { if !o.iter().any(|p| name == p) { continue; } }
        let mut rng = Rng::new(seed.wrapping_mul(7_000_003).wrapping_add(fi as u64));
        let cases = if params.is_empty() { 1 } else { n };
        for i in 0..cases {
            let mut toks: Vec<String> = vec![name.to_string()];
            // spread the case index over the colour schedule (lattice, greys, edges, random)
            let idx = (i * 7919) % (pools::LATTICE + 256 + 512 + 4000);
            for p in params.iter() { toks.extend(pools::gen_arg(p, name, idx, cases, &mut rng)); }
            reqs.push((names.len(), toks.join(" ")));
        }
        names.push(name.to_string());
    }
    let mut child = Command::new(driver).stdin(Stdio::piped()).stdout(Stdio::piped()).spawn().expect("spawn driver");
    let mut stdin = child.stdin.take().unwrap();
    let lines: Vec<String> = reqs.iter().map(|(_, l)| format!("@Q {}", l)).collect();
    let writer = std::thread::spawn(move || { for l in lines { let _ = writeln!(stdin, "{}", l); } });
    let rdr = BufReader::new(child.stdout.take().unwrap());
    let mut exact: Vec<String> = Vec::with_capacity(reqs.len());
    for l in rdr.lines() { exact.push(l.unwrap()); }
    let _ = writer.join(); let _ = child.wait();
    struct G { cases: usize, floats: usize, max_abs: f64, max_rel: f64, ints: usize, int_diff: usize, samples: Vec<String>, worst: String }
    let mut gs: Vec<G> = names.iter().map(|_| G { cases: 0, floats: 0, max_abs: 0.0, max_rel: 0.0, ints: 0, int_diff: 0, samples: Vec::new(), worst: String::new() }).collect();
    for ((fi, req), ex) in reqs.iter().zip(exact.iter()) {
        let (name, input) = req.split_once(' ').unwrap_or((req.as_str(), ""));
        let real = run_real(name, input);
        let g = &mut gs[*fi]; g.cases += 1;
        let tr: Vec<&str> = real.split_whitespace().collect(); let te: Vec<&str> = ex.split_whitespace().collect();
        if tr.len() != te.len() { if g.samples.len() < 3 { g.samples.push(format!("shape differs: {} | impl {} | exact {}", req, real, ex)); } g.int_diff += 1; continue; }
        for (a, b) in tr.iter().zip(te.iter()) {
            if a.starts_with('x') && b.starts_with('d') {
                let fa = f64::from_bits(u64::from_str_radix(&a[1..], 16).unwrap_or(0));
                let fb: f64 = b[1..].parse().unwrap_or(f64::NAN);
                if !fa.is_finite() { continue; }
                g.floats += 1;
                let d = (fa - fb).abs(); let r = d / (1.0 + fb.abs());
                if d > g.max_abs { g.max_abs = d; g.worst = format!("{} -> f64 {:e} exact {:e}", req, fa, fb); }
                if r > g.max_rel { g.max_rel = r; }
            } else {
                g.ints += 1;
                if a != b { g.int_diff += 1; if g.samples.len() < 3 { g.samples.push(format!("{} | f64 code {} | exact-real model {}", req, real, ex)); } }
            }
        }
    }
    let mut js = String::from("{\"functions\":[");
    for (k, (name, g)) in names.iter().zip(gs.iter()).enumerate() {
        if k > 0 { js.push(','); }
        js.push_str(&format!("{{\"name\":{},\"cases\":{},\"float_outputs\":{},\"max_abs_gap\":{:e},\"max_rel_gap\":{:e},\"discrete_outputs\":{},\"discrete_disagreements\":{},\"worst\":{},\"samples\":[{}]}}",
            json_str(name), g.cases, g.floats, g.max_abs, g.max_rel, g.ints, g.int_diff, json_str(&g.worst), g.samples.iter().map(|x| json_str(x)).collect::<Vec<_>>().join(",")));
    }
    js.push_str(&format!("],\"requests\":{},\"seed\":{}}}", reqs.len(), seed));
    if let Some(p) = arg(args, "--json") { std::fs::write(p, &js).unwrap(); } else { println!("{}", js); }
    0
}

fn main() {
    let args: Vec<String> = std::env::args().collect();
    let code = match args.get(1).map(|s| s.as_str()) {
        Some("corr") => corr(&args[2..]),
        Some("gap") => gap(&args[2..]),
        Some("sweep") => {
            let a = &args[2..];
            let id = a[0].as_str();
            let tier = arg(a, "--tier").unwrap_or("quick");
            let seed: u64 = arg(a, "--seed").unwrap_or("1").parse().unwrap();
            let known: Vec<String> = arg(a, "--known").map(|s| s.split(',').filter(|x| !x.is_empty()).map(|x| x.to_string()).collect()).unwrap_or_default();
            match oracle::run(id, tier, seed, &known) {
                Some(rep) => { let js = rep.to_json(id, tier, seed); if let Some(p) = arg(a, "--json") { std::fs::write(p, &js).unwrap(); } else { println!("{}", js); } 0 }
                None => { eprintln!("no oracle for {}", id); 2 }
            }
        }
        Some("gen1") => oracle::textprops::gen1(&args[2..]),
        Some("one") => { println!("{}", run_real(&args[2], &args[3..].join(" "))); 0 }
        _ => { eprintln!("usage: harness corr|one ..."); 2 }
    };
    std::process::exit(code);
}
