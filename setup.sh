#!/bin/bash
# MANIFEST.setup_cmd: build the whole framework offline from files on disk.
set -e
cd "$(dirname "$0")"
export CARGO_NET_OFFLINE=true
python3 tools/test_normalise.py
python3 tools/gen_root.py
./check --setup
