import LymuiVerif.Lemmas.FpErr
import LymuiVerif.Props.C10
open Gen FpErr

theorem yuv_y_fp (M : FPModel) (c : Rgb) (hr : c.r ≤ 255) (hg : c.g ≤ 255) (hb : c.b ≤ 255) :
    |(Yuv.from_Rgb (α := RF M) c).y.val - Props.C10.Spec.yuvY c.r c.g c.b| ≤ 1e-12 := by
  simp only [Yuv.from_Rgb, Rgb.as_f64, FltRF.lit_val, FltRF.ofNat_val, FltRF.add_val, FltRF.mul_val, FltRF.div_val,
    Props.C10.Spec.yuvY]
  have hr' : (c.r : ℝ) ≤ 255 := by exact_mod_cast hr
  have hg' : (c.g : ℝ) ≤ 255 := by exact_mod_cast hg
  have hb' : (c.b : ℝ) ≤ 255 := by exact_mod_cast hb
  have hr0 : (0 : ℝ) ≤ c.r := by positivity
  have hg0 : (0 : ℝ) ≤ c.g := by positivity
  have hb0 : (0 : ℝ) ≤ c.b := by positivity
  rw [lit_int M 255 (by norm_num)]
  generalize (c.r : ℝ) = r at *
  generalize (c.g : ℝ) = g at *
  generalize (c.b : ℝ) = b at *
  have br : |r / 255| ≤ 1 := by rw [abs_of_nonneg (by positivity)]; linarith
  have bg : |g / 255| ≤ 1 := by rw [abs_of_nonneg (by positivity)]; linarith
  have bb : |b / 255| ≤ 1 := by rw [abs_of_nonneg (by positivity)]; linarith
  have qr := rnd_abs M br (by norm_num)
  have qg := rnd_abs M bg (by norm_num)
  have qb := rnd_abs M bb (by norm_num)
  have l1 := lit_close M 299 1000 (B := 1) (by norm_num) (by norm_num)
  have l2 := lit_close M 587 1000 (B := 1) (by norm_num) (by norm_num)
  have l3 := lit_close M 57 500 (B := 1) (by norm_num) (by norm_num)
  have m1 := mul_close M l1 qr (Bx := 1) (By := 1) (by norm_num) br (by norm_num)
  have m2 := mul_close M l2 qg (Bx := 1) (By := 1) (by norm_num) bg (by norm_num)
  have m3 := mul_close M l3 qb (Bx := 1) (By := 1) (by norm_num) bb (by norm_num)
  have p1 : |((299:ℕ):ℝ) / (1000:ℕ) * (r / 255) + ((587:ℕ):ℝ) / (1000:ℕ) * (g / 255)| ≤ 2 := by
    rw [abs_of_nonneg (by positivity)]; push_cast; linarith
  have s1 := add_close M m1 m2 (B := 2) p1 (by norm_num)
  have p2 : |((299:ℕ):ℝ) / (1000:ℕ) * (r / 255) + ((587:ℕ):ℝ) / (1000:ℕ) * (g / 255) + ((57:ℕ):ℝ) / (500:ℕ) * (b / 255)| ≤ 3 := by
    rw [abs_of_nonneg (by positivity)]; push_cast; linarith
  have s2 := add_close M s1 m3 (B := 3) p2 (by norm_num)
  have e : (0.299 * r + 0.587 * g + 0.114 * b) / 255 = ((299:ℕ):ℝ) / (1000:ℕ) * (r / 255) + ((587:ℕ):ℝ) / (1000:ℕ) * (g / 255) + ((57:ℕ):ℝ) / (500:ℕ) * (b / 255) := by
    push_cast; ring
  rw [e]
  refine le_trans s2 ?_
  norm_num [FP.eps]
#print axioms yuv_y_fp
