#!/usr/bin/env python3
"""Regenerate /verif/MANIFEST.json from the property table below and the theorem files present.
A property is claimed iff lean/LymuiVerif/Props/<id>.lean or Props/<id>_*.lean contains at least one theorem."""
import json, os, re, glob
V = os.path.join(os.path.dirname(os.path.abspath(__file__)), '..')
V = os.path.abspath(V)

COMMON_NOTE = ("Trusted: Lean 4.33 kernel; axioms propext, Classical.choice, Quot.sound only (audited per theorem with #print axioms on every run; no native_decide/bv_decide/sorry); "
               "Mathlib's definitions of rpow/sqrt/arg/floor; rustc MIR as the meaning of the source; our translator tools/mir2lean.py and the shims in lean/LymuiVerif/Core (validated on every run by the "
               "correspondence check: the same generated definitions at Float, compiled, against the real crate in-process; not verified). Modelled rather than verified: IEEE-754 rounding and libm accuracy "
               "(theorems are over exact reals / naturals; discrete claims carry a robustness margin where the code's quantiser has one), signed zeros, NaN/infinity except where the C04 instance models them.")

P = {
 'C01': ('RGB -> XYZ -> RGB identity', 'Kernel-checked theorems over the exact-real reading of the generated model: profile dispatch, |R_k*M_k - I| bounds on the generated matrix constants, exact curve inverses, and the per-level rounding margin; quantified over all colours and the three profiles.', 'theorems on generated model + matrix/curve lemmas; tie = MIR translation + Float correspondence + exhaustive cube oracle'),
 'C02': ('XYZ-derived spaces invert', 'Theorems: exact or bounded inverse identities per space on the real model (polar spaces exactly via Complex.arg, xyY exactly, curves on their branches, matrix products bounded on the generated constants); Hunter Lab and Rec.2100 are recorded findings with characterisation theorems. Requantisation clause is tied by the exhaustive oracle and labelled partial where not proved.', 'inverse identities as theorems; known findings characterised; oracle sweeps the cube x 14 spaces'),
 'C03': ('device-model round trips', 'Theorems on the real model: hex exact (all bytes), CMYK exact with rounding margin, YUV <= 1, YCbCr <= 4 by interval reasoning; HSL/HSV/HWB bounds per sector (partial where stated).', 'algebra + interval arithmetic theorems; hex by decide over bytes'),
 'C04': ('totality', 'Theorems: purity of generated functions (no MIR assert and no panicking callee => total by construction), Res-valued functions proved never to panic (ANSI decode by kernel decision over 256 codes, ANSI encode, generators), hex parser total over all strings, from_vec total on every length; finiteness guards (division/power side conditions) proved on the real model for the guarded branches.', 'totality theorems in the Res monad + guard lemmas; oracle sweeps all conversion paths for NaN/inf/panic'),
 'C05': ('colorimetric definition of RGB<->XYZ', 'Theorems: generated matrices match the matrices derived (in exact rational arithmetic) from primaries and white point within 5e-8, curves are definitionaly the IEC 61966-2-1 / gamma 563/256 curves, reverse direction is matrix, curve and one round-to-nearest quantiser.', 'norm_num on generated constants + definitional unfolding'),
 'C06': ('CIE definitions', 'Theorems: xyY and Hunter Lab forward equal the CIE formulae exactly, CIELAB/CIELUV within explicit bounds from the constant mismatches, reverse identities; Hunter reverse is a recorded finding with an exact characterisation theorem (returns -Z) and a refutation witness.', 'exact identities + bounded constant mismatch'),
 'C07': ('OkLab / OkLch', 'Theorems: the code equals M2*cbrt(M1*s^2.2) with the published matrices including signs (characterisation of the recorded linearisation finding), OkLch exactly polar, inverse tables within bound.', 'definitional theorems with signed matrix tables'),
 'C08': ('encoded RGB spaces', 'Theorems: each conversion is definitionally matrix then standard curve (sRGB, Adobe 563/256, BT.709, BT.2020 12-bit, ST 2084 inverse), curve inverses exact on their branches, PQ forward characterised exactly (recorded finding).', 'definitional theorems against hand-written standards'),
 'C09': ('hexcone definitions', 'Theorems: hue = round-half-away of the hexcone angle wrapped into [0,360) and a whole number; S/L/V/W/B equal the standard definitions exactly; reverse conversions equal the sector formulae under one quantiser per model.', 'case analysis on max channel / sector over the reals'),
 'C10': ('CMYK, YUV, YCbCr, grayscale formulas', 'Theorems: every forward and reverse conversion equals its cited formula exactly over the reals, with a single quantiser per conversion.', 'definitional unfolding + ring/norm_num on generated literals'),
 'C11': ('neutrals stay neutral', 'Theorems for all 256 greys: exact achromaticity in the rational spaces (weights sum to 1 / 0 as decimal identities), bounded chroma in XYZ-derived spaces from the row sums of the generated matrices.', 'algebra on generated constants'),
 'C12': ('brightening never darkens', 'Theorems: weak monotonicity of luma/value/lightness/grayscale/-K by positivity of weights and monotone quantisers; strict monotonicity of X,Y,Z from positive matrix entries and strictly increasing decode curves.', 'monotonicity lemmas'),
 'C13': ('outputs in range', 'Theorems: range of every listed component from channel bounds 0..255; ANSI code ranges by computation over levels.', 'interval reasoning'),
 'C14': ('cylindrical = polar of parent', 'Theorems for arbitrary XYZ / arbitrary polar values: shared lightness, chroma = sqrt(a^2+b^2), hue = arg in degrees with the code\'s wrap, exact reconstruction of the parent via Complex.arg identities.', 'Complex.arg / trig identities'),
 'C15': ('hex text', 'Theorems over ALL strings (unbounded lists of code points) about the hand model of hex.rs: canonical format, parse(format c) = c, acceptance of 3/6 digits either case with optional #, success implies the leading digits spell the result, non-hex colour positions are rejected.', 'structural proofs on List Nat; model tied to hex.rs by correspondence on shaped/random strings'),
 'C16': ('ANSI-256 decode', 'Kernel decision (decide +kernel) over all 256 codes on the generated decoder including its checked u8 arithmetic and the hex parser it goes through: result = xterm palette.', 'decide +kernel over Fin 256 on the generated definition'),
 'C17': ('RGB -> ANSI', 'Theorems: the generated encoders equal the documented formulas (round-half-away as natural-number arithmetic), no checked-arithmetic panic; corollaries (>= 16, neutral greys, monotone ramp, decode bounds 69/11) by kernel computation over the 256 levels lifted to all triples.', 'formula equality + per-level decide lifted'),
 'C18': ('tint and shade', 'Theorems on the fuel-indexed loop model: invalid real factors rejected with zero iterations; closed form of the generated loop for 0 < f <= 1 (entry i = Q(c moved i*f)), length floor(1/f)+1, first entry, monotonicity, last entry, fuel bound.', 'induction over the generated loop'),
 'C19': ('helpers and vector marshalling', 'Theorems for arbitrary dictionaries (all type pairs at once): helpers = explicit two-step composition with None = D65; per type from_vec (as_vec x) = x, documented order, defaults on short vectors, scale = x100.', 'unfolding of generated generic functions'),
 'C20': ('JS marshalling', 'Theorems about the model generated from the MIR of the real derive-macro expansions (js feature): read(write x) = x for every deriving struct, keys = field names, missing field => InvalidArg.', 'association-list object model of N-API'),
}

def has_theorems(pid):
    fs = [os.path.join(V, f'lean/LymuiVerif/Props/{pid}.lean')] + glob.glob(os.path.join(V, f'lean/LymuiVerif/Props/{pid}_*.lean'))
    return any(os.path.exists(f) and re.search(r'^\s*theorem\s', open(f).read(), flags=re.M) for f in fs)

def main():
    na_path = os.path.join(V, 'tools/not_applicable.json')
    na_reasons = json.load(open(na_path)) if os.path.exists(na_path) else {}
    checks, na = [], []
    for pid in sorted(P):
        title, text, tech = P[pid]
        if not has_theorems(pid):
            na.append({'property_id': pid, 'reason': na_reasons.get(pid, 'not claimed yet: no kernel-checked theorem for this property is committed; the oracle sweep exists but a sweep is not a proof')})
            continue
        checks.append({
            'property_id': pid,
            'quick_cmd': f'./check {pid} --tier quick',
            'thorough_cmd': f'./check {pid} --tier thorough',
            'evidence_file': f'/verif/evidence/{pid}.json',
            'replay_cmd_template': f'./check {pid} --replay {{path}}',
            'engine': 'lean-proof',
            'level_claimed': {'category': 'proof', 'text': f'{title}: {text} The model is regenerated from rustc MIR of /repo\'s working tree on every run, so the theorems are re-checked against the current code.', 'design_ref': 'DESIGN.md section 7 and 13'},
            'level_note': COMMON_NOTE,
            'technique': 'Lean 4 theorems on a model regenerated from MIR; ' + tech,
        })
    m = {
        'version': 1,
        'setup_cmd': './setup.sh',
        'hooks': {'guard': 'cfg(lymui_verif)', 'enable': 'RUSTFLAGS="--cfg lymui_verif" when building harness/ against /repo/lymui (done by ./check)',
                  'baseline_off_cmd': 'cd /repo && cargo test --workspace --no-fail-fast --offline', 'source_commits': ['cd5f6cf'], 'add_only': True},
        'engines': [{'name': 'lean-proof', 'path': '/verif/check', 'serves_properties': [c['property_id'] for c in checks],
                     'kind_free_text': 'MIR->Lean translator (tools/mir2lean.py), Lean 4 theorems (lean/LymuiVerif/Props), axiom audit, Float-instance correspondence against the real crate (harness corr), Rust oracle sweep for witness search (harness sweep)'}],
        'checks': checks,
        'notes': 'Every check regenerates the model from /repo\'s working tree (cargo rustc --emit=mir), rebuilds the property\'s theorem modules, audits axioms, runs the correspondence and the oracle sweep. Known findings: known_findings.json.',
        'not_applicable': na,
    }
    json.dump(m, open(os.path.join(V, 'MANIFEST.json'), 'w'), indent=1)
    print('claimed:', [c['property_id'] for c in checks], 'not claimed:', [n['property_id'] for n in na])

if __name__ == '__main__':
    main()
