#!/usr/bin/env python3
"""Regenerate /verif/MANIFEST.json from the property table below and the theorem files present.
A property is claimed iff lean/LymuiVerif/Props/<id>.lean or Props/<id>_*.lean contains at least one theorem."""
import json, os, re, glob
V = os.path.join(os.path.dirname(os.path.abspath(__file__)), '..')
V = os.path.abspath(V)

COMMON_NOTE = ("Trusted: Lean 4.33 kernel; axioms propext, Classical.choice, Quot.sound only (audited per theorem with #print axioms on every run; no native_decide/bv_decide/sorry); "
               "Mathlib's definitions of rpow/sqrt/arg/floor; rustc MIR as the meaning of the source; our translator tools/mir2lean.py and the shims in lean/LymuiVerif/Core (validated on every run by the "
               "correspondence check: the same generated definitions at Float, compiled, against the real crate in-process; not verified). Modelled rather than verified: IEEE-754 rounding and libm accuracy "
               "(theorems not named *_fp are over exact reals / naturals; discrete claims carry a robustness margin where the code's quantiser has one), signed zeros, NaN/infinity except where the C04 instances model them. "
               "Theorems named *_fp (files Props/<id>_fp*.lean) hold for EVERY rounding operator of the standard model of floating-point arithmetic (Inst/Rounded.lean); binary64 round-to-nearest-even is formally "
               "defined and proved to be one (Inst/Binary64.lean), its executable form is proved equal (Inst/Binary64Q.lean) and compared bit for bit with the hardware on every run; assumed there: IEEE conformance "
               "off the sampled operands, the 1-ulp bounds and non-negativity of the platform's pow/atan2/sin/cos, no overflow on the RF paths (proved on PRFo for the C04 paths).")

FP_TEXT = {
 'C01': 'In floating point: roundtrip_fp (the same identity for every model of floating-point arithmetic, all profiles, every 8-bit colour).',
 'C02': 'In floating point: exact re-quantisation in every model through all twelve spaces that are not recorded findings (CIELAB, CIELUV, xyY, LCh(ab), LCh(uv), HCL, sRGB, Adobe RGB, Rec.709, Rec.2020, OkLab, OkLch), with round-trip bounds inside the 5e-4 of the property.',
 'C03': 'In floating point: cmyk_roundtrip_fp (exact), yuv/ycbcr/hsl/hsv/hwb_roundtrip_fp with the same unit bounds as over the reals.',
 'C04': 'In floating point: Props/C04_fp.lean (NaN from rounding residues: every forward path, reverse function and round trip finite in every model) and Props/C04_fp_overflow*.lean (the same with overflow beyond 2^1023 modelled).',
 'C05': 'In floating point: forward_fp (XYZ within 1e-12 of the real model, 3e-7 of the specification), white/black.',
 'C06': 'In floating point: the forward clause for every 8-bit colour against the CIE formulae with no side condition (Lab 5e-5/4e-4/2e-4, Luv 4e-5/6e-4, Hunter 1e-9, xyY 1e-15), the black clause, and reverse bounds on arbitrary in-range inputs in every model.',
 'C07': 'In floating point: OkLab via XYZ within 8.1e-10 of the real model for every colour; reverse on arbitrary in-range inputs.',
 'C08': 'In floating point: forward within the property tolerances for sRGB, Adobe RGB, Rec.709, Rec.2020 (partial constant), Rec.2100; reverse curves and round trips.',
 'C09': 'In floating point: forward formulas within 1e-10, hue determined except at exact half-degree ties (hue_tiefree_fp, hue_tie_fp).',
 'C10': 'In floating point: real-valued results within 1e-12, bytes are the quantisation of the exact sum perturbed by <= 1e-12.',
 'C11': 'In floating point: exact statements (saturation/hue 0, C=M=Y=0, white/black) and tolerance statements for greys in every model; Cb, Cr in {127,128} (128 is not provable for every rounding).',
 'C12': 'In floating point: step_fp (strict increase of X, Y, Z and of the four lightnesses, weak clauses by monotonicity of rounding) in every model.',
 'C13': 'In floating point: ranges without slack for the hexcone percentages and CMYK, chroma >= 0 and polar hue ranges exactly, YUV/YCbCr/XYZ/grayscale, CIE/Hunter/OkLab lightness, encoded channels and ANSI ranges.',
 'C14': 'In floating point: chroma within 6e-16 relative, lightness copied exactly, hue within 1e-12 away from the wrap point, reverse within 1.1e-14*C.',
 'C17': 'In floating point: from_rgb_eq_fp (the encoder in every model EQUALS the real model for every colour: no tie exists).',
 'C18': 'In floating point: rejection, closed form with floor(rnd(1/f))+1 entries, entries within 1e-12 of the exact positions, exact monotonicity.',
}

P = {
 'C01': ('RGB -> XYZ -> RGB identity', 'Theorem Props.C01.roundtrip: for all three profiles and every 8-bit colour as_rgb (from_rgb c k) k = c on the exact-real reading of the generated model, in robust form (any perturbation <= 0.09 of each pre-quantisation value), from |R_k*M_k - I| <= 2e-7 on the generated constants, exact curve inverses and a per-level stability lemma.', 'theorems on generated model + matrix/curve lemmas'),
 'C02': ('XYZ-derived spaces invert', 'Theorems per space for every 8-bit colour: XYZ -> S -> XYZ within explicit bounds far below 5e-4 (sRGB 4.6e-7, Rec.709 4.4e-7, Rec.2020 1.4e-6, xyY exact, Adobe 3e-4 under both profiles, Lab/LCh(ab) 8.6e-8, Luv/LCh(uv)/HCL 5e-7, OkLab/OkLch 1.25e-4) and exact re-quantisation (requant_stable: any XYZ within 1.7e-5 of a colour re-quantises to it; channel-wise arguments for Adobe and OkLab). Hunter Lab and Rec.2100 are recorded findings with characterisation theorems.', 'inverse identities / bounds as theorems; known findings characterised'),
 'C03': ('device-model round trips', 'Theorems: hex exact (via C15), CMYK exact with rounding margin 1/4, YUV <= 1, YCbCr <= 4 (sharp per-channel ranges), HSL <= 2, HSV <= 3, HWB <= 3 for all colours (black through the NaN path on the partial-real instance).', 'algebra + interval arithmetic + 1-Lipschitz trapezoid-wave argument for the hexcone spaces'),
 'C04': ('totality', 'Theorems on the partial-real instance PR = Option R (none = NaN/inf): every conversion path of the property yields finite values (forward_finite, roundtrip_finite for 14 spaces, curves finite for every real input), each as a bridging lemma f_PR (lift p) = lift (f_R p); no Res-valued function of the generated model can return panic on its domain (ANSI encode/decode, generators for every factor including NaN and every fuel); hex parser total over all strings; from_vec total.', 'definedness instance + bridging lemmas; panic-freedom in the Res monad'),
 'C05': ('colorimetric definition of RGB<->XYZ', 'Theorems: the generated matrices are within 5e-8 of P*diag(P^-1 W) computed from primaries and white point with Mathlib\'s matrix inverse (Bradford for D50), the curves are definitionally IEC 61966-2-1 / gamma 563/256, forward XYZ within 1e-6 of the spec, reverse = inverse matrix, curve, one round-to-nearest quantiser; white and black.', 'norm_num on generated constants + definitional unfolding'),
 'C06': ('CIE definitions', 'Theorems: xyY and Hunter Lab forward exact, CIELAB/CIELUV forward within 1e-3 of the exact CIE formulae (eps = 216/24389, kappa = 24389/27) for every 8-bit colour, reverse within 1e-5 on [0,1.1]^3 with Y > 0, black; Hunter reverse characterised exactly (returns -Z: recorded finding) and refuted at a witness.', 'exact identities + bounded constant mismatch'),
 'C07': ('OkLab / OkLch', 'Theorems: the code equals M2*cbrt(M1*max(s,0)^2.2) with Ottosson\'s matrices including signs (characterisation of the recorded linearisation finding, refuted against the sRGB-curve reading at a witness), OkLch exactly polar, reverse = published inverse, round trip within 5.8e-7 in linear light.', 'definitional theorems with signed matrix tables + bounded inverse'),
 'C08': ('encoded RGB spaces', 'Theorems: each conversion is definitionally matrix then standard curve (sRGB, Adobe 563/256, BT.709, BT.2020 12-bit, ST 2084 inverse with exact rational constants), curve inverses exact outside explicitly bounded slivers, forward closeness for 8-bit colours (sRGB 5e-6, Rec.709 1.3e-6, Adobe 2e-3, Rec.2020 2e-13 away from the OETF jump; unconditional 2.81e-6 is labelled partial), PQ forward characterised exactly (recorded finding).', 'definitional theorems against hand-written standards + Lipschitz bounds'),
 'C09': ('hexcone definitions', 'Theorems: hue = round-half-away of the hexcone angle wrapped into [0,360), a whole number; S/L/V/W/B equal the standard definitions exactly; reverse conversions equal the sector formulae under one quantiser per model (round for HSL, truncate for HSV/HWB) including the grey shortcuts.', 'case analysis on max channel / sector over the reals'),
 'C10': ('CMYK, YUV, YCbCr, grayscale formulas', 'Theorems: every forward and reverse conversion equals its cited formula exactly over the reals, with a single quantiser per conversion, saturating at 0 and 255.', 'definitional unfolding + ring/norm_num on generated literals'),
 'C11': ('neutrals stay neutral', 'Theorems for every grey: exact achromaticity in the rational spaces; |a|,|b|,|u|,|v|, chroma bounds in Lab/Luv/LCh/HCL/Hunter (< 1e-3) and OkLab/OkLch (< 1e-6), xyY chromaticity within 1e-4, equal encoded channels (2e-3 relative) in sRGB/Adobe/Rec.709/Rec.2020/Rec.2100, white and black lightness.', 'algebra on generated constants (row sums) + cube-root perturbation bounds'),
 'C12': ('brightening never darkens', 'Theorems: weak monotonicity of luma/value/lightness/grayscale/-K; strict monotonicity of X,Y,Z for all profiles and of the CIELAB, CIELUV (quantitative across the branch jump), Hunter and OkLab lightness for every one-step channel increase.', 'monotonicity lemmas; quantitative step bound dY >= 2e-5'),
 'C13': ('outputs in range', 'Theorems: range of every listed component for every 8-bit colour (hexcone percentages and hue, CMYK, YUV, YCbCr, grayscale, XYZ between black and white, lightness ranges, chroma >= 0, hue ranges, encoded channels, ANSI code ranges).', 'interval reasoning'),
 'C14': ('cylindrical = polar of parent', 'Theorems for arbitrary XYZ / arbitrary polar values: shared lightness, chroma = sqrt(a^2+b^2), hue = arg in degrees with the code\'s wrap (radians for OkLch), HWB from HSV, exact reconstruction of the Cartesian parent for any L, C >= 0, h.', 'Complex.arg / trig identities'),
 'C15': ('hex text', 'Theorems over ALL strings (unbounded lists of code points, multi-byte included) about the hand model of hex.rs: parse succeeds with c iff the text spells c (parse_iff), canonical lower-case format, parse(format c) = c, acceptance of 3/6 digits either case with optional #, rejection of non-hex colour positions.', 'structural proofs on List Nat; model tied to hex.rs by correspondence on shaped/random strings'),
 'C16': ('ANSI-256 decode', 'Kernel decision (decide +kernel) over all 256 codes on the generated decoder including its checked u8 arithmetic and the hex parser it goes through: result = xterm palette, no panic, no error.', 'decide +kernel over Fin 256 on the generated definition'),
 'C17': ('RGB -> ANSI', 'Theorems: the generated encoders equal the documented formulas (round-half-away as natural-number arithmetic) and never panic; never a system colour, neutral monotone grey ramp, decode within 69 (11 for greys) by kernel computation over the 256 levels lifted to all triples; ANSI-16 code set.', 'formula equality + per-level decide lifted'),
 'C18': ('tint and shade', 'Theorems on the fuel-indexed model of the generated loop: invalid real factors rejected with zero iterations (NaN on the partial-real instance, C04); closed form for 0 < f <= 1 (entry i = Q(c moved i*f)), length floor(1/f)+1, first entry, monotonicity, last entry black/white, termination within 258 iterations for f >= 1/256.', 'induction over the generated loop'),
 'C19': ('helpers and vector marshalling', 'Theorems for arbitrary dictionaries (all type pairs at once): helpers = explicit two-step composition with None = D65; per type from_vec (as_vec x) = x, documented order, defaults on short vectors, last-element behaviour on long ones, scale = x100.', 'unfolding of generated generic functions'),
 'C20': ('JS marshalling', 'Theorems about the model generated from the MIR of the crate built with --features js, i.e. from the real derive-macro expansions: for each of the 25 deriving structs (template re-instantiated on every run) and for Shade/Tint: keys written = field names, read(write x) = x, the empty object and an object lacking any one field are rejected with InvalidArg. N-API objects are modelled as association lists (assumed).', 'association-list object model; per-struct template; induction for the list loops'),
}

def has_theorems(pid):
    fs = [os.path.join(V, f'lean/LymuiVerif/Props/{pid}.lean')] + glob.glob(os.path.join(V, f'lean/LymuiVerif/Props/{pid}_*.lean'))
    return any(os.path.exists(f) and re.search(r'^\s*theorem\s', open(f).read(), flags=re.M) for f in fs)

def main():
    na_path = os.path.join(V, 'tools/not_applicable.json')
    na_reasons = json.load(open(na_path)) if os.path.exists(na_path) else {}
    checks, na = [], []
    for pid in sorted(P):
        title, text, tech = P[pid]
        if not has_theorems(pid):
            na.append({'property_id': pid, 'reason': na_reasons.get(pid, 'not claimed yet: no kernel-checked theorem for this property is committed; the oracle sweep exists but a sweep is not a proof')})
            continue
        checks.append({
            'property_id': pid,
            'quick_cmd': f'./check {pid} --tier quick',
            'thorough_cmd': f'./check {pid} --tier thorough',
            'evidence_file': f'/verif/evidence/{pid}.json',
            'replay_cmd_template': f'./check {pid} --replay {{path}}',
            'engine': 'lean-proof',
            'level_claimed': {'category': 'proof', 'text': f'{title}: {text} ' + (FP_TEXT.get(pid, '') + ' ' if FP_TEXT.get(pid) else '') + f'The model is regenerated from rustc MIR of /repo\'s working tree on every run, so the theorems are re-checked against the current code.', 'design_ref': 'DESIGN.md sections 7, 13 and 16'},
            'level_note': COMMON_NOTE,
            'technique': 'Lean 4 theorems on a model regenerated from MIR; ' + tech + ('; rounded-arithmetic (standard model) theorems' if FP_TEXT.get(pid) else ''),
        })
    m = {
        'version': 1,
        'setup_cmd': './setup.sh',
        'hooks': {'guard': 'cfg(lymui_verif)', 'enable': 'RUSTFLAGS="--cfg lymui_verif" when building harness/ against /repo/lymui (done by ./check)',
                  'baseline_off_cmd': 'cd /repo && cargo test --workspace --no-fail-fast --offline', 'source_commits': ['cd5f6cf'], 'add_only': True},
        'engines': [{'name': 'lean-proof', 'path': '/verif/check', 'serves_properties': [c['property_id'] for c in checks],
                     'kind_free_text': 'MIR->Lean translator (tools/mir2lean.py), Lean 4 theorems (lean/LymuiVerif/Props), axiom audit, Float-instance correspondence against the real crate (harness corr), formal binary64 rounding compared bit for bit with the hardware (driver @R), Rust oracle sweep for witness search (harness sweep), real derive-macro expansions against an in-memory N-API object (harness_js)'}],
        'checks': checks,
        'notes': 'Every check regenerates the model from /repo\'s working tree (cargo rustc --emit=mir), rebuilds the property\'s theorem modules, audits axioms, runs the correspondence and the oracle sweep. Known findings: known_findings.json.',
        'not_applicable': na,
    }
    json.dump(m, open(os.path.join(V, 'MANIFEST.json'), 'w'), indent=1)
    print('claimed:', [c['property_id'] for c in checks], 'not claimed:', [n['property_id'] for n in na])

if __name__ == '__main__':
    main()
