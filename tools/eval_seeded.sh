#!/bin/bash
# usage: eval_seeded.sh <dir with patch.diff demo.rs meta.json> <name> <property ids to check...>
# Confirms the seeded change independently in a scratch worktree (tests still pass, demo fails with / passes without),
# then runs the registered checks against /repo with the patch applied, reverts, and files the result under /verif/seeded/<name>/.
D=$1; NAME=$2; shift 2
S=${MUT_SUFFIX:-}
WT=/tmp/wt_eval_$NAME
OUT=/verif/seeded/$NAME
mkdir -p $OUT
git -C /repo worktree remove --force $WT 2>/dev/null
git -C /repo worktree add --detach $WT HEAD -q
export CARGO_TARGET_DIR=/tmp/wt_eval_target$S CARGO_NET_OFFLINE=true
cp $D/demo.rs $WT/lymui/tests/demo.rs 2>/dev/null || { mkdir -p $WT/lymui/tests; cp $D/demo.rs $WT/lymui/tests/demo.rs; }
( cd $WT && cargo test --offline -p lymui --test demo 2>&1 | grep -E "^test result|error" | head -3 ) > $OUT/demo_clean.txt
git -C $WT apply $D/patch.diff || echo "PATCH DOES NOT APPLY" >> $OUT/demo_clean.txt
( cd $WT && cargo test --offline -p lymui --lib 2>&1 | grep -E "^test result|error\[" | head -3 ) > $OUT/suite_patched.txt
( cd $WT && cargo test --offline -p lymui --test demo 2>&1 | grep -E "^test result|error\[" | head -3 ) > $OUT/demo_patched.txt
git -C /repo worktree remove --force $WT
cp $D/patch.diff $D/demo.rs $D/meta.json $OUT/
# now the checks: in a private copy of /verif wired to a scratch worktree of /repo (tools/mutcopy.sh), so that neither
# /repo nor /verif/lean/LymuiVerif/Gen is disturbed (equivalent to `git -C /repo apply` + run + `git -C /repo checkout -- .`)
unset CARGO_TARGET_DIR
/verif/tools/mutcopy.sh > /dev/null
git -C /tmp/repo_mut$S apply $D/patch.diff || { echo "patch does not apply"; exit 2; }
: > $OUT/checks.txt
for id in "$@"; do
  echo "--- ./check $id --tier quick" >> $OUT/checks.txt
  ( cd /tmp/verif_mut$S && VERIF_REPO=/tmp/repo_mut$S timeout 3000 ./check $id --tier quick 2>&1 | tail -8 | sed "s#/tmp/verif_mut$S#/verif#g" ) >> $OUT/checks.txt
done
git -C /tmp/repo_mut$S checkout -- .
echo "== $NAME"; echo -n "demo on clean tree:   "; cat $OUT/demo_clean.txt; echo -n "suite with patch:     "; cat $OUT/suite_patched.txt; echo -n "demo with patch:      "; cat $OUT/demo_patched.txt; grep -E "^---|VIOLATION|^OK" $OUT/checks.txt
