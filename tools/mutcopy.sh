#!/bin/bash
# Create (or refresh) a private copy of /verif wired to a scratch worktree of /repo, so that seeded changes can be
# evaluated without touching /repo or /verif/lean while proof agents read them.
#   tools/mutcopy.sh            -> /tmp/verif_mut  +  /tmp/repo_mut
# Then:  cd /tmp/verif_mut && git -C /tmp/repo_mut apply patch.diff && VERIF_REPO=/tmp/repo_mut ./check C10 ; git -C /tmp/repo_mut checkout -- .
set -e
git -C /repo worktree remove --force /tmp/repo_mut 2>/dev/null || true
git -C /repo worktree add --detach /tmp/repo_mut HEAD -q
mkdir -p /tmp/verif_mut
rsync -a --delete --exclude .git /verif/ /tmp/verif_mut/
sed -i 's#path = "/repo/lymui"#path = "/tmp/repo_mut/lymui"#' /tmp/verif_mut/harness/Cargo.toml
sed -i 's#path = "/repo/js-macro"#path = "/tmp/repo_mut/js-macro"#' /tmp/verif_mut/harness_js/Cargo.toml
sed -i 's#target-dir = "/verif/.cache/harness-js-target"#target-dir = "/tmp/verif_mut/.cache/harness-js-target"#' /tmp/verif_mut/harness_js/.cargo/config.toml
sed -i 's#target-dir = "/verif/.cache/harness-target"#target-dir = "/tmp/verif_mut/.cache/harness-target"#' /tmp/verif_mut/harness/.cargo/config.toml
rm -f /tmp/verif_mut/.cache/prepare.stamp
echo "ready: /tmp/verif_mut (VERIF_REPO=/tmp/repo_mut)"
