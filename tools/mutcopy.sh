#!/bin/bash
# Create (or refresh) a private copy of /verif wired to a scratch worktree of /repo, so that seeded changes can be
# evaluated without touching /repo or /verif/lean while proof agents read them.
#   tools/mutcopy.sh            -> /tmp/verif_mut$S  +  /tmp/repo_mut$S
# Then:  cd /tmp/verif_mut$S && git -C /tmp/repo_mut$S apply patch.diff && VERIF_REPO=/tmp/repo_mut$S ./check C10 ; git -C /tmp/repo_mut$S checkout -- .
set -e
S=${MUT_SUFFIX:-}
git -C /repo worktree remove --force /tmp/repo_mut$S 2>/dev/null || true
git -C /repo worktree add --detach /tmp/repo_mut$S HEAD -q
mkdir -p /tmp/verif_mut$S
rsync -a --delete /verif/ /tmp/verif_mut$S/
sed -i "s#path = \"/repo/lymui\"#path = \"/tmp/repo_mut$S/lymui\"#" /tmp/verif_mut$S/harness/Cargo.toml
sed -i "s#path = \"/repo/js-macro\"#path = \"/tmp/repo_mut$S/js-macro\"#" /tmp/verif_mut$S/harness_js/Cargo.toml
sed -i "s#target-dir = \"/verif/.cache/harness-js-target\"#target-dir = \"/tmp/verif_mut$S/.cache/harness-js-target\"#" /tmp/verif_mut$S/harness_js/.cargo/config.toml
sed -i "s#target-dir = \"/verif/.cache/harness-target\"#target-dir = \"/tmp/verif_mut$S/.cache/harness-target\"#" /tmp/verif_mut$S/harness/.cargo/config.toml
rm -f /tmp/verif_mut$S/.cache/prepare.stamp
echo "ready: /tmp/verif_mut$S (VERIF_REPO=/tmp/repo_mut$S)"
