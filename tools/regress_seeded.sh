#!/bin/bash
# Re-run every kept seeded change against the current machinery (three lanes in parallel) and rewrite seeded/<id>/checks.txt.
# usage: tools/regress_seeded.sh            (takes about two hours; never run it while editing tools/eval_seeded*.sh)
cd /verif
ls -d seeded/C*-* | sort > /tmp/regress_all.txt
split -n l/3 -d /tmp/regress_all.txt /tmp/regress_lane_
i=0
for lane in a b c; do
  f=/tmp/regress_lane_0$i; i=$((i+1))
  ( export MUT_SUFFIX=$lane
    while read d; do
      name=$(basename $d)
      ids=$(grep -oE '^--- ./check C[0-9]+' $d/checks.txt | awk '{print $3}' | tr '\n' ' ')
      [ -z "$ids" ] && ids=${name%%-*}
      mkdir -p /tmp/regress_src/$name; cp $d/patch.diff $d/demo.rs $d/meta.json /tmp/regress_src/$name/
      if [ "${name%%-*}" = "C20" ]; then tools/eval_seeded_js.sh /tmp/regress_src/$name $name $ids; else tools/eval_seeded.sh /tmp/regress_src/$name $name $ids; fi
    done < $f ) > /tmp/regress_$lane.log 2>&1 &
done
wait
grep -hE "^==|VIOLATION|^OK" /tmp/regress_a.log /tmp/regress_b.log /tmp/regress_c.log > /tmp/regress_summary.txt
echo "done: $(grep -c '^==' /tmp/regress_summary.txt) changes re-evaluated"
