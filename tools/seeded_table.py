#!/usr/bin/env python3
"""Print the markdown table of DESIGN.md section 14 from /verif/seeded/*/ (meta.json + checks.txt)."""
import json, os, re, glob
V = os.path.abspath(os.path.join(os.path.dirname(__file__), '..'))
rows = []
for d in sorted(glob.glob(os.path.join(V, 'seeded', '*'))):
    name = os.path.basename(d)
    try: meta = json.load(open(os.path.join(d, 'meta.json')))
    except Exception: meta = {}
    summ = re.sub(r'\s+', ' ', str(meta.get('summary', ''))).replace('|', '/')
    if len(summ) > 170: summ = summ[:167] + '...'
    needs = re.sub(r'\s+', ' ', str(meta.get('needs', ''))).replace('|', '/')
    if len(needs) > 110: needs = needs[:107] + '...'
    chk = open(os.path.join(d, 'checks.txt')).read() if os.path.exists(os.path.join(d, 'checks.txt')) else ''
    res = []
    cur = None
    for line in chk.split('\n'):
        m = re.match(r'^--- ./check (C\d+)', line)
        if m: cur = m.group(1); continue
        if line.startswith('VIOLATION'):
            res.append(f'{cur}: violation' + (' (no-failing-input-found)' if 'no-failing-input-found' in line else ', witness'))
        elif line.startswith('OK'):
            res.append(f'{cur}: not affected (OK)')
    wit = ''
    m = re.search(r'^  (C\d+\.[\w.]+): (.*)$', chk, flags=re.M)
    if m: wit = (m.group(1) + ': ' + m.group(2)).replace('|', '/')[:150]
    broke = 'proof/tie broken' if 'broken:' in chk else ''
    rows.append(f'| {name} | {summ} | {needs} | {"; ".join(res)} | {wit} {("(" + broke + ")") if broke else ""} |')
print('| id | change | needs | checks run and outcome | first witness reported |')
print('|---|---|---|---|---|')
print('\n'.join(rows))
