#!/usr/bin/env python3
"""Self-test of the translator's semantics-preserving normalisations (run by setup.sh): operand order of + and *,
x.powi(2) ~ x*x, if-polarity, inlining of helpers that the reference lacks.  Exits non-zero on failure."""
import sys, os
sys.path.insert(0, os.path.dirname(os.path.abspath(__file__)))
import mir2lean as T

def check(name, cond):
    if not cond:
        print('FAIL', name); sys.exit(1)

# whole-definition orientation
ref = {'f': 'def f {α : Type} [Flt α] (x_1 : α) (y_2 : α) : α :=\n  (((Flt.lit 0x1 1 2) * x_1) + (y_2 * y_2))'}
new = 'def f {α : Type} [Flt α] (x_1 : α) (y_2 : α) : α :=\n  ((Flt.powi y_2 (2 : Int)) + (x_1 * (Flt.lit 0x1 1 2)))'
check('orient whole def', T.orient_like_reference(new, ref) == ref['f'])
# non-commutative operators are never touched
new2 = 'def f {α : Type} [Flt α] (x_1 : α) (y_2 : α) : α :=\n  ((x_1 - y_2) / (y_2 - x_1))'
ref2 = {'f': 'def f {α : Type} [Flt α] (x_1 : α) (y_2 : α) : α :=\n  ((y_2 - x_1) / (x_1 - y_2))'}
check('sub/div untouched', T.orient_like_reference(new2, ref2) == new2)
# sub-term orientation when something else changed
ref3 = {'g': 'def g {α : Type} [Flt α] (x_1 : α) : α :=\n  (((Flt.lit 0x1 1 2) * x_1) - (Flt.lit 0x2 3 1))'}
new3 = 'def g {α : Type} [Flt α] (x_1 : α) : α :=\n  ((x_1 * (Flt.lit 0x1 1 2)) - (Flt.lit 0x2 4 1))'
check('orient sub-term', T.orient_like_reference(new3, ref3) == 'def g {α : Type} [Flt α] (x_1 : α) : α :=\n  (((Flt.lit 0x1 1 2) * x_1) - (Flt.lit 0x2 4 1))')
# different operands are not confused
check('canon distinguishes', T._canon('(a * b)') != T._canon('(a * c)') and T._canon('(a + b)') != T._canon('(a * b)'))
check('canon commutes', T._canon('((a * b) + c)') == T._canon('(c + (b * a))'))
check('canon square', T._canon('(Flt.powi (a + b) (2 : Int))') == T._canon('((b + a) * (a + b))'))
check('canon cube is not a square', T._canon('(Flt.powi a (3 : Int))') != T._canon('(a * a)'))
check('canon half', T._canon('((a + b) / (Flt.lit 0x4000000000000000 2 1))') == T._canon('((Flt.lit 0x3FE0000000000000 1 2) * (b + a))'))
check('canon third is not half', T._canon('(a / (Flt.lit 0x4008000000000000 3 1))') != T._canon('(a * (Flt.lit 0x3FE0000000000000 1 2))'))
ref7 = {'m': 'def m {α : Type} [Flt α] (x_1 : α) : α :=\n  (x_1 / (Flt.lit 0x4000000000000000 2 1))'}
new7 = 'def m {α : Type} [Flt α] (x_1 : α) : α :=\n  (x_1 * (Flt.lit 0x3FE0000000000000 1 2))'
check('half oriented', T.orient_like_reference(new7, ref7) == ref7['m'])
# negations
check('negations', '(Flt.beq k_1 one)' in T._negations('(!(Flt.beq k_1 one))') and '(a == b)' in T._negations('(a != b)'))
# a scalar constant and its literal
T.REF_SCALAR_CONSTS.clear(); T.REF_SCALAR_CONSTS['C.EPS'] = '(Flt.lit 0x3F 1107 125000)'
ref4 = {'k': 'def k {α : Type} [Flt α] (x_1 : α) : α :=\n  ((C.EPS : α) * x_1)'}
new4 = 'def k {α : Type} [Flt α] (x_1 : α) : α :=\n  (x_1 * (Flt.lit 0x3F 1107 125000))'
check('const ~ literal (whole def)', T.orient_like_reference(new4, ref4) == ref4['k'])
new5 = 'def k {α : Type} [Flt α] (x_1 : α) : α :=\n  ((x_1 * (Flt.lit 0x3F 1107 125000)) - x_1)'
check('const ~ literal (sub-term)', '(C.EPS : α)' in T.orient_like_reference(new5, ref4))
new6 = 'def k {α : Type} [Flt α] (x_1 : α) : α :=\n  (x_1 * (Flt.lit 0x3F 1108 125000))'
check('another literal is not the constant', 'C.EPS' not in T.orient_like_reference(new6, ref4))
T.REF_SCALAR_CONSTS.clear()
# inlining of a helper that the reference does not have
emitted = {
  'pct': ('def pct {α : Type} [Flt α] (x_1 : α) : α :=\n  (x_1 * (Flt.lit 0x4059000000000000 100 1))', set()),
  'h': ('def h {α : Type} [Flt α] (x_1 : α) (d_2 : α) : α :=\n  ((pct (d_2 / x_1)) + (pct x_1))', {'pct'}),
}
done = T.inline_new_helpers(emitted, {'h': 'whatever'})
txt = emitted['h'][0]
check('inline happened', done == {'pct'} and '(pct ' not in txt and txt.count('let inl') == 2)
check('inline binds the argument, renamed apart', ':= (d_2 / x_1);' in txt and 'inl' in txt and '* (Flt.lit 0x4059000000000000 100 1)' in txt)
check('helper kept', emitted['pct'][0].startswith('def pct'))
# a helper known to the reference is not inlined
emitted2 = dict(emitted); emitted2['h'] = ('def h {α : Type} [Flt α] (x_1 : α) : α :=\n  (pct x_1)', {'pct'})
check('known helper not inlined', T.inline_new_helpers(emitted2, {'pct': 'x', 'h': 'y'}) == set())
# a renamed function is emitted under the reference name; a renamed function whose body changed is not
refr = {'Luv.cc': 'def Luv.cc {α : Type} [Flt α] (x_1 : α) : α :=\n  (x_1 * (Flt.lit 0x4010000000000000 4 1))', 'Luv.f': 'def Luv.f {α : Type} [Flt α] (x_1 : α) : α :=\n  (Luv.cc x_1)'}
em = {'Luv.chroma': ('def Luv.chroma {α : Type} [Flt α] (x_1 : α) : α :=\n  ((Flt.lit 0x4010000000000000 4 1) * x_1)', set()),
      'Luv.f': ('def Luv.f {α : Type} [Flt α] (x_1 : α) : α :=\n  (Luv.chroma x_1)', {'Luv.chroma'})}
rep = {'translated': [{'name': 'Luv.chroma'}, {'name': 'Luv.f'}]}
rn = T.rename_like_reference(em, refr, rep)
check('rename detected', rn == {'Luv.cc': 'Luv.chroma'} and 'Luv.cc' in em and 'Luv.chroma' not in em and '(Luv.cc x_1)' in em['Luv.f'][0] and em['Luv.f'][1] == {'Luv.cc'} and rep['translated'][0]['name'] == 'Luv.cc')
em2 = {'Luv.chroma': ('def Luv.chroma {α : Type} [Flt α] (x_1 : α) : α :=\n  ((Flt.lit 0x4014000000000000 5 1) * x_1)', set()),
       'Luv.f': ('def Luv.f {α : Type} [Flt α] (x_1 : α) : α :=\n  (Luv.chroma x_1)', {'Luv.chroma'})}
check('renamed and changed is not identified', T.rename_like_reference(em2, refr, {'translated': []}) == {} and 'Luv.chroma' in em2)
em3 = dict(em2); em3['Luv.cc'] = (refr['Luv.cc'], set())
check('no rename onto a name still in use', T.rename_like_reference(em3, refr, {'translated': []}) == {})
print('normalisation self-test: ok')
