#!/usr/bin/env python3
"""gen_dispatch: from mir2lean's report, generate the two ends of the correspondence line protocol

  lean/LymuiVerif/Gen/Dispatch.lean   (Wire instances for generated structures + name -> call table, at Float)
  harness/src/gen_dispatch.rs         (Wire impls for the crate's types + name -> call table on the real crate)

usage: gen_dispatch.py report.json <repo-root> <lean-out> <rust-out>
"""
import json, sys, re, os
sys.path.insert(0, os.path.dirname(__file__))
from mir2lean import split_top, find_top, write_if_changed

PUB_TRAITS = {'From', 'TryFrom', 'FromRgb', 'AsVec', 'FromVec', 'GeneratorOps', 'Default'}
HOOKED_TRAITS = {'GammaCorrection', 'HdrCorrection', 'PivotFloat'}

def main():
    rep = json.load(open(sys.argv[1])); root = sys.argv[2]; lean_out = sys.argv[3]; rust_out = sys.argv[4]
    hooks = '--hooks' in sys.argv
    structs = rep['structs']; enums = rep['enums']
    float_struct = lambda n: any('f64' in t for _, t in structs[n]['fields'])

    # ---------------- type mapping
    def rust_path(name):
        info = structs[name]
        # module path from file location
        for dp, _, fs in os.walk(os.path.join(root, 'lymui/src')):
            for f in fs:
                if not f.endswith('.rs'): continue
                txt = open(os.path.join(dp, f)).read()
                if re.search(r'pub struct ' + name + r'\b', txt):
                    rel = os.path.relpath(os.path.join(dp, f), os.path.join(root, 'lymui/src'))[:-3]
                    parts = [p for p in rel.split('/') if p != 'mod']
                    return 'lymui::' + '::'.join(parts + [name])
        raise KeyError(name)

    def rty(t):
        """rust type as usable from the harness crate"""
        t = t.strip()
        if t.startswith('&'):
            t = re.sub(r"^&('\w+ )?(mut )?", '', t); return rty(t)
        if t.startswith('('):
            return '(' + ', '.join(rty(p) for p in split_top(t[1:-1])) + ')'
        i = find_top(t, '<')
        if i >= 0:
            base = t[:i].split('::')[-1]; args = split_top(t[i + 1:-1])
            return f'{base}<{", ".join(rty(a) for a in args)}>'
        if t in ('xyz::Kind', 'Kind'): return 'lymui::xyz::Kind'
        if t == 'grayscale::Kind': return 'lymui::grayscale::Kind'
        if t == 'AnsiKind': return 'lymui::ansi::AnsiKind'
        if t in ('error::Error', 'Error'): return 'lymui::error::Error'
        name = t.split('::')[-1]
        if name in structs: return rust_path(name)
        return t

    def lty(t, carrier='Float'):
        t = t.strip()
        if carrier != 'Float': return lty(t).replace('Float', carrier)
        if t.startswith('&'):
            t = re.sub(r"^&('\w+ )?(mut )?", '', t); return lty(t)
        if t == '()': return 'Unit'
        if t.startswith('('):
            return '(' + ' × '.join(lty(p) for p in split_top(t[1:-1])) + ')'
        i = find_top(t, '<')
        if i >= 0:
            base = t[:i].split('::')[-1]; args = split_top(t[i + 1:-1])
            if base == 'Vec': return f'(List {lty(args[0])})'
            if base == 'Option': return f'(Option {lty(args[0])})'
            if base == 'Result': return f'(Except {lty(args[1])} {lty(args[0])})'
        if t == 'f64': return 'Float'
        if t in ('u8', 'usize'): return 'Nat'
        if t == 'i64': return 'Int'
        if t == 'bool': return 'Bool'
        if t in ('xyz::Kind', 'Kind'): return 'XyzKind'
        if t == 'grayscale::Kind': return 'GrayscaleKind'
        if t == 'AnsiKind': return 'AnsiKind'
        if t in ('error::Error', 'Error'): return 'LError'
        if t in ('String', 'str'): return 'Str'
        name = t.split('::')[-1]
        if name in structs: return f'({name} Float)' if float_struct(name) else name
        raise KeyError('lty ' + t)

    def supported(t):
        try: lty(t); return 'Target' not in t and '[f64' not in t and t.strip() not in ('T', 'E', 'K')
        except KeyError: return False

    # ---------------- which functions
    funcs = []
    for f in rep['translated']:
        if f['tparams'] or f['dicts']: continue
        if not all(supported(p) for p in f['params']) or not supported(f['ret']): continue
        tr = (f['trait'] or '')
        trn = tr.split('<')[0]
        src = open(os.path.join(root, f['file'])).read() if f['file'] else ''
        if f['trait']:
            if trn in PUB_TRAITS: vis = 'pub'
            elif trn in HOOKED_TRAITS: vis = 'hook'
            else: continue
        else:
            if f['selft'] is None: vis = 'pub' if re.search(r'pub fn ' + f['fnname'] + r'\b', open(os.path.join(root, 'lymui/src/lib.rs')).read()) else None
            else: vis = 'pub' if re.search(r'pub fn ' + f['fnname'] + r'\b', src) else None
            if vis is None: continue
        if vis == 'hook' and not hooks: continue
        funcs.append((f, vis))

    # hand-modelled entry points (hex.rs)
    for name, params, ret, trait, selft, fnname in [('Rgb.try_from_Hex', ['Hex'], 'Result<Rgb, error::Error>', 'TryFrom<Hex>', 'Rgb', 'try_from'),
                                                     ('Hex.from_Rgb', ['Rgb'], 'Hex', 'From<Rgb>', 'Hex', 'from')]:
        funcs.append(({'name': name, 'params': params, 'ret': ret, 'trait': trait, 'selft': selft, 'fnname': fnname, 'monadic': False, 'fuel': False,
                       'alpha': 'none', 'file': 'lymui/src/hex.rs', 'tparams': [], 'dicts': []}, 'pub'))

    # ---------------- Lean
    L = ['-- GENERATED by tools/gen_dispatch.py; do not edit.', 'import LymuiVerif.Gen.Model', 'import LymuiVerif.Inst.Float', 'import LymuiVerif.Inst.Exact', 'import LymuiVerif.Core.Wire', 'namespace Gen', 'open Wire', '']
    for name, info in structs.items():
        ty = f'({name} α)' if float_struct(name) else name
        fl = info['fields']
        L.append(f'instance {{α : Type}} [Wire α] : Wire {ty} where' if float_struct(name) else f'instance : Wire {ty} where')
        L.append('  rd := do')
        for k_, (fn_, ft) in enumerate(fl): L.append(f'    let f{k_}_ : {lty(ft, "α")} ← Wire.rd')
        L.append('    pure { ' + ', '.join(f'{fn_} := f{k_}_' for k_, (fn_, _) in enumerate(fl)) + ' }')
        L.append('  wr v := ' + ' ++ '.join(f'Wire.wr v.{fn_}' for fn_, _ in fl))
        L.append('')
    for ln, vs in enums.items():
        if any(ps for _, ps in vs):
            if ln != 'LError': continue
            # errors: only the kind is compared
            L.append(f'instance : Wire {ln} where')
            L.append('  rd := Reader.fail')
            L.append('  wr v := match v with')
            for i, (v, ps) in enumerate(vs): L.append(f'    | .{v}{" _" * len(ps)} => [toString {i}]')
            L.append('')
            continue
        L.append(f'instance : Wire {ln} where')
        L.append('  rd := do')
        L.append('    let k : Nat ← Wire.rd')
        L.append('    match k with')
        for i, (v, _) in enumerate(vs): L.append(f'    | {i} => pure {ln}.{v}')
        L.append('    | _ => Reader.fail')
        L.append('  wr v := match v with')
        for i, (v, _) in enumerate(vs): L.append(f'    | .{v} => [toString {i}]')
        L.append('')
    L.append('def dispatchFuel : Nat := 100000')
    for carrier, dname in (('Float', 'dispatch'), ('Rat', 'dispatchQ')):
        L.append(f'def {dname} (name : String) : Reader (List String) :=')
        L.append('  match name with')
        for f, vis in funcs:
            L.append(f'  | "{f["name"]}" => do')
            args = []
            for i, p in enumerate(f['params']):
                L.append(f'    let a{i} : {lty(p, carrier)} ← Wire.rd'); args.append(f'a{i}')
            pre = []
            if f['alpha'] == 'explicit': pre.append(carrier)
            if f['fuel']: pre.append('dispatchFuel')
            call = ' '.join([f['name']] + pre + args)
            if f['alpha'] == 'implicit': call = ' '.join([f['name'], f'(α := {carrier})'] + pre + args)
            rt = lty(f['ret'], carrier)
            muts = [p for p in f['params'] if p.startswith('&mut')]
            if muts:
                rt = lty(muts[0], carrier) if f['ret'] == '()' else f'({rt} × {lty(muts[0], carrier)})'
            if f['monadic']: L.append(f'    pure (Wire.wr (({call}) : Res {rt}))')
            else: L.append(f'    pure (Wire.wr (({call}) : {rt}))')
        L.append('  | _ => Reader.fail')
        L.append('')
    L.append('def dispatchNames : List String := [' + ', '.join(f'"{f["name"]}"' for f, _ in funcs) + ']')
    L.append('end Gen')
    write_if_changed(lean_out, '\n'.join(L) + '\n')

    # ---------------- Rust
    R = ['// GENERATED by tools/gen_dispatch.py; do not edit.', '#![allow(unused_imports, unused_variables, unused_mut, clippy::all)]',
         'use crate::wire::{Toks, Wire};', 'use lymui::rgb::FromRgb;', 'use lymui::util::{AsVec, FromVec};', 'use lymui::generator::GeneratorOps;', '']
    for name, info in structs.items():
        rp = rust_path(name)
        R.append(f'impl Wire for {rp} {{')
        if info['tuple']:
            R.append(f'    fn rd(t: &mut Toks) -> Self {{ {rp}(<{rty(info["fields"][0][1])} as Wire>::rd(t)) }}')
            R.append('    fn wr(&self, o: &mut Vec<String>) { self.0.wr(o); }')
        else:
            R.append(f'    fn rd(t: &mut Toks) -> Self {{ {rp} {{ ' + ', '.join(f'{fn_}: <{rty(ft)} as Wire>::rd(t)' for fn_, ft in info['fields']) + ' } }')
            R.append('    fn wr(&self, o: &mut Vec<String>) { ' + ' '.join(f'self.{fn_}.wr(o);' for fn_, _ in info['fields']) + ' }')
        R.append('}')
    enum_paths = {'XyzKind': 'lymui::xyz::Kind', 'GrayscaleKind': 'lymui::grayscale::Kind', 'AnsiKind': 'lymui::ansi::AnsiKind', 'LError': 'lymui::error::Error'}
    for ln, vs in enums.items():
        if ln not in enum_paths: continue
        rp = enum_paths[ln]
        R.append(f'impl Wire for {rp} {{')
        if any(ps for _, ps in vs):
            R.append('    fn rd(_t: &mut Toks) -> Self { panic!("no reader") }')
            R.append('    fn wr(&self, o: &mut Vec<String>) { let k = match self { ' + ' '.join(f'{rp}::{v}{"(..)" if ps else ""} => {i},' for i, (v, ps) in enumerate(vs)) + ' }; o.push(k.to_string()); }')
        else:
            R.append('    fn rd(t: &mut Toks) -> Self { match <usize as Wire>::rd(t) { ' + ' '.join(f'{i} => {rp}::{v},' for i, (v, _) in enumerate(vs)) + ' _ => panic!("bad enum") } }')
            R.append('    fn wr(&self, o: &mut Vec<String>) { let k = match self { ' + ' '.join(f'{rp}::{v} => {i},' for i, (v, _) in enumerate(vs)) + ' }; o.push(k.to_string()); }')
        R.append('}')
    R.append('')
    R.append('pub fn dispatch(name: &str, t: &mut Toks, o: &mut Vec<String>) -> bool {')
    R.append('    match name {')
    for f, vis in funcs:
        R.append(f'        "{f["name"]}" => {{')
        args = []
        for i, p in enumerate(f['params']):
            mut = 'mut ' if p.startswith('&mut') else ''
            R.append(f'            let {mut}a{i} = <{rty(p)} as Wire>::rd(t);')
            args.append(('&mut ' if p.startswith('&mut') else '&' if p.startswith('&') else '') + f'a{i}')
        tr = f['trait']; st = f['selft']
        if vis == 'hook':
            call = f'lymui::xyz::verif_hooks::{f["fnname"]}({", ".join(args)})'
        elif tr:
            selfp = 'f64' if st == 'Hue' else rty(st)
            trr = re.sub(r'\bKind\b', 'lymui::grayscale::Kind' if 'grayscale' in (f['file'] or '') else 'lymui::xyz::Kind', tr)
            trr = re.sub(r'\b(Rgb|Xyz|Luv|Lab|Hsl|Hsv|Hwb|Cymk|Yuv|Ycbcr|Ansi|AnsiKind|Hex|Srgb|Argb|Hcl|Hlab|Lchlab|Lchuv|OkLab|OkLch|Rec709|Rec2020|Rec2100|Xyy)\b', lambda m: rty(m.group(1)), trr)
            call = f'<{selfp} as {trr}>::{f["fnname"]}({", ".join(args)})'
        elif st:
            call = f'{rty(st)}::{f["fnname"]}({", ".join(args)})'
        else:
            call = f'lymui::{f["fnname"]}({", ".join(args)})'
        muts = [i for i, p in enumerate(f['params']) if p.startswith('&mut')]
        pre = 'o.push("ok".to_string()); ' if f['monadic'] else ''
        if muts:
            if f['ret'] == '()': R.append(f'            {call}; {pre}a{muts[0]}.wr(o);')
            else: R.append(f'            let r = {call}; {pre}r.wr(o); a{muts[0]}.wr(o);')
        else:
            R.append(f'            let r = {call}; {pre}r.wr(o);')
        R.append('            true }')
    R.append('        _ => false,')
    R.append('    }')
    R.append('}')
    R.append('')
    R.append('pub static FUNCS: &[(&str, &[&str], bool)] = &[')
    for f, vis in funcs:
        R.append(f'    ("{f["name"]}", &[' + ', '.join('"' + re.sub(r"^&('\w+ )?(mut )?", '', p) + '"' for p in f['params']) + f'], {"true" if f["monadic"] else "false"}),')
    R.append('];')
    write_if_changed(rust_out, '\n'.join(R) + '\n')
    sys.stderr.write(f'gen_dispatch: {len(funcs)} functions\n')

if __name__ == '__main__':
    main()
