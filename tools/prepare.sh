#!/bin/bash
# Regenerate the model from /repo's working tree and rebuild driver + harness.  Idempotent.
set -e
cd "$(dirname "$0")/.."
V=$(pwd)
mkdir -p .cache
export CARGO_NET_OFFLINE=true
( cd /repo && CARGO_TARGET_DIR=$V/.cache/mir-target cargo rustc --offline -q -p lymui --lib -- --emit=mir ) 2> .cache/mir.log || { cat .cache/mir.log; exit 3; }
MIR=$(ls -t .cache/mir-target/debug/deps/lymui-*.mir | head -1)
python3 tools/mir2lean.py "$MIR" /repo lean/LymuiVerif/Gen --report .cache/report.json 2> .cache/mir2lean.log || { cat .cache/mir2lean.log; exit 4; }
python3 tools/gen_dispatch.py .cache/report.json /repo lean/LymuiVerif/Gen/Dispatch.lean harness/src/gen_dispatch.rs $HOOKS 2>> .cache/mir2lean.log
( cd harness && cargo build --release -q 2> ../.cache/harness.log ) || { cat .cache/harness.log; exit 5; }
( cd lean && lake build driver > ../.cache/driver.log 2>&1 ) || { grep -v "^trace\|^info" .cache/driver.log | head -40; exit 6; }
cat .cache/mir2lean.log
