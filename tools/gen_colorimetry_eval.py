exec(open('mat.py').read().split("print('---- lean')")[0].replace("print(","(lambda *a,**k:None)("))
def L(x):
    x=F(x)
    return f"{x.numerator}/{x.denominator}" if x.denominator!=1 else f"{x.numerator}"
def LM(A): return "!![" + ";\n      ".join(", ".join(L(x) for x in r) for r in A) + "]"
def Pm(xs): return [[x/y for (x,y) in xs],[F(1)]*3,[(1-x-y)/y for (x,y) in xs]]
out=f'''import LymuiVerif.Spec.Colorimetry
/-!
# Exact rational evaluation of the colourimetric specification matrices

The inverses were computed offline and are CHECKED here (`B * A = 1` entrywise by `norm_num`,
then `Matrix.inv_eq_left_inv`), so the specification keeps Mathlib's `⁻¹`.
-/
namespace Lemmas.ColorimetryEval
open Matrix Spec.Colorimetry

macro "mat_eval" : tactic =>
  `(tactic| (ext i j; fin_cases i <;> fin_cases j <;>
    norm_num [primXYZ, srgbPrimaries, adobePrimaries, whiteD65, whiteD50, bradford,
      Matrix.mul_apply, Fin.sum_univ_three, Matrix.cons_val_two, Matrix.vecHead, Matrix.vecTail,
      Matrix.mulVec, dotProduct, Matrix.diagonal,
      (by decide : ¬ (0 : Fin 3) = 1), (by decide : ¬ (0 : Fin 3) = 2), (by decide : ¬ (1 : Fin 3) = 0),
      (by decide : ¬ (1 : Fin 3) = 2), (by decide : ¬ (2 : Fin 3) = 0), (by decide : ¬ (2 : Fin 3) = 1)]))

theorem primXYZ_srgb_inv : (primXYZ srgbPrimaries)⁻¹ =
    {LM(inv(Pm(srgb)))} := by
  apply Matrix.inv_eq_left_inv
  mat_eval

theorem primXYZ_adobe_inv : (primXYZ adobePrimaries)⁻¹ =
    {LM(inv(Pm(adobe)))} := by
  apply Matrix.inv_eq_left_inv
  mat_eval

theorem bradford_inv : bradford⁻¹ =
    {LM(inv(B))} := by
  apply Matrix.inv_eq_left_inv
  mat_eval

/-- sRGB primaries, D65 white -/
theorem rgbToXyz_srgb_D65 : rgbToXyz srgbPrimaries whiteD65 =
    {LM(S65)} := by
  rw [rgbToXyz, primXYZ_srgb_inv]
  mat_eval

/-- Adobe RGB (1998) primaries, D65 white -/
theorem rgbToXyz_adobe_D65 : rgbToXyz adobePrimaries whiteD65 =
    {LM(SA)} := by
  rw [rgbToXyz, primXYZ_adobe_inv]
  mat_eval

theorem adapt_D65_D50 : adapt whiteD65 whiteD50 =
    {LM(A)} := by
  rw [adapt, bradford_inv]
  mat_eval

/-- sRGB primaries, D65 white, Bradford-adapted to D50 -/
theorem rgbToXyz_srgb_D50 : adapt whiteD65 whiteD50 * rgbToXyz srgbPrimaries whiteD65 =
    {LM(S50)} := by
  rw [adapt_D65_D50, rgbToXyz_srgb_D65]
  mat_eval

/-- two matrices that agree up to `e` entrywise agree up to `3e` on the unit cube -/
theorem mulVec_close (G S : Mat3) (e : ℝ) (h : ∀ i j, |G i j - S i j| ≤ e) (l : Vec3)
    (hl : ∀ j, 0 ≤ l j ∧ l j ≤ 1) (i : Fin 3) : |(G *ᵥ l) i - (S *ᵥ l) i| ≤ 3 * e := by
  have he : 0 ≤ e := (abs_nonneg _).trans (h 0 0)
  obtain ⟨a0, b0⟩ := abs_le.mp (h i 0)
  obtain ⟨a1, b1⟩ := abs_le.mp (h i 1)
  obtain ⟨a2, b2⟩ := abs_le.mp (h i 2)
  obtain ⟨l0, l0'⟩ := hl 0
  obtain ⟨l1, l1'⟩ := hl 1
  obtain ⟨l2, l2'⟩ := hl 2
  simp only [Matrix.mulVec, dotProduct, Fin.sum_univ_three]
  rw [abs_le]
  constructor <;>
  nlinarith [mul_le_mul_of_nonneg_right b0 l0, mul_le_mul_of_nonneg_right b1 l1,
    mul_le_mul_of_nonneg_right b2 l2, mul_le_mul_of_nonneg_right a0 l0,
    mul_le_mul_of_nonneg_right a1 l1, mul_le_mul_of_nonneg_right a2 l2,
    mul_le_mul_of_nonneg_left l0' he, mul_le_mul_of_nonneg_left l1' he,
    mul_le_mul_of_nonneg_left l2' he]

end Lemmas.ColorimetryEval
'''
open('/tmp/w_C/lean/LymuiVerif/Lemmas/ColorimetryEval.lean','w').write(out)
