#!/bin/bash
# usage: try_mutant.sh <patch.diff> <property ids...>   — apply to /repo, run the checks, always revert
P=$1; shift
git -C /repo apply "$P" || { echo "patch does not apply"; exit 2; }
for id in "$@"; do
  echo "--- $id"; ( cd /verif && timeout 1800 ./check $id --tier quick | tail -6 )
done
git -C /repo checkout -- . 
