#!/usr/bin/env python3
"""Record the hashes of the generated model for the unchanged tree (run only with /repo clean, after ./check regenerated it)."""
import hashlib, json, os, subprocess, sys
V = os.path.abspath(os.path.join(os.path.dirname(__file__), '..'))
if subprocess.check_output(['git', '-C', '/repo', 'status', '--short']).decode().strip():
    sys.exit('refusing: /repo has uncommitted changes')
d = {n: hashlib.sha256(open(os.path.join(V, 'lean/LymuiVerif/Gen', n), 'rb').read()).hexdigest() for n in ('Model.lean', 'JsModel.lean', 'Types.lean')}
d['repo_head'] = subprocess.check_output(['git', '-C', '/repo', 'rev-parse', 'HEAD']).decode().strip()
json.dump(d, open(os.path.join(V, 'model_baseline.json'), 'w'), indent=1)
print(d)
