#!/usr/bin/env python3
"""mir2lean: translate rustc MIR of lymui into a Lean 4 model, generic in the number carrier.

usage: mir2lean.py <file.mir> <repo-root> <out.lean> [--report report.json]

Part of the trusted base (see DESIGN.md section 4).  Validated on every run by the
correspondence check (the generated definitions instantiated at Float against the real crate).
"""
import re, sys, struct, os, json
from fractions import Fraction

# ----------------------------------------------------------------------------- helpers

def split_top(s, sep=','):
    out, depth, cur, i = [], 0, '', 0
    instr = False
    while i < len(s):
        ch = s[i]
        if instr:
            cur += ch
            if ch == '\\': cur += s[i + 1]; i += 1
            elif ch == '"': instr = False
        else:
            if ch == '"': instr = True; cur += ch
            elif ch in '([{<': depth += 1; cur += ch
            elif ch in ')]}': depth -= 1; cur += ch
            elif ch == '>' and i > 0 and s[i - 1] not in '-=': depth -= 1; cur += ch
            elif ch == sep and depth == 0:
                out.append(cur.strip()); cur = ''
            else: cur += ch
        i += 1
    if cur.strip(): out.append(cur.strip())
    return out

def find_top(s, pat):
    """index of first occurrence of substring pat at bracket depth 0, else -1"""
    depth = 0; i = 0
    while i < len(s):
        ch = s[i]
        if depth == 0 and s.startswith(pat, i): return i
        if ch in '([{<': depth += 1
        elif ch in ')]}': depth -= 1
        elif ch == '>' and i > 0 and s[i - 1] not in '-=': depth -= 1
        i += 1
    return -1

class Unsupported(Exception): pass

def parse_call_term(t):
    """`lhs = callee(args) -> [return: bbN, unwind ...]`  ->  (lhs, callee, args, N or None); None if not a call"""
    i = t.find(' -> [return: bb'); nxt = None
    if i >= 0:
        nm = re.match(r' -> \[return: bb(\d+), unwind', t[i:])
        if not nm: return None
        nxt = int(nm.group(1))
    else:
        i = t.find(' -> unwind')
        if i < 0: return None
    body = t[:i]
    j = find_top(body, ' = ')
    if j < 0 or not body.endswith(')'): return None
    lhs, call = body[:j], body[j + 3:]
    depth = 0
    for k in range(len(call) - 1, -1, -1):
        if call[k] == ')': depth += 1
        elif call[k] == '(':
            depth -= 1
            if depth == 0:
                return (lhs, call[:k], call[k + 1:-1], nxt)
    return None

# ----------------------------------------------------------------------------- source scan

def scan_source(root):
    structs, enums = {}, {}
    src = os.path.join(root, 'lymui/src')
    for dp, _, fs in os.walk(src):
        for f in sorted(fs):
            if not f.endswith('.rs'): continue
            path = os.path.join(dp, f)
            txt = open(path).read()
            txt = txt.split('#[cfg(test)]')[0]
            mod = os.path.splitext(f)[0]
            if mod == 'mod': mod = os.path.basename(dp)
            for m in re.finditer(r'(?:pub )?struct (\w+)\s*\{(.*?)\n\}', txt, re.S):
                fields = re.findall(r'(?:pub )?(\w+)\s*:\s*([^,\n]+)', m.group(2))
                structs[m.group(1)] = {'fields': [(n, t.strip()) for n, t in fields], 'mod': mod, 'tuple': False}
            for m in re.finditer(r'(?:pub )?struct (\w+)\s*\(\s*(?:pub )?([^)]+)\);', txt):
                structs[m.group(1)] = {'fields': [('_0', m.group(2).strip())], 'mod': mod, 'tuple': True}
            for m in re.finditer(r'(?:pub )?enum (\w+)\s*\{(.*?)\n\}', txt, re.S):
                vs = []
                for v in split_top(re.sub(r'//[^\n]*', '', m.group(2))):
                    vm = re.match(r'^(\w+)(?:\((.*)\))?$', v.strip(), re.S)
                    if not vm: raise Unsupported('enum variant ' + v)
                    vs.append((vm.group(1), split_top(vm.group(2)) if vm.group(2) else []))
                enums[(mod, m.group(1))] = vs
    return structs, enums

def impl_header(root, loc):
    m = re.match(r'(\S+):(\d+):(\d+)', loc)
    path, line = m.group(1), int(m.group(2))
    lines = open(os.path.join(root, path)).read().split('\n')
    hdr = lines[line - 1]
    m = re.match(r'\s*impl(?:<[^>]*>)?\s+(?:(.+?)\s+for\s+)?([\w:<>, ]+?)\s*\{?\s*$', hdr)
    if not m:
        # derive attribute line: find following struct
        if 'derive' in hdr:
            for l in lines[line - 1: line + 12]:
                sm = re.match(r'\s*(?:pub )?(?:struct|enum) (\w+)', l)
                if sm:
                    col = int(loc.split(':')[2])
                    word = re.match(r'\w+', hdr[col - 1:])
                    return (word.group(0) if word else 'Derive', sm.group(1), path)
        return (None, None, path)
    return (m.group(1), m.group(2).strip(), path)

# ----------------------------------------------------------------------------- MIR parsing

class Fn: pass

def split_items(text):
    items, cur = [], []
    for line in text.split('\n'):
        if re.match(r'^(fn |const |static |alloc\d+ )', line) and cur:
            items.append('\n'.join(cur)); cur = []
        cur.append(line)
    if cur: items.append('\n'.join(cur))
    return items

def parse_body(f, lines):
    f.locals = {}
    f.debug = {}
    f.blocks = {}
    cur = None
    for line in lines:
        s = line.strip()
        lm = re.match(r'let (?:mut )?_(\d+): (.*);$', s)
        if lm: f.locals[int(lm.group(1))] = lm.group(2); continue
        dm = re.match(r'debug (\w+) => (.*);$', s)
        if dm:
            pm = re.match(r'^_(\d+)$', dm.group(2))
            if pm and int(pm.group(1)) not in f.debug: f.debug[int(pm.group(1))] = dm.group(1)
            continue
        bm = re.match(r'bb(\d+)( \(cleanup\))?: \{$', s)
        if bm:
            cur = int(bm.group(1)); f.blocks[cur] = {'stmts': [], 'term': None, 'cleanup': bool(bm.group(2))}; continue
        if cur is None or s in ('}', '') or s.startswith('scope') or s.startswith('//'): continue
        blk = f.blocks[cur]
        if blk['term'] is not None: continue
        if re.match(r'(goto|switchInt|return|assert|drop|unreachable|resume)\b', s) or '-> [return' in s or s.endswith('-> unwind continue;') or '-> unwind' in s:
            blk['term'] = s.rstrip(';')
        else:
            blk['stmts'].append(s.rstrip(';'))

def parse_fn(item):
    lines = item.split('\n')
    head = lines[0]
    m = re.match(r'fn (.*?)\((.*)\) -> (.*) \{$', head)
    if not m: return None
    f = Fn(); f.path = m.group(1); f.ret = m.group(3); f.head = head
    f.params = []
    for p in split_top(m.group(2)):
        pm = re.match(r'_(\d+): (.*)', p)
        f.params.append((int(pm.group(1)), pm.group(2)))
    parse_body(f, lines[1:])
    f.locals[0] = f.ret
    for i, t in f.params: f.locals[i] = t
    im = re.search(r'<impl at ([^>]+)>', f.path)
    f.impl_loc = im.group(1) if im else None
    f.fnname = f.path.split('::')[-1]
    f.is_closure = '{closure' in f.path
    return f

def parse_const(item):
    """returns (path, type, kind, payload)"""
    lines = item.split('\n'); head = lines[0]
    if not head.startswith('const '): return None
    rest = head[6:]
    i = find_top(rest, ': ')
    if i < 0: return None
    cpath, rest2 = rest[:i], rest[i + 2:]
    m0 = re.match(r'^(.*?) = const (.*);$', rest2)
    if m0: return (cpath, m0.group(1), 'scalar', m0.group(2))
    m0 = re.match(r'^(.*?) = \{$', rest2)
    m = None
    if m0:
        class _M:
            def group(self, k): return (None, cpath, m0.group(1))[k]
        m = _M()
    if m:
        f = Fn(); f.path = m.group(1); f.ret = m.group(2); f.params = []; f.head = head
        parse_body(f, lines[1:]); f.locals[0] = f.ret
        f.impl_loc = None; f.fnname = f.path.split('::')[-1]; f.is_closure = False
        return (m.group(1), m.group(2), 'body', f)
    return None

# ----------------------------------------------------------------------------- literals

def f64_lit(txt):
    v = float(txt)
    bits = struct.unpack('<Q', struct.pack('<d', v))[0]
    neg = bool(bits >> 63)
    if v != v or v in (float('inf'), float('-inf')): raise Unsupported('non-finite literal')
    fr = Fraction(repr(abs(v)))
    e = f'(Flt.lit 0x{bits & ~(1 << 63):016X} {fr.numerator} {fr.denominator})'
    return f'(-{e})' if neg else e

def str_lit(s):
    """Rust string literal body (as printed by MIR, with escapes) -> Lean list of code points"""
    body = bytes(s, 'utf-8').decode('unicode_escape') if '\\' in s else s
    return '[' + ', '.join(str(ord(c)) for c in body) + ']'

# ----------------------------------------------------------------------------- context

PRIM_NAT = {'u8': 8, 'u16': 16, 'u32': 32, 'u64': 64, 'usize': 64}
PRIM_INT = {'i8': 8, 'i16': 16, 'i32': 32, 'i64': 64, 'isize': 64}

class Ctx:
    def __init__(self, root):
        self.root = root
        self.structs, self.enums_src = scan_source(root)
        # enum lean names
        self.enums = {}      # lean name -> [(variant, [payload rust types])]
        self.enum_key = {}   # (mod, Name) -> lean name
        count = {}
        for (mod, name) in self.enums_src: count[name] = count.get(name, 0) + 1
        for (mod, name), vs in self.enums_src.items():
            ln = name if count[name] == 1 else mod.capitalize() + name
            if name == 'Error': ln = 'LError'
            self.enums[ln] = vs; self.enum_key[(mod, name)] = ln
        self.consts = {}     # full path -> (rust type, lean def name)
        self.fns = {}        # lean name -> Fn
        self.generic_dict = {}   # lean fn name -> [(key, leantype-builder)] dictionary params
        self.skip_files = ()
        self.closure_by_span = {}   # '{closure@file:l:c: l:c}' -> [lean names]

    def enum_lean(self, path):
        """path like xyz::Kind / grayscale::Kind / AnsiKind / error::Error"""
        if 'napi' in path: return None
        segs = path.split('::'); name = segs[-1]
        cands = [(k, ln) for k, ln in self.enum_key.items() if k[1] == name]
        if not cands: return None
        if len(cands) == 1: return cands[0][1]
        for (mod, _), ln in cands:
            if len(segs) > 1 and segs[-2] == mod: return ln
        return None

    def is_float_struct(self, name, seen=()):
        for _, ft in self.structs[name]['fields']:
            if self.ty_has_float(ft, seen + (name,)): return True
        return False

    def ty_has_float(self, t, seen=()):
        for tok in re.findall(r'\w+', t):
            if tok == 'f64': return True
            if tok in self.structs and tok not in seen and self.is_float_struct(tok, seen): return True
        return False

    def is_float_enum(self, ln):
        return any(self.ty_has_float(p) for _, ps in self.enums[ln] for p in ps)

    # ---- rust type -> lean type
    def lean_ty(self, t, tparams=()):
        t = t.strip()
        if t.startswith('&'):
            t = t[1:].strip()
            t = re.sub(r"^'\w+\s+", '', t)
            if t.startswith('mut '): t = t[4:]
            return self.lean_ty(t, tparams)
        if t == '()': return 'Unit'
        if t.startswith('{closure@'): return 'Unit'
        if t.startswith('('):
            parts = split_top(t[1:-1])
            if len(parts) == 1: return self.lean_ty(parts[0], tparams)
            return '(' + ' × '.join(self.lean_ty(p, tparams) for p in parts) + ')'
        if t.startswith('['):
            am = re.match(r'^\[(.*); (\d+)\]$', t)
            if am:
                n = int(am.group(2)); et = self.lean_ty(am.group(1), tparams)
                if n <= 4 and am.group(1).strip() == 'f64': return '(' + ' × '.join([et] * n) + ')'
                return f'(List {et})'
            return f'(List {self.lean_ty(t[1:-1], tparams)})'
        i = find_top(t, '<')
        args = []
        if i >= 0 and t.endswith('>'):
            args = [a for a in split_top(t[i + 1:-1]) if not a.startswith("'")]; t = t[:i]
        name = t.split('::')[-1]
        if name == 'f64': return 'α'
        if name in PRIM_NAT or name == 'char': return 'Nat'
        if name in PRIM_INT: return 'Int'
        if name == 'bool': return 'Bool'
        if name in ('String', 'str'): return 'Str'
        if name == 'Vec': return f'(List {self.lean_ty(args[0], tparams)})'
        if name == 'Option': return f'(Option {self.lean_ty(args[0], tparams)})'
        if name == 'Result':
            if args[0].strip().endswith('Infallible'): return self.lean_ty(args[1], tparams)
            return f'(Except {self.lean_ty(args[1], tparams)} {self.lean_ty(args[0], tparams)})'
        if name == 'RangeInclusive': return f'(RangeInclusive {self.lean_ty(args[0], tparams)})'
        if name == 'Argument': return 'FmtArg'
        if name == 'Arguments': return 'Str'
        if name == 'Chars': return 'Str'
        if name == 'ParseIntError': return 'ParseIntError'
        if name == 'Range': return '(Nat × Nat)'
        if name == 'JsObject': return '(JsObject α)'
        if name == 'Env': return 'NapiEnv'
        if name == 'Status': return 'NapiStatus'
        if name == 'Error' and 'napi' in t: return 'NapiError'
        if name == 'ControlFlow': return f'(ControlFlow {self.lean_ty(args[0], tparams)} {self.lean_ty(args[1], tparams) if len(args) > 1 else "Unit"})'
        if name in ('IntoIter', 'Iter'): return f'(List {self.lean_ty(args[-1], tparams)})'
        if name in tparams: return name
        el = self.enum_lean(t)
        if el is not None and name not in self.structs:
            return f'({el} α)' if self.is_float_enum(el) else el
        if name in self.structs:
            return f'({name} α)' if self.is_float_struct(name) else name
        raise Unsupported('type ' + t)

    def norm_t(self, t):
        t = t.strip(); t = re.sub(r"^&('\w+ )?(mut )?", '', t)
        i = find_top(t, '<')
        if i >= 0: t = t[:i]
        t = t.split('::')[-1]
        return {'f64': 'F64', 'u8': 'U8'}.get(t, re.sub(r'\W+', '_', t))

    def call_name(self, self_t, tr, meth):
        st = self.norm_t(self_t)
        if self_t.strip() in ('Hue', 'hue::Hue'): st = 'F64'
        if tr:
            i = find_top(tr, '<')
            trn = tr[:i] if i >= 0 else tr
            targ = tr[i + 1:-1] if i >= 0 else None
            trn = trn.split('::')[-1]
            if trn in ('From', 'TryFrom'): return f'{st}.{meth}_{self.norm_t(targ)}'
            if trn == 'Into': return f'{self.norm_t(targ)}.from_{st}'
            if trn == 'Default': return f'{st}.default'
            return f'{st}.{meth}'
        return f'{st}.{meth}'

# ----------------------------------------------------------------------------- tree IR

class Let:
    def __init__(self, name, ty, expr, user=False, mon=False, keep=False):
        self.name, self.ty, self.expr, self.user, self.mon, self.keep = name, ty, expr, user, mon, keep
class If:
    def __init__(self, cond, th, el): self.cond, self.th, self.el = cond, th, el
class Match:
    def __init__(self, scrut, arms): self.scrut, self.arms = scrut, arms   # arms: [(pattern, body)]
class Ret:
    def __init__(self, expr): self.expr = expr
class Panic:
    def __init__(self, msg): self.msg = msg
class Tail:
    """tail call to a monadic expression (loop call)"""
    def __init__(self, expr): self.expr = expr

IDENT = re.compile(r"[A-Za-z_][A-Za-z0-9_']*")

def count_uses(body, name):
    n = 0
    for nd in body:
        if isinstance(nd, Let): n += len([1 for t in IDENT.findall(nd.expr) if t == name])
        elif isinstance(nd, If):
            n += len([1 for t in IDENT.findall(nd.cond) if t == name]) + count_uses(nd.th, name) + count_uses(nd.el, name)
        elif isinstance(nd, Match):
            n += len([1 for t in IDENT.findall(nd.scrut) if t == name])
            for _, b in nd.arms: n += count_uses(b, name)
        elif isinstance(nd, (Ret, Tail)): n += len([1 for t in IDENT.findall(nd.expr) if t == name])
    return n

def subst_expr(e, name, rep):
    return IDENT.sub(lambda m: rep if m.group(0) == name else m.group(0), e)

def subst(body, name, rep):
    for nd in body:
        if isinstance(nd, Let): nd.expr = subst_expr(nd.expr, name, rep)
        elif isinstance(nd, If):
            nd.cond = subst_expr(nd.cond, name, rep); subst(nd.th, name, rep); subst(nd.el, name, rep)
        elif isinstance(nd, Match):
            nd.scrut = subst_expr(nd.scrut, name, rep)
            for _, b in nd.arms: subst(b, name, rep)
        elif isinstance(nd, (Ret, Tail)): nd.expr = subst_expr(nd.expr, name, rep)

def is_atom(e):
    return bool(re.match(r"^[A-Za-z_][A-Za-z0-9_'.]*$", e)) or bool(re.match(r'^\(\d+ : (Nat|Int)\)$', e))

def simplify(body):
    """inline single-use compiler temporaries and trivial copies; drop dead pure lets (SSA names => safe)"""
    i = 0
    while i < len(body):
        nd = body[i]
        if isinstance(nd, Let):
            rest = body[i + 1:]
            uses = count_uses(rest, nd.name)
            if nd.keep:
                i += 1; continue
            if not nd.mon and uses == 0:
                del body[i]; continue
            if not nd.mon and (is_atom(nd.expr) or (uses == 1 and not nd.user)):
                subst(rest, nd.name, nd.expr); del body[i]; continue
        elif isinstance(nd, If):
            simplify(nd.th); simplify(nd.el)
        elif isinstance(nd, Match):
            for _, b in nd.arms: simplify(b)
        i += 1

def has_mon(body):
    for nd in body:
        if isinstance(nd, Let) and nd.mon: return True
        if isinstance(nd, (Panic, Tail)): return True
        if isinstance(nd, If) and (has_mon(nd.th) or has_mon(nd.el)): return True
        if isinstance(nd, Match) and any(has_mon(b) for _, b in nd.arms): return True
    return False

RENDER_REF_CONDS = set()

def _negations(c):
    """textual negations of a rendered Bool condition"""
    out = []
    c = c.strip()
    if c.startswith('(!') and c.endswith(')'):
        inner = c[2:-1].strip()
        out.append(inner)
        if inner.startswith('(') and inner.endswith(')'): out.append(inner[1:-1])
    else:
        out.append('(!' + c + ')')
        out.append('(!(' + c + '))')
    m = re.match(r'^\((.*) (!=|==) (.*)\)$', c)
    if m: out.append('(' + m.group(1) + (' == ' if m.group(2) == '!=' else ' != ') + m.group(3) + ')')
    return out

def _ref_conds(block):
    return set(m.group(1).strip() for m in re.finditer(r'^\s*if (.*) then\s*$', block or '', flags=re.M))

def render(body, ind, mon):
    out = []
    pad = '  ' * ind
    for nd in body:
        if isinstance(nd, Let):
            arrow = '←' if nd.mon else ':='
            ty = f' : {nd.ty}' if nd.ty else ''
            out.append(f'{pad}let {nd.name}{ty} {arrow} {nd.expr}')
        elif isinstance(nd, If):
            cond, th, el = nd.cond, nd.th, nd.el
            # `if !c {A} else {B}` and `if c {B} else {A}` are the same program: when the reference definition tests the
            # opposite polarity of the same condition, render it the reference's way (Bool negation is exact)
            if cond not in RENDER_REF_CONDS:
                for nc in _negations(cond):
                    if nc in RENDER_REF_CONDS: cond, th, el = nc, el, th; break
            out.append(f'{pad}if {cond} then')
            out += render_block(th, ind + 1, mon)
            out.append(f'{pad}else')
            out += render_block(el, ind + 1, mon)
        elif isinstance(nd, Match):
            out.append(f'{pad}match {nd.scrut} with')
            for pat, b in nd.arms:
                out.append(f'{pad}| {pat} =>')
                out += render_block(b, ind + 2, mon)
        elif isinstance(nd, Ret):
            out.append(f'{pad}pure {nd.expr}' if mon else f'{pad}{nd.expr}')
        elif isinstance(nd, Panic):
            out.append(f'{pad}Res.panic')
        elif isinstance(nd, Tail):
            out.append(f'{pad}{nd.expr}')
    return out

def render_block(body, ind, mon):
    if mon and len(body) > 1:
        pad = '  ' * ind
        inner = render(body, ind + 1, mon)
        return [f'{pad}do'] + inner
    return render(body, ind, mon)

# ----------------------------------------------------------------------------- function translation

BINOPS = {'Add': '+', 'Sub': '-', 'Mul': '*', 'Div': '/'}
CMPF = {'Lt': 'Flt.lt {a} {b}', 'Le': 'Flt.le {a} {b}', 'Gt': 'Flt.lt {b} {a}', 'Ge': 'Flt.le {b} {a}',
        'Eq': 'Flt.beq {a} {b}', 'Ne': '!(Flt.beq {a} {b})'}
CMPN = {'Lt': 'decide ({a} < {b})', 'Le': 'decide ({a} ≤ {b})', 'Gt': 'decide ({b} < {a})', 'Ge': 'decide ({b} ≤ {a})',
        'Eq': '({a} == {b})', 'Ne': '({a} != {b})'}
F64_METHODS = {'powf': 'Flt.pow', 'powi': 'Flt.powi', 'cbrt': 'Flt.cbrt', 'sqrt': 'Flt.sqrt', 'round': 'Flt.round',
               'floor': 'Flt.floor', 'abs': 'Flt.abs', 'atan2': 'Flt.atan2', 'sin': 'Flt.sin', 'cos': 'Flt.cos',
               'max': 'Flt.max', 'min': 'Flt.min'}
ENUM_STD = {'Option': [('none', 0), ('some', 1)], 'Result': [('ok', 1), ('error', 1)]}

class Tr:
    def __init__(self, fn, ctx, tparams=()):
        self.f = fn; self.ctx = ctx; self.tparams = tparams
        self.counter = {}
        self.loops = []           # generated loop defs (text)
        self.loop_heads = self.find_loop_heads()
        self.refsrc = {}          # local holding &mut -> source local
        self.skipped = set()      # locals involved in pointer plumbing (vec! idiom)
        self.boxarr = None
        self.dict_used = []       # generic dictionary keys used
        self.calls = set()

    # ---- cfg
    def succs(self, bb):
        t = self.f.blocks[bb]['term'] or ''
        out = []
        for m in re.finditer(r'(?:return|success|otherwise|\d+): bb(\d+)', t): out.append(int(m.group(1)))
        m = re.match(r'^goto -> bb(\d+)$', t)
        if m: out.append(int(m.group(1)))
        return [b for b in out if not self.f.blocks[b]['cleanup']]

    def find_loop_heads(self):
        heads = set(); color = {}
        def dfs(b):
            color[b] = 1
            for s in self.succs(b):
                if color.get(s) == 1: heads.add(s)
                elif s not in color: dfs(s)
            color[b] = 2
        if 0 in self.f.blocks: dfs(0)
        return heads

    def reachable(self, b):
        seen = set(); st = [b]
        while st:
            x = st.pop()
            if x in seen: continue
            seen.add(x); st += self.succs(x)
        return seen

    # ---- names
    def fresh(self, i):
        base = self.f.debug.get(i)
        self.counter[i] = self.counter.get(i, 0) + 1
        k = self.counter[i]
        if base:
            base = re.sub(r'^_+', '', base) or 'x'
            return f'{base}_{i}' if k == 1 else f"{base}_{i}_{k}"
        return f'v{i}' if k == 1 else f'v{i}_{k}'

    def ty(self, i): return self.f.locals[i]
    def lty(self, t): return self.ctx.lean_ty(t, self.tparams)
    def is_f(self, t): return re.sub(r"^&('\w+ )?(mut )?", '', t.strip()) == 'f64'
    def is_int(self, t):
        t = t.strip(); return t in PRIM_INT
    def is_nat(self, t):
        t = t.strip(); return t in PRIM_NAT or t == 'char'

    # ---- places
    def parse_place(self, p):
        p = p.strip()
        m = re.match(r'^_(\d+)$', p)
        if m: return ('local', int(m.group(1)))
        if p.endswith(']'):
            # index
            depth = 0
            for i in range(len(p) - 1, -1, -1):
                if p[i] == ']': depth += 1
                elif p[i] == '[':
                    depth -= 1
                    if depth == 0:
                        return ('index', self.parse_place(p[:i]), p[i + 1:-1].strip())
        if p.startswith('(') and p.endswith(')'):
            inner = p[1:-1].strip()
            if inner.startswith('*'): return ('deref', self.parse_place(inner[1:]))
            i = find_top(inner, ': ')
            if i >= 0:
                left, t = inner[:i], inner[i + 2:]
                j = left.rfind('.')
                return ('field', self.parse_place(left[:j]), int(left[j + 1:]), t)
            i = find_top(inner, ' as ')
            if i >= 0: return ('downcast', self.parse_place(inner[:i]), inner[i + 4:].strip())
        raise Unsupported('place ' + p)

    def place_key(self, pl):
        if pl[0] == 'local':
            return f'_{pl[1]}'
        if pl[0] == 'deref': return self.place_key(pl[1])
        if pl[0] == 'field': return f'{self.place_key(pl[1])}.{pl[2]}'
        if pl[0] == 'downcast': return f'{self.place_key(pl[1])}@{pl[2]}'
        if pl[0] == 'index': return f'{self.place_key(pl[1])}[{pl[2]}]'

    def strip_ref(self, t):
        t = t.strip()
        while t.startswith('&'):
            t = t[1:].strip(); t = re.sub(r"^'\w+\s+", '', t)
            if t.startswith('mut '): t = t[4:]
        return t

    def tproj(self, base, idx, n):
        if n == 1: return base
        e = base
        for _ in range(idx): e = f'{e}.2'
        return f'{e}.1' if idx < n - 1 else e

    def place(self, pl, env):
        """(lean expr, rust type)"""
        k = pl[0]
        if k == 'local':
            i = pl[1]
            if i in self.skipped: raise Unsupported('skipped local')
            if i not in env: raise Unsupported(f'use of unassigned _{i}')
            return env[i], self.ty(i)
        if k == 'deref':
            e, t = self.place(pl[1], env)
            t = t.strip()
            if t.startswith('&'):
                t = t[1:].strip(); t = re.sub(r"^'\w+\s+", '', t)
                if t.startswith('mut '): t = t[4:]
            return e, t
        if k == 'field':
            base_pl, idx, ft = pl[1], pl[2], pl[3]
            if base_pl[0] == 'downcast':
                key = (self.place_key(base_pl[1]), base_pl[2], idx)
                if key in env.get('#payload', {}): return env['#payload'][key], ft
                raise Unsupported('downcast without match ' + str(key))
            e, t = self.place(base_pl, env)
            t = self.strip_ref(t)
            if t.startswith('('):
                n = len(split_top(t[1:-1])); return self.tproj(e, idx, n), ft
            name = re.sub(r'<.*$', '', t).split('::')[-1]
            if name in self.ctx.structs:
                return f'{e}.{self.ctx.structs[name]["fields"][idx][0]}', ft
            raise Unsupported('field of ' + t)
        if k == 'index':
            e, t = self.place(pl[1], env)
            t = self.strip_ref(t)
            am = re.match(r'^\[(.*); (\d+)\]$', t)
            if not am: raise Unsupported('index into ' + t)
            ix = pl[2]
            m = re.match(r'^_(\d+)$', ix)
            if m:
                c = env.get('#const', {}).get(int(m.group(1)))
                if c is None: raise Unsupported('dynamic index')
                ix = c
            else:
                ix = int(ix.split(' ')[0])
            n = int(am.group(2))
            if n <= 4 and am.group(1).strip() == 'f64': return self.tproj(e, ix, n), am.group(1)
            raise Unsupported('index into list')
        raise Unsupported('place kind')

    # ---- operands
    def const_operand(self, c):
        c = c.strip()
        fm = re.match(r'^(-?[\d.]+(?:[eE][+-]?\d+)?)f64$', c)
        if fm: return f64_lit(fm.group(1)), 'f64'
        im = re.match(r'^(-?\d+)_(\w+)$', c)
        if im:
            t = im.group(2)
            return (f'({im.group(1)} : {"Int" if t in PRIM_INT else "Nat"})'), t
        if c in ('true', 'false'): return c, 'bool'
        if c.endswith('consts::PI'): return '(Flt.pi)', 'f64'
        if c == 'u8::MAX' or re.match(r'^(?:core|std)::num::<impl u8>::MAX$', c): return '(255 : Nat)', 'u8'
        if re.match(r'^(?:(?:std|core)::)?f64::(?:<impl f64>::)?EPSILON$', c):      # 2^-52, exactly representable
            return f'(Flt.lit 0x3CB0000000000000 1 {2**52})', 'f64'
        pm = re.search(r'::promoted\[(\d+)\]$', c)
        if pm:
            key = f'{self.f.lean_name}::promoted[{pm.group(1)}]'
            if key in self.ctx.consts:
                t, ln = self.ctx.consts[key]; self.calls.add(ln)
                return f'({ln} : {self.lty(t)})', t
            raise Unsupported('promoted ' + c)
        sm = re.match(r'^"(.*)"$', c, re.S)
        if sm: return f'({str_lit(sm.group(1))} : Str)', '&str'
        chm = re.match(r"^'(.*)'$", c, re.S)
        if chm:
            body = bytes(chm.group(1), 'utf-8').decode('unicode_escape') if '\\' in chm.group(1) else chm.group(1)
            if len(body) == 1: return f'({ord(body)} : Nat)', 'char'
        bm = re.match(r'^b"(.*)"$', c, re.S)
        if bm:
            raw = bytes(bm.group(1), 'latin-1').decode('unicode_escape').encode('latin-1')
            return '([' + ', '.join(str(b) for b in raw) + '] : List Nat)', '&[u8]'
        # enum unit variants
        em = re.match(r'^([\w:]+)::(\w+)$', c)
        if em:
            el = self.ctx.enum_lean(em.group(1))
            if el and any(v == em.group(2) for v, _ in self.ctx.enums[el]): return f'{el}.{em.group(2)}', em.group(1)
        # named consts
        key = c
        cands = [k for k in self.ctx.consts if k == key or k.endswith('::' + key) or key.endswith('::' + k)]
        if len(cands) > 1:
            best = max(cands, key=lambda k: len(os.path.commonprefix([k[::-1], key[::-1]])))
            cands = [best]
        if cands:
            t, ln = self.ctx.consts[cands[0]]
            self.calls.add(ln)
            return f'({ln} : {self.lty(t)})', t
        raise Unsupported('const ' + c)

    def operand(self, o, env):
        o = o.strip()
        m = re.match(r'^(copy|move) (.*)$', o)
        if m: return self.place(self.parse_place(m.group(2)), env)
        m = re.match(r'^const (.*)$', o, re.S)
        if m: return self.const_operand(m.group(1))
        raise Unsupported('operand ' + o)

    def width(self, t):
        t = t.strip()
        return PRIM_NAT.get(t) or PRIM_INT.get(t)

    def rvalue(self, rv, env, dst_t):
        rv = rv.strip()
        m = re.match(r'^(\w+)\((.*)\)$', rv, re.S)
        OPS = list(BINOPS) + list(CMPF) + ['Rem', 'BitOr', 'BitAnd', 'BitXor', 'Shl', 'Shr', 'Not', 'Neg',
                                            'AddWithOverflow', 'SubWithOverflow', 'MulWithOverflow']
        if m and m.group(1) in OPS:
            op = m.group(1); args = split_top(m.group(2))
            vals = [self.operand(a, env) for a in args]
            t = vals[0][1].strip()
            a = vals[0][0]; b = vals[1][0] if len(vals) > 1 else None
            if op in BINOPS:
                if self.is_f(t): return f'({a} {BINOPS[op]} {b})'
                w = self.width(t)
                if t in PRIM_NAT:
                    if op == 'Div': return f'({a} / {b})'
                    return f'(Chk.{op.lower()}W {w} {a} {b})'   # unchecked (wrapping) op
                raise Unsupported('int binop ' + rv)
            if op in CMPF:
                tpl = CMPF[op] if self.is_f(t) else CMPN[op]
                return '(' + tpl.format(a=a, b=b) + ')'
            if op == 'Rem':
                return f'(Flt.rem {a} {b})' if self.is_f(t) else f'({a} % {b})'
            if op == 'Neg': return f'(-{a})'
            if op == 'Not':
                if t == 'bool': return f'(!{a})'
                raise Unsupported('int not')
            if op == 'BitOr': return f'({a} || {b})' if t == 'bool' else f'({a} ||| {b})'
            if op == 'BitAnd': return f'({a} && {b})' if t == 'bool' else f'({a} &&& {b})'
            if op in ('AddWithOverflow', 'SubWithOverflow', 'MulWithOverflow'):
                w = self.width(t); sg = 'I' if t in PRIM_INT else 'U'
                return f'(Chk.{op[:3].lower()}O{sg} {w} {a} {b})'
            if op == 'Shl':
                if vals[1][1].strip() in PRIM_INT: b = f'(Int.toNat {b})'
                return f'(Chk.shl {self.width(t)} {a} {b})'
            raise Unsupported('op ' + op)
        m = re.match(r'^(.*) as (.*?) \((\w+)(?:\(.*\))?\)$', rv)
        if m:
            kind = m.group(3); to = m.group(2).strip()
            if kind in ('Transmute', 'PtrToPtr') or 'PointerCoercion' in rv and 'Unsize' not in rv:
                raise Unsupported('pointer cast')
            v, t = self.operand(m.group(1), env); t = t.strip()
            if kind == 'IntToFloat': return f'(Flt.ofInt {v})' if t in PRIM_INT else f'(Flt.ofNat {v})'
            if kind == 'FloatToInt':
                if to == 'u8': return f'(Flt.toU8 {v})'
                if to == 'i64': return f'(Flt.toI64 {v})'
                raise Unsupported('float cast to ' + to)
            if kind == 'IntToInt':
                if t in PRIM_NAT and to in PRIM_NAT:
                    return v if PRIM_NAT[to] >= PRIM_NAT[t] else f'({v} % {2 ** PRIM_NAT[to]})'
                if t in PRIM_NAT and to in PRIM_INT and PRIM_INT[to] > PRIM_NAT[t]: return f'(({v} : Nat) : Int)'
                if t in PRIM_INT and to in PRIM_NAT: return f'(Int.toNat ({v} % {2 ** PRIM_NAT[to]}))'
                raise Unsupported('int cast ' + rv)
            if 'Unsize' in rv: return v
            raise Unsupported('cast ' + rv)
        if rv.startswith('&'):
            inner = re.sub(r'^&(mut |raw const |raw mut )?', '', rv)
            return self.place(self.parse_place(inner), env)[0]
        m = re.match(r'^discriminant\((.*)\)$', rv)
        if m: raise Unsupported('discriminant outside switch')
        if rv in ('InvalidArg', 'NumberExpected', 'StringExpected', 'ObjectExpected', 'GenericFailure'): return f'NapiStatus.{rv}'
        if rv.startswith('['):
            els = [self.operand(e, env) for e in split_top(rv[1:-1])]
            am = re.match(r'^\[(.*); (\d+)\]$', dst_t.strip()) if dst_t else None
            if am and int(am.group(2)) <= 4 and am.group(1).strip() == 'f64':
                return '(' + ', '.join(e for e, _ in els) + ')'
            return '[' + ', '.join(e for e, _ in els) + ']'
        if rv.startswith('(') and not re.match(r'^\((\*|_\d+[.) ]|\()', rv):
            els = [self.operand(e, env)[0] for e in split_top(rv[1:-1])]
            return '(' + ', '.join(els) + ')' if els else '()'
        m = re.match(r'^([\w:]+?)(?:::<[^{}]*>)? \{(.*)\}$', rv)
        if m:
            name = m.group(1).split('::')[-1]
            if name == 'Range':
                fs = dict((fe.partition(':')[0].strip(), fe.partition(':')[2]) for fe in split_top(m.group(2)))
                return f'({self.operand(fs["start"], env)[0]}, {self.operand(fs["end"], env)[0]})'
            fields = []
            for fe in split_top(m.group(2)):
                fn_, _, fv = fe.partition(':')
                fields.append(f'{fn_.strip()} := {self.operand(fv, env)[0]}')
            return '{ ' + ', '.join(fields) + ' }'
        m = re.match(r'^([\w:]+)(?:::<(.*?)>)?::(\w+)(?:\((.*)\))?$', rv, re.S)
        if m:
            base, var, args = m.group(1), m.group(3), m.group(4)
            bname = base.split('::')[-1]
            argv = [self.operand(a, env)[0] for a in split_top(args)] if args else []
            if bname in ENUM_STD:
                ln = {'Ok': 'Except.ok', 'Err': 'Except.error', 'Some': 'some', 'None': 'none'}[var]
                return f'({ln} {" ".join(argv)})' if argv else ln
            el = self.ctx.enum_lean(base)
            if el:
                return f'({el}.{var} {" ".join(argv)})' if argv else f'{el}.{var}'
        m = re.match(r'^([\w:]+)\((.*)\)$', rv, re.S)
        if m and m.group(1).split('::')[-1] in self.ctx.structs:   # tuple struct ctor
            return '{ _0 := ' + self.operand(m.group(2), env)[0] + ' }'
        return self.operand(rv, env)[0]

    # ---- calls
    def call(self, callee, args, env):
        """returns (expr, mode, extra) ; mode in pure | mon | mutself"""
        callee = callee.strip()
        def av(): return [self.operand(a, env)[0] for a in args]
        m = re.match(r'^(?:core::)?f64::<impl f64>::(\w+)$', callee)
        if m:
            if m.group(1) in F64_METHODS: return f'({F64_METHODS[m.group(1)]} {" ".join(av())})', 'pure'
            raise Unsupported('f64 method ' + callee)
        if re.match(r'^core::slice::<impl \[.*\]>::first$', callee): return f'(List.head? {av()[0]})', 'pure'
        if re.match(r'^core::slice::<impl \[.*\]>::last$', callee): return f'(List.getLast? {av()[0]})', 'pure'
        if re.match(r'^core::slice::<impl \[.*\]>::get::<usize>$', callee): a = av(); return f'({a[0]}[{a[1]}]?)', 'pure'
        if re.match(r'^Option::<&.*>::copied$', callee): return av()[0], 'pure'
        m = re.match(r'^Option::<(.*)>::unwrap_or_default$', callee)
        if m:
            d = self.default_of(m.group(1)); return f'(Option.getD {av()[0]} {d})', 'pure'
        if re.match(r'^Option::<.*>::unwrap_or$', callee): a = av(); return f'(Option.getD {a[0]} {a[1]})', 'pure'
        if re.match(r'^Option::<.*>::unwrap$', callee): return f'(Res.ofOption {av()[0]})', 'mon'
        if re.match(r'^<(Vec<.*>|String) as Deref>::deref$', callee): return av()[0], 'pure'
        if re.match(r'^<&?str as ToString>::to_string$', callee) or callee in ('<String as From<&str>>::from', '<str as ToOwned>::to_owned', 'str::to_owned', 'core::str::<impl str>::to_owned', 'alloc::str::<impl str>::to_owned'): return av()[0], 'pure'
        m = re.match(r'^<(\w+) as Default>::default$', callee)
        if m and m.group(1) in ('f64', 'u8'): return self.default_of(m.group(1)), 'pure'
        if re.match(r'^Vec::<.*>::new$', callee): return '[]', 'pure'
        if re.match(r'^Vec::<.*>::with_capacity$', callee): return '[]', 'pure'      # capacity is not observable
        if re.match(r'^Vec::<.*>::push$', callee):
            a1 = self.operand(args[1], env)[0]
            return ('Vec.push', a1), 'mutself'
        if re.match(r'^std::ops::RangeInclusive::<f64>::new$', callee): a = av(); return f'(RangeInclusive.mk {a[0]} {a[1]})', 'pure'
        if re.match(r'^std::ops::RangeInclusive::<f64>::contains::<f64>$', callee): a = av(); return f'(RangeInclusive.contains {a[0]} {a[1]})', 'pure'
        if re.match(r'^std::boxed::box_assume_init_into_vec_unsafe::<.*>$', callee):
            if self.boxarr is None: raise Unsupported('vec! idiom without array store')
            return self.boxarr, 'pure'
        # ---- string / iterator / fmt shims (hex.rs)
        if re.match(r'^core::str::<impl str>::strip_prefix::<char>$', callee): a = av(); return f'(Str.stripPrefixChar {a[0]} {a[1]})', 'pure'
        if re.match(r'^core::str::<impl str>::chars$', callee): return av()[0], 'pure'
        if re.match(r'^core::str::<impl str>::get::<std::ops::Range<usize>>$', callee): a = av(); return f'(Str.getRangeR {a[0]} {a[1]})', 'pure'
        if callee in ('String::new', 'std::string::String::new'): return '([] : Str)', 'pure'
        if callee in ('String::len', 'std::string::String::len', 'core::str::<impl str>::len'): return f'(Str.byteLen {av()[0]})', 'pure'
        if callee in ('String::push', 'std::string::String::push'):
            return ('Str.push', self.operand(args[1], env)[0]), 'mutself'
        if re.match(r'^char::methods::<impl char>::is_ascii_hexdigit$', callee): return f'(Char.isAsciiHexDigit {av()[0]})', 'pure'
        if re.match(r'^core::num::<impl u8>::from_str_radix$', callee): a = av(); return f'(U8.fromStrRadix {a[0]} {a[1]})', 'pure'
        if re.match(r'^<ParseIntError as ToString>::to_string$', callee): return '([] : Str)', 'pure'
        m = re.match(r'^core::fmt::rt::Argument::<\'_>::new_(display|lower_hex)::<(.*)>$', callee)
        if m:
            if m.group(1) == 'display' and m.group(2).strip().lstrip('&') in ('str', 'String', 'std::string::String'): return f'(FmtArg.display {av()[0]})', 'pure'
            if m.group(1) == 'lower_hex' and m.group(2).strip() in PRIM_NAT: return f'(FmtArg.lowerHex {av()[0]})', 'pure'
            raise Unsupported('fmt argument ' + callee)
        if re.match(r"^Arguments::<'_>::new::<\d+, \d+>$", callee): a = av(); return f'(Fmt.format {a[0]} {a[1]})', 'pure'
        if callee in ('format', 'alloc::fmt::format', 'std::fmt::format') or re.match(r'^must_use::<.*>$', callee): return av()[0], 'pure'
        if re.match(r'^(alloc::)?slice::<impl \[.*\]>::join::<&str>$', callee): a = av(); return f'(Str.join {a[0]} {a[1]})', 'pure'
        m = re.match(r'^<.* as Iterator>::(map|all|fold|collect)::<.*>$', callee)
        if m:
            k = m.group(1)
            it = self.operand(args[0], env)[0]
            if k == 'collect':
                # a String can be collected from chars only (from Strings it would be a concatenation, not modelled)
                if re.search(r'collect::<(std::string::)?String>$', callee) and not re.search(r'(Iter<.*char>|Chars) as Iterator', callee): raise Unsupported('collect into String from ' + callee)
                return it, 'pure'
            if k == 'map': return f'(List.map (fun x => {self.closure_of(args[1])} () x) {it})', 'pure'
            if k == 'all': return f'(List.all {it} (fun x => {self.closure_of(args[1])} () x))', 'pure'
            if k == 'fold':
                init = self.operand(args[1], env)[0]
                return f'(List.foldl (fun acc x => {self.closure_of(args[2])} () acc x) {init} {it})', 'pure'
        m = re.match(r'^<(\{closure@.*\}) as Fn(?:Mut|Once)?<\((.*)\)>>::call(?:_mut|_once)?$', callee)
        if m:
            name = self.closure_by_type(m.group(1))
            argt = self.operand(args[1], env)[0]
            return f'({name} () {argt})', 'pure'
        if re.match(r'^(std::result::)?Result::<.*>::map_err::<.*>$', callee):
            r0 = self.operand(args[0], env)[0]
            return f'(Except.mapError (fun e => {self.closure_of(args[1])} () e) {r0})', 'pure'
        # ---- N-API / Try / iterator shims (js feature)
        m = re.match(r'^napi::bindgen_runtime::js_values::object::<impl JsObject>::(get|set)::<&str, (.*)>$', callee)
        if m:
            kind = {'f64': 'Num', 'u8': 'Byte', 'String': 'Str', 'std::string::String': 'Str', 'Vec<JsObject>': 'Objs', 'Vec<napi::JsObject>': 'Objs'}.get(m.group(2).strip())
            if kind is None: raise Unsupported('js value kind ' + m.group(2))
            a = av()
            if m.group(1) == 'get': return f'(Js.get{kind} {a[0]} {a[1]})', 'pure'
            return (f'Js.set{kind}', f'{a[1]} {a[2]}', '(Except.ok ())'), 'mutself_ret'
        if callee == 'napi::Env::create_object': return f'(Js.create_object {av()[0]})', 'pure'
        if callee == 'napi::Error::from_status': return f'(NapiError.from_status {av()[0]})', 'pure'
        if re.match(r'^<.* as Try>::branch$', callee): return f'(Try.branch {av()[0]})', 'pure'
        if re.match(r'^<.* as FromResidual<.*>>::from_residual$', callee): return f'(Try.from_residual {av()[0]})', 'pure'
        if re.match(r'^Option::<.*>::ok_or::<.*>$', callee): a = av(); return f'(Option.okOr {a[0]} {a[1]})', 'pure'
        if re.match(r'^(std::result::)?Result::<.*>::and_then::<.*>$', callee):
            r0 = self.operand(args[0], env)[0]
            return f'(Except.andThen {r0} (fun v => {self.closure_name()} () v))', 'pure'
        if re.match(r'^Option::<.*>::ok_or_else::<.*>$', callee):
            r0 = self.operand(args[0], env)[0]
            return f'(Option.okOr {r0} ({self.closure_name()} ()))', 'pure'
        if re.match(r'^<&?(std::vec::)?Vec<.*> as IntoIterator>::into_iter$', callee): return av()[0], 'pure'
        if re.match(r'^<.*(IntoIter|Iter)<.*> as Iterator>::next$', callee):
            return ('List.tail', '', None), 'iter_next'
        if re.match(r'^<(String|std::string::String|u8|f64) as Clone>::clone$', callee): return av()[0], 'pure'
        # lossless numeric conversions spelled with From/Into (clippy's cast_lossless style): the same as the `as` casts
        m = re.match(r'^<(\w+) as (?:std::convert::)?From<(\w+)>>::from$', callee) or None
        m2 = re.match(r'^<(\w+) as (?:std::convert::)?Into<(\w+)>>::into$', callee) or None
        if m or m2:
            dst, src = (m.group(1), m.group(2)) if m else (m2.group(2), m2.group(1))
            UNS, SIG = ('u8', 'u16', 'u32', 'u64', 'usize'), ('i8', 'i16', 'i32', 'i64', 'isize')
            if dst == 'f64' and src in UNS[:3]: return f'(Flt.ofNat {av()[0]})', 'pure'
            if dst == 'f64' and src in SIG[:3]: return f'(Flt.ofInt {av()[0]})', 'pure'
            if dst in UNS and src in UNS and UNS.index(src) <= UNS.index(dst): return av()[0], 'pure'
            if dst in SIG and src in SIG and SIG.index(src) <= SIG.index(dst): return av()[0], 'pure'
            if dst in SIG and src in UNS[:3]: return f'(Int.ofNat {av()[0]})', 'pure'
        # generic dictionary calls  <T as Into<Rgb>>::into
        m = re.match(r'^<(\w+) as (.*)>::(\w+)$', callee)
        if m and m.group(1) in self.tparams:
            key = re.sub(r'\W+', '_', f'{m.group(1)}_{m.group(2)}_{m.group(3)}').strip('_')
            if key not in [k for k, _ in self.dict_used]:
                self.dict_used.append((key, (m.group(1), m.group(2), m.group(3))))
            return f'({key} {" ".join(av())})', 'pure'
        m = re.match(r'^<(.*) as (.*)>::(\w+)$', callee)
        if m:
            self_t, tr, meth = m.group(1), m.group(2), m.group(3)
            name = self.ctx.call_name(self_t, tr, meth)
            return self.crate_call(name, av(), args, env, [])
        m = re.match(r'^([\w:]+?)::(\w+)(?:::<(.*)>)?$', callee)
        if m:
            name = self.ctx.call_name(m.group(1), None, m.group(2))
            targs = split_top(m.group(3)) if m.group(3) else []
            if name not in self.ctx.fns and m.group(2) in self.ctx.fns:
                name = m.group(2)          # a free function printed with its module path
            return self.crate_call(name, av(), args, env, targs)
        m = re.match(r'^(\w+)(?:::<(.*)>)?$', callee)
        if m and m.group(1) in self.ctx.fns:      # a free function of the crate (trimmed path)
            targs = split_top(m.group(2)) if m.group(2) else []
            return self.crate_call(m.group(1), av(), args, env, targs)
        raise Unsupported('call ' + callee)

    def closure_by_type(self, ct):
        ct = ct.strip()
        names = self.ctx.closure_by_span.get(ct, [])
        if len(names) == 1:
            self.calls.add(names[0]); return names[0]
        if len(names) > 1: return self.closure_name()   # same span several times (macro expansion): by order of use
        raise Unsupported('closure ' + ct)

    def closure_of(self, arg):
        m = re.match(r'^const ZeroSized: (\{closure@.*\})$', arg.strip())
        if not m: raise Unsupported('closure operand ' + arg)
        return self.closure_by_type(m.group(1))

    def closure_name(self):
        owner = self.f.lean_name
        ks = sorted(b for b, blk in self.f.blocks.items() if blk['term'] and 'const ZeroSized: {closure@' in blk['term'] and not blk['cleanup'])
        k = ks.index(self.cur_bb)
        name = f'{owner}.closure{k}'
        if name not in self.ctx.fns: raise Unsupported('closure ' + name)
        self.calls.add(name)
        return name

    def crate_call(self, name, argv, args, env, targs):
        if name not in self.ctx.fns: raise Unsupported('unknown callee ' + name)
        self.calls.add(name)
        callee = self.ctx.fns[name]
        extra = []
        if callee.tparams:
            # dictionary passing
            binding = dict(zip(callee.tparams, targs))
            for key, (tp, tr, meth) in callee.dicts:
                conc = binding.get(tp)
                if conc is None: raise Unsupported('generic call without turbofish ' + name)
                if conc in self.tparams:
                    k2 = re.sub(r'\W+', '_', f'{conc}_{tr}_{meth}').strip('_')
                    if k2 not in [k for k, _ in self.dict_used]: self.dict_used.append((k2, (conc, tr, meth)))
                    extra.append(k2)
                else:
                    dn = self.ctx.call_name(conc, tr, meth); self.calls.add(dn); extra.append(dn)
        fuel = ['fuel'] if callee.needs_fuel else []
        if callee.needs_fuel: self.needs_fuel = True
        if getattr(callee, 'alpha', 'implicit') == 'explicit': extra = ['α'] + extra
        if getattr(callee, 'alpha', 'implicit') != 'none': self.uses_alpha = True
        e = f'({name} {" ".join(extra + fuel + argv)})' if (extra or fuel or argv) else name
        if callee.mutself: return (name, extra + fuel, argv), 'mutcrate'
        return e, ('mon' if callee.monadic else 'pure')

    def default_of(self, t):
        t = t.strip()
        if t == 'f64': return '(Flt.lit 0x0000000000000000 0 1)'
        if t in PRIM_NAT: return '(0 : Nat)'
        raise Unsupported('default of ' + t)

    # ---- statements / blocks
    def assign(self, lhs, rhs, env, out):
        lhs = lhs.strip(); rhs = rhs.strip()
        # vec! idiom plumbing
        if re.search(r'\((Transmute|PtrToPtr)\)$', rhs) or 'SizedTypeProperties' in rhs:
            lm = re.match(r'^_(\d+)$', lhs)
            if lm: self.skipped.add(int(lm.group(1))); return
        for m in re.finditer(r'_(\d+)\b', rhs):
            if int(m.group(1)) in self.skipped:
                lm = re.match(r'^_(\d+)$', lhs)
                if lm: self.skipped.add(int(lm.group(1))); return
        if 'MaybeUninit' in lhs or 'MaybeDangling' in lhs or 'ManuallyDrop' in lhs:
            els = [self.operand(e, env)[0] for e in split_top(rhs[1:-1])]
            self.boxarr = '[' + ', '.join(els) + ']'
            return
        if rhs.startswith('discriminant('): return
        pl = self.parse_place(lhs)
        if pl[0] == 'local':
            i = pl[1]; t = self.ty(i)
            cm = re.match(r'^const (\d+)_usize$', rhs)
            if cm: env.setdefault('#const', {})[i] = int(cm.group(1))
            # references
            rm = re.match(r'^&mut (.*)$', rhs)
            if rm:
                src = self.parse_place(rm.group(1))
                self.refsrc[i] = src
                env[i] = self.place(src, env)[0]; return
            rm = re.match(r'^&(?:raw const )?(.*)$', rhs)
            if rm and not rhs.startswith('&mut'):
                env[i] = self.place(self.parse_place(rm.group(1)), env)[0]; return
            if re.match(r'^\(?\(?\(?_\d+\.0: std::ptr::Unique', rhs) or 'std::ptr::' in rhs:
                self.skipped.add(i); return
            e = self.rvalue(rhs, env, t)
            try: lt = self.lty(t)
            except Unsupported: lt = None
            name = self.fresh(i)
            out.append(Let(name, lt, e, user=(i in self.f.debug)))
            env[i] = name
            # remember checked-op tuples for constant folding of asserts
            return
        if pl[0] == 'field':
            # field update of a local struct (possibly through &mut)
            base = pl[1]
            while base[0] == 'deref': base = base[1]
            if base[0] != 'local': raise Unsupported('nested field assign ' + lhs)
            i = base[1]
            e_base, t = self.place(pl[1], env)
            t = self.strip_ref(t)
            name_t = re.sub(r'<.*$', '', t).split('::')[-1]
            e = self.rvalue(rhs, env, pl[3])
            if t.startswith('('):
                raise Unsupported('tuple field assign')
            fld = self.ctx.structs[name_t]['fields'][pl[2]][0]
            target = i
            if i in self.refsrc and self.refsrc[i][0] == 'local': target = self.refsrc[i][1]
            name = self.fresh(target)
            out.append(Let(name, None, f'{{ {e_base} with {fld} := {e} }}', user=True))
            env[target] = name
            if target != i: env[i] = name
            for r, src in self.refsrc.items():
                if src == ('local', target): env[r] = name
            return
        raise Unsupported('assign ' + lhs)

    def const_fold_assert(self, cond, blk):
        """assert conditions computed in this block from integer constants only"""
        c = cond.lstrip('!').strip()
        m = re.match(r'^(?:move|copy) _(\d+)$', c)
        if not m: return None
        known = {}
        def val(o):
            o = o.strip()
            cm = re.match(r'^const (-?\d+)_\w+$', o)
            if cm: return int(cm.group(1))
            vm = re.match(r'^(?:move|copy) _(\d+)$', o)
            if vm: return known.get(int(vm.group(1)))
            return None
        for s in blk['stmts']:
            sm = re.match(r'^_(\d+) = (.*)$', s)
            if not sm: continue
            i, rhs = int(sm.group(1)), sm.group(2)
            cm = re.match(r'^(.*) as \w+ \(IntToInt\)$', rhs)
            if cm and val(cm.group(1)) is not None and val(cm.group(1)) >= 0: known[i] = val(cm.group(1)); continue
            om = re.match(r'^(Eq|Ne|Lt|Le)\((.*), (.*)\)$', rhs)
            if om:
                a, b = val(om.group(2)), val(om.group(3))
                if a is not None and b is not None:
                    known[i] = {'Eq': a == b, 'Ne': a != b, 'Lt': a < b, 'Le': a <= b}[om.group(1)]
                continue
            if val(rhs) is not None: known[i] = val(rhs)
        v = known.get(int(m.group(1)))
        if isinstance(v, bool): return (not v) if cond.startswith('!') else v
        return None

    def walk(self, bb, env, depth, path, loopctx, enter=False):
        if depth > 400: raise Unsupported('cfg too deep')
        out = []
        if bb in self.loop_heads and not enter:
            if loopctx and loopctx['head'] == bb:
                args = ' '.join(env[i] for i in loopctx['vars'])
                out.append(Tail(f'{loopctx["name"]} α fuel {args}'.strip()))
                return out
            if bb in path: raise Unsupported('irreducible loop')
            return self.make_loop(bb, env, depth)
        blk = self.f.blocks[bb]
        self.cur_bb = bb
        env = dict(env)
        for k in ('#payload', '#const'):
            if k in env: env[k] = dict(env[k])
        for s in blk['stmts']:
            if s.startswith('StorageLive') or s.startswith('StorageDead') or s.startswith('nop') or s.startswith('FakeRead') or s.startswith('PlaceMention') or s.startswith('AscribeUserType') or s.startswith('Retag') or s.startswith('ConstEvalCounter'):
                continue
            i = find_top(s, ' = ')
            if i < 0: raise Unsupported('stmt ' + s)
            self.assign(s[:i], s[i + 3:], env, out)
        t = blk['term']
        path = path | {bb}
        if t == 'return':
            ret = env.get(0, '()') if self.f.ret != '()' else '()'
            muts = [p for p, ty in self.f.params if ty.startswith('&mut')]
            if muts:
                ret = env[muts[0]] if (self.f.ret == '()' or self.f.ret.startswith('&mut')) else f'({env[0]}, {env[muts[0]]})'
            out.append(Ret(ret)); return out
        if t == 'unreachable':
            out.append(Panic('unreachable')); return out
        m = re.match(r'^goto -> bb(\d+)$', t)
        if m: return out + self.walk(int(m.group(1)), env, depth + 1, path, loopctx)
        m = re.match(r'^switchInt\((.*)\) -> \[(.*)\]$', t)
        if m:
            arms = split_top(m.group(2))
            cases = [(a.split(':')[0].strip(), int(a.split(':')[1].strip()[2:])) for a in arms]
            # discriminant switch?
            opm = re.match(r'^(?:move|copy) _(\d+)$', m.group(1).strip())
            disc = None
            if opm:
                for s in blk['stmts']:
                    dm = re.match(r'^_(\d+) = discriminant\((.*)\)$', s)
                    if dm and dm.group(1) == opm.group(1): disc = dm.group(2)
            if disc is not None:
                return out + [self.switch_enum(disc, cases, env, depth, path, loopctx)]
            v, vt = self.operand(m.group(1), env)
            if vt.strip() == 'bool' and len(cases) == 2 and cases[0][0] == '0':
                out.append(If(v, self.walk(cases[1][1], env, depth + 1, path, loopctx), self.walk(cases[0][1], env, depth + 1, path, loopctx)))
                return out
            node = None; chain = None
            for val, tgt in cases:
                body = self.walk(tgt, env, depth + 1, path, loopctx)
                if val == 'otherwise':
                    if chain is None: return out + body
                    chain.el = body
                else:
                    n = If(f'({v} == {val})', body, [Panic('no arm')])
                    if node is None: node = n
                    else: chain.el = [n]
                    chain = n
            out.append(node); return out
        cm = parse_call_term(t)
        m = cm
        if cm:
            lhs, callee, args, nxt = cm[0], cm[1], split_top(cm[2]), cm[3]
            lpl = self.parse_place(lhs)
            if lpl[0] != 'local': raise Unsupported('call dest ' + lhs)
            i = lpl[1]
            if re.match(r'^Box::<.*>::new_uninit$', callee):
                self.skipped.add(i)
                return out + self.walk(nxt, env, depth + 1, path, loopctx)
            self.cur_bb = bb
            e, mode = self.call(callee, args, env)
            if mode in ('mutself_ret', 'iter_next'):
                am = re.match(r'^(?:move|copy) _(\d+)$', args[0].strip())
                r = int(am.group(1)) if am else None
                src = self.refsrc.get(r)
                if src is None or src[0] != 'local': raise Unsupported('&mut call pattern ' + t)
                tgt = src[1]
                fn_, rest, retexpr = e
                if mode == 'iter_next':
                    nm = self.fresh(i)
                    out.append(Let(nm, None, f'(List.head? {env[tgt]})', user=True)); env[i] = nm
                    name = self.fresh(tgt)
                    out.append(Let(name, None, f'(List.tail {env[tgt]})', user=True))
                else:
                    name = self.fresh(tgt)
                    out.append(Let(name, None, f'({fn_} {env[tgt]} {rest})', user=True))
                    nm = self.fresh(i)
                    try: lt = self.lty(self.ty(i))
                    except Unsupported: lt = None
                    out.append(Let(nm, lt, retexpr, user=False)); env[i] = nm
                env[tgt] = name
                for r2, s2 in self.refsrc.items():
                    if s2 == ('local', tgt): env[r2] = name
                if nxt is None: out.append(Panic('diverging call')); return out
                return out + self.walk(nxt, env, depth + 1, path, loopctx)
            if mode in ('mutself', 'mutcrate'):
                am = re.match(r'^(?:move|copy) _(\d+)$', args[0].strip())
                r = int(am.group(1)) if am else None
                src = self.refsrc.get(r)
                if src is None or src[0] != 'local':
                    # &mut param passed through (reborrow): treat local itself as the source
                    if r is not None and self.ty(r).startswith('&mut'): src = ('local', r)
                    else: raise Unsupported('&mut call pattern ' + t)
                tgt = src[1]
                if mode == 'mutself':
                    fn_, a1 = e
                    name = self.fresh(tgt)
                    out.append(Let(name, None, f'({fn_} {env[tgt]} {a1})', user=True))
                else:
                    cname, extra, argv = e
                    callee_f = self.ctx.fns[cname]
                    name = self.fresh(tgt)
                    ce = f'({cname} {" ".join(extra + argv)})'
                    if callee_f.ret != '()' and not callee_f.ret.startswith('&mut'):
                        tmp = self.fresh(i)
                        out.append(Let(f'({tmp}, {name})', None, ce, user=True, mon=callee_f.monadic, keep=True))
                        env[i] = tmp
                    else:
                        out.append(Let(name, None, ce, user=True, mon=callee_f.monadic))
                        env[i] = name
                env[tgt] = name
                for r2, s2 in self.refsrc.items():
                    if s2 == ('local', tgt): env[r2] = name
                if r is not None: env[r] = name
            else:
                try: lt = self.lty(self.ty(i))
                except Unsupported: lt = None
                name = self.fresh(i)
                out.append(Let(name, lt, e, user=(i in self.f.debug), mon=(mode == 'mon')))
                env[i] = name
            if nxt is None: out.append(Panic('diverging call')); return out
            return out + self.walk(nxt, env, depth + 1, path, loopctx)
        m = re.match(r'^assert\((.*?), "(.*?)".*\) -> \[success: bb(\d+), unwind.*\]$', t, re.S)
        if m:
            cond, msg, nxt = m.group(1), m.group(2), int(m.group(3))
            if 'index out of bounds' in msg:
                # constant index into fixed array: verify statically
                return out + self.walk(nxt, env, depth + 1, path, loopctx)
            if 'pointer dereference' in msg or 'misaligned' in msg:
                return out + self.walk(nxt, env, depth + 1, path, loopctx)
            folded = self.const_fold_assert(cond, blk)
            if folded is True: return out + self.walk(nxt, env, depth + 1, path, loopctx)
            neg = cond.startswith('!'); c = self.operand(cond.lstrip('!'), env)[0]
            self.genuine_asserts = getattr(self, 'genuine_asserts', 0) + 1
            out.append(If(c if neg else f'(!{c})', [Panic(msg)], self.walk(nxt, env, depth + 1, path, loopctx)))
            return out
        m = re.match(r'^drop\(.*\) -> \[return: bb(\d+), unwind.*\]$', t)
        if m: return out + self.walk(int(m.group(1)), env, depth + 1, path, loopctx)
        raise Unsupported('term ' + t)

    def switch_enum(self, disc_place, cases, env, depth, path, loopctx):
        pl = self.parse_place(disc_place)
        e, t = self.place(pl, env)
        t = self.strip_ref(t)
        i = find_top(t, '<')
        base = t[:i] if i >= 0 else t
        targs = split_top(t[i + 1:-1]) if i >= 0 else []
        bname = base.split('::')[-1]
        if bname == 'Option': variants = [('none', 'None', []), ('some', 'Some', [targs[0]])]
        elif bname == 'Result': variants = [('Except.ok', 'Ok', [targs[0]]), ('Except.error', 'Err', [targs[1]])]
        elif bname == 'ControlFlow': variants = [('ControlFlow.Continue', 'Continue', [targs[1] if len(targs) > 1 else '()']), ('ControlFlow.Break', 'Break', [targs[0]])]
        else:
            el = self.ctx.enum_lean(base)
            if not el: raise Unsupported('switch on ' + t)
            variants = [(f'{el}.{v}', v, ps) for v, ps in self.ctx.enums[el]]
        arms = []
        covered = set()
        key = self.place_key(pl)
        for val, tgt in cases:
            if val == 'otherwise':
                tb = self.f.blocks[tgt]
                if tb['term'] == 'unreachable' and not tb['stmts']: continue
                if len(covered) == len(variants): continue
                body = self.walk(tgt, env, depth + 1, path, loopctx)
                arms.append(('_', body)); continue
            k = int(val); covered.add(k)
            ln, rn, ps = variants[k]
            env2 = dict(env); env2['#payload'] = dict(env.get('#payload', {}))
            names = []
            for j, _ in enumerate(ps):
                self.pcount = getattr(self, 'pcount', 0) + 1
                nm = f'p{self.pcount}'; names.append(nm)
                env2['#payload'][(key, rn, j)] = nm
            pat = f'{ln} {" ".join(names)}'.strip() if ln[0].isupper() or '.' in ln else f'.{ln} {" ".join(names)}'.strip()
            arms.append((pat, self.walk(tgt, env2, depth + 1, path, loopctx)))
        return Match(e, arms)

    def make_loop(self, head, env, depth):
        reach = self.reachable(head)
        used = set()
        for b in reach:
            blk = self.f.blocks[b]
            for s in blk['stmts'] + [blk['term'] or '']:
                for m in re.finditer(r'_(\d+)\b', s): used.add(int(m.group(1)))
        vars_ = sorted(i for i in env if isinstance(i, int) and i in used and i not in self.skipped)
        # refs alias their sources: keep both (harmless)
        lname = f'{self.f.lean_name}.loop{head}'
        # the same loop reached along another path of the (tree-unfolded) CFG: reuse its definition
        if not hasattr(self, 'loop_defs'): self.loop_defs = {}
        if head in self.loop_defs:
            prev_vars = self.loop_defs[head]
            missing = [i for i in prev_vars if i not in env]
            if missing: raise Unsupported(f'loop bb{head} entered with different live variables')
            self.needs_fuel = True
            return [Tail(f'{lname} α fuel {" ".join(env[i] for i in prev_vars)}'.strip())]
        self.loop_defs[head] = vars_
        params = []
        env2 = {k: v for k, v in env.items() if not isinstance(k, int)}
        for i in vars_:
            nm = self.fresh(i)
            try: lt = self.lty(self.ty(i))
            except Unsupported: raise Unsupported('loop var type ' + self.ty(i))
            params.append(f'({nm} : {lt})'); env2[i] = nm
        ctx2 = {'head': head, 'vars': vars_, 'name': lname}
        body = self.walk(head, env2, depth + 1, frozenset(), ctx2, enter=True)
        simplify(body)
        rett = self.lty(self.f.ret)
        lines = [f'def {lname} (α : Type) [Flt α] {self.dict_binders()}: Nat → {" → ".join(p.split(" : ",1)[1][:-1] for p in params)} → Res {rett}'.replace('  ', ' ')]
        names = ' '.join(p[1:].split(' : ')[0] for p in params)
        lines.append(f'  | 0, {", ".join(["_"] * len(params))} => Res.diverge')
        lines.append(f'  | fuel + 1, {", ".join(p[1:].split(" : ")[0] for p in params)} =>')
        lines += render_block(body, 2, True)
        self.loops.append('\n'.join(lines))
        self.needs_fuel = True
        args = ' '.join(env[i] for i in vars_)
        return [Tail(f'{lname} α fuel {args}'.strip())]

    def dict_binders(self):
        return ''

    def run(self):
        self.needs_fuel = False
        env = {}
        for i, t in self.f.params:
            nm = self.fresh(i); env[i] = nm
        self.param_names = [env[i] for i, _ in self.f.params]
        for i, t in self.f.locals.items():
            if i not in env and self.strip_ref(t).startswith('{closure@'): env[i] = '()'
        body = self.walk(0, env, 0, frozenset(), None)
        simplify(body)
        return body

# ----------------------------------------------------------------------------- driver

def lean_fn_name(ctx, f):
    f.trait = None; f.selft = None; f.file = None
    if f.impl_loc:
        trait, selft, path = impl_header(ctx.root, f.impl_loc)
        f.trait, f.selft, f.file = trait, selft, path
        if selft is None: return None, path
        return ctx.call_name(selft, trait, f.fnname), path
    return f.fnname, None

def main():
    mir_path, root, out_path = sys.argv[1], sys.argv[2], sys.argv[3]
    report_path = sys.argv[sys.argv.index('--report') + 1] if '--report' in sys.argv else None
    JS = '--js' in sys.argv
    text = open(mir_path).read()
    ctx = Ctx(root)
    fns, const_bodies = [], []
    for it in split_items(text):
        if it.startswith('const '):
            c = parse_const(it)
            if not c: continue
            path, t, kind, payload = c
            if '{constant#' in path: continue
            if kind == 'scalar':
                ctx.consts[path] = (t, 'C.' + path.split('::')[-1]); const_bodies.append((path, t, kind, payload))
            else:
                if 'promoted[' in path:
                    im = re.search(r'<impl at ([^>]+)>', path)
                    owner = re.sub(r'::promoted\[(\d+)\]$', '', path)
                    const_bodies.append((path, t, 'promoted', payload))
                else:
                    const_bodies.append((path, t, 'body', payload))
        elif it.startswith('fn '):
            f = parse_fn(it)
            if f: fns.append(f)

    report = {'translated': [], 'skipped': [], 'unsupported': [], 'handwritten': []}
    # ---- name functions
    named = []
    JSFN = ('from_js_object', 'into_js_object')
    if JS:
        const_bodies = []
        keep = []
        for f in fns:
            base = re.sub(r'::\{closure#\d+\}$', '', f.path)
            if base.split('::')[-1] in JSFN: keep.append(f)
        fns = keep
    fns = [f for f in fns if 'into_short_hex' not in f.path]
    for f in fns:
        if f.is_closure and (JS or 'lymui/src/hex.rs' in f.path):
            km = re.search(r'::\{closure#(\d+)\}$', f.path)
            of = Fn(); of.path = re.sub(r'(::\{closure#\d+\})+$', '', f.path); of.fnname = of.path.split('::')[-1]
            im = re.search(r'<impl at ([^>]+)>', of.path); of.impl_loc = im.group(1) if im else None
            oname, opath = lean_fn_name(ctx, of)
            if oname is None: report['unsupported'].append((f.path, 'closure owner')); continue
            nest = re.findall(r'::\{closure#(\d+)\}', f.path)
            f.lean_name = oname + ''.join(f'.closure{k}' for k in nest); f.tparams = ()
            ct = re.sub(r"^&('\w+ )?(mut )?", '', f.params[0][1].strip()) if f.params else ''
            if f.params: f.params[0] = (f.params[0][0], ct); f.locals[f.params[0][0]] = ct
            ctx.closure_by_span.setdefault(ct, []).append(f.lean_name); f.mutself = False; f.monadic = False; f.needs_fuel = False; f.dicts = []
            f.alpha = 'implicit' if 'f64' in ' '.join(t for _, t in f.params) + f.ret or 'JsObject' in ' '.join(t for _, t in f.params) + f.ret else 'none'
            f.trait = None; f.selft = None; f.file = opath
            ctx.fns[f.lean_name] = f; named.append(f); continue
        if f.is_closure: report['skipped'].append((f.path, 'closure')); continue
        # tuple-struct / enum variant constructor shims
        if f.impl_loc is None and (f.fnname in ctx.structs or re.match(r'^(error::Error|Target)::', f.path) or any(f.fnname == v for vs in ctx.enums.values() for v, _ in vs) and '::' in f.path):
            report['skipped'].append((f.path, 'constructor shim')); continue
        name, path = lean_fn_name(ctx, f)
        if f.fnname in ('fmt', 'clone'): report['skipped'].append((f.path, 'derive ' + f.fnname)); continue
        if path in ctx.skip_files and not JS: report['handwritten'].append((f.path, name)); continue
        if name is None: report['unsupported'].append((f.path, 'impl header')); continue
        f.lean_name = name
        # generics
        gm = None
        f.tparams = ()
        srcsig = None
        if f.impl_loc is None or True:
            tps = sorted(set(t for _, t in f.params if re.match(r'^[A-Z]$', t.strip())) | ({f.ret.strip()} if re.match(r'^[A-Z]$', f.ret.strip()) else set()))
            for _, t in f.params:
                for tok in re.findall(r'\b[A-Z]\b', t): tps.append(tok)
            f.tparams = tuple(sorted(set(tps)))
        f.mutself = any(t.startswith('&mut') for _, t in f.params)
        f.monadic = False; f.needs_fuel = False; f.dicts = []
        try:
            sig = ' '.join([ctx.lean_ty(t, f.tparams) for _, t in f.params] + [ctx.lean_ty(f.ret, f.tparams)])
        except Unsupported:
            sig = 'α'
        f.alpha = 'implicit' if 'α' in sig else 'explicit'
        ctx.fns[name] = f; named.append(f)
    # hand-written externals (hex.rs)
    for hn, sig in {}.items():
        h = Fn(); h.lean_name = hn; h.tparams = (); h.mutself = False; h.monadic = sig['monadic']; h.needs_fuel = False; h.dicts = []; h.ret = sig['ret']; h.alpha = 'none'
        ctx.fns[hn] = h

    # ---- constants
    const_defs = []
    for path, t, kind, payload in const_bodies:
        short = path.split('::')[-1]
        if kind == 'scalar':
            fm = re.match(r'^(-?[\d.]+(?:[eE][+-]?\d+)?)f64$', payload)
            if fm: const_defs.append((f'C.{short}', f'def C.{short} {{α : Type}} [Flt α] : α := {f64_lit(fm.group(1))}'))
            else:
                im = re.match(r'^(-?\d+)_(\w+)$', payload)
                if im: const_defs.append((f'C.{short}', f'def C.{short} : Nat := {im.group(1)}'))
    # array consts (need unique names when the short name is ambiguous)
    shorts = {}
    for path, t, kind, payload in const_bodies:
        if kind == 'body': shorts.setdefault(path.split('::')[-1], []).append(path)
    order_fns = []
    for path, t, kind, payload in const_bodies:
        if kind not in ('body', 'promoted'): continue
        f = payload
        if kind == 'body':
            short = path.split('::')[-1]
            ln = 'C.' + (short if len(shorts[short]) == 1 else '_'.join(path.split('::')[-2:]))
        else:
            owner = re.sub(r'::promoted\[(\d+)\]$', '', path); idx = re.search(r'promoted\[(\d+)\]$', path).group(1)
            of = Fn(); of.path = owner; of.fnname = owner.split('::')[-1]
            im = re.search(r'<impl at ([^>]+)>', owner); of.impl_loc = im.group(1) if im else None
            oname, opath = lean_fn_name(ctx, of)
            if opath in ctx.skip_files: continue
            ln = f'C.{oname.replace(".", "_")}_promoted{idx}'
        f.lean_name = ln; f.tparams = (); f.mutself = False; f.monadic = False; f.needs_fuel = False; f.dicts = []
        ctx.consts[path] = (t, ln)
        # promoted consts are referenced as `const <full trait path>::promoted[0]`: also index by (owner fn name, idx)
        if kind == 'promoted': ctx.consts[f'{oname}::promoted[{idx}]'] = (t, ln)
        order_fns.append(f)

    # ---- translate (fixpoint on monadic/fuel flags)
    emitted = {}
    def translate(f, is_const=False):
        tr = Tr(f, ctx, f.tparams)
        if is_const: tr.f.debug = {}
        body = tr.run()
        mon = has_mon(body) or tr.needs_fuel
        return tr, body, mon
    for f in order_fns:
        try:
            tr, body, mon = translate(f, True)
            rt = ctx.lean_ty(f.ret)
            ab = '{α : Type} [Flt α] ' if 'α' in rt else ''
            txt = f'def {f.lean_name} {ab}: {rt} :=\n' + '\n'.join(render_block(body, 1, False))
            emitted[f.lean_name] = (txt, tr.calls)
        except Unsupported as e:
            report['unsupported'].append((f.path, 'const: ' + str(e)))
    # resolve `promoted` operand references: MIR prints `const <trait path>::fn::promoted[0]`
    changed = True; rounds = 0
    results = {}
    while changed and rounds < 12:
        changed = False; rounds += 1
        for f in named:
            try:
                tr, body, mon = translate(f)
            except Unsupported as e:
                results[f.lean_name] = ('bad', str(e)); continue
            except RecursionError:
                results[f.lean_name] = ('bad', 'recursion'); continue
            dicts = tr.dict_used
            if mon != f.monadic or tr.needs_fuel != f.needs_fuel or dicts != f.dicts:
                f.monadic = mon; f.needs_fuel = tr.needs_fuel; f.dicts = dicts; changed = True
            if f.alpha == 'explicit':
                txt_ = '\n'.join(render_block(body, 1, mon)) + '\n'.join(tr.loops)
                if 'α' not in txt_ and 'Flt.' not in txt_ and not getattr(tr, 'uses_alpha', False):
                    f.alpha = 'none'; changed = True
            results[f.lean_name] = ('ok', tr, body)
        # a function that cannot be translated disappears from the model, and so (next round) do its callers:
        # the generated file stays well-formed and only what depends on the missing functions is affected
        for f in named:
            if results[f.lean_name][0] == 'bad' and f.lean_name in ctx.fns:
                del ctx.fns[f.lean_name]; changed = True
    global RENDER_REF_CONDS
    refb_early = _ref_blocks(os.path.join(out_path, 'JsModel.lean' if JS else 'Model.lean'))
    for f in named:
        r = results[f.lean_name]
        if r[0] == 'bad':
            report['unsupported'].append((f.lean_name, r[1])); continue
        _, tr, body = r
        RENDER_REF_CONDS = _ref_conds(refb_early.get(f.lean_name))
        try:
            params = []
            for (i, t), nm in zip(f.params, tr.param_names):
                params.append(f'({nm} : {ctx.lean_ty(t, f.tparams)})')
            rett = ctx.lean_ty(f.ret, f.tparams) if f.ret != '()' else 'Unit'
            muts = [t for _, t in f.params if t.startswith('&mut')]
            if muts:
                mt = ctx.lean_ty(muts[0], f.tparams)
                rett = mt if (f.ret == '()' or f.ret.startswith('&mut')) else f'({rett} × {mt})'
            if f.monadic: rett = f'Res {rett}'
            tps = ' '.join(f'{{{tp} : Type}}' for tp in f.tparams)
            dicts = []
            for key, (tp, trt, meth) in f.dicts:
                dicts.append(f'({key} : {dict_type(ctx, tp, trt, meth, f.tparams)})')
            fuel = '(fuel : Nat) ' if f.needs_fuel else ''
            ab = {'implicit': '{α : Type} [Flt α]', 'explicit': '(α : Type) [Flt α]', 'none': ''}[f.alpha]
            hdr = f'def {f.lean_name} {ab} {tps} {" ".join(dicts)} {fuel}{" ".join(params)} : {rett} :='
            hdr = re.sub(r' +', ' ', hdr)
            txt = '\n\n'.join(tr.loops + [hdr + '\n' + '\n'.join(render_block(body, 1, f.monadic))])
            # loop functions are named after a MIR basic-block number, which moves when unrelated statements are added: with the
            # same number of loops as the reference, keep the reference's names (in order of definition)
            new_loops = []
            for ln_ in re.findall(r'^def (' + re.escape(f.lean_name) + r'\.loop\d+)\b', txt, flags=re.M):
                if ln_ not in new_loops: new_loops.append(ln_)
            ref_loops = [k_ for k_ in refb_early if re.match('^' + re.escape(f.lean_name) + r'\.loop\d+$', k_)]
            if new_loops and len(new_loops) == len(ref_loops) and new_loops != ref_loops:
                for i_, ln_ in enumerate(new_loops): txt = re.sub(re.escape(ln_) + r'(?!\d)', f'@@LOOP{i_}@@', txt)
                for i_, rn_ in enumerate(ref_loops): txt = txt.replace(f'@@LOOP{i_}@@', rn_)
            emitted[f.lean_name] = (txt, tr.calls)
            report['translated'].append({'name': f.lean_name, 'path': f.path, 'monadic': f.monadic, 'fuel': f.needs_fuel,
                                         'asserts': getattr(tr, 'genuine_asserts', 0), 'params': [t for _, t in f.params], 'ret': f.ret,
                                         'dicts': [k for k, _ in f.dicts], 'alpha': f.alpha, 'trait': f.trait, 'selft': f.selft, 'file': f.file, 'fnname': f.fnname, 'tparams': list(f.tparams)})
        except Unsupported as e:
            report['unsupported'].append((f.lean_name, str(e)))

    if JS:
        out = ['-- GENERATED by tools/mir2lean.py --js from rustc MIR (feature js: expansions of the derive macros); do not edit.',
               'import LymuiVerif.Core.Js', 'import LymuiVerif.Gen.Types', 'set_option linter.unusedVariables false', 'namespace Gen', 'open Flt', '']
        names = list(emitted)
        deps = {n: sorted(m for m in emitted[n][1] if m in emitted and m != n) for n in names}
        done, order = set(), []
        def visit(n, stack=()):
            if n in done or n in stack: return
            for d in deps[n]: visit(d, stack + (n,))
            done.add(n); order.append(n)
        for n in names: visit(n)
        refb = _ref_blocks(os.path.join(out_path, 'JsModel.lean'))
        for n in order: out.append(orient_like_reference(emitted[n][0], refb)); out.append('')
        out.append('end Gen')
        write_if_changed(os.path.join(out_path, 'JsModel.lean'), '\n'.join(out) + '\n')
        if report_path:
            report['structs'] = {k: v for k, v in ctx.structs.items()}
            json.dump(report, open(report_path, 'w'), indent=1, default=str)
        sys.stderr.write(f'mir2lean --js: translated {len(report["translated"])}, unsupported {len(report["unsupported"])}\n')
        for b in report['unsupported']: sys.stderr.write(f'  - {b[0]}: {str(b[1])[:160]}\n')
        return
    # ---- output
    types = ['-- GENERATED by tools/mir2lean.py from lymui sources (struct/enum items); do not edit.', 'import LymuiVerif.Core.Flt', 'namespace Gen', '']
    for name, info in ctx.structs.items():
        fl = ctx.is_float_struct(name)
        types.append(f'structure {name}{" (α : Type)" if fl else ""} where')
        for fn_, ft in info['fields']: types.append(f'  {fn_} : {ctx.lean_ty(ft)}')
        if not fl: types.append('deriving DecidableEq, Repr')
        types.append('')
    for ln, vs in ctx.enums.items():
        fl = ctx.is_float_enum(ln)
        types.append(f'inductive {ln}{" (α : Type)" if fl else ""} where')
        for v, ps in vs:
            sig = ' → '.join([ctx.lean_ty(p) for p in ps] + [f'{ln}{" α" if fl else ""}'])
            types.append(f'  | {v} : {sig}')
        if not fl: types.append('deriving DecidableEq, Repr')
        types.append('')
    types.append('end Gen')
    write_if_changed(os.path.join(out_path, 'Types.lean'), '\n'.join(types) + '\n')
    out = ['-- GENERATED by tools/mir2lean.py from rustc MIR; do not edit.', 'import LymuiVerif.Core.StrShims', 'set_option linter.unusedVariables false', 'namespace Gen', 'open Flt', '']
    for nm, d in const_defs: out.append(d)
    out.append('')
    renamed = rename_like_reference(emitted, _ref_blocks(os.path.join(out_path, 'Model.lean')), report)
    if renamed: sys.stderr.write('mir2lean: functions renamed w.r.t. the reference, emitted under the reference name: ' + ', '.join(f'{a} (was {b})' for a, b in sorted(renamed.items())) + '\n')
    names = list(emitted)
    deps = {n: sorted(m for m in emitted[n][1] if m in emitted and m != n) for n in names}
    done, order = set(), []
    def visit(n, stack=()):
        if n in done or n in stack: return
        for d in deps[n]: visit(d, stack + (n,))
        done.add(n); order.append(n)
    for n in names: visit(n)
    refb = _ref_blocks(os.path.join(out_path, 'Model.lean'))
    _load_ref_consts(os.path.join(out_path, 'Model.lean'))
    # only constants whose CURRENT definition is the reference's literal may stand for that literal (a changed constant must not)
    cur_consts = {nm: d.split(':=', 1)[1].strip() for nm, d in const_defs if ':=' in d}
    for nm in list(REF_SCALAR_CONSTS):
        if cur_consts.get(nm) != REF_SCALAR_CONSTS[nm]: del REF_SCALAR_CONSTS[nm]
    inlined = inline_new_helpers(emitted, refb)
    if inlined: sys.stderr.write('mir2lean: inlined helpers that are new w.r.t. the reference: ' + ', '.join(sorted(inlined)) + '\n')
    for n in order: out.append(orient_like_reference(emitted[n][0], refb)); out.append('')
    out.append('end Gen')
    write_if_changed(os.path.join(out_path, 'Model.lean'), '\n'.join(out) + '\n')
    if report_path:
        report['structs'] = {k: v for k, v in ctx.structs.items()}
        report['enums'] = {k: v for k, v in ctx.enums.items()}
        json.dump(report, open(report_path, 'w'), indent=1, default=str)
    sys.stderr.write(f'mir2lean: translated {len(report["translated"])}, unsupported {len(report["unsupported"])}, handwritten {len(report["handwritten"])}, skipped {len(report["skipped"])}\n')
    for b in report['unsupported']: sys.stderr.write(f'  - {b[0]}: {str(b[1])[:160]}\n')

# ----------------------------------------------------------------------------- orientation of commutative operations
# IEEE-754 `+` and `*` are commutative bit for bit (and so are they in every carrier of the model), so `a * b` and `b * a` in
# the source are the same function.  To keep proofs indifferent to such an edit, a regenerated definition that equals the
# reference definition (the committed Gen file) up to the operand order of `+`/`*` is emitted with the reference's operand order.

def _tok(text):
    return re.findall(r'\(|\)|[^\s()]+', text)

def _canon(text):
    """canonical form of a fully parenthesised Lean term/definition modulo operand order of binary + and *"""
    toks = _tok(text)
    pos = 0
    def parse():
        nonlocal pos
        items = []
        while pos < len(toks):
            t = toks[pos]; pos += 1
            if t == '(':
                items.append(parse())
            elif t == ')':
                break
            else:
                items.append(t)
        # x.powi(2) is compiler-rt's 1.0 * (x * x), and 1.0 * y = y exactly in IEEE-754: the same function as x * x, bit for bit
        if len(items) == 3 and items[1] == ':' and items[2] == 'α' and items[0] in REF_SCALAR_CONSTS: return REF_SCALAR_CONSTS[items[0]]
        # x / 2 and x * 0.5 are the same correctly rounded value for every binary64 x (scaling by a power of two)
        if len(items) == 3 and items[1] == '/' and items[2] == _LIT_TWO: return '(half ' + items[0] + ')'
        if len(items) == 3 and items[1] == '*' and _LIT_HALF in (items[0], items[2]): return '(half ' + (items[2] if items[0] == _LIT_HALF else items[0]) + ')'
        if len(items) == 3 and items[0] == 'Flt.powi' and items[2] == '(2 : Int)': return '(sq ' + items[1] + ')'
        if len(items) == 3 and items[1] == '*' and items[0] == items[2]: return '(sq ' + items[0] + ')'
        if len(items) == 3 and items[1] in ('+', '*'):
            a, b = sorted([items[0], items[2]])
            return '(' + a + ' ' + items[1] + ' ' + b + ')'
        return '(' + ' '.join(items) + ')'
    return parse()

def _ref_blocks(path):
    """definitions of the reference Gen file, by name"""
    import subprocess
    txt = None
    d = os.path.dirname(os.path.abspath(path))
    try:
        top = subprocess.run(['git', '-C', d, 'rev-parse', '--show-toplevel'], capture_output=True, text=True)
        if top.returncode == 0:
            rel = os.path.relpath(os.path.abspath(path), top.stdout.strip())
            r = subprocess.run(['git', '-C', d, 'show', 'HEAD:' + rel], capture_output=True, text=True)
            if r.returncode == 0: txt = r.stdout
    except Exception:
        txt = None
    if txt is None and os.path.exists(path): txt = open(path).read()
    blocks = {}
    for b in (txt or '').split('\n\n'):
        m = re.match(r'^\s*def (\S+)', b)
        if m: blocks[m.group(1)] = b.strip('\n')
    return blocks

_LIT_TWO = '(Flt.lit 0x4000000000000000 2 1)'
_LIT_HALF = '(Flt.lit 0x3FE0000000000000 1 2)'

REF_SCALAR_CONSTS = {}     # 'C.NAME' -> literal text '(Flt.lit 0x.. n d)' as defined in the reference file

def _load_ref_consts(path):
    """scalar f64 constants of the reference Gen file: a named constant and its literal are the same value"""
    REF_SCALAR_CONSTS.clear()
    import subprocess
    txt = None
    d = os.path.dirname(os.path.abspath(path))
    try:
        top = subprocess.run(['git', '-C', d, 'rev-parse', '--show-toplevel'], capture_output=True, text=True)
        if top.returncode == 0:
            rel = os.path.relpath(os.path.abspath(path), top.stdout.strip())
            r = subprocess.run(['git', '-C', d, 'show', 'HEAD:' + rel], capture_output=True, text=True)
            if r.returncode == 0: txt = r.stdout
    except Exception:
        txt = None
    if txt is None and os.path.exists(path): txt = open(path).read()
    for m in re.finditer(r'^def (C\.\w+) \{α : Type\} \[Flt α\] : α := (\(Flt\.lit 0x[0-9A-F]+ \d+ \d+\))\s*$', txt or '', flags=re.M):
        REF_SCALAR_CONSTS[m.group(1)] = m.group(2)

def _walk(s, i, refmap, collect):
    """s[i] == '(' ; returns (text, canon, index after the group).  With `collect` (a dict) the orientation of every
    commutative node is recorded (canon of node -> canon of its first operand); otherwise nodes are oriented like `refmap`."""
    items, pieces, j = [], [], i + 1
    while j < len(s) and s[j] != ')':
        if s[j] == '(':
            t, c, j = _walk(s, j, refmap, collect); items.append((t, c)); pieces.append(t)
        elif s[j] in ' \n':
            pieces.append(s[j]); j += 1
        else:
            k = j
            while k < len(s) and s[k] not in ' \n()': k += 1
            items.append((s[j:k], s[j:k])); pieces.append(s[j:k]); j = k
    # a scalar constant and the literal it is defined as are the same value: canonical form is the literal; written the way
    # the reference writes it at that value
    if len(items) == 3 and items[1][0] == ':' and items[2][0] == 'α' and items[0][0] in REF_SCALAR_CONSTS:
        lit = REF_SCALAR_CONSTS[items[0][0]]
        if collect is not None:
            collect.setdefault('form:' + lit, items[0][0]); return '(' + ''.join(pieces) + ')', lit, j + 1
        want = refmap.get('form:' + lit)
        if want == 'lit': return lit, lit, j + 1
        return '(' + ''.join(pieces) + ')', lit, j + 1
    if len(items) == 4 and items[0][0] == 'Flt.lit':
        lit = '(' + ' '.join(t for t, _ in items) + ')'
        if collect is not None:
            collect.setdefault('form:' + lit, 'lit'); return '(' + ''.join(pieces) + ')', lit, j + 1
        want = refmap.get('form:' + lit)
        if want and want != 'lit' and REF_SCALAR_CONSTS.get(want) == lit: return '(' + want + ' : α)', lit, j + 1
        return '(' + ''.join(pieces) + ')', lit, j + 1
    hform = None
    if len(items) == 3 and items[1][0] == '/' and items[2][1] == _LIT_TWO: hform, ht, hc = 'div', items[0][0], items[0][1]
    elif len(items) == 3 and items[1][0] == '*' and items[2][1] == _LIT_HALF: hform, ht, hc = 'mul', items[0][0], items[0][1]
    elif len(items) == 3 and items[1][0] == '*' and items[0][1] == _LIT_HALF: hform, ht, hc = 'mul', items[2][0], items[2][1]
    if hform:
        node = '(half ' + hc + ')'
        if collect is not None:
            collect.setdefault(node, hform); return '(' + ''.join(pieces) + ')', node, j + 1
        want = refmap.get(node)
        if want == 'div' and hform == 'mul': return '(' + ht + ' / ' + _LIT_TWO + ')', node, j + 1
        if want == 'mul' and hform == 'div': return '(' + ht + ' * ' + _LIT_HALF + ')', node, j + 1
        return '(' + ''.join(pieces) + ')', node, j + 1
    sqform = None
    if len(items) == 3 and items[0][0] == 'Flt.powi' and items[2][1] == '(2 : Int)': sqform, sqt, sqc = 'powi', items[1][0], items[1][1]
    elif len(items) == 3 and items[1][0] == '*' and items[0][1] == items[2][1]: sqform, sqt, sqc = 'mul', items[0][0], items[0][1]
    if sqform:
        node = '(sq ' + sqc + ')'
        if collect is not None:
            collect.setdefault(node, sqform)
            return '(' + ''.join(pieces) + ')', node, j + 1
        want = refmap.get(node)
        if want == 'mul' and sqform == 'powi': return '(' + sqt + ' * ' + sqt + ')', node, j + 1
        if want == 'powi' and sqform == 'mul': return '(Flt.powi ' + sqt + ' (2 : Int))', node, j + 1
        return '(' + ''.join(pieces) + ')', node, j + 1
    if len(items) == 3 and items[1][0] in ('+', '*'):
        (ta, ca), (op, _), (tb, cb) = items
        x, y = sorted([ca, cb])
        node = '(' + x + ' ' + op + ' ' + y + ')'
        if collect is not None:
            collect.setdefault(node, ca)
            return '(' + ''.join(pieces) + ')', node, j + 1
        if refmap.get(node) == cb and ca != cb:
            return '(' + tb + ' ' + op + ' ' + ta + ')', node, j + 1
        return '(' + ''.join(pieces) + ')', node, j + 1
    return '(' + ''.join(pieces) + ')', '(' + ' '.join(c for _, c in items) + ')', j + 1

def _walk_top(s, refmap, collect):
    out, i = [], 0
    while i < len(s):
        if s[i] == '(':
            t, _, i = _walk(s, i, refmap, collect); out.append(t)
        else:
            out.append(s[i]); i += 1
    return ''.join(out)

def orient_like_reference(txt, ref):
    out = []
    for b in txt.split('\n\n'):
        m = re.match(r'^\s*def (\S+)', b)
        r = ref.get(m.group(1)) if m else None
        if r is not None and r != b.strip('\n') and _canon(r) == _canon(b): out.append(r)
        elif r is not None and r != b.strip('\n'):
            # not equal as a whole (something else changed too): orient every commutative sub-term that also occurs in the
            # reference definition the way the reference writes it
            refmap = {}
            _walk_top(r, {}, refmap)
            out.append(_walk_top(b, refmap, None))
        else: out.append(b)
    return '\n\n'.join(out)

# ----------------------------------------------------------------------------- renamed functions
# Renaming a function (definition and every call) changes no value, but the proofs mention the committed name.  A function that
# the reference Gen file does not have, whose definition is -- after substituting the name -- the reference definition of a
# function that no longer exists (up to the operand order of `+`/`*`), is that function: it is emitted under the reference name
# everywhere (an alpha-renaming of a top-level constant; the Rust side of the correspondence run keeps calling the real name).

def rename_like_reference(emitted, ref, report):
    new = [n for n in emitted if n not in ref and '\n\n' not in emitted[n][0].strip('\n')]
    gone = [m for m in ref if m not in emitted and not re.search(r'\.loop\d+$', m)]
    done = {}
    for n in new:
        pat = r'(?<![\w.])' + re.escape(n) + r'(?![\w.])'
        for m in gone:
            if m in done.values(): continue
            if re.search(r'(?<![\w.])' + re.escape(m) + r'(?![\w.])', ''.join(t for t, _ in emitted.values())): continue
            cand = re.sub(pat, m, emitted[n][0]).strip('\n')
            if cand == ref[m] or _canon(cand) == _canon(ref[m]):
                done[n] = m; break
    for n, m in done.items():
        pat = r'(?<![\w.])' + re.escape(n) + r'(?![\w.])'
        for k in list(emitted):
            t, calls = emitted[k]
            if isinstance(calls, (list, tuple)): calls2 = type(calls)(m if c == n else c for c in calls)
            else: calls2 = {m if c == n else c for c in calls}
            emitted[k] = (re.sub(pat, m, t), calls2)
        items = [(m if k == n else k, v) for k, v in emitted.items()]
        emitted.clear(); emitted.update(items)
        for e in report.get('translated', []):
            if e.get('name') == n: e['name'] = m
    return {m: n for n, m in done.items()}

# ----------------------------------------------------------------------------- inlining of helpers that the reference does not have
# A refactor that moves an expression into a new private helper leaves every value unchanged, but the proofs unfold the callers
# by name and would stop at the unknown helper.  A function that does not exist in the reference Gen file, and that is a plain
# (non-monadic, non-recursive, loop-free, dictionary-free) definition, is therefore inlined at its call sites as
# `(let p := arg; body)` with parameters renamed apart; its own definition stays in the file (the correspondence run calls it).

def _split_args(text, start):
    """text[start] is just after '(NAME '; returns (list of argument strings, index after the closing paren) or None"""
    args, i, n = [], start, len(text)
    while i < n:
        while i < n and text[i] in ' \n': i += 1
        if i >= n: return None
        if text[i] == ')': return args, i + 1
        if text[i] == '(':
            depth, j = 0, i
            while j < n:
                if text[j] == '(': depth += 1
                elif text[j] == ')':
                    depth -= 1
                    if depth == 0: break
                j += 1
            if j >= n: return None
            args.append(text[i:j + 1]); i = j + 1
        else:
            j = i
            while j < n and text[j] not in ' \n()': j += 1
            args.append(text[i:j]); i = j
    return None

_inl_counter = [0]

def inline_new_helpers(emitted, ref):
    """emitted: name -> (text, calls).  Returns the set of helper names that were inlined somewhere."""
    done = set()
    for name, (txt, calls) in list(emitted.items()):
        if name in ref or '\n\n' in txt.strip('\n'): continue          # known to the reference, or has loop definitions
        m = re.match(r'^def (\S+) (\{α : Type\} \[Flt α\] |\(α : Type\) \[Flt α\] )?((?:\([^()]*? : [^()]*(?:\([^()]*\)[^()]*)*\) ?)*): (.+?) :=\n(.*)$', txt.strip('\n'), flags=re.S)
        if not m or m.group(1) != name: continue
        rett, body = m.group(4).strip(), m.group(5)
        if rett.startswith('Res ') or 'fuel' in m.group(3) or name in calls: continue
        params = re.findall(r'\((\w+) : ((?:[^()]|\([^()]*\))*)\)', m.group(3))
        if not params: continue
        explicit_alpha = bool(m.group(2)) and m.group(2).startswith('(α')
        lines = [l.strip() for l in body.split('\n') if l.strip()]
        if any(l.startswith('match ') or l.startswith('|') or '←' in l for l in lines): continue
        flat = ' '.join((l + ';') if l.startswith('let ') else l for l in lines)
        used = False
        for caller, (ctxt, ccalls) in list(emitted.items()):
            if caller == name or ('(' + name + ' ') not in ctxt: continue
            out, i = [], 0
            while True:
                k = ctxt.find('(' + name + ' ', i)
                if k < 0: out.append(ctxt[i:]); break
                r = _split_args(ctxt, k + len(name) + 2)
                if r is not None and explicit_alpha and r[0] and r[0][0] == 'α': r = (r[0][1:], r[1])
                if r is None or len(r[0]) != len(params): out.append(ctxt[i:k + 1]); i = k + 1; continue
                args, end = r
                _inl_counter[0] += 1
                b, binds = flat, []
                for (pn, pt), a in zip(params, args):
                    fresh = f'inl{_inl_counter[0]}_{pn}'
                    b = re.sub(r'(?<![\w.])' + re.escape(pn) + r'(?![\w])', fresh, b)
                    binds.append(f'let {fresh} : {pt} := {a};')
                out.append(ctxt[i:k] + '(' + ' '.join(binds) + ' ' + b + ')')
                i = end; used = True
            emitted[caller] = (''.join(out), ccalls)
        if used: done.add(name)
    return done

def write_if_changed(path, new):
    old = open(path).read() if os.path.exists(path) else None
    if old != new:
        os.makedirs(os.path.dirname(path), exist_ok=True)
        open(path, 'w').write(new)

def dict_type(ctx, tp, trt, meth, tparams):
    i = find_top(trt, '<')
    trn = trt[:i] if i >= 0 else trt
    targ = trt[i + 1:-1] if i >= 0 else None
    if trn == 'Into': return f'{tp} → {ctx.lean_ty(targ, tparams)}'
    if trn == 'From': return f'{ctx.lean_ty(targ, tparams)} → {tp}'
    if trn == 'AsFloat': return f'{tp} → (α × α × α)'
    if trn == 'FromVec': return f'(List {ctx.lean_ty(targ, tparams)}) → {tp}'
    raise Unsupported('dictionary ' + trt)

# hand-written model entry points (Core/Hex.lean) callable from generated code
HAND = {
    'Rgb.try_from_Hex': {'monadic': False, 'ret': 'Result<Rgb, error::Error>'},
    'Hex.from_Rgb': {'monadic': False, 'ret': 'Hex'},
}

if __name__ == '__main__':
    sys.setrecursionlimit(10000)
    main()
