#!/usr/bin/env python3
"""write lean/LymuiVerif.lean importing every project module (so `lake build` builds all theorems)"""
import glob, os
root = os.path.join(os.path.dirname(os.path.abspath(__file__)), '..', 'lean')
mods = []
for f in sorted(glob.glob(os.path.join(root, 'LymuiVerif', '**', '*.lean'), recursive=True)):
    rel = os.path.relpath(f, root)[:-5].replace('/', '.')
    mods.append(rel)
txt = ''.join(f'import {m}\n' for m in mods)
p = os.path.join(root, 'LymuiVerif.lean')
if not os.path.exists(p) or open(p).read() != txt: open(p, 'w').write(txt)
